#!/usr/bin/env python3
"""regenerates the table of DESIGN.md section 14.4 from seeded/*/meta.json and the sample replays"""
import glob
import json
import os
import re

VERIF = os.path.dirname(os.path.dirname(os.path.abspath(__file__)))


def main():
    rows = []
    for d in sorted(glob.glob(os.path.join(VERIF, 'seeded', '*'))):
        sid = os.path.basename(d)
        meta = json.load(open(os.path.join(d, 'meta.json')))
        det = dict(meta.get('detection_during_development', {}))
        det.update(meta.get('detection', {}))
        caught = [p for p, r in sorted(det.items()) if r.get('rc') == 1 and r.get('violations', 0) > 0]
        missed = [p for p, r in sorted(det.items()) if r.get('rc') == 0]
        how = ''
        for p in caught:
            f = os.path.join(d, 'replay_%s.json' % p)
            if os.path.exists(f):
                r = json.load(open(f))
                w = re.sub(r'\s+', ' ', r.get('what', ''))[:110]
                how = ('corr.: ' if r.get('no_failing_input_found') else '') + w
                if p == sid.split('-')[0]:
                    break
        need = re.sub(r'\s+', ' ', meta.get('needs_to_manifest', ''))[:150]
        rows.append('| %s | %s | %s | %s | %s |' % (sid, need.replace('|', '/'), ', '.join(caught) or '—',
                                                  ', '.join(m for m in missed if m not in caught) or '', how.replace('|', '/')))
    table = ['| seed | change / what it needs | caught by (quick) | ran, not caught | first report |',
             '|------|------------------------|-------------------|-----------------|--------------|'] + rows
    p = os.path.join(VERIF, 'DESIGN.md')
    s = open(p).read()
    a, b = s.index('<!-- SEEDMATRIX BEGIN -->'), s.index('<!-- SEEDMATRIX END -->')
    s = s[:a] + '<!-- SEEDMATRIX BEGIN -->\n' + '\n'.join(table) + '\n' + s[b:]
    open(p, 'w').write(s)
    print('%d seeds, %d caught by at least one check' % (len(rows), sum(1 for r in rows if '| — |' not in r)))


if __name__ == '__main__':
    main()
