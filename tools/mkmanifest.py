#!/usr/bin/env python3
"""Writes /verif/MANIFEST.json from the table below (kept here so that the per-property texts live in one place)."""
import json
import os

ROOT = os.path.dirname(os.path.dirname(os.path.abspath(__file__)))

COMMON_NOTE = ('Trusted: Coq 8.16.1 kernel (coqc; coqchk in the thorough tier), no axioms (every registered theorem is closed under the global '
               'context); the hand-written Gallina model (coq/theories), tied to /repo only by the executed correspondence (bit-exact on '
               'every compared observable); extraction ExtrOcamlBasic + ExtrOcamlZBigInt (zarith) with a pure-inductive twin driver; the '
               'OCaml/Rust/Python glue; robust::orient2d modelled as the exact sign; f64/f32 = IEEE binary64/32 RNE; membership = crossing '
               'number with the half-open rule. ')

P = {
 'C01': ('proof', 'Partial proof + per-run exact certification + correspondence. Proved for all inputs: soundness of the exact region checker '
         '(cert01_sound: if it accepts, the result equals the named combination at EVERY point off the edges), the selection tables and flag '
         'propagation of compute_fields (tables_correct, propagation_correct; both refuted for the pinned code), C01_partial (a run whose '
         'decidable certificate holds returned the named region). NOT proved: that the certificate holds for every valid input (the global '
         'Martinez-Rueda invariant); instead the certificate is evaluated on every explored input on the implementation\'s own result. '
         'Rounded results are judged within 1e-9 x magnitude by an unverified exact-rational oracle. FULL statement proved on one sub-domain: '
         'when the bounding-box shortcut is taken (exact instance, closed rings, operands whose polygon reading is their even-odd '
         'reading) the result is the named region at every point of the plane (C01_shortcut_returns_named_region, via the parity lemma '
         'for closed rings).', '§7 C01',
         'Coq: verified exact slab/scene checker + local-rule theorems; bit-exact model/implementation correspondence; per-run certification'),
 'C02': ('proof', 'As C01: cert02_reading_sound and check_scene_sound are proved (polygon reading = even-odd reading, holes inside their '
         'exterior, holes and polygons pairwise disjoint, decided for every point), twin_not_selected, F1 refutation/repair witnesses by '
         'vm_compute; evaluated per run on the implementation\'s results. Proved for every instance and every input, whatever the geometry '
         '(GroupingProofs): the bookkeeping that groups contours into polygons is a partition - a contour\'s parent is an earlier contour '
         'without a parent (holes never nested in holes), the parent lists it, every listed id names a contour whose parent is the lister, '
         'no id is listed twice, so every contour is the exterior of its own polygon or an interior ring of exactly one polygon '
         '(C02_grouping_is_a_partition, C02_every_result_is_such_a_grouping). The "no boundary piece used twice" clause, combinatorial half, '
         'every instance: the contours use every selected sub-segment EXACTLY ONCE - each round of the walk marks two fresh positions, '
         'consecutive contour points are the ends of exactly that pair, all positions are marked at the end '
         '(C02_contours_use_every_subsegment_once; hypotheses discharged for complete sweeps of finite operands at the exact instance: '
         'C02_exact_contours_once); that two different result edges do not overlap is the twin rule plus, per run on the implementation\'s '
         'result, the Coq-verified certificate C02_no_shared_boundary_certificate_sound (doubled by rational Python).', '§7 C02', 'Coq: verified scene checker for the nesting laws; correspondence; per-run certification'),
 'C03': ('proof', 'Partial proof + correspondence of outcomes in both build profiles and both float types + large inputs. Proved: the bubble sort '
         'of order_events returns a sorted permutation whenever the event order is asymmetric on the events sorted (and provably diverges on '
         'an order with a pair that is less both ways), the std BinaryHeap algorithms never lose or duplicate an element whatever the '
         'comparison answers and are a priority queue under a preorder, a certified run returned within its event budget; and — an '
         'invariant of the whole sweep loop, for every numeric instance and every input — every event keeps a mutual partner, so the unwrap '
         'in possible_intersection.rs cannot fail and the sweep stage has no panic site in release builds apart from the hook\'s budget '
         '(C03_sweep_release_panic_free). The contour stage (ConnectProofs, every instance): the successor table of '
         'precompute_iteration_order is in range and a union of cycles, order_events leaves a valid position in every selected event, so '
         'result_events[pos] / iteration_map[pos] is never out of range (C03_contour_stage_index_safe), the search of get_next_pos and the '
         'contour walk terminate (C03_contour_stage_terminates) - for every event vector whose result events are closed under the partner '
         'link (derived from the C13 link structure by C03_closed_from_links; that left/right flags of partners differ is checked per run, '
         'not proved: the rounding swap of divide_segment can break it in floating point); contours[*hole_id] is never out of range for '
         'any input (C03_hole_index_safe). At the exact instance, for every input with finite coordinates: the sweep loop TERMINATES within '
         'an explicit event budget (C03_sweep_terminates, C03_sweep_returns: every division point is an edge end point or the common '
         'point of two non-parallel edges; #ids + 2 #(sub-segment, candidate strictly inside) never increases; every event is popped at '
         'most once), and the budget is QUADRATIC: with candidates taken up to == at most 3n of them lie strictly inside a sub-segment of '
         'one edge and queue filling allocates at most 2n events, so 2n(1+6n) = 12n^2 + 2n events suffice for n input edges '
         '(C03_event_bound_quadratic; the hook enforces the tighter 4n^2 + 2n + 16 on every run, never exceeded), and for sweeps that run to completion the closure hypothesis is a theorem (C03_exact_complete_run_index_safe). '
         'The two assertions of divide_segment cannot fire when a left event is divided at a point that comes lexicographically after it, in every build profile (C03_divide_segment_assertions_cannot_fire). '
         'NOT proved: the event bound in floating point, and that '
         'contours[lower_contour_id] is in range (geometric; N1/N6 reach it); observed per run (budget hook, catch_unwind, child processes '
         'incl. staggered early-break scenarios).', '§7 C03', 'Coq: termination/container theorems; outcome correspondence release+debug, f64+f32; event-budget hook'),
 'C04': ('proof', 'Partial proof + per-run exact provenance check. Proved: the clamp (returned points lie in both segments\' boxes) for every '
         'instance satisfying the order laws (the laws are proved for the binary64/binary32 models), exactness of every returned point at '
         'the exact instance (intersection_exact_all), ring-closing glue; and NO INVENTED VERTICES for every instance, input and '
         'configuration: every coordinate pair of every result ring is an input vertex or a point returned by intersection on segments '
         'between such points (possibly after the one-ulp bump), as an invariant of fill_queue, the sweep loop and the contour assembly '
         '(C04_output_points_allowed). THE FIRST CLAUSE at the exact instance, for every input with finite coordinates and every operation '
         'whose sweep runs to completion (Union, Xor, early exit disabled): every ring of the result is the close() of a contour all of '
         'whose consecutive point pairs lie on ONE input edge (C04_result_edges_lie_on_input_edges; through the on-edge invariant of the '
         'whole sweep incl. the overlap arm, exact partner positions after order_events, and the successor table staying at one vertex; '
         'the contour part holds for every instance: C04_contour_edges_are_subsegments). NOT proved: the edge appended by close(), runs '
         'cut short by the early exit, non-zero area, orientation. Per run, on the IMPLEMENTATION\'s own result: when the float run denotes the exact-arithmetic run of the '
         'model, the Coq-VERIFIED certificate cert04 (C04_certificate_sound: rings closed, >= 3 distinct vertices, no repeated vertex, non-zero area, '
         'positive orientation when assembled, every edge on ONE input edge, every vertex an end point of an input edge or a common point of two '
         'input edges reported by the exact kernel), doubled by rational Python; within 1e-9 x magnitude otherwise (rational Python only).',
         '§7 C04', 'Coq: intersection kernel theorems; exact-class link by running the model at Q; per-run provenance check'),
 'C05': ('proof', 'The partition law between the five results of one operand pair is decided for every point by the verified scene checker '
         '(check_scene_sound); area identities are exact rational on the exact class. Proved for all inputs: the pointwise Boolean '
         'identities (ops_pointwise) and the partition laws at the level of the selection tables of compute_fields.rs for every flag '
         'assignment, edge type and operand role (tables_partition, tables_pieces_exclusive; refuted for the pinned tables). The link '
         'area = measure of the region is not formalised. Calls are made through all four trait pairings.', '§7 C05',
         'Coq: verified scene checker on the 5 results; exact rational areas'),
 'C06': ('proof', 'Proved for every fuel and (empty operand) every instance satisfying the order laws / (all eight laws) at the exact instance: '
         'an empty operand and disjoint boxes give the trivial combination as a list of polygons (TrivialProofs), which is the named region at '
         'every point (BoxShortcut); the selection tables are symmetric in the operand roles for intersection, union and xor '
         '(tables_symmetric). Commutativity, A op A and touching boxes go through the sweep: ring sets compared on the exact class, regions by '
         'the verified checker otherwise; disjoint boxes are exercised on all four sides with rewritten rings.', '§7 C06',
         'Coq: trivial-path theorems; verified scene checker; correspondence'),
 'C07': ('proof', 'Proved: the four trait impls forward (subject, clipping) in the right order (by computation). Per run: rewritten operands '
         '(rotation, reversal, repeated vertices, closing point, part/hole permutation, Polygon vs MultiPolygon) give the same region (verified '
         'checker) and, on the exact class, the same canonical boundary (edges by supporting line; not rings: how a boundary is cut into rings is not part of the property); the four impls return identical values. Proved (BoundaryRegion): the even-odd region of a set of rings depends only on the multiset of its edges, so another start vertex, ring order, ring direction or an explicit closing point of an operand denotes the same region.', '§7 C07',
         'Coq: wrapper theorems + verified scene checker; representation group sampled'),
 'C08': ('proof', 'Translation and scaling clauses PROVED for all inputs over exact arithmetic: the abstraction theorem of the whole model '
         '(Paramcoq, binary parametricity, axiom-free) instantiated with the relations "differs by x -> k*x+tx, y -> k*y+ty" shows that the '
         'run on transformed operands ends the same way (same panic site / budget) or returns a result of identical structure with '
         'transformed coordinates (C08_similarity_covariant, every configuration, budget, operation, pairing; k > 0 rational). The '
         'binary64 statement follows per input on the exact class; bit-identical results under scaling by 2^k are compared per run. Mirror, '
         'transpose and quarter turn change the sweep itself: transformed regions are decided per run by the verified checker.', '§7 C08',
         'Coq: parametricity (abstraction theorem of the whole model) for translation/scaling; verified scene checker for the axis symmetries; bit-exact comparison for 2^k scalings'),
 'C09': ('proof', 'Proved: the boxes the shortcut looks at are exactly min/max over edge start points (every instance), and when they are '
         'disjoint the call returns the trivial combination, which is the named region at every point of the plane (exact instance, '
         'C09_shortcut_returns_named_region: regions of rings inside disjoint boxes are disjoint). Per run: adding a far part changes the '
         'result only by that part (regions by the verified checker; on the exact class also the canonical boundaries - edges grouped by supporting line, not rings: a hole touching its exterior in a vertex is a ring of its own in the shortcut result and threaded into the exterior ring by the sweep, the same region by C09_threaded_hole_same_region; an edge cut at a touching vertex keeps every crossing count, C09_cut_edge_same_crossings, C09_extra_vertex_on_an_edge_same_region); operands straddling '
         'each other\'s boxes exercise the shortcut and early-exit conditions.', '§7 C09', 'Coq: bounding-box and shortcut theorems; verified scene checker'),
 'C10': ('proof', 'The f32 instantiation has its own bit-exact model instance (NB32) and goes through the same correspondence; per run the f32 '
         'result is the named region (verified checker, tolerance 1e-4 x magnitude when rounded) and equals the f64 result coordinate for '
         'coordinate when both runs denote the exact-arithmetic run (C10_exact_agree: two instantiations that are both in the exact class '
         'agree). The orientation predicate and the two public orders are compared between f32, f64 and both bit-exact models on '
         'segment pairs representable in both (nearly collinear points whose plain determinant has the wrong sign, mixed magnitudes, signed '
         'zeros).', '§7 C10', 'second model instance + correspondence; exact-class link theorem; verified scene checker'),
 'C11': ('proof', 'Per run: results fed back as operands (left or right, with an independent operand or A/B again) give the pointwise '
         'combination, decided for every point by the verified checker. The composition step is proved (C11_chain_law: C01 of the first '
         'call, C02\'s reading clause of its result and C01 of the second call give op\'(op(a,b),c) at every clear point); a result ring that passes through a vertex twice reads, by the even-odd rule of the next call, as the rings it is threaded from (C11_pinched_result_ring_reads_as_its_parts).',
         '§7 C11', 'Coq: composition theorem + verified scene checker on chained runs'),
 'C12': ('other', 'Audit + correspondence under histories and schedules: a syntactic purity audit of lib/src and 16 threads x rounds x cases in '
         'shuffled orders compared with the single-threaded value, a fresh process and the model\'s value; operands compared after every '
         'call; calls with ONE object passed as both operands compared with calls on two equal values. The model is a function by '
         'construction (definitional).', '§7 C12', 'purity audit + multi-threaded differential runs'),
 'C13': ('proof', 'Proved for every instance and every input: exact bounding boxes of fill_queue, and the first clause in full — every event '
         'in the queue after fill_queue and every event returned by subdivide is one end of a mutually linked pair (partner\'s partner is '
         'the event, distinct, same operand and contour), as an invariant of the whole sweep loop through divide_segment, '
         'possible_intersection, compute_fields, the std heap and the splay tree with no assumption on the comparators '
         '(C13_subdivided_events_linked); fill_queue creates exactly two events per non-degenerate edge; one division step re-links exactly '
         'the divided pair (every instance, C13_division_relinks_one_pair) and, at the exact instance, the two pieces cover exactly the '
         'divided segment and meet only in the division point (C13_division_covers_exactly); at the exact instance for EVERY input with '
         'finite coordinates every returned pair is left-first, of non-zero length and lies on ONE input edge of its own operand '
         '(C13_subsegments_lie_on_their_edges, an invariant of the whole sweep incl. the overlap arm) and every point of every non-degenerate '
         'input edge lies on such a pair (C13_subsegments_cover_their_edges); for every instance no event is '
         'returned twice and a complete sweep returns every event (C13_no_event_returned_twice, C13_complete_sweep_returns_every_event). '
         'Planarity is proved for pairs of ONE operand only (C13_same_operand_subsegments_do_not_overlap: they share at most one point); that '
         'sub-segments of different operands cross nowhere or coincide needs the completeness of the intersection search and is NOT proved '
         'for every input; it is proved locally (every pair the step is given is resolved: C16_crossing_is_resolved, C16_overlap_is_resolved) and '
         'decided per run by a Coq-VERIFIED certificate (C13_planar_certificate_sound: planar_check accepts only lists of segments that pairwise meet '
         'in end points of both or coincide completely with different operands), extracted and evaluated on the model run of every exact-family case, '
         'which the correspondence compares with the implementation output event for event. Per run on the complete event vectors: left-first, non-zero length (all families); no improper '
         'contact between any two sub-segments (certificate + rational Python) and exact coverage of every input edge (exact families: the '
         'verified certificate C13_cover_certificate_sound for complete sweeps + rational Python). Bit-exact '
         'correspondence of the full event vector with the model, all four operations, also at scales 2^-60 .. 2^40.', '§7 C13',
         'Coq: sweep invariants (links, on-edge, coverage, termination); verified planarity certificate per run; correspondence on event vectors'),
 'C14': ('proof', 'Proved for every instance: the selection tables (tables_correct), flag propagation incl. vertical predecessors '
         '(propagation_correct, propagation_first), the twin rule; both refuted for the pinned code; and the rule is the crossing-number rule: '
         'for every status list the flags computed bottom-up are the parities of the non-vertical edges of the own / other operand below '
         '(status_flags_are_parities) - what remains per run is that the status is sorted by the true vertical order. compute_fields is tied to the model '
         'EXHAUSTIVELY (every combination of its inputs executed on both sides). Per run: the flags of every sub-segment against exact '
         'crossing-number membership: by a certificate written in Coq with the membership of the verified region checker '
         '(C14_certificate_sound / C14_certificate_flags state what acceptance means; it rejects 201 of 568 runs of the PINNED model), doubled by rational Python.', '§7 C14',
         'Coq: decision-table theorems; exhaustive correspondence of compute_fields; per-run flag check'),
 'C15': ('proof', 'Proved: the event order never answers Equal (every instance, every store); it orders by x, then y, then right-before-left '
         '(every instance with the order laws); at the exact instance events at one point with equal left flags are ordered '
         'antisymmetrically by the orientation of their partners (non-collinear) resp. by the operand (collinear, different operands), and '
         'collinear partners of one operand are proved to be the only gap; the segment order answers Equal exactly for the identical segment '
         'and is antisymmetric whenever the event order decides which left event comes first (every instance); the consumer theorem '
         '(asymmetry => the bubble sort terminates sorted); transitivity at the exact instance through the key and for left events at one '
         'point with non-collinear later partners (orientation is transitive inside a half-plane); and the third clause at the exact '
         'instance: for a non-vertical earlier segment and a non-crossing, non-collinear pair the answer of compare_segments IS the '
         'vertical order at every common abscissa, for both argument orders (C15_segment_order_is_vertical_order), and = the order of '
         'heights wherever they differ (C15_segment_order_is_height_order). FIRST CLAUSE IN FULL at the exact instance: on the events of a '
         'valid input (finite operands, no two edges of one operand overlapping) in the store the sweep returns the event order is a strict '
         'total order - irreflexive, never Equal and antisymmetric for distinct events (the gap cannot occur), transitive also through '
         'collinear partners and right events (C15_event_order_strict_total_on_valid_input; hypotheses shown satisfiable on the F2 witness); '
         'the segment order is antisymmetric there (C15_segment_order_antisymmetric_on_valid_input); a division changes the answer of no comparison '
         'between existing events (C15_event_order_stable_under_subdivision), nor does the intersection step, the flag computation or the '
         'whole sweep (C15_step_keeps_event_order, C15_sweep_keeps_event_order). Transitivity of the SEGMENT order '
         'beyond general position and the vertical-order clause for a vertical earlier segment (N4) are NOT proved: they are '
         'checked exhaustively on all lattice segment pairs, on float pairs in both precisions against both bit-exact models (signed '
         'zeros, nearly collinear points with adversarially wrong plain determinants) and on the event sets of generated inputs.', '§7 C15',
         'Coq: order theorems; exhaustive lattice correspondence; all-pairs/all-triples checks'),
 'C16': ('proof', 'Proved at the exact instance for all finite segments: intersection answers None exactly for disjoint closed segments and every '
         'returned point lies on both (crossing, parallel and collinear cases); for every instance with the order laws the point lies in both '
         'boxes. The step itself at the exact instance: disjoint closed segments are left untouched with code 0, a single meeting point '
         'with a shared left/right endpoint or at an endpoint of each segment divides nothing, and every event the step creates lies at ONE '
         'point, the common point returned (C16_new_events_at_one_point; the one-ulp bump is the identity over exact arithmetic). The '
         'kernel is independent of the order of its two segments for EVERY pair of non-degenerate segments, collinear ones included '
         '(C16_kernel_order_independent; C16_order_independent_none/_point for the non-parallel case); every event the step creates, '
         'in every arm, lies on BOTH segments - in the overlap arm at an end of the common part (C16_new_events_lie_on_both_segments). The '
         'step RESOLVES its pair (all arms): a reported point is the ONLY common point (C16_reported_point_is_the_only_common_point); '
         'afterwards the sub-segments still starting at the two left events have no common point other than end points of both '
         '(C16_crossing_is_resolved), for overlapping segments of different operands they meet at end points or coincide completely '
         '(C16_overlap_is_resolved); in one statement for every answer of the kernel in a store of a valid sweep: C16_every_tested_pair_is_resolved. '
         'The footprint of the step, EVERY instance: no point moves, no link other than those of the two events, their partners and the new '
         'events changes (C16_step_footprint). The '
         'typing of coincident pieces is proved for pieces with a common left end (C16_coincident_pieces_are_typed: answer 2, NonContributing / '
         'Same- or DifferentTransition by the in/out flags). possible_intersection is tied to the '
         'model exhaustively on the lattice (43 200 configurations) and on float pairs; all clauses checked against exact rational '
         'geometry. The one-ulp bump (N2) is a known finding on floats.', '§7 C16',
         'Coq: intersection_exact_all, clamp, point-arm theorems of possible_intersection; exhaustive lattice correspondence'),
 'C17': ('proof', 'Full statement proved in Coq for the model (C17_full, no axioms): for every strict total order and every history the '
         'shape-exact model of the splay map returns what a strictly sorted association list returns, len = number of keys, iteration '
         'strictly increasing, lookups never change the element a node identity denotes. Tied to lib/src/splay exhaustively: every tree '
         'shape reachable over 6 (thorough: 7) keys x every operation, plus long random histories, compared on return values, size hints '
         'and the Debug rendering of the tree.', '§7 C17',
         'Coq refinement proof (splay map -> sorted association list) + exhaustive correspondence'),
 'C18': ('proof', 'Cost-model proof + runtime scenarios. Proved: n increasing insertions give a tree of height n (so the drop glue of the pinned '
         'code recursed n deep), the repaired iterative teardown terminates within 2*size constant-stack iterations dropping every node once. '
         'Runtime: 3*10^6-key scenarios in 3 orders x 7 teardown/query paths on 8 MiB and 2 MiB stacks and the early-break Boolean operation, '
         'each in a child process, with a measured stack-address span that must not grow with n. Frame sizes are not modelled.', '§7 C18',
         'Coq cost-model theorems + child-process stack scenarios'),
}


def main():
    checks = []
    for pid in sorted(P):
        cat, text, ref, tech = P[pid]
        checks.append({
            'property_id': pid,
            'quick_cmd': './check %s --tier quick' % pid,
            'thorough_cmd': './check %s --tier thorough' % pid,
            'evidence_file': 'evidence/%s.json' % pid,
            'replay_cmd_template': './check %s --replay {path}' % pid,
            'engine': 'coq-model+correspondence',
            'level_claimed': {'category': cat, 'text': text, 'design_ref': 'DESIGN.md ' + ref},
            'level_note': COMMON_NOTE + ('Known findings (known_findings.json) are reported as KNOWN-FINDING lines and attributed only by '
                                         'call site + class (outside the exact class, reproduced by the bit-exact model, and the class condition of the finding decided exactly over the rationals).'),
            'technique': tech,
        })
    m = {
        'version': 1,
        'setup_cmd': './setup.sh',
        'hooks': {
            'guard': 'geo_booleanop_verif',
            'enable': 'RUSTFLAGS="--cfg geo_booleanop_verif" (set in /verif/harness/.cargo/config.toml; the harness depends on /repo/lib by path)',
            'baseline_off_cmd': 'cd /repo && CARGO_NET_OFFLINE=true cargo test --workspace --no-fail-fast --offline',
            'source_commits': ['2a8476f'],
            'add_only': True,
        },
        'engines': [
            {'name': 'coq-model+correspondence', 'path': 'coq/, ocaml/, harness/, tools/gb/',
             'serves_properties': sorted(P),
             'kind_free_text': 'hand-written Gallina model of the crate (generic over a numeric interface; instances: exact rationals, '
                               'bit-exact binary64/binary32) with theorems (Coq 8.16.1), extracted to OCaml; Rust harness (hooks on, release '
                               'and dev profile) ; Python orchestration: generation, differential execution, verified exact oracles, shrinking, '
                               'evidence'},
        ],
        'checks': checks,
        'not_applicable': [],
        'notes': 'Every property is claimed. See DESIGN.md §7 and §14 for what is a theorem and what is decided per run; known_findings.json for '
                 'N1-N6 and the three fix: commits (F1, F2, S1); seeded/ for 72 independently written breaking changes and which checks catch them.',
    }
    with open(os.path.join(ROOT, 'MANIFEST.json'), 'w') as f:
        json.dump(m, f, indent=1)


if __name__ == '__main__':
    main()
