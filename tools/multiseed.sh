#!/bin/sh
# runs every quick check under several seeds (development helper): tools/multiseed.sh 1 2 3
cd "$(dirname "$0")/.."
mkdir -p work/ms
for s in "$@"; do
  for p in C01 C02 C03 C04 C05 C06 C07 C08 C09 C10 C11 C12 C13 C14 C15 C16 C17 C18; do
    VERIF_SEED=$s ./check $p --tier quick --no-build > work/ms/out_${p}_$s.txt 2> work/ms/err_${p}_$s.txt
    echo "seed=$s $p exit=$? $(grep -c '^VIOLATION' work/ms/out_${p}_$s.txt) violations"
    cp work/replays/$p/${p}_quick_${s}_0.json work/ms/replay_${p}_$s.json 2>/dev/null
  done
done
