#!/usr/bin/env python3
"""Seeded changes (independently written property-breaking patches): confirmation in a scratch
worktree and detection runs of the checks against /repo with the patch applied.

  seedrun.py confirm <worktree> <seeddir> <id>     confirm (45 tests pass, demo fails with / passes without), store under seeded/<id>
  seedrun.py detect <id> [Cxx ...] [--tier quick]  apply seeded/<id>/patch.diff to /repo, run checks, revert, record in meta.json
"""
import json
import os
import re
import shutil
import subprocess
import sys
import time

VERIF = os.path.dirname(os.path.dirname(os.path.abspath(__file__)))
SEEDED = os.path.join(VERIF, 'seeded')
ENV = dict(os.environ, CARGO_NET_OFFLINE='true')


def sh(cmd, cwd, timeout=3600):
    p = subprocess.run(cmd, cwd=cwd, shell=True, env=ENV, stdout=subprocess.PIPE, stderr=subprocess.STDOUT, text=True,
                       timeout=timeout)
    return p.returncode, p.stdout


def suite_counts(out):
    passed = sum(int(m.group(1)) for m in re.finditer(r'test result: \w+\. (\d+) passed', out))
    failed = sum(int(m.group(1)) for m in re.finditer(r'test result: \w+\. \d+ passed; (\d+) failed', out))
    return passed, failed


def confirm(wt, seeddir, sid):
    res = {'id': sid, 'worktree': wt}
    sh('git checkout -- . && rm -rf lib/tests', wt)
    patch = os.path.join(seeddir, 'patch.diff')
    rc, out = sh('git apply --check %s && git apply %s' % (patch, patch), wt)
    res['applies'] = rc == 0
    if rc != 0:
        res['error'] = out[-500:]
        return res
    rc, out = sh('cargo test --workspace --offline 2>&1', wt)
    p, f = suite_counts(out)
    res['suite_with_patch'] = {'rc': rc, 'passed': p, 'failed': f}
    os.makedirs(os.path.join(wt, 'lib', 'tests'), exist_ok=True)
    shutil.copy(os.path.join(seeddir, 'demo.rs'), os.path.join(wt, 'lib', 'tests', 'seeddemo.rs'))
    demo = {}
    for prof, flag in (('debug', ''), ('release', '--release')):
        try:
            rc, out = sh('cargo test -p geo-booleanop --test seeddemo --offline %s 2>&1' % flag, wt, timeout=1800)
        except subprocess.TimeoutExpired:
            rc, out = 124, 'timeout'
        demo[prof] = {'rc': rc, 'tail': out[-600:]}
    res['demo_with_patch'] = {k: v['rc'] for k, v in demo.items()}
    res['demo_with_patch_tail'] = demo['debug']['tail'][-400:]
    sh('git checkout -- lib/src', wt)
    demo2 = {}
    for prof, flag in (('debug', ''), ('release', '--release')):
        try:
            rc, out = sh('cargo test -p geo-booleanop --test seeddemo --offline %s 2>&1' % flag, wt, timeout=1800)
        except subprocess.TimeoutExpired:
            rc, out = 124, 'timeout'
        demo2[prof] = rc
    res['demo_without_patch'] = demo2
    sh('git checkout -- . && rm -rf lib/tests', wt)
    ok = (res['suite_with_patch']['passed'] == 45 and res['suite_with_patch']['failed'] == 0
          and res['suite_with_patch']['rc'] == 0
          and any(v != 0 for v in res['demo_with_patch'].values())
          and all(v == 0 for v in demo2.values()))
    res['confirmed'] = ok
    if ok:
        d = os.path.join(SEEDED, sid)
        os.makedirs(d, exist_ok=True)
        for f in os.listdir(seeddir):
            if os.path.isfile(os.path.join(seeddir, f)):
                shutil.copy(os.path.join(seeddir, f), os.path.join(d, f))
        meta = {'id': sid, 'breaks_property': sid.split('-')[0], 'confirmed': res,
                'what_was_run': ['git apply patch.diff (scratch worktree of /repo HEAD)',
                                 'cargo test --workspace --offline  -> 45 passed',
                                 'cargo test -p geo-booleanop --test seeddemo [--release]  -> fails with the patch, passes without']}
        mp = os.path.join(d, 'meta.json')
        if os.path.exists(mp):
            old = json.load(open(mp))
            old.update(meta)
            meta = old
        json.dump(meta, open(mp, 'w'), indent=1)
    return res


def detect(sid, props, tier):
    d = os.path.join(SEEDED, sid)
    patch = os.path.join(d, 'patch.diff')
    rc, out = sh('git -C /repo status --porcelain', VERIF)
    if out.strip():
        print('refusing: /repo is not clean:\n' + out)
        return 2
    rc, out = sh('git -C /repo apply %s' % patch, VERIF)
    if rc != 0:
        print('patch does not apply: ' + out)
        return 2
    results = {}
    try:
        for p in props:
            t = time.time()
            try:
                rc, out = sh('./check %s --tier %s 2>%s' % (p, tier, os.path.join(VERIF, 'work', 'seed_err_%s_%s.txt' % (sid, p))), VERIF, timeout=7200)
            except subprocess.TimeoutExpired:
                rc, out = 124, 'timeout'
            vio = [l for l in out.splitlines() if l.startswith('VIOLATION')]
            results[p] = {'rc': rc, 'violations': len(vio), 'first': vio[:2], 'wall_s': round(time.time() - t, 1), 'tier': tier}
            print(sid, p, 'rc=%d' % rc, 'violations=%d' % len(vio), (vio[0] if vio else ''), flush=True)
            # keep the first replay file as a sample
            if vio:
                m = re.search(r'replay=(\S+)', vio[0])
                if m and os.path.exists(m.group(1)):
                    shutil.copy(m.group(1), os.path.join(d, 'replay_%s.json' % p))
    finally:
        sh('git -C /repo checkout -- . && git -C /repo clean -fdq lib tests', VERIF)
    mp = os.path.join(d, 'meta.json')
    meta = json.load(open(mp)) if os.path.exists(mp) else {'id': sid}
    meta.setdefault('detection', {}).update(results)
    json.dump(meta, open(mp, 'w'), indent=1)
    return 0


def main():
    if sys.argv[1] == 'confirm':
        r = confirm(sys.argv[2], sys.argv[3], sys.argv[4])
        print(json.dumps({k: v for k, v in r.items() if k != 'demo_with_patch_tail'}))
    elif sys.argv[1] == 'detect':
        args = sys.argv[2:]
        tier = 'quick'
        if '--tier' in args:
            i = args.index('--tier')
            tier = args[i + 1]
            args = args[:i] + args[i + 2:]
        sid = args[0]
        props = args[1:] or [sid.split('-')[0]]
        sys.exit(detect(sid, props, tier))


if __name__ == '__main__':
    main()
