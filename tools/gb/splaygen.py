"""Histories for the splay map: exhaustive closure over a small key universe and random long ones."""
import random


def lookup_tokens(rng, keys):
    return '%s %d' % (rng.choice('gnpcf'), rng.choice(keys))


def random_history(rng, nsteps, nkeys, dbg_every=25):
    keys = list(range(-1, nkeys + 1))
    ops = []
    for i in range(nsteps):
        r = rng.random()
        k = rng.choice(keys)
        if r < 0.30:
            ops.append('i %d %d' % (k, rng.randrange(1000)))
        elif r < 0.45:
            ops.append('r %d' % k)
        elif r < 0.53:
            ops.append('g %d' % k)
        elif r < 0.58:
            ops.append('f %d' % k)
        elif r < 0.63:
            ops.append('c %d' % k)
        elif r < 0.72:
            ops.append('n %d' % k)
        elif r < 0.81:
            ops.append('p %d' % k)
        elif r < 0.84:
            ops.append('min')
        elif r < 0.87:
            ops.append('max')
        elif r < 0.90:
            ops.append('len')
        elif r < 0.91:
            ops.append('emp')
        elif r < 0.915:
            ops.append('clr')
        elif r < 0.935:
            n = rng.randrange(0, 6)
            ops.append(('ext %d %s' % (n, ' '.join('%d %d' % (rng.choice(keys), rng.randrange(1000)) for _ in range(n)))).strip())
        elif r < 0.95:
            n = rng.randrange(0, nkeys + 3)
            ops.append(('it %d %s' % (n, ' '.join(str(rng.randrange(2)) for _ in range(n)))).strip())
        else:
            m = rng.randrange(0, 6)
            ops.append(('stab %d %d %s' % (k, m, ' '.join(lookup_tokens(rng, keys) for _ in range(m)))).strip())
        if dbg_every and (i + 1) % dbg_every == 0:
            ops.append('dbg')
    ops.append('dbg')
    ops.append('len')
    return ops


def expansion_ops(nkeys):
    """operations that can change the shape, over keys 0..nkeys-1 and the two outside keys"""
    ops = []
    for k in range(-1, nkeys + 1):
        if 0 <= k < nkeys:
            ops.append('i %d %d' % (k, 100 + k))
        ops.append('r %d' % k)
        ops.append('g %d' % k)
        ops.append('n %d' % k)
        ops.append('p %d' % k)
    return ops


def probe_ops(nkeys):
    """every operation of the API, applied to every reachable tree"""
    ops = ['min', 'max', 'len', 'emp', 'clr']
    for k in range(-1, nkeys + 1):
        ops += ['f %d' % k, 'c %d' % k, 'i %d 7' % k]
        ops.append('stab %d 3 n %d p %d g %d' % (k, (k + 1) % nkeys, (k + 2) % nkeys, (k + 3) % nkeys))
    ops.append('ext 3 0 1 %d 2 1 3' % (nkeys - 1))
    for pat in (['1'] * (nkeys + 1), ['0'] * (nkeys + 1), ['1', '0'] * nkeys, ['0', '0', '1'] * nkeys, ['1', '1']):
        ops.append('it %d %s' % (len(pat), ' '.join(pat)))
    return ops
