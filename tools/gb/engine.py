"""Building the three code bases and running the executables, sharded over the cores."""
import fcntl
import os
import shutil
import subprocess
import sys
import time
from concurrent.futures import ThreadPoolExecutor

VERIF = os.path.dirname(os.path.dirname(os.path.dirname(os.path.abspath(__file__))))
REPO = '/repo'
WORK = os.path.join(VERIF, 'work')
COQ = os.path.join(VERIF, 'coq')
OCAML = os.path.join(VERIF, 'ocaml')
HARNESS = os.path.join(VERIF, 'harness')
MODEL = os.path.join(OCAML, 'gbmodel')
MODEL_PURE = os.path.join(OCAML, 'gbmodel_pure')
NCPU = min(16, os.cpu_count() or 4)

ENV = dict(os.environ, CARGO_NET_OFFLINE='true')


def impl_bin(profile, name='vh'):
    return os.path.join(HARNESS, 'target', 'release' if profile == 'r' else 'debug', name)


class BuildError(Exception):
    pass


def _run(cmd, cwd, timeout, what):
    p = subprocess.run(cmd, cwd=cwd, env=ENV, stdout=subprocess.PIPE, stderr=subprocess.STDOUT, text=True, timeout=timeout)
    if p.returncode != 0:
        raise BuildError('%s failed:\n%s' % (what, p.stdout[-4000:]))
    return p.stdout


def build_coq():
    mk, prj = os.path.join(COQ, 'Makefile'), os.path.join(COQ, '_CoqProject')
    if not os.path.exists(mk) or os.path.getmtime(mk) < os.path.getmtime(prj):   # a file list that changed since
        _run(['coq_makefile', '-f', '_CoqProject', '-o', 'Makefile'], COQ, 120, 'coq_makefile')
    _run(['make', '-j%d' % NCPU], COQ, 3600, 'coq make')


def build_ocaml():
    _run(['sh', './build.sh'], OCAML, 1800, 'ocaml build')


def build_harness(profiles=('r', 'd')):
    lock_src = os.path.join(REPO, 'Cargo.lock')
    lock_dst = os.path.join(HARNESS, 'Cargo.lock')
    if os.path.exists(lock_src) and not os.path.exists(lock_dst):
        shutil.copy(lock_src, lock_dst)
    for pr in profiles:
        cmd = ['cargo', 'build', '--offline', '--bins'] + (['--release'] if pr == 'r' else [])
        _run(cmd, HARNESS, 1800, 'cargo build (%s)' % pr)


def ensure_built(profiles=('r', 'd'), coq=True):
    """(Re)builds everything from the files on disk; /repo is a path dependency of the harness,
    so its current working tree is what gets compiled."""
    os.makedirs(WORK, exist_ok=True)
    with open(os.path.join(WORK, 'build.lock'), 'w') as lk:
        fcntl.flock(lk, fcntl.LOCK_EX)
        t = time.time()
        if coq:
            build_coq()
            build_ocaml()
        build_harness(profiles)
        return time.time() - t


def _chunks(lines, n):
    k = max(1, (len(lines) + n - 1) // n)
    return [lines[i:i + k] for i in range(0, len(lines), k)]


def _id_of(line):
    a = line.split(None, 2)
    return a[0], a[1]


def _run_chunk(binary, lines, timeout, hang_word):
    """Runs one process over `lines`; returns one output line per input line.  If the process
    dies or exceeds the timeout, the first unanswered line is reported as `<cmd> <id> <hang_word>`
    (or `crash`) and the remaining lines are run in a fresh process."""
    outs = []
    rest = list(lines)
    while rest:
        try:
            p = subprocess.run([binary], input='\n'.join(rest) + '\n', stdout=subprocess.PIPE, stderr=subprocess.PIPE,
                               text=True, timeout=timeout)
            got = p.stdout.splitlines()
            status = 'crash(rc=%d)' % p.returncode if p.returncode != 0 else None
        except subprocess.TimeoutExpired as e:
            so = e.stdout or b''
            got = (so.decode() if isinstance(so, bytes) else so).splitlines()
            status = hang_word
        # keep only complete, matching answers
        k = 0
        while k < len(got) and k < len(rest):
            cmd, cid = _id_of(rest[k])
            if got[k].startswith(cmd + ' ' + cid + ' ') or got[k] == cmd + ' ' + cid:
                k += 1
            else:
                break
        outs.extend(got[:k])
        if k == len(rest):
            break
        cmd, cid = _id_of(rest[k])
        outs.append('%s %s %s' % (cmd, cid, status or 'crash(no-output)'))
        rest = rest[k + 1:]
    return outs


def run_lines(binary, lines, nproc=None, timeout=600, hang_word='hang'):
    if not lines:
        return []
    nproc = nproc or NCPU
    chunks = _chunks(lines, nproc * 4 if len(lines) > nproc * 8 else nproc)
    with ThreadPoolExecutor(max_workers=nproc) as ex:
        res = list(ex.map(lambda c: _run_chunk(binary, c, timeout, hang_word), chunks))
    out = []
    for r in res:
        out.extend(r)
    return out


def payload(line):
    """the part of an answer after '<cmd> <id> '"""
    a = line.split(None, 2)
    return a[2] if len(a) > 2 else ''
