"""C08 — results commute with exact similarity transforms of the plane."""
from . import relprops, relrun
LEVEL = 'proof'
W = {'rect': 0.25, 'oct': 0.35, 'share': 0.1, 'lat': 0.1, 'gp': 0.2, 'abut': 0.2, 'punch': 0.08, 'boxes': 0.08, 'frameslab': 0.15}


def run(rep, tier, seed):
    relrun.run_rel(rep, 'C08', tier, seed, relprops.build_c08, W, 200 if tier == 'quick' else 2500,
                   'each group = 4 operations x (base, scaled by 2^k with k in {-40,3,60,random}: bit-identical; integer translation: '
                   'identical on the exact class; 2 (quick) or 7 (thorough) of the non-trivial axis symmetries: transformed region, decided '
                   'by the verified checker).')
