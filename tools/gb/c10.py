"""C10 — single and double precision instantiations agree and are both correct."""
from . import relprops, relrun
LEVEL = 'proof'
W = {'rect': 0.25, 'oct': 0.3, 'share': 0.15, 'lat': 0.1, 'gp': 0.2}


def run(rep, tier, seed):
    relrun.run_rel(rep, 'C10', tier, seed, relprops.build_c10, W, 200 if tier == 'quick' else 5000,
                   'each group = 4 operations x (operands rounded to f32 computed in f64, the same computed in f32); equal coordinate for '
                   'coordinate when both runs are exact; the f32 result must be the named region (verified checker; tolerance 1e-4 x '
                   'magnitude when rounded).')
