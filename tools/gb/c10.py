"""C10 — single and double precision instantiations agree and are both correct."""
import random

from . import c15, engine, relprops, relrun
LEVEL = 'proof'
W = {'rect': 0.25, 'oct': 0.3, 'share': 0.15, 'lat': 0.1, 'gp': 0.2, 'fan': 0.12, 'sliver': 0.25, 'boxes': 0.05, 'near': 0.12, 'ulp32': 0.12}


def run(rep, tier, seed):
    relrun.run_rel(rep, 'C10', tier, seed, relprops.build_c10, W, 200 if tier == 'quick' else 5000,
                   'each group = 4 operations x (operands rounded to f32 computed in f64, the same computed in f32); equal coordinate for '
                   'coordinate when both runs are exact; the f32 result must be the named region (verified checker; tolerance 1e-4 x '
                   'magnitude when rounded).')
    if rep.violations:
        return
    # the orientation predicate and the two public orders, single against double precision, on segment pairs whose
    # coordinates are exactly representable in both (nearly collinear points, mixed magnitudes, signed zeros)
    rng = random.Random(seed + 10)
    n = 1500 if tier == 'quick' else 40000
    fj = c15.float_pairs(rng, n, 32)
    l32 = [c15.pair_line('s%d' % i, j[0], j[1], j[2], j[3], prec=32) for i, j in enumerate(fj)]
    l64 = [c15.pair_line('s%d' % i, j[0], j[1], j[2], j[3], prec=64) for i, j in enumerate(fj)]
    i32 = engine.run_lines(engine.impl_bin('r'), l32, timeout=600)
    i64 = engine.run_lines(engine.impl_bin('r'), l64, timeout=600)
    m32 = engine.run_lines(engine.MODEL, l32, timeout=1800)
    m64 = engine.run_lines(engine.MODEL, l64, timeout=1800)
    pay = engine.payload
    dev = [k for k in range(n) if pay(i32[k]) != pay(m32[k]) or pay(i64[k]) != pay(m64[k])]
    hard = [k for k in dev if pay(i64[k]) == pay(m64[k]) == pay(m32[k])]
    rep.coverage['order_pairs_f32_vs_f64'] = n
    rep.coverage['order_pairs_where_f32_and_f64_models_differ'] = sum(1 for k in range(n) if pay(m32[k]) != pay(m64[k]))
    rep.log('%d segment pairs in both precisions: %d deviate from the model, %d of them are f32-only deviations' % (n, len(dev), len(hard)))
    if hard:
        k = hard[0]
        rep.violation('C10: Ord::cmp / compare_segments answer %s in f32 but %s in f64 on a segment pair exactly representable in both '
                      '(the bit-exact models of both instantiations say %s); %d such pairs' % (pay(i32[k]), pay(i64[k]), pay(m32[k]), len(hard)),
                      {'line_f32': l32[k], 'line_f64': l64[k], 'implementation_f32': i32[k], 'implementation_f64': i64[k], 'model': m32[k],
                       'replay_cmd': "printf '%s\\n' '<line>' | harness/target/release/vh"})
    elif dev:
        k = dev[0]
        rep.violation('correspondence Cmp.cmp_events / compare_segments <-> implementation broken on %d segment pair(s)' % len(dev),
                      {'correspondence': 'coq/theories/Cmp.v at NB32 / NB64', 'line_f32': l32[k], 'implementation_f32': i32[k], 'model_f32': m32[k],
                       'implementation_f64': i64[k], 'model_f64': m64[k]}, nofail=True)
