"""C03 — every call on valid input returns: no panic, abort, runaway loop, stack overflow."""
import random
import subprocess
import time

from . import boolcheck as bc
from . import c01, campaign, engine, fmt

LEVEL = 'proof'
PID = 'C03'
WEIGHTS = {'rect': 0.2, 'oct': 0.25, 'share': 0.1, 'selfop': 0.05, 'lat': 0.1, 'gp': 0.1, 'degen': 0.1, 'ulp': 0.1, 'boxes': 0.05, 'straddle': 0.05, 'fan': 0.03, 'sliver': 0.03, 'near64': 0.04, 'vtj': 0.04}


def big_case(nrect, op, prec=64):
    """nrect thin rectangles against a far box: 4*nrect+4 edges; the early break leaves the sweep line full"""
    a = ('M', [[[(0.0, 2.0 * i), (10.0, 2.0 * i), (10.0, 2.0 * i + 1.0), (0.0, 2.0 * i + 1.0)]] for i in range(nrect)])
    b = ('M', [[[(-5.0, -3.0), (0.0, -3.0), (0.0, 0.5), (-5.0, 0.5)]]])
    return bc.Case('big%d%s' % (nrect, op), 'big', prec, op, a, b)


def comb_case(n, op):
    """two interleaved combs: n teeth each, ~n^2/4 intersections"""
    def comb(horizontal):
        pts = [(0.0, 0.0)]
        for i in range(n):
            pts += [(2.0 * i + 1.0, 0.0), (2.0 * i + 1.0, 2.0 * n), (2.0 * i + 2.0, 2.0 * n), (2.0 * i + 2.0, 0.0)]
        pts += [(2.0 * n + 1.0, 0.0), (2.0 * n + 1.0, -1.0), (0.0, -1.0)]
        if horizontal:
            pts = [(y + 0.5, x + 0.5) for (x, y) in pts]
            pts.reverse()
        return pts
    return bc.Case('comb%d%s' % (n, op), 'big', 64, op, ('M', [[comb(False)]]), ('M', [[comb(True)]]))


def hub_case(n, op):
    """n thin triangles with a common apex at the origin (all to the left of it) and one to the right, against a small square inside their box:
    one result vertex of degree 2n+2; the contour stage must get through it without deep recursion or quadratic blow-up"""
    m = float(n)
    tris = [[[(0.0, 0.0), (-m, 2.0 * i + 1.0 - m), (-m, 2.0 * i - m)]] for i in range(n)]
    tris.append([[(0.0, 0.0), (m, 0.0), (m, 1.0)]])
    # the square lies INSIDE the subject's bounding box (no shortcut) and is disjoint from every triangle
    b = ('M', [[[(1.0, 10.0), (2.0, 10.0), (2.0, 11.0), (1.0, 11.0)]]])
    return bc.Case('hub%d%s' % (n, op), 'big', 64, op, ('M', tris), b)


def run(rep, tier, seed):
    rng = random.Random(seed)
    c01.proof_part(rep, PID, tier)
    npairs = 250 if tier == 'quick' else 5000
    cases64 = campaign.make_cases(rng, npairs, WEIGHTS, prec=64, prefix='a')
    cases32 = campaign.make_cases(rng, npairs // 2, {'rect': 0.3, 'oct': 0.3, 'degen': 0.15, 'gp': 0.15, 'lat': 0.1, 'near': 0.08, 'fan': 0.05, 'ulp32': 0.2}, prec=32, prefix='s')
    cases = cases64 + cases32
    rep.log('%d cases x 2 profiles' % len(cases))
    allouts = {}
    cnt_total = {}
    fails_all, corr_all = [], []
    for profile in ('r', 'd'):
        impl = bc.run_impl(cases, profile)
        model = bc.run_model(cases, profile)
        outs = {}
        for c in cases:
            o = campaign.Outcome(c)
            o.impl, o.model = impl[c.cid], model[c.cid]
            o.corr = bc.same_result(o.impl, o.model)
            if o.impl[0] == 'ok':
                o.status = 'exact-pass'
            else:
                o.status = 'fail-outcome'
                o.detail = '%s %s (profile %s, f%d)' % (o.impl[0], o.impl[1] or '', profile, c.prec)
            outs[c.cid] = o
        failing = [c for c in cases if outs[c.cid].status == 'fail-outcome']
        if failing:
            q = bc.run_model_q(failing, profile)
            for c in failing:
                outs[c.cid].exactq = False if q[c.cid][0] == 'ok' else None
        cnt, fails, corr_bad = c01.judge(rep, PID, outs)
        cnt_total[profile] = cnt
        fails_all += [(profile, o) for o in fails]
        corr_all += corr_bad
        allouts[profile] = outs
    # large inputs: implementation only (child processes: an abort must not take the check down)
    big = []
    sizes = [25000] if tier == 'quick' else [25000, 250000]
    for n in sizes:
        for op in 'ID':
            big.append(big_case(n, op))
    big += [comb_case(40 if tier == 'quick' else 120, op) for op in 'UX']
    big += [hub_case(60000 if tier == 'quick' else 200000, op) for op in 'UX']
    t0 = time.time()
    bigres = bc.run_impl(big, 'r', timeout=900)
    for c in big:
        r = bigres[c.cid]
        if r[0] != 'ok':
            rep.violation('C03: %s on a large valid input (%d edges)' % (r[0], c.n_edges()),
                          {'generator': 'c03.big_case / comb_case / hub_case', 'case_id': c.cid, 'edges': c.n_edges(), 'outcome': repr(r)[:300]})
    # early-break operations that leave a chain-shaped status behind (child processes: an abort must not take the check down)
    from .c18 import run_child
    nrect = 150000 if tier == 'quick' else 400000
    stack_scen = [('boolean-int', nrect, 'thread'), ('boolean-intdesc', nrect, 'thread'), ('boolean-intmix', nrect, 'thread'),
                  ('boolean-dif', nrect, 'main'), ('boolean-intdesc', 4 * nrect, 'main'),
                  ('boolean-uni', nrect, 'thread'), ('boolean-xor', nrect, 'thread'), ('boolean-inthit', nrect, 'thread'),
                  ('boolean-hub', 50000 if tier == 'quick' else 200000, 'thread'), ('boolean-hub', 200000 if tier == 'quick' else 800000, 'main')]
    from concurrent.futures import ThreadPoolExecutor
    with ThreadPoolExecutor(max_workers=8) as ex:
        sres = list(ex.map(run_child, stack_scen))
    rep.coverage['early_break_scenarios'] = {'%s n=%d' % (s[0], s[1]): r[0] for s, r in zip(stack_scen, sres)}
    for s, r in zip(stack_scen, sres):
        if r[0] != 0:
            rep.violation('C03: the operation %s on %d rectangles (valid input, %d edges) ended with status %s %s'
                          % (s[0], s[1], 4 * s[1] + 4, r[0], r[2][:120]),
                          {'scenario': s[0], 'n': s[1], 'exit': r[0], 'stderr': r[2],
                           'replay_cmd': 'harness/target/release/stackchild %s %d %s; echo $?' % s})
    rep.log('large inputs: %s in %.1fs' % ({c.cid: bigres[c.cid][0] for c in big}, time.time() - t0))
    outs = allouts['r']
    c01.fill_coverage(rep, cases, outs, cnt_total, 'Every case is run in the release and the dev (debug assertions, overflow '
                      'checks) profile, in f64 and f32, with the event budget 4n^2+2n+16 (n = input edges); pass = normal return in '
                      'both profiles. Large inputs (10^5..10^6 edges, quadratic comb) are run through the implementation only.')
    rep.coverage['large_inputs'] = {c.cid: {'edges': c.n_edges(), 'outcome': bigres[c.cid][0]} for c in big}
    rep.coverage['trusted_base'] = c01.TRUSTED + ['panics are observed with catch_unwind, aborts/hangs as death or timeout of the child process']
    if fails_all:
        profile, o = min(fails_all, key=lambda po: po[1].case.n_edges())

        def refail(c):
            r = bc.run_impl([c], profile)[c.cid]
            return r[0] != 'ok' and r[:2] == o.impl[:2]
        small = bc.shrink_case(o.case, refail)
        r = bc.run_impl([small], profile)[small.cid]
        rep.violation('C03: %s on a %s case in profile %s (%d failing case/profile pairs)' % (o.detail, o.case.family, profile, len(fails_all)),
                      {'case': small.to_json(), 'profile': profile, 'outcome': repr(r)[:500],
                       'replay_cmd': "printf '%%s\\n' '%s' | harness/target/%s/vh" % (small.line(profile), 'release' if profile == 'r' else 'debug')})
    elif corr_all:
        o = corr_all[0]
        rep.violation('correspondence model <-> implementation broken on %d case(s) (outcome kinds / results differ); no call '
                      'failed to return' % len(corr_all),
                      {'correspondence': 'BoolOp.boolean vs BooleanOp::boolean', 'case': o.case.to_json(),
                       'implementation': repr(o.impl)[:1500], 'model': repr(o.model)[:1500]}, nofail=True)
