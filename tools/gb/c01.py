"""C01 — each operation returns exactly the set-theoretic region it names."""
import random

from . import boolcheck as bc
from . import campaign, engine, fmt, proof

LEVEL = 'proof'
PID = 'C01'
WEIGHTS = {'rect': 0.2, 'oct': 0.3, 'lat': 0.12, 'gp': 0.1, 'self': 0.05, 'degen': 0.04, 'ulp': 0.03, 'boxes': 0.08, 'straddle': 0.15,
           'fan': 0.04, 'sliver': 0.04, 'near64': 0.04, 'abut': 0.06, 'punch': 0.05, 'tjo': 0.06, 'tjunc': 0.03, 'vtj': 0.05, 'frameslab': 0.05}


def proof_part(rep, pid, tier):
    cov = rep.coverage
    pinfo = proof.proof_stage(pid, thorough=(tier == 'thorough'))
    cov['obligations'] = pinfo['obligations']
    cov['discharged'] = pinfo['discharged']
    cov['theorems'] = pinfo['theorems']
    cov['checker_cmd'] = 'make -C coq (coqc 8.16.1, full .vo build) + coqc work/pa_%s.v (Print Assumptions)' % pid + (
        ' + coqchk -o -silent GB.Properties.%s' % pid if tier == 'thorough' else '')
    if 'coqchk' in pinfo:
        cov['coqchk_tail'] = pinfo['coqchk']
    for pb in pinfo['problems']:
        rep.violation('proof obligation no longer checks: ' + pb, {'theorem_or_check': pb}, nofail=True)
    return pinfo


def judge(rep, pid, outs, what_fail=('fail-region', 'fail-outcome')):
    """turns campaign outcomes into violations / known findings; returns counters"""
    findings = rep.findings_for()
    cnt = {'exact-pass': 0, 'tolerant-pass': 0, 'fail-region': 0, 'fail-outcome': 0, 'corr-mismatch': 0,
           'known': 0}
    fails = []
    corr_bad = []
    for o in outs.values():
        cnt[o.status] = cnt.get(o.status, 0) + 1
        if not o.corr:
            cnt['corr-mismatch'] += 1
            corr_bad.append(o)
        if o.status in what_fail:
            fid = campaign.attribute_known(rep, o, findings)
            if fid:
                cnt['known'] += 1
                rep.known_finding(fid, '%s %s: %s' % (o.case.cid, o.case.family, o.detail))
            else:
                fails.append(o)
    return cnt, fails, corr_bad


def report_failures(rep, pid, fails, corr_bad, profile='r', refail=None):
    if fails:
        o = min(fails, key=lambda o: o.case.n_edges())

        def still_fails(c):
            r = campaign.run_campaign(rep, [c], profile)[c.cid]
            return r.status in ('fail-region', 'fail-outcome') and r.status == o.status
        small = bc.shrink_case(o.case, refail or still_fails)
        r = campaign.run_campaign(rep, [small], profile)[small.cid]
        rep.violation('%s: %s on a %s case (%d failing cases in this run)' % (pid, o.status, o.case.family, len(fails)),
                      {'case': small.to_json(), 'status': r.status, 'detail': r.detail,
                       'implementation': repr(r.impl)[:2000], 'model': repr(r.model)[:2000],
                       'original_case': o.case.to_json(), 'failing_cases': len(fails),
                       'replay_cmd': "printf '%%s\\n' '%s' | harness/target/release/vh" % small.line()})
    elif corr_bad:
        o = min(corr_bad, key=lambda o: o.case.n_edges())
        rep.violation('correspondence model <-> implementation broken on %d case(s); every implementation result still '
                      'passes the exact region oracle' % len(corr_bad),
                      {'correspondence': 'BoolOp.boolean (coq/theories/BoolOp.v) vs BooleanOp::boolean', 'case': o.case.to_json(),
                       'implementation': repr(o.impl)[:2000], 'model': repr(o.model)[:2000]}, nofail=True)


def fill_coverage(rep, cases, outs, cnt, rule_extra=''):
    cov = rep.coverage
    fam = {}
    for c in cases:
        fam[c.family] = fam.get(c.family, 0) + 1
    nontriv = set()
    for o in outs.values():
        if o.impl[0] == 'ok' and o.impl[1]:
            key = (fmt.enc_operand(o.case.lhs, o.case.prec), fmt.enc_operand(o.case.rhs, o.case.prec), o.case.op)
            # non-trivial: the result is not literally one of the operands' polygon lists
            if fmt.canon_mp(o.impl[1]) not in (fmt.canon_mp(fmt.polys_of(o.case.lhs)), fmt.canon_mp(fmt.polys_of(o.case.rhs)),
                                               fmt.canon_mp(fmt.polys_of(o.case.lhs) + fmt.polys_of(o.case.rhs))):
                nontriv.add(key)
    cov['evaluations'] = len(cases)
    cov['distinct_nontrivial'] = len(nontriv)
    cov['traces_validated_against_impl'] = sum(1 for o in outs.values() if o.corr)
    cov['families'] = fam
    cov['edge_histogram'] = campaign.histogram(cases)
    cov['outcomes'] = cnt
    cov['exact_class_share_of_checked'] = None
    ex = [o.exactq for o in outs.values() if o.exactq is not None]
    if ex:
        cov['exact_class_share_of_checked'] = round(sum(1 for e in ex if e) / len(ex), 3)
    cov['rule'] = ('cases drawn from the families of DESIGN.md §5 with one seeded PRNG, 4 operations per operand pair, random '
                   'Polygon/MultiPolygon pairing; distinct = distinct (operands, operation); non-trivial = the implementation '
                   'returned a non-empty result that is not literally one operand or the concatenation of both. ' + rule_extra)
    some = [c for c in cases if c.family in ('oct', 'lat')][:2] or cases[:1]
    cov['samples'] = [c.to_json()['line'][:600] for c in some]


def run(rep, tier, seed):
    rng = random.Random(seed)
    proof_part(rep, PID, tier)
    npairs = 300 if tier == 'quick' else 6000
    cases = campaign.make_cases(rng, npairs, WEIGHTS)
    # the single-precision instantiation on operands whose arithmetic is exact in binary32 as well
    cases += campaign.make_cases(rng, 40 if tier == 'quick' else 1200,
                                 {'fan': 0.25, 'near': 0.25, 'sliver': 0.15, 'oct': 0.15, 'boxes': 0.1, 'rect': 0.1}, prec=32, prefix='s')
    rep.log('%d cases' % len(cases))
    outs = campaign.run_campaign(rep, cases)
    cnt, fails, corr_bad = judge(rep, PID, outs)
    rep.log('outcomes', cnt)
    fill_coverage(rep, cases, outs, cnt, 'Pass = the exact checker cert01 (proved sound: cert01_sound) accepts the '
                  'implementation\'s result for every point of the plane; tolerant-pass = the result is vertex-wise within '
                  '1e-9 x magnitude of the exact-arithmetic model run whose result cert01 accepts.')
    rep.coverage['trusted_base'] = TRUSTED
    report_failures(rep, PID, fails, corr_bad)


TRUSTED = [
    'Coq 8.16.1 kernel; all C01 theorems closed under the global context (no axioms)',
    'membership = crossing number with the half-open rule (Slab.below): specification choice',
    'hand-written model (coq/theories/*.v) tied to the code by the executed bit-exact correspondence only',
    'extraction ExtrOcamlBasic + ExtrOcamlZBigInt (zarith), OCaml driver, Rust harness, Python orchestration',
    'robust::orient2d modelled as the exact sign; f64 = IEEE binary64 RNE without fused operations',
]
