"""C09 — far-away parts and the early-exit shortcuts do not change the answer."""
from . import relprops, relrun
LEVEL = 'proof'
W = {'rect': 0.25, 'oct': 0.35, 'share': 0.1, 'lat': 0.1, 'gp': 0.15, 'straddle': 0.4, 'boxes': 0.1, 'abut': 0.08}


def run(rep, tier, seed):
    relrun.run_rel(rep, 'C09', tier, seed, relprops.build_c09, W, 320 if tier == 'quick' else 4000,
                   'each group = 4 operations x (base, base with a disjoint part placed far left/right/above/below on the subject or the '
                   'clipping operand); the result must be the base result plus/without the part itself (ring sets on the exact class, '
                   'regions by the verified checker otherwise).')
