"""C17 — the splay tree behaves as a sorted map/set for every operation history."""
import random
import re

from . import engine, proof, splaygen
from .shrink import shrink_list

STRIP_SHAPE = re.compile(r'\([^ ]')  # shapes start with '(' followed by a key; '.' alone is the empty shape


def split_outs(payload):
    """outputs of one history, with shape dumps separated out"""
    toks = []
    cur = []
    depth = 0
    # shapes contain spaces: re-join tokens by parenthesis depth
    for tok in payload.split(' '):
        if depth == 0 and not tok.startswith('('):
            toks.append(tok)
        else:
            cur.append(tok)
            depth += tok.count('(') - tok.count(')')
            if depth == 0:
                toks.append(' '.join(cur))
                cur = []
    return toks


def is_shape(tok, op):
    return op == 'dbg'


def run_both(lines):
    impl = engine.run_lines(engine.impl_bin('r'), lines, timeout=300)
    model = engine.run_lines(engine.MODEL, lines, timeout=600)
    return impl, model


def values_only(ops, payload):
    """outputs with the answers to `dbg` removed"""
    outs = split_outs(payload)
    flat_ops = []
    for o in ops:
        flat_ops.append(o.split(' ')[0])
    if len(outs) != len(flat_ops):
        return outs  # panic or malformed: compare as is
    return [x for x, o in zip(outs, flat_ops) if o != 'dbg']


def run(rep, tier, seed):
    rng = random.Random(seed)
    cov = rep.coverage
    # ---- proof stage
    pinfo = proof.proof_stage('C17', thorough=(tier == 'thorough'))
    cov['obligations'] = pinfo['obligations']
    cov['discharged'] = pinfo['discharged']
    cov['theorems'] = pinfo['theorems']
    cov['checker_cmd'] = 'make -C coq (coqc 8.16.1, full .vo build) + coqc work/pa_C17.v (Print Assumptions)' + (
        ' + coqchk -o -silent GB.Properties.C17' if tier == 'thorough' else '')
    if 'coqchk' in pinfo:
        cov['coqchk_tail'] = pinfo['coqchk']
    for pb in pinfo['problems']:
        rep.violation('proof obligation no longer checks: ' + pb, {'theorem_or_check': pb}, nofail=True)

    # ---- exhaustive closure over a small key universe
    nkeys = 6 if tier == 'quick' else 7
    exp_ops = splaygen.expansion_ops(nkeys)
    probes = splaygen.probe_ops(nkeys)
    seen = {'.': []}           # shape -> witness history
    frontier = ['.']
    transitions = 0
    all_lines = {}             # id -> ops (list of strings)
    while frontier:
        lines = []
        meta = []
        for sh in frontier:
            w = seen[sh]
            for o in exp_ops:
                cid = 't%d' % (len(all_lines) + len(lines))
                ops = w + [o, 'dbg']
                lines.append('splay %s %s' % (cid, ' '.join(ops)))
                meta.append((cid, ops))
        outs = engine.run_lines(engine.MODEL, lines, timeout=600)
        nxt = []
        for (cid, ops), out in zip(meta, outs):
            all_lines[cid] = ops
            transitions += 1
            toks = split_outs(engine.payload(out))
            sh = toks[-1]
            if sh not in seen:
                seen[sh] = ops[:-1]
                nxt.append(sh)
        frontier = nxt
    rep.log('reachable trees over %d keys: %d, transitions %d' % (nkeys, len(seen), transitions))
    # every probe on every reachable tree
    for sh, w in seen.items():
        for o in probes:
            cid = 'p%d' % len(all_lines)
            all_lines[cid] = w + [o, 'dbg']
    ids = list(all_lines)
    lines = ['splay %s %s' % (cid, ' '.join(all_lines[cid])) for cid in ids]
    impl, model = run_both(lines)
    mism = [(cid, a, b) for cid, a, b in zip(ids, impl, model) if a != b]
    cov['states'] = len(seen)
    cov['transitions'] = transitions
    cov['exhaustive'] = True
    cov['exhaustive_key_universe'] = nkeys
    cov['exhaustive_histories_compared'] = len(lines)

    # ---- random long histories
    nh, steps = (200, 500) if tier == 'quick' else (3000, 3000)
    rlines = {}
    for i in range(nh):
        nk = rng.choice([3, 8, 20, 60])
        rlines['r%d' % i] = splaygen.random_history(rng, steps, nk)
    rids = list(rlines)
    impl2, model2 = run_both(['splay %s %s' % (cid, ' '.join(rlines[cid])) for cid in rids])
    mism += [(cid, a, b) for cid, a, b in zip(rids, impl2, model2) if a != b]
    all_lines.update(rlines)
    cov['random_histories'] = nh
    cov['random_history_steps'] = steps
    cov['traces_validated_against_impl'] = len(lines) + nh
    cov['evaluations'] = len(lines) + nh
    cov['distinct_nontrivial'] = len(seen) - 1 + nh
    cov['rule'] = ('exhaustive: every tree shape reachable from the empty map over keys 0..%d (breadth-first closure under '
                   'insert/remove/get/next/prev with in-range and out-of-range keys), every API operation applied to each; '
                   'random: histories over universes of 3..60 keys with all operations incl. mixed-direction consuming '
                   'iteration, extend, clear and references held across lookups; distinct_nontrivial = distinct non-empty '
                   'reachable shapes + random histories' % (nkeys - 1))
    cov['samples'] = [' '.join(all_lines[ids[len(ids) // 2]]), ' '.join(rlines[rids[0]][:40]) + ' ...']
    cov['trusted_base'] = [
        'Coq 8.16.1 kernel (coqc; coqchk in the thorough tier); no axioms: every C17 theorem is closed under the global context',
        'hand-written model coq/theories/Splay.v tied to lib/src/splay by this correspondence (values, len, iteration, Debug shape)',
        'extraction: ExtrOcamlBasic + ExtrOcamlZBigInt (splay code uses no integers besides node ids)',
        'unsafe code / address stability of boxed nodes: observed through a held reference (stab), not proved',
    ]

    # ---- verdict
    value_mism = []
    shape_mism = []
    for cid, a, b in mism:
        ops = all_lines[cid]
        if values_only(ops, engine.payload(a)) != values_only(ops, engine.payload(b)):
            value_mism.append((cid, a, b))
        else:
            shape_mism.append((cid, a, b))
    cov['disagreements_checked'] = len(mism)
    if value_mism:
        cid, a, b = min(value_mism, key=lambda m: len(all_lines[m[0]]))
        ops = all_lines[cid]

        def fails(cand):
            i, m = run_both(['splay x %s' % ' '.join(cand)])
            return values_only(cand, engine.payload(i[0])) != values_only(cand, engine.payload(m[0]))
        small = shrink_list(ops, fails)
        i, m = run_both(['splay x %s' % ' '.join(small)])
        rep.violation('splay map answers differ from the sorted-map reference (model proved equal to it)',
                      {'history': ' '.join(small), 'implementation': engine.payload(i[0]),
                       'reference(model)': engine.payload(m[0]), 'mismatching_histories': len(value_mism),
                       'replay_cmd': "echo 'splay x %s' | harness/target/release/vh" % ' '.join(small)})
    elif shape_mism:
        cid, a, b = shape_mism[0]
        rep.violation('correspondence Splay.v <-> lib/src/splay broken on tree shapes only; all %d compared histories '
                      'still return the reference answers' % cov['evaluations'],
                      {'correspondence': 'Splay.go / lib/src/splay/tree.rs::splay (Debug shape)',
                       'history': ' '.join(all_lines[cid]), 'implementation': engine.payload(a), 'model': engine.payload(b),
                       'shape_mismatches': len(shape_mism)}, nofail=True)
