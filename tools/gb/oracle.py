"""Region laws decided for every point of the plane: first by the verified exact checker
(coq/theories/Scene.v, extracted), and - only for results with rounded coordinates - by the tolerant
Python oracle."""
from . import boolcheck as bc
from . import engine, fmt, tolslab


def region_tok(reg, prec):
    kind, v = reg
    return bc.enc_eo_region(v, prec) if kind == 'E' else bc.enc_mp_region(v, prec)


def exact_batch(items):
    """items: list of (id, regions, law, prec) -> {id: 'true'|'false'|...}"""
    lines = [fmt.scene_line(i, 64, law.tok(), [region_tok(r, prec) for r in regs]) for (i, regs, law, prec) in items]
    return bc.run_scenes(lines)


def tolerant(regions, law, tol, input_idx):
    return tolslab.check(regions, lambda m: law.ev(m), tol, input_idx)


def magnitude(*operands):
    return max([1.0] + [abs(float(v)) for o in operands for r in fmt.rings_of_operand(o) for p in r for v in p])
