"""C02 — result rings are grouped into a valid polygon set (holes, nesting, disjointness)."""
import random
from fractions import Fraction as F

from . import boolcheck as bc
from . import c01, campaign, fmt, laws, oracle

LEVEL = 'proof'
PID = 'C02'
WEIGHTS = {'rect': 0.2, 'oct': 0.3, 'share': 0.25, 'selfop': 0.1, 'lat': 0.05, 'gp': 0.07, 'degen': 0.03, 'boxes': 0.06, 'straddle': 0.04, 'abut': 0.2, 'punch': 0.12, 'tjo': 0.08, 'vtj': 0.05, 'frameslab': 0.15}


def structure_scene(mp):
    """regions: 0 = polygon reading of R, then one even-odd region per ring; the law of C02"""
    regions = [('Y', mp)]
    idx = []
    k = 1
    for p in mp:
        tags = []
        for r in p:
            regions.append(('E', [r]))
            tags.append(k)
            k += 1
        idx.append(tags)
    clauses = {}
    clauses['reading'] = laws.Eq(laws.In(0), laws._fold('xor', laws.Fa, [laws.In(t) for tags in idx for t in tags]))
    clauses['hole_in_exterior'] = laws.And(*[laws.Imp(laws.In(h), laws.In(tags[0])) for tags in idx for h in tags[1:]])
    clauses['holes_disjoint'] = laws.And(*[laws.Not(laws.And(laws.In(a), laws.In(b)))
                                           for tags in idx for i, a in enumerate(tags[1:]) for b in tags[2 + i:]])
    inpoly = [laws.And(laws.In(tags[0]), *[laws.Not(laws.In(h)) for h in tags[1:]]) for tags in idx]
    clauses['polygons_disjoint'] = laws.And(*[laws.Not(laws.And(a, b)) for i, a in enumerate(inpoly) for b in inpoly[i + 1:]])
    return regions, clauses


def shared_boundary(mp):
    """exact: two result edges (of any rings, or of one ring) overlap in more than a point"""
    segs = []
    for p in mp:
        for r in p:
            rr = fmt.strip_closing([(F(x), F(y)) for (x, y) in r])
            n = len(rr)
            segs += [(rr[i], rr[(i + 1) % n]) for i in range(n) if rr[i] != rr[(i + 1) % n]]
    for i, (a, b) in enumerate(segs):
        for (c, d) in segs[i + 1:]:
            if (b[0] - a[0]) * (c[1] - a[1]) - (b[1] - a[1]) * (c[0] - a[0]) != 0:
                continue
            if (b[0] - a[0]) * (d[1] - a[1]) - (b[1] - a[1]) * (d[0] - a[0]) != 0:
                continue
            lo = max(min(a, b), min(c, d))
            hi = min(max(a, b), max(c, d))
            if lo < hi:
                return ((float(a[0]), float(a[1])), (float(b[0]), float(b[1])), (float(c[0]), float(c[1])), (float(d[0]), float(d[1])))
    return None


CERT_COUNTS = {'evaluated': 0, 'accepted': 0}


def assess(cases, outs):
    """fills o.status for the structure property"""
    items = []
    scenes = {}
    for c in cases:
        o = outs[c.cid]
        if o.impl[0] != 'ok':
            o.status = 'fail-outcome'
            o.detail = '%s %s' % o.impl
            continue
        regs, clauses = structure_scene(o.impl[1])
        scenes[c.cid] = (regs, clauses)
        items.append((c.cid, regs, laws.And(*clauses.values()), c.prec))
    ex = oracle.exact_batch(items)
    # the verified certificate (coq/theories/Cert02Edges.v) on the implementation's own result: no two result edges share more
    # than a point
    from . import engine
    okc = [c for c in cases if outs[c.cid].status != 'fail-outcome']
    nl = ['noshare %s %d %s' % (c.cid, c.prec, ' '.join([str(len(outs[c.cid].impl[1]))] + [fmt.enc_polygon(pl, c.prec) for pl in outs[c.cid].impl[1]]))
          for c in okc]
    nres = engine.run_lines(engine.MODEL, nl, timeout=1800)
    noshare = {c.cid: (engine.payload(a).strip() if a.startswith('noshare') else '?') for c, a in zip(okc, nres)}
    CERT_COUNTS['evaluated'] += len(nl)
    CERT_COUNTS['accepted'] += sum(1 for v in noshare.values() if v == '1')
    for c in cases:
        o = outs[c.cid]
        if o.status == 'fail-outcome':
            continue
        regs, clauses = scenes[c.cid]
        sb = shared_boundary(o.impl[1])
        if sb is None and noshare.get(c.cid) != '1':
            sb = 'the verified certificate Cert02Edges.no_shared_boundary answers %s' % noshare.get(c.cid)
        if ex.get(c.cid) == 'true' and sb is None:
            o.status = 'exact-pass'
            continue
        bad = []
        if sb is not None:
            bad.append('boundary piece used twice: %s' % (sb,))
        if ex.get(c.cid) != 'true':
            # which clause, and is it only a rounding sliver?
            tol = (1e-9 if c.prec == 64 else 1e-4) * oracle.magnitude(c.lhs, c.rhs)
            inputs = [('E', fmt.rings_of_operand(c.lhs) + fmt.rings_of_operand(c.rhs))]
            for name, law in clauses.items():
                ok, exempt, where = oracle.tolerant(regs + inputs, law, tol, (len(regs),))
                if not ok:
                    bad.append('%s fails at %s' % (name, where))
        if bad:
            o.status = 'fail-region'
            o.detail = '; '.join(bad)
        else:
            o.status = 'tolerant-pass'


def run(rep, tier, seed):
    rng = random.Random(seed)
    c01.proof_part(rep, PID, tier)
    npairs = 300 if tier == 'quick' else 6000
    cases = campaign.make_cases(rng, npairs, WEIGHTS)
    # nested wedges with a common apex (a hole touching its exterior ring, an island touching its hole, in their common
    # extreme vertex); own generator state, so that the cases above do not depend on this batch
    cases += campaign.make_cases(random.Random(seed + 7919), max(20, npairs // 10), {'wedge': 1.0}, prefix='w')
    rep.log('%d cases' % len(cases))
    outs = {c.cid: campaign.Outcome(c) for c in cases}
    impl = bc.run_impl(cases)
    model = bc.run_model(cases)
    for c in cases:
        o = outs[c.cid]
        o.impl, o.model = impl[c.cid], model[c.cid]
        o.corr = bc.same_result(o.impl, o.model)
    assess(cases, outs)
    # exact-class flag for the failures (needed for the attribution of known findings)
    failing = [c for c in cases if outs[c.cid].status in ('fail-region', 'fail-outcome')]
    if failing:
        q = bc.run_model_q(failing)
        for c in failing:
            if q[c.cid][0] == 'ok' and outs[c.cid].impl[0] == 'ok':
                outs[c.cid].exactq = bc.exact_equal(outs[c.cid].impl[1], q[c.cid][1])
    cnt, fails, corr_bad = c01.judge(rep, PID, outs)
    rep.log('outcomes', cnt)
    c01.fill_coverage(rep, cases, outs, cnt, 'Pass = the verified exact checker accepts, for every point of the plane, the law '
                      '"polygon reading = even-odd reading of all rings, every hole inside its exterior, holes of one polygon '
                      'pairwise disjoint, polygons pairwise interior-disjoint", and no two result edges overlap (verified certificate Cert02Edges.no_shared_boundary, doubled by exact Python).')
    rep.coverage['no_shared_boundary_certificates'] = dict(CERT_COUNTS)
    rep.coverage['trusted_base'] = c01.TRUSTED + ['the shared-boundary test (two result edges overlapping) is the Coq-verified certificate Cert02Edges.no_shared_boundary, doubled by exact rational Python code']

    def refail(c):
        o = campaign.Outcome(c)
        o.impl = bc.run_impl([c])[c.cid]
        o.model = o.impl
        assess([c], {c.cid: o})
        return o.status in ('fail-region', 'fail-outcome')
    c01.report_failures(rep, PID, fails, corr_bad, refail=refail)
