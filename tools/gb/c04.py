"""C04 — output geometry comes from the inputs: no invented edges, vertices or slivers."""
import random
from fractions import Fraction as F

from . import boolcheck as bc
from . import c01, c13, campaign, fmt, gen, relcheck, segs
from .tolslab import _dist2_seg

LEVEL = 'proof'
PID = 'C04'
WEIGHTS = {'rect': 0.2, 'oct': 0.3, 'share': 0.15, 'lat': 0.1, 'gp': 0.2, 'degen': 0.05, 'boxes': 0.12, 'sliver': 0.05, 'straddle': 0.05, 'punch': 0.3, 'abut': 0.1, 'tjo': 0.08, 'selfop': 0.12, 'vtj': 0.15}


def boxes_disjoint(c):
    ea, eb = c13.input_edges(c.lhs), c13.input_edges(c.rhs)
    if not ea or not eb:
        return True

    def box(es):
        return (min(p[0] for p, _ in es), min(p[1] for p, _ in es), max(p[0] for p, _ in es), max(p[1] for p, _ in es))
    s, k = box(ea), box(eb)
    return s[0] > k[2] or k[0] > s[2] or s[1] > k[3] or k[1] > s[3]


def judge(c, mp, exact):
    bad = []
    edges = [(segs.fr(p), segs.fr(q)) for (p, q) in c13.input_edges(c.lhs) + c13.input_edges(c.rhs)]
    verts = {p for (p, q) in edges} | {q for (p, q) in edges}
    mag = max([1.0] + [abs(float(v)) for (p, q) in edges for v in p])
    tol = F((1e-9 if c.prec == 64 else 1e-4) * mag)
    trivial = boxes_disjoint(c)
    if trivial:
        # handed back by the bounding-box shortcut: the rings must literally be the operands' rings (closed)
        from .relprops import closed
        a, b = closed(fmt.polys_of(c.lhs)), closed(fmt.polys_of(c.rhs))
        want = {'I': [], 'D': a, 'U': a + b, 'X': a + b}[c.op]
        if [[[tuple(p) for p in r] for r in pl] for pl in mp] != [[[tuple(p) for p in r] for r in pl] for pl in want]:
            bad.append('operands with disjoint bounding boxes: the result is not the trivial combination of the given polygons')
        return bad
    crossings = None
    for pi, poly in enumerate(mp):
        for ri, r in enumerate(poly):
            if len(r) < 4 or r[0] != r[-1]:
                bad.append('ring %d.%d is not closed or has fewer than 3 vertices (%d points)' % (pi, ri, len(r)))
                continue
            rr = [segs.fr(p) for p in r[:-1]]
            if len(set(rr)) < 3:
                bad.append('ring %d.%d has fewer than 3 distinct vertices' % (pi, ri))
            a2 = fmt.area2_ring(r)
            if a2 == 0:
                bad.append('ring %d.%d has zero area' % (pi, ri))
            if not trivial and a2 < 0:
                bad.append('assembled ring %d.%d is clockwise' % (pi, ri))
            n = len(rr)
            for i in range(n):
                a, b = rr[i], rr[(i + 1) % n]
                if a == b:
                    bad.append('ring %d.%d repeats vertex %s' % (pi, ri, (float(a[0]), float(a[1]))))
                    continue
                if exact:
                    if not any(segs.orient(p, q, a) == 0 and segs.orient(p, q, b) == 0 and segs.inbox(p, q, a) and segs.inbox(p, q, b)
                               for (p, q) in edges):
                        bad.append('edge %s-%s of ring %d.%d lies on no input edge' % (fl(a), fl(b), pi, ri))
                else:
                    if not any(_dist2_seg(a, p, q) <= tol * tol and _dist2_seg(b, p, q) <= tol * tol for (p, q) in edges):
                        bad.append('edge %s-%s of ring %d.%d is not within the tolerance of any single input edge' % (fl(a), fl(b), pi, ri))
                # vertex provenance
                if a in verts:
                    continue
                if crossings is None:
                    crossings = all_crossings(edges)
                if exact:
                    if a not in crossings:
                        bad.append('vertex %s of ring %d.%d is neither an input vertex nor the exact intersection of two input edges' % (fl(a), pi, ri))
                else:
                    if not any(abs(a[0] - x[0]) <= tol and abs(a[1] - x[1]) <= tol for x in crossings):
                        bad.append('vertex %s of ring %d.%d is neither an input vertex nor within the tolerance of an intersection of two input edges' % (fl(a), pi, ri))
            if len(bad) > 6:
                return bad
    return bad


def all_crossings(edges):
    out = set()
    for i, (a, b) in enumerate(edges):
        for (c, d) in edges[i + 1:]:
            cl = segs.classify(a, b, c, d)
            if cl[0] == 'point':
                out.add(cl[1])
            elif cl[0] == 'overlap':
                out.add(cl[1])
                out.add(cl[2])
    return out


def fl(p):
    return (float(p[0]), float(p[1]))


def run(rep, tier, seed):
    rng = random.Random(seed)
    c01.proof_part(rep, PID, tier)
    npairs = 250 if tier == 'quick' else 5000
    cases = campaign.make_cases(rng, npairs, WEIGHTS)
    # results with three or more rings that start in one vertex (fans), and nested rings that start in one vertex (wedges);
    # own generator state, so that the cases above do not depend on this batch
    cases += campaign.make_cases(random.Random(seed + 7907), max(16, npairs // 12), {'fanout': 0.6, 'wedge': 0.4}, prefix='f')
    impl, model, corr = relcheck.run_all(cases)
    exact = relcheck.exact_flags(cases, impl)
    outs = {}
    for c in cases:
        o = campaign.Outcome(c)
        o.impl, o.model, o.corr, o.exactq = impl[c.cid], model[c.cid], corr[c.cid], exact.get(c.cid)
        if o.impl[0] != 'ok':
            o.status = 'fail-outcome'
            o.detail = '%s %s' % o.impl
        else:
            bad = judge(c, o.impl[1], bool(o.exactq))
            o.status = 'fail-region' if bad else ('exact-pass' if o.exactq else 'tolerant-pass')
            o.detail = '; '.join(bad[:4])
        outs[c.cid] = o
    # the verified certificate (coq/theories/Cert04.v) on the implementation's own result, exact runs that were assembled by
    # the operation (not handed back by the bounding-box shortcut)
    from . import engine
    cl, cc = [], []
    for c in cases:
        o = outs[c.cid]
        if o.impl[0] == 'ok' and o.exactq and not boxes_disjoint(c):
            es = [(p, q, 1) for (p, q) in c13.input_edges(c.lhs)] + [(p, q, 0) for (p, q) in c13.input_edges(c.rhs)]
            etok = ' '.join('%s %s %s %s %d' % (fmt.hx(p[0], c.prec), fmt.hx(p[1], c.prec), fmt.hx(q[0], c.prec), fmt.hx(q[1], c.prec), s)
                            for (p, q, s) in es)
            mtok = ' '.join([str(len(o.impl[1]))] + [fmt.enc_polygon(pl, c.prec) for pl in o.impl[1]])
            cl.append('cert04 %s %d 1 %d %s %s' % (c.cid, c.prec, len(es), etok, mtok))
            cc.append(c)
    cres = engine.run_lines(engine.MODEL, cl, timeout=1800)
    ncert = {'evaluated': len(cl), 'accepted': 0, 'rejected': 0}
    for c, ans in zip(cc, cres):
        v = engine.payload(ans).strip() if ans.startswith('cert04') else '?'
        if v == '1':
            ncert['accepted'] += 1
        else:
            ncert['rejected'] += 1
            o = outs[c.cid]
            if o.status != 'fail-region':
                o.status = 'fail-region'
                o.detail = 'the verified certificate Cert04.cert04 rejects the result (%s)' % v
    rep.coverage['cert04'] = ncert
    cnt, fails, corr_bad = c01.judge(rep, PID, outs)
    rep.log('outcomes', cnt)
    c01.fill_coverage(rep, cases, outs, cnt, 'Every edge of every result ring must lie on an input edge and every vertex must be an input '
                      'vertex or the intersection of two input edges: exactly (rational arithmetic) when the float run denotes the exact-'
                      'arithmetic run (exact-pass), within 1e-9 x magnitude otherwise (tolerant-pass); rings closed, >= 3 distinct vertices, '
                      'non-zero exact area, counter-clockwise unless handed back by the bounding-box shortcut.')
    rep.coverage['trusted_base'] = c01.TRUSTED + ['the provenance test on exact runs is the Coq-verified certificate Cert04.cert04 (doubled by exact rational Python code, which alone judges rounded runs); exactness of intersection points at the exact '
                                                 'instance and the clamp are Coq theorems (Properties/C04.v)']

    def refail(c):
        r = bc.run_impl([c])[c.cid]
        if r[0] != 'ok':
            return True
        q = bc.run_model_q([c])[c.cid]
        ex = q[0] == 'ok' and bc.exact_equal(r[1], q[1])
        return bool(judge(c, r[1], ex))
    if fails:
        o = min(fails, key=lambda o: o.case.n_edges())
        small = bc.shrink_case(o.case, refail)
        r = bc.run_impl([small])[small.cid]
        rep.violation('C04: %s (%d failing cases)' % (o.detail[:300], len(fails)),
                      {'case': small.to_json(), 'implementation': repr(r)[:2000], 'original_case': o.case.to_json(),
                       'replay_cmd': "printf '%%s\\n' '%s' | harness/target/release/vh" % small.line()})
    else:
        c01.report_failures(rep, PID, [], corr_bad)
