"""C15 — the event order and the segment order are consistent orderings."""
import random

from . import boolcheck as bc
from . import c01, campaign, engine, fmt, gen, segs

LEVEL = 'proof'
PID = 'C15'
WEIGHTS = {'rect': 0.25, 'oct': 0.3, 'share': 0.15, 'lat': 0.15, 'gp': 0.15, 'fan': 0.05, 'boxes': 0.05, 'degen': 0.06, 'tjo': 0.08, 'abut': 0.05}


def pair_line(cid, s1, s2, subj1, subj2, c1=1, c2=2, prec=64):
    h = lambda p: '%s %s' % (fmt.hx(p[0], prec), fmt.hx(p[1], prec))  # noqa: E731
    return 'pair %s %d %s %s %d %d %s %s %d %d' % (cid, prec, h(s1[0]), h(s1[1]), subj1, c1, h(s2[0]), h(s2[1]), subj2, c2)


def _nudge(x, k, prec):
    """k units in the last place of the format"""
    import math
    import struct
    if prec == 64:
        for _ in range(abs(k)):
            x = math.nextafter(x, math.inf if k > 0 else -math.inf)
        return x
    b = struct.unpack('>i', struct.pack('>f', x))[0]
    if x == 0.0:
        return x
    b += k if b >= 0 else -k
    return struct.unpack('>f', struct.pack('>i', b))[0]


def float_pairs(rng, n, prec):
    """segment pairs outside the small lattice: signed zeros, mixed magnitudes, nearly collinear points (a few units in
    the last place off a slanted line), long thin slivers; every coordinate exactly representable in the format"""
    R = fmt.to_f32 if prec == 32 else (lambda v: v)
    big = [5e6, 3e4, 1024.0, 8388607.0] if prec == 32 else [5e6, 1e12, 4503599627370495.0, 3e4]
    out = []
    while len(out) < n:
        kind = rng.choice(['zero', 'zero', 'near', 'near', 'adv', 'adv', 'adv', 'sliver', 'rand'])
        if kind == 'adv':
            # a point a few units in the last place off a slanted segment for which the plain determinant has the wrong sign
            adv = gen.adversarial_corner(rng, prec, 300)
            if not adv:
                continue
            a, b, c = adv
            f = rng.choice(gen._SYM8)
            a, b, c = f(*a), f(*b), f(*c)
            q = (R(c[0] + rng.uniform(-60, 60)), R(c[1] + rng.uniform(-60, 60)))
            pts = [a, b, c, q]
        elif kind == 'zero':
            vals = [-0.0, 0.0, 1.0, -1.0, 2.0, -2.0]
            pts = [(rng.choice(vals), rng.choice(vals)) for _ in range(4)]
        elif kind == 'near':
            m = rng.choice(big)
            a = (R(rng.uniform(-1, 1) * rng.choice([1.0, m])), R(rng.uniform(-1, 1) * rng.choice([1.0, m])))
            b = (R(a[0] + rng.uniform(0.1, 1) * m), R(a[1] + rng.uniform(-1, 1) * rng.choice([1.0, m])))
            t = rng.choice([0.0, 1.0, rng.random(), rng.random(), 0.75, 0.5])
            px, py = R(a[0] + t * (b[0] - a[0])), R(a[1] + t * (b[1] - a[1]))
            py = _nudge(py, rng.randrange(-3, 4), prec)
            q = (R(px + rng.uniform(-1, 1) * rng.choice([1.0, m])), R(py + rng.uniform(-1, 1) * rng.choice([1.0, m])))
            pts = [a, b, (px, py), q]
        elif kind == 'sliver':
            w = float(2 ** rng.randrange(8, 22 if prec == 32 else 40))
            h = float(rng.choice([1, 2, 3, 4]))
            x0, y0 = float(rng.randrange(-4, 5)), float(rng.randrange(-4, 5))
            a, b = (x0, y0), (x0 + w, y0 + h)
            c = (x0 + rng.choice([0.0, w / 2, -w / 2]), y0 + float(rng.randrange(-2, 5)))
            d = (c[0] + w * rng.choice([1.0, 0.5, 1.5]), c[1] + float(rng.randrange(-3, 4)))
            pts = [a, b, c, d]
        else:
            pts = [(R(rng.uniform(-10, 10)), R(rng.uniform(-10, 10))) for _ in range(4)]
        pts = [(R(x), R(y)) for (x, y) in pts]
        if pts[0] == pts[1] or pts[2] == pts[3] or lr((pts[0], pts[1])) == lr((pts[2], pts[3])):
            continue
        out.append(((pts[0], pts[1]), (pts[2], pts[3]), *rng.choice([(1, 0), (0, 1), (1, 1)])))
    return out


def lr(s):
    p, q = s
    return (p, q) if p < q else (q, p)


def stacked_verticals(a, b, c, d):
    """known finding N4: two vertical segments on one line x = const with disjoint (or merely touching) y-ranges"""
    return a[0] == b[0] == c[0] == d[0] and (max(a[1], b[1]) <= min(c[1], d[1]) or max(c[1], d[1]) <= min(a[1], b[1]))


def judge_pair(s1, s2, subj1, subj2, ans):
    """clauses on one lattice pair; ans = 'XXXXXXXX YYYY' (see driver cmd_pair)"""
    bad = []
    ev, sg = ans.split()
    (a, b), (c, d) = lr(s1), lr(s2)
    # event order: never Equal, antisymmetric, lexicographic by x then y, right before left at one point
    cl0 = segs.classify(a, b, c, d)
    improper = (subj1 == subj2 and cl0[0] == 'overlap')   # overlapping collinear segments of ONE operand: not a valid input
    pairs = [(ev[0], ev[1], a, c, True, True), (ev[2], ev[3], b, d, False, False), (ev[4], ev[5], a, d, True, False), (ev[6], ev[7], b, c, False, True)]
    for (x, y, p, q, lp, lq) in pairs:
        if 'E' in (x, y):
            bad.append('event order returns Equal for distinct events at %s / %s' % (p, q))
        if x == y and not (improper and p == q and lp == lq):
            bad.append('event order not antisymmetric at %s / %s: %s%s' % (p, q, x, y))
        # 'G' = Greater = processed earlier
        if p != q:
            want = 'G' if p < q else 'L'
            if x != want:
                bad.append('event order not lexicographic: %s vs %s gives %s' % (p, q, x))
        elif lp != lq:
            want = 'G' if not lp else 'L'
            if x != want:
                bad.append('right event not before left event at %s' % (p,))
    # segment order
    if sg[2] != 'E' or sg[3] != 'E':
        bad.append('segment order of a segment with itself is not Equal')
    if 'E' in sg[:2]:
        bad.append('segment order Equal for two different segments')
    cl = segs.classify(a, b, c, d)
    documented_gap = (subj1 == subj2 and cl[0] == 'overlap')       # collinear overlapping segments of one operand
    if sg[0] == sg[1] and not documented_gap:
        bad.append('segment order not antisymmetric: %s%s' % (sg[0], sg[1]))
    crossing = cl[0] == 'point' and segs.interior(a, b, cl[1]) and segs.interior(c, d, cl[1])
    if not crossing and cl[0] != 'overlap':
        vo = segs.vertical_order(a, b, c, d)
        if vo in (-1, 1):
            want = 'L' if vo == -1 else 'G'
            if sg[0] != want:
                bad.append(('N4 ' if stacked_verticals(a, b, c, d) else '') +
                           'segment order %s disagrees with the vertical order (%s)' % (sg[0], 'below' if vo == -1 else 'above'))
    return bad


def parse_orders(payload):
    if not payload.startswith('ok '):
        return None
    parts = payload[3:].split(' | ')
    head = parts[0].split(' ', 1)
    n = int(head[0])
    evs = []
    if n:
        for s in head[1].split(' ; '):
            a = s.split()
            p = (fmt.unhx(a[0]), fmt.unhx(a[1]))
            o = None if a[2] == '~' else (fmt.unhx(a[2]), fmt.unhx(a[3]))
            evs.append({'p': p, 'o': o, 'left': a[4] == '1', 'subj': a[5] == '1', 'cid': int(a[6])})
    m1 = parts[1].strip()
    tail = parts[2].split()
    m = int(tail[0])
    m2 = tail[1] if len(tail) > 1 else ''
    return n, evs, m1, m, m2


def judge_orders(evs, n, m1, m, m2, exact, max_triples=70, n4=None):
    bad = []
    n4 = n4 if n4 is not None else [0]
    for i in range(n):
        for j in range(n):
            c = m1[i * n + j]
            if i == j:
                continue
            if c == 'E':
                bad.append('event order Equal for distinct events %d,%d' % (i, j))
            if c == m1[j * n + i]:
                bad.append('event order not antisymmetric for events %d,%d at %s / %s' % (i, j, evs[i]['p'], evs[j]['p']))
            if bad:
                return bad
    if n <= max_triples:
        lt = [[m1[i * n + j] == 'L' for j in range(n)] for i in range(n)]
        for i in range(n):
            for j in range(n):
                if not lt[i][j]:
                    continue
                for k in range(n):
                    if lt[j][k] and not lt[i][k] and i != k:
                        bad.append('event order not transitive on events %d < %d < %d' % (i, j, k))
                        return bad
    lefts = [e for e in evs if e['left']]
    for i in range(m):
        for j in range(m):
            c = m2[i * m + j]
            if (c == 'E') != (i == j):
                bad.append('segment order Equal for different segments / not Equal for the same (%d,%d)' % (i, j))
                return bad
            if i < j and c == m2[j * m + i]:
                a, b, cc, d = lefts[i]['p'], lefts[i]['o'], lefts[j]['p'], lefts[j]['o']
                if not (lefts[i]['subj'] == lefts[j]['subj'] and segs.classify(a, b, cc, d)[0] == 'overlap'):
                    bad.append('segment order not antisymmetric on %s-%s / %s-%s' % (a, b, cc, d))
                    return bad
    if exact:
        for i in range(m):
            for j in range(i + 1, m):
                a, b, cc, d = lefts[i]['p'], lefts[i]['o'], lefts[j]['p'], lefts[j]['o']
                if b is None or d is None:
                    continue
                cl = segs.classify(a, b, cc, d)
                if cl[0] == 'overlap' or (cl[0] == 'point' and segs.interior(a, b, cl[1]) and segs.interior(cc, d, cl[1])):
                    continue
                vo = segs.vertical_order(a, b, cc, d)
                if vo in (-1, 1) and m2[i * m + j] != ('L' if vo == -1 else 'G'):
                    if stacked_verticals(a, b, cc, d):
                        n4[0] += 1
                        continue
                    bad.append('segment order disagrees with the vertical order on %s-%s / %s-%s' % (a, b, cc, d))
                    return bad
    return bad


def run(rep, tier, seed):
    rng = random.Random(seed)
    c01.proof_part(rep, PID, tier)
    cov = rep.coverage
    # ---- exhaustive lattice pairs
    lat = [(float(x), float(y)) for x in range(4) for y in range(4)]
    segments = [(p, q) for p in lat for q in lat if p != q] if tier == 'thorough' else [(p, q) for p in lat for q in lat if p < q]
    jobs = [(s1, s2, a, b) for s1 in segments for s2 in segments if lr(s1) != lr(s2) for (a, b) in ((1, 0), (0, 1), (1, 1))]
    lines = [pair_line('p%d' % i, *j) for i, j in enumerate(jobs)]
    impl = engine.run_lines(engine.impl_bin('r'), lines, timeout=600)
    model = engine.run_lines(engine.MODEL, lines, timeout=1200)
    mism = [(lines[i], impl[i], model[i]) for i in range(len(jobs)) if impl[i] != model[i]]
    fails = []
    n4 = [0]
    for i, j in enumerate(jobs):
        pl = engine.payload(impl[i])
        if pl.startswith('panic') or len(pl.split()) != 2:
            fails.append((lines[i], ['call did not return normally: ' + pl[:100]]))
            continue
        bad = judge_pair(j[0], j[1], j[2], j[3], pl)
        if bad and all(b.startswith('N4 ') for b in bad):
            n4[0] += 1
            rep.known_finding('N4', 'segments %s / %s' % (j[0], j[1]))
        elif bad:
            fails.append((lines[i], bad))
    rep.log('%d lattice pairs: %d failing, %d model mismatches' % (len(jobs), len(fails), len(mism)))
    # ---- float pairs (f64 and f32): signed zeros, mixed magnitudes, nearly collinear points, slivers
    nfl = 1500 if tier == 'quick' else 40000
    fl_total = 0
    fl_n1 = 0
    for prec in (64, 32):
        fj = float_pairs(rng, nfl, prec)
        fl = [pair_line('f%d_%d' % (prec, i), j[0], j[1], j[2], j[3], prec=prec) for i, j in enumerate(fj)]
        fi = engine.run_lines(engine.impl_bin('r'), fl, timeout=600)
        fm = engine.run_lines(engine.MODEL, fl, timeout=1800)
        fl_total += len(fl)
        mism += [(fl[i], fi[i], fm[i]) for i in range(len(fl)) if fi[i] != fm[i]]
        for i, j in enumerate(fj):
            pl = engine.payload(fi[i])
            if pl.startswith('panic') or len(pl.split()) != 2:
                fails.append((fl[i], ['call did not return normally: ' + pl[:100]]))
                continue
            bad = judge_pair(j[0], j[1], j[2], j[3], pl)
            if bad and all(b.startswith('N4 ') for b in bad):
                n4[0] += 1
            elif bad and fi[i] == fm[i] and all('vertical order' in b for b in bad):
                # compare_segments consults the ROUNDED intersection point in its crossing branch: outside the exact class
                # its agreement with the vertical order is finding N1 (the bit-exact model reproduces the answer)
                fl_n1 += 1
                rep.known_finding('N1', 'float pair %s: %s' % (fl[i][:120], bad[0][:80]))
            elif bad:
                fails.append((fl[i], ['f%d: %s' % (prec, bad[0])] + bad[1:]))
    rep.log('%d float pairs: %d failing so far, %d model mismatches so far' % (fl_total, len(fails), len(mism)))
    cov['float_pairs'] = fl_total
    cov['float_pairs_vertical_order_off_reproduced_by_model_N1'] = fl_n1
    # ---- event sets of valid operands, before and after subdivision
    npairs = 100 if tier == 'quick' else 2500
    cases = [c for c in campaign.make_cases(rng, npairs, WEIGHTS, ops='UI') if c.n_edges() <= (40 if tier == 'quick' else 90)]
    # rings written with consecutively repeated vertices (collapsed edges must not become events)
    for c in list(cases):
        if c.meta.get('pair', 0) % 4 == 2:
            cases.append(bc.Case(c.cid + 'w', c.family, c.prec, c.op, gen.with_repeats(rng, c.lhs), gen.with_repeats(rng, c.rhs),
                                 dict(c.meta, repeats=True)))
    olines, ometa = [], []
    for c in cases:
        for stage in (['q', 's'] if c.op == 'U' else ['s']):
            olines.append('orders %s%s 64 r %d %s %s %s %s' % (c.cid, stage, fmt.budget_for(c.n_edges()), c.op,
                                                              fmt.enc_operand(c.lhs), fmt.enc_operand(c.rhs), stage))
            ometa.append((c, stage))
    oimpl = engine.run_lines(engine.impl_bin('r'), olines, timeout=900)
    omodel = engine.run_lines(engine.MODEL, olines, timeout=3600)
    mism += [(olines[i], oimpl[i][:300], omodel[i][:300]) for i in range(len(olines)) if oimpl[i] != omodel[i]]
    known = 0
    sizes = []
    for i, (c, stage) in enumerate(ometa):
        po = parse_orders(engine.payload(oimpl[i]))
        if po is None:
            continue              # outcome failures are C03's business
        n, evs, m1, m, m2 = po
        sizes.append(n)
        exact = c.family in ('rect', 'oct', 'share', 'boxes', 'fan', 'tjo', 'abut')
        bad = judge_orders(evs, n, m1, m, m2, exact, n4=n4)
        if bad:
            if c.family in ('lat', 'gp', 'straddle') and oimpl[i] == omodel[i] and gen.degenerate_arrangement(c.lhs, c.rhs):
                known += 1
                rep.known_finding('N1', '%s %s: %s' % (c.cid, c.family, bad[0][:150]))
            else:
                fails.append((olines[i], bad))
    rep.log('%d event sets (max %d events): %d failing so far, %d known' % (len(olines), max(sizes or [0]), len(fails), known))
    cov['evaluations'] = len(jobs) + len(olines)
    cov['exhaustive'] = True
    cov['exhaustive_domain'] = 'all ordered pairs of distinct lattice segments with endpoints in {0..3}^2 x 3 operand assignments (%d)' % len(jobs)
    cov['event_sets'] = len(olines)
    cov['n4_stacked_vertical_pairs_seen'] = n4[0]
    cov['event_set_sizes'] = {'max': max(sizes or [0]), 'mean': round(sum(sizes) / max(1, len(sizes)), 1)}
    cov['traces_validated_against_impl'] = len(jobs) + len(olines) - len(mism)
    cov['distinct_nontrivial'] = len(jobs) + sum(1 for s in sizes if s > 8)
    cov['rule'] = ('pairs: Ord::cmp on the four events and compare_segments on the two left events of two fresh segments, both directions; '
                   'event sets: all pairs (and all triples up to 70 events) of the events returned by fill_queue (drained) and by subdivide for '
                   'generated valid operands; vertical-order agreement checked with exact rational geometry on the exact families.')
    cov['samples'] = [lines[11], olines[0][:400]]
    cov['trusted_base'] = c01.TRUSTED + ['reference geometry (vertical order, classification) is exact rational Python code']
    if fails:
        ln, bad = fails[0]
        rep.violation('C15: %s (%d failing)' % (bad[0], len(fails)), {'line': ln[:3000], 'failures': bad[:5],
                                                                   'replay_cmd': "printf '%s\\n' '<line>' | harness/target/release/vh"})
    elif mism:
        ln, a, b = mism[0]
        rep.violation('correspondence Cmp.cmp_events / Cmp.compare_segments <-> Ord::cmp / compare_segments broken on %d input(s); all '
                      'order laws still hold on the implementation\'s answers' % len(mism),
                      {'correspondence': 'coq/theories/Cmp.v', 'line': ln[:3000], 'implementation': a[:600], 'model': b[:600]}, nofail=True)
