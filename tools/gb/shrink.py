"""Generic delta debugging on lists."""


def shrink_list(items, fails, max_rounds=8, max_evals=400):
    """removes chunks, then single elements, while `fails(items)` stays true"""
    items = list(items)
    evals = 0
    n = 2
    while len(items) >= 2 and evals < max_evals:
        chunk = max(1, len(items) // n)
        removed = False
        i = 0
        while i < len(items) and evals < max_evals:
            cand = items[:i] + items[i + chunk:]
            evals += 1
            if cand and fails(cand):
                items = cand
                removed = True
            else:
                i += chunk
        if not removed:
            if chunk == 1:
                break
            n = min(len(items), n * 2)
    return items
