"""Parsing of the intermediate-stage observations (fill_queue, subdivide)."""
from . import fmt


def parse_event(s):
    a = s.split()
    ev = {'p': (fmt.unhx(a[0]), fmt.unhx(a[1])), 'left': a[2] == '1', 'subj': a[3] == '1', 'cid': int(a[4]), 'ext': a[5] == '1'}
    i = 6

    def ref(i):
        if a[i] == '~':
            return None, i + 1
        if a[i].startswith('#'):
            return int(a[i][1:]), i + 1
        return (fmt.unhx(a[i][1:]), fmt.unhx(a[i + 1])), i + 2
    ev['other'], i = ref(i)
    ev['type'], ev['io'], ev['oio'], ev['rt'] = a[i], a[i + 1] == '1', a[i + 2] == '1', a[i + 3]
    ev['pir'], i = ref(i + 4)
    return ev


def parse_subdiv(payload):
    """'ok n | ev ; ev ...' -> list of events, or None"""
    if not payload.startswith('ok '):
        return None
    head, _, rest = payload[3:].partition(' | ')
    n = int(head)
    return [parse_event(x) for x in rest.split(' ; ')] if n else []


def parse_fillq(payload):
    """'sbbox | cbbox | n | events' -> (sbbox, cbbox, events)"""
    parts = payload.split(' | ')
    sb = tuple(fmt.unhx(x) for x in parts[0].split())
    cb = tuple(fmt.unhx(x) for x in parts[1].split())
    n = int(parts[2])
    evs = [parse_event(x) for x in parts[3].split(' ; ')] if n else []
    return sb, cb, evs
