"""C12 — operations are pure and deterministic."""
import os
import random
import re
import subprocess

from . import boolcheck as bc
from . import c01, campaign, engine, fmt

LEVEL = 'other'
PID = 'C12'
WEIGHTS = {'rect': 0.25, 'oct': 0.3, 'share': 0.15, 'lat': 0.1, 'gp': 0.15, 'degen': 0.05, 'selfop': 0.2, 'boxes': 0.05}

AUDIT = [
    (r'\bstatic\s+mut\b', 'static mut'),
    (r'\bthread_local!', 'thread_local'),
    (r'\blazy_static!|\bOnceCell\b|\bOnceLock\b|\bLazyLock\b', 'lazily initialised global'),
    (r'\bstatic\s+\w+\s*:\s*(?:std::sync::)?(?:Mutex|RwLock|Atomic\w+)', 'interior-mutable static'),
    (r'\bInstant::|\bSystemTime::|\brand::|\bRandomState\b.*iter', 'clock or random source'),
    (r'as\s+\*const\s+[^;]*\bas\s+usize|\.as_ptr\(\)\s+as\s+usize|\baddr\(\)', 'pointer-to-integer cast'),
    (r'Rc::as_ptr', 'address of an Rc'),
    (r'\bptr::eq\s*\(|\bptr::addr_eq\s*\(|\.as_ptr\(\)\s*==', 'comparison of addresses (other than Rc::ptr_eq)'),
    (r'\bprocessed\b[^;\n]*\.(iter|drain|into_iter|keys|values)\(|for\s+\w+\s+in\s+&?\s*processed\b', 'iteration over the HashSet `processed`'),
    (r'HashMap\b', 'HashMap (iteration order is randomised)'),
    (r'\{:p\}', 'address formatting'),
]


def strip_guarded(src, attr):
    """removes `attr` and the item / block / statement it guards, keeping line numbers"""
    out = []
    i = 0
    while True:
        k = src.find(attr, i)
        if k < 0:
            out.append(src[i:])
            break
        out.append(src[i:k])
        j = k + len(attr)
        depth = 0
        while j < len(src):
            ch = src[j]
            if ch == '{':
                depth += 1
            elif ch == '}':
                depth -= 1
                if depth == 0:
                    j += 1
                    break
            elif ch == ';' and depth == 0:
                j += 1
                break
            j += 1
        out.append('\n' * src[k:j].count('\n'))
        i = j
    return ''.join(out)


def audit_sources():
    problems = []
    nfiles = 0
    root = os.path.join(engine.REPO, 'lib', 'src')
    for d, _, fs in os.walk(root):
        for f in fs:
            if not f.endswith('.rs') or f == 'verif_hooks.rs':
                continue
            nfiles += 1
            src = open(os.path.join(d, f)).read()
            # drop test modules and code that only exists with the debug-booleanop feature (attribute + the item it guards)
            src = strip_guarded(src, '#[cfg(test)]')
            src = strip_guarded(src, '#[cfg(feature = "debug-booleanop")]')
            lines = src.split('\n')
            for ln, line in enumerate(lines, 1):
                if line.strip().startswith('//'):
                    continue
                for pat, what in AUDIT:
                    if re.search(pat, line):
                        problems.append('%s:%d: %s: %s' % (os.path.relpath(os.path.join(d, f), engine.REPO), ln, what, line.strip()[:120]))
    return problems, nfiles


def run(rep, tier, seed):
    rng = random.Random(seed)
    c01.proof_part(rep, PID, tier)
    cov = rep.coverage
    problems, nfiles = audit_sources()
    npairs = 50 if tier == 'quick' else 400
    cases = [c for c in campaign.make_cases(rng, npairs, WEIGHTS) if c.n_edges() <= 120]
    threads, rounds = (16, 2) if tier == 'quick' else (16, 10)
    inp = '\n'.join(c.line() for c in cases) + '\n'
    p = subprocess.run([engine.impl_bin('r', 'vhmt'), str(threads), str(rounds), str(seed)], input=inp, stdout=subprocess.PIPE,
                       stderr=subprocess.PIPE, text=True, timeout=1800)
    out = p.stdout.splitlines()
    ref = {}
    bad = []
    calls = 0
    for ln in out:
        if ln.startswith('bool '):
            cid, kind, pl = bc.parse(ln)
            ref[cid] = (kind, pl)
        elif ln.startswith('mt '):
            calls = int(re.search(r'calls=(\d+)', ln).group(1))
        elif ln.startswith('mtalias '):
            cov['aliased_operand_calls'] = int(re.search(r'calls=(\d+)', ln).group(1))
        elif ln.startswith('mtbad '):
            bad.append(ln[6:])
    if p.returncode != 0:
        bad.append('vhmt exited with status %d: %s' % (p.returncode, p.stderr[-300:]))
    model = bc.run_model(cases)
    single = bc.run_impl(cases)
    mism = [c for c in cases if not bc.same_result(ref.get(c.cid, ('missing', None)), model[c.cid])]
    differs_from_single = [c for c in cases if ref.get(c.cid) != single[c.cid]]
    cov['explanation'] = ('(i) syntactic audit of lib/src (%d files, test modules and debug-booleanop code excluded): no static mut, thread_local, '
                          'lazily initialised or interior-mutable statics, clocks, random sources, pointer-to-integer casts, address formatting, '
                          'HashMap, or iteration over the HashSet `processed`; (ii) %d calls: %d cases x %d threads x %d rounds in per-thread '
                          'shuffled orders, every result compared with the single-threaded result of the same process, with a fresh process, and '
                          'with the single value of the model; operands re-encoded and compared after every call.' % (nfiles, calls, len(cases), threads, rounds))
    cov['evaluations'] = calls + 2 * len(cases)
    cov['distinct_nontrivial'] = len({c.line() for c in cases if ref.get(c.cid, ('', None))[0] == 'ok' and ref[c.cid][1]})
    cov['threads'] = threads
    cov['rounds'] = rounds
    cov['audit_files'] = nfiles
    cov['traces_validated_against_impl'] = len(cases) - len(mism)
    cov['rule'] = 'cases from the usual families; non-trivial = non-empty result'
    cov['samples'] = [cases[0].line()[:400]]
    cov['obligations'] = cov.get('obligations', 0)
    cov['trusted_base'] = ['data races are excluded by the type system (events live behind Rc, which is !Send): trusted, not checked',
                           'the audit is a regular-expression scan, the thread test is sampling of schedules: neither is a proof']
    rep.log('audit: %d problems; mt: %d calls, %d bad; %d differ from a fresh process; %d differ from the model' % (
        len(problems), calls, len(bad), len(differs_from_single), len(mism)))
    if bad or differs_from_single:
        what = (bad or ['%s: result in the multi-threaded process differs from a fresh single-threaded process' % differs_from_single[0].cid])[0]
        rep.violation('C12: ' + what, {'failures': bad[:20], 'threads': threads, 'rounds': rounds, 'seed': seed,
                                       'cases_file_lines': [c.line()[:2000] for c in cases[:5]],
                                       'replay_cmd': 'harness/target/release/vhmt %d %d %d < cases' % (threads, rounds, seed)})
    elif problems:
        rep.violation('C12: purity audit no longer passes: %s (no differing result found in %d calls)' % (problems[0], calls),
                      {'theorem_or_check': 'syntactic purity audit of lib/src', 'problems': problems[:20]}, nofail=True)
    elif mism:
        c = mism[0]
        rep.violation('correspondence model <-> implementation broken on %d case(s); all repeated / concurrent calls agree' % len(mism),
                      {'correspondence': 'BoolOp.boolean', 'case': c.to_json(), 'implementation': repr(ref.get(c.cid))[:1000],
                       'model': repr(model[c.cid])[:1000]}, nofail=True)
