"""Exact (rational) geometry of segment pairs: classification of the common part, vertical order."""
from fractions import Fraction as F


def fr(p):
    return (F(p[0]), F(p[1]))


def orient(a, b, c):
    v = (b[0] - a[0]) * (c[1] - a[1]) - (b[1] - a[1]) * (c[0] - a[0])
    return (v > 0) - (v < 0)


def inbox(a, b, c):
    return min(a[0], b[0]) <= c[0] <= max(a[0], b[0]) and min(a[1], b[1]) <= c[1] <= max(a[1], b[1])


def classify(a, b, c, d):
    """common part of the closed segments ab and cd (exact):
    ('none',) | ('point', P) | ('overlap', P, Q) with P < Q lexicographically"""
    a, b, c, d = fr(a), fr(b), fr(c), fr(d)
    o1, o2, o3, o4 = orient(a, b, c), orient(a, b, d), orient(c, d, a), orient(c, d, b)
    if o1 == 0 and o2 == 0:
        lo = max(min(a, b), min(c, d))
        hi = min(max(a, b), max(c, d))
        if lo > hi:
            return ('none',)
        if lo == hi:
            return ('point', lo)
        return ('overlap', lo, hi)
    if o1 != o2 and o3 != o4:
        den = (b[0] - a[0]) * (d[1] - c[1]) - (b[1] - a[1]) * (d[0] - c[0])
        u = ((c[0] - a[0]) * (d[1] - c[1]) - (c[1] - a[1]) * (d[0] - c[0])) / den
        return ('point', (a[0] + u * (b[0] - a[0]), a[1] + u * (b[1] - a[1])))
    for (v, e0, e1, o) in ((c, a, b, o1), (d, a, b, o2), (a, c, d, o3), (b, c, d, o4)):
        if o == 0 and inbox(e0, e1, v):
            return ('point', v)
    return ('none',)


def interior(a, b, p):
    """p lies on the closed segment ab and is none of its endpoints"""
    a, b = fr(a), fr(b)
    return p != a and p != b


def y_at(a, b, x):
    return a[1] + (x - a[0]) * (b[1] - a[1]) / (b[0] - a[0])


def vertical_order(a, b, c, d):
    """for two segments (each given left-to-right in sweep order) that do not cross properly:
    -1 if ab is below cd wherever they are vertically separated, +1 if above, 0 if nowhere separated
    (or their x-extents do not overlap), None if they cross (separated both ways)"""
    a, b, c, d = fr(a), fr(b), fr(c), fr(d)
    lo, hi = max(a[0], c[0]), min(b[0], d[0])
    if lo > hi:
        return 0
    signs = set()
    for x in {lo, hi, (lo + hi) / 2}:
        r1 = (y_at(a, b, x), y_at(a, b, x)) if a[0] != b[0] else (min(a[1], b[1]), max(a[1], b[1]))
        r2 = (y_at(c, d, x), y_at(c, d, x)) if c[0] != d[0] else (min(c[1], d[1]), max(c[1], d[1]))
        if a[0] == b[0] and x != a[0]:
            continue
        if c[0] == d[0] and x != c[0]:
            continue
        if r1[1] < r2[0]:
            signs.add(-1)
        elif r2[1] < r1[0]:
            signs.add(1)
    if len(signs) == 2:
        return None
    return signs.pop() if signs else 0
