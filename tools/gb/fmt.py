"""Encoding of cases for the two executables (see /verif/tools/FORMAT.md).

point = (x, y) Python floats; ring = [point]; polygon = [ring] (ring 0 = exterior);
operand = ('P', polygon) | ('M', [polygon]).  Floats travel as IEEE bit patterns in hex.
"""
import struct
from fractions import Fraction


def hx(x, prec=64):
    if prec == 64:
        return '%016x' % struct.unpack('>Q', struct.pack('>d', x))[0]
    return '%08x' % struct.unpack('>I', struct.pack('>f', x))[0]


def unhx(s):
    if s[0] == 'q':
        n, _, d = s[1:].partition('/')
        return Fraction(int(n), int(d or 1))
    if len(s) == 16:
        return struct.unpack('>d', struct.pack('>Q', int(s, 16)))[0]
    return struct.unpack('>f', struct.pack('>I', int(s, 16)))[0]


def to_f32(x):
    return struct.unpack('>f', struct.pack('>f', x))[0]


def enc_ring(r, prec=64):
    return ' '.join([str(len(r))] + ['%s %s' % (hx(x, prec), hx(y, prec)) for (x, y) in r])


def enc_polygon(p, prec=64):
    return ' '.join([str(len(p))] + [enc_ring(r, prec) for r in p])


def enc_operand(o, prec=64):
    kind, v = o
    if kind == 'P':
        return 'P ' + enc_polygon(v, prec)
    return ' '.join(['M', str(len(v))] + [enc_polygon(p, prec) for p in v])


def polys_of(o):
    kind, v = o
    return [v] if kind == 'P' else list(v)


def rings_of_operand(o):
    return [r for p in polys_of(o) for r in p]


def n_edges(o):
    return sum(max(len(r), 1) for r in rings_of_operand(o))


class Toks:
    def __init__(self, s):
        self.a = s.split()
        self.i = 0

    def next(self):
        s = self.a[self.i]
        self.i += 1
        return s

    def int(self):
        return int(self.next())

    def more(self):
        return self.i < len(self.a)


def dec_ring(t):
    n = t.int()
    return [(unhx(t.next()), unhx(t.next())) for _ in range(n)]


def dec_polygon(t):
    n = t.int()
    return [dec_ring(t) for _ in range(n)]


def dec_multipolygon(t):
    n = t.int()
    return [dec_polygon(t) for _ in range(n)]


def parse_bool_result(line):
    """'bool <id> ok <mp>' | 'bool <id> panic <class>' | 'bool <id> budget' | 'bool <id> hang'
    -> (id, kind, payload) with kind in ok/panic/budget/hang/error"""
    t = Toks(line)
    cmd = t.next()
    cid = t.next()
    kind = t.next()
    if kind == 'ok':
        return cid, 'ok', dec_multipolygon(t)
    if kind == 'panic':
        return cid, 'panic', t.next()
    return cid, kind, None


def budget_for(n):
    """event budget: the fixed quadratic polynomial of C03"""
    return 4 * n * n + 2 * n + 16


def bool_line(cid, prec, profile, op, lhs, rhs, budget=None):
    if budget is None:
        budget = budget_for(n_edges(lhs) + n_edges(rhs))
    return 'bool %s %d %s %d %s %s %s' % (cid, prec, profile, budget, op, enc_operand(lhs, prec), enc_operand(rhs, prec))


def stage_line(cmd, cid, prec, profile, op, lhs, rhs, budget=None):
    if budget is None:
        budget = budget_for(n_edges(lhs) + n_edges(rhs))
    if cmd == 'fillq':
        return 'fillq %s %d %s %s %s' % (cid, prec, op, enc_operand(lhs, prec), enc_operand(rhs, prec))
    return '%s %s %d %s %d %s %s %s' % (cmd, cid, prec, profile, budget, op, enc_operand(lhs, prec), enc_operand(rhs, prec))


# ---------- canonical forms ----------
def strip_closing(r):
    r = list(r)
    if len(r) > 1 and r[0] == r[-1]:
        r = r[:-1]
    return r


def _norm(v):
    return v + 0.0 if isinstance(v, float) else v


def canon_ring(r):
    """rotate to the least vertex (closing point removed); direction kept; -0.0 -> 0.0"""
    r = strip_closing([(_norm(x), _norm(y)) for (x, y) in r])
    if not r:
        return ()
    k = min(range(len(r)), key=lambda i: (r[i], r[(i + 1) % len(r)]))
    return tuple(r[k:] + r[:k])


def canon_polygon(p):
    if not p:
        return ((), ())
    return (canon_ring(p[0]), tuple(sorted(canon_ring(h) for h in p[1:])))


def canon_mp(mp):
    return tuple(sorted(canon_polygon(p) for p in mp))


def mp_to_fractions(mp):
    return [[[(Fraction(x), Fraction(y)) for (x, y) in r] for r in p] for p in mp]


def frac(x):
    return Fraction(x)


def area2_ring(r):
    """twice the signed area, exact"""
    r = strip_closing(r)
    n = len(r)
    s = Fraction(0)
    for i in range(n):
        (x0, y0), (x1, y1) = r[i], r[(i + 1) % n]
        s += Fraction(x0) * Fraction(y1) - Fraction(x1) * Fraction(y0)
    return s


# ---------- scenes for the exact oracle ----------
def enc_region_eo(rings, prec=64):
    return ' '.join(['E', str(len(rings))] + [enc_ring(r, prec) for r in rings])


def enc_region_poly(mp, prec=64):
    return ' '.join(['Y', str(len(mp))] + [enc_polygon(p, prec) for p in mp])


OPLAW = {'I': 'and', 'U': 'or', 'X': 'xor'}


def law_op(op, a, b):
    if op == 'D':
        return 'and %s not %s' % (a, b)
    return '%s %s %s' % (OPLAW[op], a, b)


def scene_line(cid, prec, law, regions):
    return 'scene %s %d %s ; %d %s' % (cid, prec, law, len(regions), ' '.join(regions))
