"""C13 — after the sweep the edges form a proper planar subdivision of the inputs."""
import math
import random
from fractions import Fraction as F

from . import boolcheck as bc
from . import c01, campaign, engine, fmt, gen, segs, stages

LEVEL = 'proof'
PID = 'C13'
WEIGHTS = {'rect': 0.25, 'oct': 0.3, 'share': 0.2, 'lat': 0.1, 'gp': 0.1, 'degen': 0.05, 'boxes': 0.05, 'straddle': 0.08, 'fan': 0.03, 'tjo': 0.2, 'abut': 0.06, 'punch': 0.05, 'vtj': 0.08}
EXACT = ('rect', 'oct', 'share', 'tjo', 'abut', 'punch', 'boxes', 'vtj')


def input_edges(o):
    out = []
    for r in fmt.rings_of_operand(o):
        r = list(r)
        if r and r[0] != r[-1]:
            r = r + [r[0]]
        for i in range(len(r) - 1):
            if r[i] != r[i + 1]:
                out.append((r[i], r[i + 1]))
    return out


def judge_fillq(c, sb, cb, evs):
    bad = []
    ea, eb = input_edges(c.lhs), input_edges(c.rhs)
    if len(evs) != 2 * (len(ea) + len(eb)):
        bad.append('fill_queue created %d events for %d non-degenerate edges' % (len(evs), len(ea) + len(eb)))
    want = sorted([(min(p, q), max(p, q), True) for (p, q) in ea] + [(min(p, q), max(p, q), False) for (p, q) in eb])
    got = sorted((e['p'], e['other'], e['subj']) for e in evs if e['left'])
    if [(a, b, s) for (a, b, s) in want] != got:
        bad.append('the left events of the queue are not exactly the input edges oriented left to right')
    for e in evs:
        if e['other'] is None:
            bad.append('event without partner in the queue')
    for (edges, box, name) in ((ea, sb, 'subject'), (eb, cb, 'clipping')):
        if edges:
            xs = [p[0] for (p, _) in edges]
            ys = [p[1] for (p, _) in edges]
            w = (min(xs), min(ys), max(xs), max(ys))
        else:
            w = (math.inf, math.inf, -math.inf, -math.inf)
        if tuple(v + 0.0 for v in box) != tuple(v + 0.0 for v in w):
            bad.append('%s bounding box %s is not the exact min/max of the edge start points %s' % (name, box, w))
    # pop order: by x, then y, right before left
    for e1, e2 in zip(evs, evs[1:]):
        k1, k2 = (e1['p'][0], e1['p'][1], e1['left']), (e2['p'][0], e2['p'][1], e2['left'])
        if k1 > k2:
            bad.append('queue pops %s before %s' % (k1, k2))
            break
    return bad


def judge_subdiv(c, evs, exact, complete):
    bad = []
    segments = []
    for i, e in enumerate(evs):
        o = e['other']
        if not isinstance(o, int):
            if complete:
                bad.append('event %d has no partner inside the returned vector' % i)
            continue
        f = evs[o]
        if f['other'] != i:
            bad.append('events %d and %d are not mutually linked' % (i, o))
        if e['left'] == f['left']:
            bad.append('events %d and %d of one sub-segment are both %s' % (i, o, 'left' if e['left'] else 'right'))
        if e['left']:
            if not (e['p'] < f['p']):
                bad.append('left event %s does not precede its right event %s' % (e['p'], f['p']))
            if e['p'] == f['p']:
                bad.append('zero-length sub-segment at %s' % (e['p'],))
            segments.append((e['p'], f['p'], e['subj']))
        if len(bad) > 5:
            return bad
    if not exact:
        return bad
    # planarity: two sub-segments meet only at common endpoints or coincide completely (then different operands)
    n = len(segments)
    for i in range(n):
        a, b, s1 = segments[i]
        for j in range(i + 1, n):
            c2, d, s2 = segments[j]
            if b[0] < c2[0] or d[0] < a[0]:
                continue
            cl = segs.classify(a, b, c2, d)
            if cl[0] == 'none':
                continue
            if cl[0] == 'point':
                P = cl[1]
                if segs.interior(a, b, P) or segs.interior(c2, d, P):
                    bad.append('sub-segments %s-%s and %s-%s meet at %s, which is interior to one of them' % (a, b, c2, d, (float(P[0]), float(P[1]))))
            else:
                if (a, b) != (c2, d):
                    bad.append('sub-segments %s-%s and %s-%s overlap without coinciding' % (a, b, c2, d))
                elif s1 == s2:
                    bad.append('coinciding sub-segments %s-%s of one operand' % (a, b))
            if len(bad) > 5:
                return bad
    # coverage: the sub-segments of an operand chain together to cover exactly its edges
    if complete:
        for (o, subj) in ((c.lhs, True), (c.rhs, False)):
            total_in = sum_len2(input_edges(o))
            subs = [(a, b) for (a, b, s) in segments if s == subj]
            for (a, b) in subs:
                if not any(on_edge(a, b, p, q) for (p, q) in input_edges(o)):
                    bad.append('sub-segment %s-%s lies on no input edge of its operand' % (a, b))
                    break
            if param_length(subs, input_edges(o)) != len(input_edges(o)):
                bad.append('the sub-segments of the %s do not cover its edges exactly' % ('subject' if subj else 'clipping'))
    return bad


def sum_len2(edges):
    return len(edges)


def on_edge(a, b, p, q):
    fa, fb, fp, fq = segs.fr(a), segs.fr(b), segs.fr(p), segs.fr(q)
    return segs.orient(fp, fq, fa) == 0 and segs.orient(fp, fq, fb) == 0 and segs.inbox(fp, fq, fa) and segs.inbox(fp, fq, fb)


def param_length(subs, edges):
    """sum over edges of the covered parameter length (each must come out as exactly 1)"""
    total = F(0)
    for (p, q) in edges:
        fp, fq = segs.fr(p), segs.fr(q)
        k = 0 if fp[0] != fq[0] else 1
        L = abs(fq[k] - fp[k])
        cov = F(0)
        for (a, b) in subs:
            if on_edge(a, b, p, q):
                cov += abs(F(b[k]) - F(a[k]))
        # several input edges may be collinear and overlap sub-segments of each other only at points; count full cover once
        if cov >= L:
            total += 1
    return total


def run(rep, tier, seed):
    rng = random.Random(seed)
    c01.proof_part(rep, PID, tier)
    npairs = 150 if tier == 'quick' else 4000
    cases = [c for c in campaign.make_cases(rng, npairs, WEIGHTS) if c.n_edges() <= 80]
    # the same operands at very small and very large scales (powers of two: every coordinate stays exact); edges far shorter
    # than the machine epsilon are still edges
    from .relprops import map_operand
    scaled = []
    for c in cases:
        if c.meta.get('pair', 0) % 4 == 0 and c.family not in ('ulp', 'fan'):
            k = [-60, -52, 40, -30][(c.meta.get('pair', 0) // 4) % 4]
            f = 2.0 ** k
            scaled.append(bc.Case(c.cid + 'z', c.family, c.prec, c.op, map_operand(c.lhs, lambda x, y: (x * f, y * f)),
                                  map_operand(c.rhs, lambda x, y: (x * f, y * f)), dict(c.meta, scale_log2=k)))
    cases = cases + scaled
    # the single-precision instantiation on the one-ulp-bump family (either side of x = 0), and rings with repeated vertices
    cases += campaign.make_cases(rng, 25 if tier == 'quick' else 600, {'ulp32': 0.7, 'oct': 0.3}, prec=32, prefix='s')
    rep_cases = []
    for c in cases:
        if c.prec == 64 and c.meta.get('pair', 0) % 5 == 1 and c.family in EXACT:
            rep_cases.append(bc.Case(c.cid + 'w', c.family, c.prec, c.op, gen.with_repeats(rng, c.lhs), gen.with_repeats(rng, c.rhs),
                                     dict(c.meta, repeats=True)))
    cases += rep_cases
    lines, meta = [], []
    for c in cases:
        lines.append(fmt.stage_line('fillq', c.cid + 'q', c.prec, 'r', c.op, c.lhs, c.rhs))
        meta.append((c, 'q'))
        lines.append(fmt.stage_line('subdiv', c.cid + 's', c.prec, 'r', c.op, c.lhs, c.rhs))
        meta.append((c, 's'))
    impl = engine.run_lines(engine.impl_bin('r'), lines, timeout=600)
    model = engine.run_lines(engine.MODEL, lines, timeout=1800)
    mism = [i for i in range(len(lines)) if impl[i] != model[i]]
    # the verified planarity certificate (coq/theories/Cert13.v), evaluated by the model on its own run of every
    # exact-family subdivision; it speaks about the implementation's output wherever the two outputs are identical
    cert_idx = [i for i, (c, st) in enumerate(meta) if st == 's' and c.family in EXACT]
    cert_out = engine.run_lines(engine.MODEL, ['planar' + lines[i][len('subdiv'):] for i in cert_idx], timeout=1800)
    cert, ccov = {}, {}
    for i, o in zip(cert_idx, cert_out):
        tk = engine.payload(o).split() if o.startswith('planar') else []
        cert[i] = tk[0] if len(tk) == 2 else '?'
        ccov[i] = tk[1] if len(tk) == 2 else '?'
    fails = []
    known = 0
    nontriv = set()
    for i, (c, st) in enumerate(meta):
        pl = engine.payload(impl[i])
        if st == 'q':
            if pl.startswith('panic') or pl.startswith('budget'):
                fails.append((i, ['fill_queue did not return: ' + pl[:80]]))
                continue
            sb, cb, evs = stages.parse_fillq(pl)
            bad = judge_fillq(c, sb, cb, evs)
        else:
            evs = stages.parse_subdiv(pl)
            if evs is None:
                continue          # outcome failures belong to C03
            exact = c.family in EXACT
            bad = judge_subdiv(c, evs, exact, c.op in 'UX')
            if cert.get(i) == '0' and impl[i] == model[i]:
                bad.append('the verified planarity certificate (Cert13.planar_check) rejects the subdivision')
            if ccov.get(i) == '0' and impl[i] == model[i]:
                bad.append('the verified coverage certificate (Cert13Cover.cover_check) rejects the subdivision')
            if cert.get(i) == '?':
                bad.append('the model did not evaluate the planarity certificate')
            if len(evs) > 2 * len(input_edges(c.lhs) + input_edges(c.rhs)):
                nontriv.add(lines[i])
        if bad:
            if c.family in ('lat', 'gp', 'straddle') and impl[i] == model[i] and gen.degenerate_arrangement(c.lhs, c.rhs):
                known += 1
                rep.known_finding('N1', '%s %s: %s' % (c.cid, c.family, bad[0][:150]))
            else:
                fails.append((i, bad))
    cov = rep.coverage
    cov['evaluations'] = len(lines)
    cov['distinct_nontrivial'] = len(nontriv)
    cov['traces_validated_against_impl'] = len(lines) - len(mism)
    cov['families'] = {}
    for c, st in meta:
        cov['families'][c.family] = cov['families'].get(c.family, 0) + 1
    cov['rule'] = ('fill_queue (drained in pop order, both boxes) and subdivide (complete event vector) on generated operands, 4 operations; '
                   'links, left-first, non-zero length on all families; planarity (all pairs) and exact coverage of every input edge with '
                   'rational arithmetic on the exact families; non-trivial = the sweep divided at least one edge.')
    cov['samples'] = [lines[0][:400], lines[1][:400]]
    cov['planarity_certificates'] = {'evaluated': len(cert), 'accepted': sum(1 for v in cert.values() if v == '1'),
                                     'rejected': sum(1 for v in cert.values() if v == '0'),
                                     'sweep_did_not_return': sum(1 for v in cert.values() if v == '-')}
    cov['coverage_certificates'] = {'evaluated': sum(1 for v in ccov.values() if v in '01'), 'accepted': sum(1 for v in ccov.values() if v == '1'),
                                    'rejected': sum(1 for v in ccov.values() if v == '0')}
    cov['trusted_base'] = c01.TRUSTED + ['planarity: the Coq-verified certificate Cert13.planar_check on the model run (proved sound), doubled by exact rational Python code on the implementation output; coverage reference is exact rational Python code']
    rep.log('%d stage runs: %d failing, %d known, %d model mismatches' % (len(lines), len(fails), known, len(mism)))
    if fails:
        i, bad = fails[0]
        rep.violation('C13: %s (%d failing)' % (bad[0][:300], len(fails)),
                      {'case': meta[i][0].to_json(), 'stage': meta[i][1], 'failures': bad[:6], 'line': lines[i][:3000],
                       'replay_cmd': "printf '%s\\n' '<line>' | harness/target/release/vh"})
    elif mism:
        i = mism[0]
        rep.violation('correspondence FillQueue/Subdivide <-> fill_queue/subdivide broken on %d stage run(s); the subdivision '
                      'clauses still hold on the implementation\'s output' % len(mism),
                      {'correspondence': 'coq/theories/FillQueue.v, Subdivide.v, Divide.v', 'line': lines[i][:3000],
                       'implementation': impl[i][:1500], 'model': model[i][:1500]}, nofail=True)
