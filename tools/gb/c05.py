"""C05 — the four operations are mutually consistent on the same operands."""
from fractions import Fraction as F

from . import boolcheck as bc
from . import relprops, relrun
LEVEL = 'proof'
W = {'rect': 0.25, 'oct': 0.3, 'share': 0.15, 'lat': 0.1, 'gp': 0.15, 'self': 0.05, 'boxes': 0.1, 'straddle': 0.05, 'abut': 0.15, 'punch': 0.08, 'frameslab': 0.12}


def run(rep, tier, seed):
    relrun.run_rel(rep, 'C05', tier, seed, relprops.build_c05, W, 200 if tier == 'quick' else 5000,
                   'each group = the five calls I, U, X, A-B, B-A on one operand pair; the partition law is decided for every point by '
                   'the verified checker (tolerant oracle only when a result has rounded coordinates); area identities exact (rational) '
                   'on the exact class, 1e-9 relative otherwise.')
    if rep.violations:
        return
    # one LARGE operand pair (a lattice comb against a small rectangle: more than 2^16 result events in a single operation,
    # integer coordinates, every crossing an integer): the area identities, exact in rational arithmetic
    n = 9000 if tier == 'quick' else 30000
    comb = [(0.0, 0.0)]
    for i in range(n):
        comb += [(2.0 * i + 1.0, 0.0), (2.0 * i + 1.0, 4.0), (2.0 * i + 2.0, 4.0), (2.0 * i + 2.0, 0.0)]
    comb += [(2.0 * n + 1.0, 0.0), (2.0 * n + 1.0, -2.0), (0.0, -2.0)]
    a = ('M', [[comb]])
    b = ('M', [[[(3.0, 1.0), (2.0 * n - 3.0, 1.0), (2.0 * n - 3.0, 3.0), (3.0, 3.0)]]])
    cases = {k: bc.Case('L' + k, 'big', 64, op, x, y) for k, (op, x, y) in
             {'I': ('I', a, b), 'U': ('U', a, b), 'X': ('X', a, b), 'D': ('D', a, b), 'E': ('D', b, a)}.items()}
    res = bc.run_impl(list(cases.values()), 'r', timeout=900)

    def ring_area(r):
        s2 = F(0)
        for (x0, y0), (x1, y1) in zip(r, r[1:] + r[:1]):
            s2 += F(x0) * F(y1) - F(x1) * F(y0)
        return abs(s2) / 2

    def area(mp):
        return sum(ring_area(p[0]) - sum(ring_area(h) for h in p[1:]) for p in mp)
    bad = [k for k, c in cases.items() if res[c.cid][0] != 'ok']
    if bad:
        rep.violation('C05: operation %s on the large comb (%d vertices) did not return normally: %s' % (bad[0], 4 * n + 4, res[cases[bad[0]].cid][0]),
                      {'generator': 'c05 large comb', 'teeth': n, 'operation': bad[0]})
        return
    ar = {k: area(res[c.cid][1]) for k, c in cases.items()}
    aa, ab = area(a[1]), area(b[1])
    ident = {'I+U=A+B': ar['I'] + ar['U'] == aa + ab, 'X=U-I': ar['X'] == ar['U'] - ar['I'], 'A-B=A-I': ar['D'] == aa - ar['I'],
             'B-A=B-I': ar['E'] == ab - ar['I'], 'X=(A-B)+(B-A)': ar['X'] == ar['D'] + ar['E']}
    rep.coverage['large_comb'] = {'teeth': n, 'vertices': 4 * n + 4, 'areas': {k: float(v) for k, v in ar.items()},
                                  'identities': {k: bool(v) for k, v in ident.items()}}
    wrong = [k for k, v in ident.items() if not v]
    if wrong:
        rep.violation('C05: on a lattice comb with %d teeth against a rectangle the area identity %s fails exactly (areas %s)'
                      % (n, wrong[0], {k: float(v) for k, v in ar.items()}),
                      {'generator': 'c05 large comb', 'teeth': n, 'failing_identities': wrong,
                       'areas': {k: str(v) for k, v in ar.items()}, 'area_A': str(aa), 'area_B': str(ab)})
