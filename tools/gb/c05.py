"""C05 — the four operations are mutually consistent on the same operands."""
from . import relprops, relrun
LEVEL = 'proof'
W = {'rect': 0.25, 'oct': 0.3, 'share': 0.15, 'lat': 0.1, 'gp': 0.15, 'self': 0.05, 'boxes': 0.1, 'straddle': 0.05, 'abut': 0.15, 'punch': 0.08, 'frameslab': 0.12}


def run(rep, tier, seed):
    relrun.run_rel(rep, 'C05', tier, seed, relprops.build_c05, W, 200 if tier == 'quick' else 5000,
                   'each group = the five calls I, U, X, A-B, B-A on one operand pair; the partition law is decided for every point by '
                   'the verified checker (tolerant oracle only when a result has rounded coordinates); area identities exact (rational) '
                   'on the exact class, 1e-9 relative otherwise.')
