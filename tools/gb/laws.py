"""Boolean laws over region memberships, with two back ends: the token form understood by the
verified checker (Scene.law) and direct evaluation (for the tolerant Python oracle)."""


class Law:
    def __init__(self, kind, *args):
        self.kind = kind
        self.args = args

    def tok(self):
        k = self.kind
        if k == 'in':
            return 'in %d' % self.args[0]
        if k in ('true', 'false'):
            return k
        if k == 'not':
            return 'not ' + self.args[0].tok()
        return '%s %s %s' % (k, self.args[0].tok(), self.args[1].tok())

    def ev(self, m):
        k = self.kind
        if k == 'in':
            return m[self.args[0]]
        if k == 'true':
            return True
        if k == 'false':
            return False
        if k == 'not':
            return not self.args[0].ev(m)
        a, b = self.args[0].ev(m), self.args[1].ev(m)
        return {'and': a and b, 'or': a or b, 'xor': a != b, 'eq': a == b}[k]


def In(k):
    return Law('in', k)


T = Law('true')
Fa = Law('false')


def Not(a):
    return Law('not', a)


def _fold(kind, unit, xs):
    xs = list(xs)
    if not xs:
        return unit
    r = xs[0]
    for x in xs[1:]:
        r = Law(kind, r, x)
    return r


def And(*xs):
    return _fold('and', T, xs)


def Or(*xs):
    return _fold('or', Fa, xs)


def Xor(a, b):
    return Law('xor', a, b)


def Eq(a, b):
    return Law('eq', a, b)


def Imp(a, b):
    return Or(Not(a), b)


def Op(op, a, b):
    return {'I': And(a, b), 'U': Or(a, b), 'D': And(a, Not(b)), 'X': Xor(a, b)}[op]
