"""Deciding region laws between several results (metamorphic / relational properties)."""
from . import boolcheck as bc
from . import fmt, oracle


class Item:
    """one law to decide: `regions` (list of ('E', rings) | ('Y', multipolygon)), `law` (laws.Law),
    `inputs` = rings that serve as reference for the rounding tolerance, `tolerant` = whether the
    tolerant oracle may be used when the exact one says no (results with rounded coordinates)"""
    __slots__ = ('iid', 'regions', 'law', 'prec', 'inputs', 'tolerant', 'what', 'cases')

    def __init__(self, iid, regions, law, prec, inputs, tolerant, what, cases):
        self.iid, self.regions, self.law, self.prec = iid, regions, law, prec
        self.inputs, self.tolerant, self.what, self.cases = inputs, tolerant, what, cases


def decide(items):
    """{iid: ('exact-pass'|'tolerant-pass'|'fail', detail)}"""
    ex = oracle.exact_batch([(it.iid, it.regions, it.law, it.prec) for it in items])
    res = {}
    for it in items:
        if ex.get(it.iid) == 'true':
            res[it.iid] = ('exact-pass', '')
            continue
        if it.tolerant:
            mag = max([1.0] + [abs(float(v)) for r in it.inputs for p in r for v in p])
            tol = (1e-9 if it.prec == 64 else 1e-4) * mag
            regs = it.regions + [('E', it.inputs)]
            ok, exempt, where = oracle.tolerant(regs, it.law, tol, (len(it.regions),))
            if ok:
                res[it.iid] = ('tolerant-pass', 'exempted_gaps=%d' % exempt)
                continue
            res[it.iid] = ('fail', 'exact oracle: %s; tolerant oracle fails at %s' % (ex.get(it.iid), where))
        else:
            res[it.iid] = ('fail', 'exact oracle: %s' % ex.get(it.iid))
    return res


def run_all(cases, profile='r'):
    """implementation + model results and correspondence flag per case id"""
    impl = bc.run_impl(cases, profile)
    model = bc.run_model(cases, profile)
    return impl, model, {c.cid: bc.same_result(impl[c.cid], model[c.cid]) for c in cases}


def exact_flags(cases, impl, profile='r'):
    """which implementation results denote exactly the exact-arithmetic model run"""
    ok = [c for c in cases if impl[c.cid][0] == 'ok']
    q = bc.run_model_q(ok, profile)
    return {c.cid: (q[c.cid][0] == 'ok' and bc.exact_equal(impl[c.cid][1], q[c.cid][1])) for c in ok}
