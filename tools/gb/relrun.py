"""Generic runner of the relational properties (C05-C11)."""
import random

from . import boolcheck as bc
from . import c01, campaign, fmt, gen, relcheck, relprops


def attribute_group(rep, g, corr, exact, impl):
    """a failing group is attributed to a known finding only if one of its calls is in that finding's class"""
    findings = rep.findings_for()
    for c in g.cases:
        if not corr.get(c.cid, False):
            return None
    for c in g.cases:
        if exact.get(c.cid) is True:
            continue
        if gen.degenerate_arrangement(c.lhs, c.rhs):
            for f in findings:
                if f['id'] == 'N1':
                    return 'N1'
    for c in g.cases:
        if exact.get(c.cid) is True:
            continue
        if gen.near_degenerate(c.lhs, c.rhs, c.prec):
            for f in findings:
                if f['id'] == 'N6':
                    return 'N6'
        if gen.rounded_parallel(c.lhs, c.rhs, c.prec):
            for f in findings:
                if f['id'] == 'N5':
                    return 'N5'
    for c in g.cases:
        if impl[c.cid][0] == 'budget':
            for f in findings:
                if f['id'] == 'N2' and exact.get(c.cid) is not True:
                    return 'N2'
    return None


def pairing_variant(rng, a, b):
    """the four trait impls: with probability 1/3 both operands are cut down to their first polygon and each is passed
    either as a Polygon or as a one-element MultiPolygon (so that every relational law is also exercised on
    Polygon x Polygon, Polygon x MultiPolygon and MultiPolygon x Polygon calls)"""
    pa, pb = fmt.polys_of(a), fmt.polys_of(b)
    if not pa or not pb or rng.random() >= 0.34:
        # operands that already are single polygons still get a random wrapper
        if len(pa) == 1 and rng.random() < 0.3:
            a = ('P', pa[0]) if a[0] == 'M' else ('M', [pa[0]])
        if len(pb) == 1 and rng.random() < 0.3:
            b = ('P', pb[0]) if b[0] == 'M' else ('M', [pb[0]])
        return a, b
    wrap = lambda p: ('P', p) if rng.random() < 0.5 else ('M', [p])  # noqa: E731
    return wrap(pa[0]), wrap(pb[0])


def run_rel(rep, pid, tier, seed, builder, weights, npairs, rule_text, stage2=None, third=False):
    rng = random.Random(seed)
    c01.proof_part(rep, pid, tier)
    groups = []
    for i in range(npairs):
        a, b, meta = gen.mixed(rng, weights)
        meta = dict(meta, tier=tier)
        if pid != 'C07':
            a, b = pairing_variant(rng, a, b)
        g = relprops.Group('g%d' % i, meta['family'], meta)
        if third:
            if 'third' in meta:          # the family supplies its own third operand
                c3 = meta.pop('third')
            else:
                c3, _, _ = gen.FAMILIES[meta['family'] if meta['family'] in ('rect', 'oct', 'lat', 'gp') else 'oct'](rng)
            builder(rng, g, a, b, c3)
        else:
            builder(rng, g, a, b)
        groups.append(g)
    cases = [c for g in groups for c in g.cases]
    rep.log('%d groups, %d calls' % (len(groups), len(cases)))
    impl, model, corr = relcheck.run_all(cases)
    if stage2:
        more = []
        for g in groups:
            more += stage2(rng, g, impl)
        rep.log('second stage: %d calls' % len(more))
        impl2, model2, corr2 = relcheck.run_all(more)
        impl.update(impl2)
        model.update(model2)
        corr.update(corr2)
        cases = [c for g in groups for c in g.cases]
    exact = relcheck.exact_flags(cases, impl)
    items = []
    gfail = {}
    for g in groups:
        bad = [c for c in g.cases if impl[c.cid][0] != 'ok']
        if bad:
            gfail[g.gid] = ['call %s did not return normally: %s %s' % (bad[0].cid, impl[bad[0].cid][0], impl[bad[0].cid][1] or '')]
            continue
        its, direct = g.items(impl, exact)
        for it in its:
            it.what = (g.gid, it.what)
        items += its
        if direct:
            gfail[g.gid] = list(direct)
    dec = relcheck.decide(items)
    cnt = {'exact-pass': 0, 'tolerant-pass': 0, 'fail': 0}
    for it in items:
        st, detail = dec[it.iid]
        cnt[st] += 1
        if st == 'fail':
            gfail.setdefault(it.what[0], []).append('%s: %s' % (it.what[1], detail))
    byid = {g.gid: g for g in groups}
    known = 0
    real = []
    for gid, msgs in gfail.items():
        g = byid[gid]
        fid = attribute_group(rep, g, corr, exact, impl)
        if fid:
            known += 1
            rep.known_finding(fid, '%s %s: %s' % (gid, g.family, msgs[0][:200]))
        else:
            real.append((g, msgs))
    corr_bad = [c for c in cases if not corr[c.cid]]
    cov = rep.coverage
    fam = {}
    for g in groups:
        fam[g.family] = fam.get(g.family, 0) + 1
    cov['evaluations'] = len(cases)
    cov['groups'] = len(groups)
    cov['laws_decided'] = len(items)
    cov['law_outcomes'] = cnt
    cov['groups_failing'] = len(gfail)
    cov['groups_known_finding'] = known
    cov['families'] = fam
    cov['traces_validated_against_impl'] = sum(1 for c in cases if corr[c.cid])
    cov['exact_class_share'] = round(sum(1 for v in exact.values() if v) / max(1, len(exact)), 3)
    nontriv = set()
    for c in cases:
        r = impl[c.cid]
        if r[0] == 'ok' and r[1] and fmt.canon_mp(r[1]) not in (fmt.canon_mp(bc_closed(c.lhs)), fmt.canon_mp(bc_closed(c.rhs))):
            nontriv.add((fmt.enc_operand(c.lhs, c.prec), fmt.enc_operand(c.rhs, c.prec), c.op))
    cov['distinct_nontrivial'] = len(nontriv)
    cov['edge_histogram'] = campaign.histogram(cases)
    cov['rule'] = rule_text + (' distinct = distinct (operands, operation) among all calls; non-trivial = non-empty result that is not '
                               'literally one of the two operands.')
    cov['samples'] = [c.line()[:500] for c in groups[len(groups) // 2].cases[:2]]
    cov['trusted_base'] = c01.TRUSTED
    rep.log('laws', cnt, 'failing groups', len(gfail), 'known', known, 'corr mismatches', len(corr_bad))
    if real:
        g, msgs = min(real, key=lambda gm: sum(c.n_edges() for c in gm[0].cases))
        rep.violation('%s: %s (%d failing group(s))' % (pid, msgs[0][:300], len(real)),
                      {'group': g.gid, 'family': g.family, 'failures': msgs[:10],
                       'calls': [dict(c.to_json(), implementation=repr(impl[c.cid])[:800]) for c in g.cases[:12]],
                       'replay_cmd': 'feed the "line" of each call to harness/target/release/vh'})
    elif corr_bad:
        # search for a failing input among the calls on which implementation and model disagree: is the implementation's
        # result still the region the call names (the model's result being that region)?
        okc = [c for c in corr_bad if impl[c.cid][0] == 'ok' and model[c.cid][0] == 'ok']
        si = bc.run_scenes([bc.scene01_line(c.cid, c, impl[c.cid][1]) for c in okc])
        sm = bc.run_scenes([bc.scene01_line(c.cid, c, model[c.cid][1]) for c in okc])
        wrong = [c for c in okc if si.get(c.cid) == 'false' and sm.get(c.cid) == 'true' and exact.get(c.cid) is not False]
        if wrong:
            c = min(wrong, key=lambda c: c.n_edges())
            rep.violation('%s: on %d call(s) where implementation and model disagree the implementation does not return the named '
                          'region (the model, which takes the paths the property compares, does): %s' % (pid, len(wrong), c.cid),
                          {'case': c.to_json(), 'implementation': repr(impl[c.cid])[:1500], 'model': repr(model[c.cid])[:1500],
                           'oracle': 'cert01 (exact, every point) false on the implementation\'s result, true on the model\'s',
                           'replay_cmd': "printf '%%s\\n' '%s' | harness/target/release/vh" % c.line()})
            return
        c = corr_bad[0]
        rep.violation('correspondence model <-> implementation broken on %d call(s); every law still holds on the implementation\'s '
                      'results' % len(corr_bad),
                      {'correspondence': 'BoolOp.boolean vs BooleanOp::boolean', 'case': c.to_json(),
                       'implementation': repr(impl[c.cid])[:1500], 'model': repr(model[c.cid])[:1500]}, nofail=True)


def bc_closed(o):
    return relprops.closed(fmt.polys_of(o))
