"""C14 — the sweep classification of every sub-segment matches the geometry."""
import random
from fractions import Fraction as F

from . import c01, c13, campaign, engine, fmt, gen, segs, stages

LEVEL = 'proof'
PID = 'C14'
WEIGHTS = {'rect': 0.25, 'oct': 0.4, 'share': 0.3, 'selfop': 0.05, 'boxes': 0.06, 'fan': 0.03, 'abut': 0.15, 'tjo': 0.1, 'punch': 0.06, 'frameslab': 0.12}


def res(op, subj, own, oth):
    a, b = (own, oth) if subj else (oth, own)
    return {'I': a and b, 'U': a or b, 'D': a and not b, 'X': a != b}[op]


def below_parity(edges, x, y, right_limit):
    """parity of the edges strictly below (x, y); half-open rule on [lx, rx): with right_limit the
    ordinate is taken just right of x (x is then the abscissa of a vertical edge)"""
    n = 0
    for (p, q) in edges:
        if p[0] == q[0]:
            continue
        if p[0] > q[0]:
            p, q = q, p
        if p[0] <= x < q[0]:
            yy = p[1] + (x - p[0]) * (q[1] - p[1]) / (q[0] - p[0])
            if yy < y:
                n += 1
    return n % 2 == 1


def judge(c, evs):
    """flags of every left event against exact crossing-number membership"""
    bad = []
    ea = [(segs.fr(p), segs.fr(q)) for (p, q) in c13.input_edges(c.lhs)]
    eb = [(segs.fr(p), segs.fr(q)) for (p, q) in c13.input_edges(c.rhs)]
    lefts = {}
    for i, e in enumerate(evs):
        if e['left'] and isinstance(e['other'], int):
            lefts[i] = (segs.fr(e['p']), segs.fr(evs[e['other']]['p']))
    # coincident twins
    bykey = {}
    for i, (a, b) in lefts.items():
        bykey.setdefault((a, b), []).append(i)
    for i, (a, b) in lefts.items():
        e = evs[i]
        if a[0] == b[0]:
            continue                       # vertical sub-segments: no "below"
        if e['rt'] == '-' and e['type'] == 'N' and e['io'] is False and e['oio'] is False and not processed(evs, i):
            continue
        mx = (a[0] + b[0]) / 2
        my = (a[1] + b[1]) / 2
        own_edges, oth_edges = (ea, eb) if e['subj'] else (eb, ea)
        own_b = below_parity(own_edges, mx, my, False)
        oth_b = below_parity(oth_edges, mx, my, False)
        twins = [j for j in bykey[(a, b)] if j != i]
        if e['type'] == 'C':
            oth_b = not oth_b              # the carrier coincides with this edge and lies (infinitesimally) below it
        if e['io'] != own_b:
            bad.append('sub-segment %s-%s: in_out=%s but the own operand is %s below it' % (fl(a), fl(b), e['io'], 'inside' if own_b else 'outside'))
        if e['type'] == 'N' or e['type'] == 'C':
            if e['oio'] != (not oth_b):
                bad.append('sub-segment %s-%s: other_in_out=%s but the other operand is %s there' % (fl(a), fl(b), e['oio'], 'inside' if oth_b else 'outside'))
        # edge type
        if twins:
            t = evs[twins[0]]
            if {e['type'], t['type']} not in ({'C', 'S'}, {'C', 'D'}):
                bad.append('coincident sub-segments %s-%s typed %s / %s' % (fl(a), fl(b), e['type'], t['type']))
            if e['type'] in 'SD':
                own_t = below_parity(oth_edges, mx, my, False)       # the twin's own operand below the pair
                want = 'S' if own_t == own_b else 'D'
                if e['type'] != want:
                    bad.append('coincident pair %s-%s typed %s, expected %s' % (fl(a), fl(b), e['type'], want))
        elif e['type'] != 'N':
            bad.append('sub-segment %s-%s typed %s without a coincident twin' % (fl(a), fl(b), e['type']))
        # result membership across the edge
        if e['type'] == 'C':
            want_rt = '-'
        else:
            if e['type'] == 'N':
                below = res(c.op, e['subj'], own_b, oth_b)
                above = res(c.op, e['subj'], not own_b, oth_b)
            else:
                ob = own_b if e['type'] == 'S' else (not own_b)
                below = res(c.op, e['subj'], own_b, ob)
                above = res(c.op, e['subj'], not own_b, not ob)
            want_rt = '-' if below == above else ('oi' if above else 'io')
        if e['rt'] != want_rt:
            bad.append('sub-segment %s-%s (%s): result_transition=%s, geometry says %s' % (fl(a), fl(b), e['type'], e['rt'], want_rt))
        # the recorded lower result edge is a result edge below it
        if isinstance(e['pir'], int):
            k = e['pir']
            pe = evs[k]
            if pe['rt'] == '-':
                bad.append('prev_in_result of %s-%s is not a result edge' % (fl(a), fl(b)))
            if k in lefts:
                (p, q) = lefts[k]
                if p[0] != q[0] and p[0] <= mx <= q[0]:
                    yy = p[1] + (mx - p[0]) * (q[1] - p[1]) / (q[0] - p[0])
                    if yy > my:
                        bad.append('prev_in_result of %s-%s lies above it' % (fl(a), fl(b)))
        if len(bad) > 6:
            break
    return bad


def processed(evs, i):
    return True


def fl(p):
    return (float(p[0]), float(p[1]))


def run(rep, tier, seed):
    rng = random.Random(seed)
    c01.proof_part(rep, PID, tier)
    cov = rep.coverage
    # ---- the decision logic, exhaustively: compute_fields on every combination of its inputs
    t_impl = engine.run_lines(engine.impl_bin('r'), ['cftable t r'])[0]
    t_model = engine.run_lines(engine.MODEL, ['cftable t r'])[0]
    t_pinned = engine.run_lines(engine.MODEL, ['cftable t p'])[0]
    rows = len(engine.payload(t_impl).split())
    table_ok = (t_impl == t_model)
    cov['decision_table_rows'] = rows
    cov['decision_table_equal_to_model'] = table_ok
    cov['decision_table_differs_from_pinned_model_in'] = sum(1 for a, b in zip(engine.payload(t_impl).split(), engine.payload(t_pinned).split()) if a != b)
    # ---- flags against the geometry on the exact families
    npairs = 150 if tier == 'quick' else 4000
    cases = [c for c in campaign.make_cases(rng, npairs, WEIGHTS) if c.n_edges() <= 80]
    lines = [fmt.stage_line('subdiv', c.cid, 64, 'r', c.op, c.lhs, c.rhs) for c in cases]
    impl = engine.run_lines(engine.impl_bin('r'), lines, timeout=600)
    model = engine.run_lines(engine.MODEL, lines, timeout=1800)
    mism = [i for i in range(len(lines)) if impl[i] != model[i]]
    # the certificate in Coq (coq/theories/Cert14.v) on the model's run of every case (sub-segments whose partner was returned
    # too: an early exit leaves the rest unclassified); it speaks about the implementation's output wherever the two outputs
    # are identical
    cidx = list(range(len(cases)))
    cout = engine.run_lines(engine.MODEL, ['cert14' + lines[i][len('subdiv'):] for i in cidx], timeout=1800)
    cert = {i: (engine.payload(o).strip() if o.startswith('cert14') else '?') for i, o in zip(cidx, cout)}
    cov['cert14'] = {'evaluated': len(cert), 'accepted': sum(1 for v in cert.values() if v == '1'),
                     'rejected': sum(1 for v in cert.values() if v == '0'), 'not_returned': sum(1 for v in cert.values() if v == '-')}
    fails = []
    nsub = 0
    nontriv = set()
    for i, c in enumerate(cases):
        evs = stages.parse_subdiv(engine.payload(impl[i]))
        if evs is None:
            continue
        if c.op in 'ID':
            # the sweep stops early: events popped last were not classified; only judge the processed prefix
            evs_j = evs
        else:
            evs_j = evs
        bad = judge_complete(c, evs_j)
        if cert.get(i) in ('0', '?') and impl[i] == model[i]:
            bad = bad + ['the certificate Cert14.cert14 (Coq) rejects the flags of this run (%s)' % cert.get(i)]
        nsub += sum(1 for e in evs if e['left'])
        if any(e['type'] != 'N' for e in evs):
            nontriv.add(lines[i])
        if bad:
            fails.append((i, bad))
    cov['evaluations'] = len(lines) + 1
    cov['sub_segments_checked'] = nsub
    cov['distinct_nontrivial'] = len(nontriv)
    cov['traces_validated_against_impl'] = len(lines) - len(mism) + (1 if table_ok else 0)
    cov['exhaustive'] = True
    cov['exhaustive_domain'] = 'compute_fields: operation x operand role x edge type x predecessor (none / non-vertical / vertical) x predecessor flags x predecessor transition x predecessor\'s prev_in_result (%d rows), executed on both sides' % rows
    cov['rule'] = ('every left event of the vector returned by subdivide on rectilinear / octilinear operands with many shared edges: '
                   'in_out, other_in_out, edge type of coincident pairs, result transition (incl. the twin rule) and prev_in_result compared with '
                   'exact crossing-number membership at the midpoint of the sub-segment; non-trivial = the input produced coincident edges.')
    cov['samples'] = [lines[0][:400]]
    cov['trusted_base'] = c01.TRUSTED + ['the geometric reference for the flags: the Coq certificate Cert14 with the membership of the verified region checker, doubled by exact rational Python code']
    rep.log('%d subdivisions, %d sub-segments: %d failing, %d model mismatches, table equal: %s' % (len(lines), nsub, len(fails), len(mism), table_ok))
    if fails:
        i, bad = fails[0]
        rep.violation('C14: %s (%d failing inputs)' % (bad[0][:300], len(fails)),
                      {'case': cases[i].to_json(), 'failures': bad[:6], 'line': lines[i][:3000],
                       'replay_cmd': "printf '%s\\n' '<line>' | harness/target/release/vh"})
    elif not table_ok or mism:
        if not table_ok:
            a, b = engine.payload(t_impl).split(), engine.payload(t_model).split()
            k = next((j for j in range(min(len(a), len(b))) if a[j] != b[j]), -1)
            rep.violation('correspondence Fields.compute_fields <-> compute_fields broken: %d of %d table rows differ; the flags of all '
                          '%d checked sub-segments still match the geometry' % (sum(1 for x, y in zip(a, b) if x != y), rows, nsub),
                          {'correspondence': 'coq/theories/Fields.v compute_fields (exhaustive table)', 'first_differing_row': k,
                           'implementation': a[k] if k >= 0 else None, 'model': b[k] if k >= 0 else None}, nofail=True)
        else:
            i = mism[0]
            rep.violation('correspondence Subdivide <-> subdivide broken on %d input(s); flags still match the geometry' % len(mism),
                          {'correspondence': 'coq/theories/Subdivide.v', 'line': lines[i][:3000], 'implementation': impl[i][:1500],
                           'model': model[i][:1500]}, nofail=True)


def judge_complete(c, evs):
    """for intersection / difference the sweep stops early: events after the break keep their initial flags"""
    if c.op in 'UX':
        return judge(c, evs)
    # find the abscissa of the break: the last popped event; sub-segments whose left event is the last event or was never
    # processed keep default flags.  The last event of the vector is the one that triggered the break (if any).
    if not evs:
        return []
    ea = c13.input_edges(c.lhs)
    eb = c13.input_edges(c.rhs)
    if not ea or not eb:
        return []
    smax = max(p[0] for (p, q) in ea)
    cmax = max(p[0] for (p, q) in eb)
    bound = min(smax, cmax) if c.op == 'I' else smax
    keep = []
    for e in evs:
        keep.append(e)
    # events with x > bound: only the first such event is in the vector and it is unprocessed
    evs2 = [dict(e) for e in evs]
    for i, e in enumerate(evs2):
        if e['p'][0] > bound:
            e['left'] = False          # do not judge it
    return judge(c, evs2)
