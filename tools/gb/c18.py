"""C18 — splay tree work uses bounded stack regardless of element count and shape."""
import os
import subprocess
import time
from concurrent.futures import ThreadPoolExecutor

from . import c01, engine

LEVEL = 'proof'
PID = 'C18'


def run_child(args, timeout=600, profile='r'):
    try:
        p = subprocess.run([engine.impl_bin(profile, 'stackchild')] + [str(a) for a in args], stdout=subprocess.PIPE,
                           stderr=subprocess.PIPE, text=True, timeout=timeout)
        span = None
        if p.stdout.startswith('ok span='):
            span = int(p.stdout.strip().split('=')[1])
        return p.returncode, span, p.stderr[-200:]
    except subprocess.TimeoutExpired:
        return 'timeout', None, ''


def run(rep, tier, seed):
    c01.proof_part(rep, PID, tier)
    cov = rep.coverage
    n = 3000000
    small = 100000
    scen = []
    for order in ('inc', 'dec', 'zig'):
        for what in ('drop', 'clear', 'query', 'iter', 'iterback', 'partial', 'set'):
            scen.append(('%s-%s' % (what, order), n, 'main'))
            scen.append(('%s-%s' % (what, order), small, 'main'))
            if tier == 'thorough' or what in ('drop', 'partial', 'clear'):
                scen.append(('%s-%s' % (what, order), n, 'thread'))
    nrect = 300000 if tier == 'quick' else 1000000
    scen += [('boolean-int', nrect, 'main'), ('boolean-dif', nrect, 'main'), ('boolean-int', nrect // 3, 'thread'),
             ('boolean-intdesc', 2 * nrect, 'main'), ('boolean-intmix', nrect, 'main'), ('boolean-intdesc', nrect // 2, 'thread'),
             ('boolean-intmix', nrect // 2, 'thread'), ('boolean-uni', nrect // 2, 'thread'), ('boolean-xor', nrect // 2, 'thread'),
             ('boolean-inthit', nrect // 2, 'thread')]
    t0 = time.time()
    with ThreadPoolExecutor(max_workers=6) as ex:
        res = list(ex.map(run_child, scen))
    # the same in a build WITH debug assertions (smaller n: the debug build is slow): whatever the assertions check
    # must not walk the tree recursively either
    nd = 600000
    dscen = [('%s-%s' % (what, order), nd, 'main') for order in ('inc', 'dec') for what in ('drop', 'clear', 'partial', 'iter', 'query', 'set')]
    dscen += [('boolean-int', 60000, 'main'), ('boolean-intdesc', 60000, 'main')]
    with ThreadPoolExecutor(max_workers=6) as ex:
        dres = list(ex.map(lambda a: run_child(a, 900, 'd'), dscen))
    results = {}
    fails = []
    for s, r in zip(dscen, dres):
        results['debug build: %s n=%d %s' % s] = {'exit': r[0], 'span_bytes': r[1]}
        if r[0] != 0:
            fails.append((('debug build: ' + s[0], s[1], s[2]), r))
    for s, r in zip(scen, res):
        results['%s n=%d %s' % s] = {'exit': r[0], 'span_bytes': r[1]}
        if r[0] != 0:
            fails.append((s, r))
    # the measured stack span must not grow with n
    grow = []
    for order in ('inc', 'dec', 'zig'):
        for what in ('drop', 'clear', 'query', 'iter', 'iterback', 'partial'):
            a = results.get('%s-%s n=%d main' % (what, order, n), {}).get('span_bytes')
            b = results.get('%s-%s n=%d main' % (what, order, small), {}).get('span_bytes')
            if a is not None and b is not None and a > 4 * b + 4096:
                grow.append(('%s-%s' % (what, order), b, a))
    cov['evaluations'] = len(scen) + len(dscen)
    cov['distinct_nontrivial'] = len(scen) + len(dscen)
    cov['scenarios'] = results
    cov['rule'] = ('each scenario runs in its own child process: build a SplayTree of n keys in increasing / decreasing / zig-zag order, then '
                   'drop / clear / query (contains, get, next, prev, min, max, remove) / consume forwards / backwards / consume partially and '
                   'drop; n = 3*10^6 and 10^5; main thread (8 MiB) and a 2 MiB thread; plus the early-break Boolean operation on %d '
                   'rectangles; a subset (n = 6*10^5, 6*10^4 rectangles) also in a build with debug assertions. Pass = exit status 0 and the span of stack addresses observed inside comparator and key destructor calls '
                   'does not grow with n.' % nrect)
    cov['samples'] = ['stackchild drop-inc 3000000 main', 'stackchild boolean-int %d main' % nrect]
    cov['trusted_base'] = ['cost model (Teardown.v): recursion depth of drop glue = height; frame sizes, inlining and tail calls are not modelled',
                           'the runtime part is observation of child processes (exit status, stack-address span)']
    rep.log('%d scenarios in %.1fs: %d failing, %d growing' % (len(scen) + len(dscen), time.time() - t0, len(fails), len(grow)))
    if fails:
        s, r = fails[0]
        rep.violation('C18: scenario %s n=%d (%s stack) ended with status %s %s (%d failing scenarios)' % (s[0], s[1], s[2], r[0], r[2][:120], len(fails)),
                      {'scenario': s[0], 'n': s[1], 'stack': s[2], 'exit': r[0], 'stderr': r[2],
                       'replay_cmd': ('harness/target/debug/stackchild %s %d %s; echo $?' % (s[0][len('debug build: '):], s[1], s[2])
                                      if s[0].startswith('debug build: ') else 'harness/target/release/stackchild %s %d %s; echo $?' % s)})
    elif grow:
        g = grow[0]
        rep.violation('C18: stack use of scenario %s grows with n: %d bytes at n=10^5, %d bytes at n=3*10^6' % g,
                      {'scenario': g[0], 'span_small': g[1], 'span_large': g[2],
                       'replay_cmd': 'harness/target/release/stackchild %s 3000000 main' % g[0]})
