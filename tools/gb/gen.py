"""Generators of polygon operands (families of DESIGN.md §5).  Every random choice comes from the
`random.Random` instance passed in, so that a seed replays exactly.

Cells: the plane is tiled by 2x2 squares, each split by its centre into 4 triangles
(i, j, k), k = 0 bottom, 1 right, 2 top, 3 left; corners have even coordinates, centres odd.
A set of triangles is traced into valid polygons with holes (interior on the left)."""
import math
from fractions import Fraction

# ------------------------------------------------------------------ cell sets -> rings


def _sides(i, j, k):
    c0, c1, c2, c3 = (2 * i, 2 * j), (2 * i + 2, 2 * j), (2 * i + 2, 2 * j + 2), (2 * i, 2 * j + 2)
    m = (2 * i + 1, 2 * j + 1)
    if k == 0:
        return [(c0, c1, (i, j - 1, 2)), (c1, m, (i, j, 1)), (m, c0, (i, j, 3))]
    if k == 1:
        return [(c1, c2, (i + 1, j, 3)), (c2, m, (i, j, 2)), (m, c1, (i, j, 0))]
    if k == 2:
        return [(c2, c3, (i, j + 1, 0)), (c3, m, (i, j, 3)), (m, c2, (i, j, 1))]
    return [(c3, c0, (i - 1, j, 1)), (c0, m, (i, j, 0)), (m, c3, (i, j, 2))]


def area2(r):
    n = len(r)
    return sum(r[i][0] * r[(i + 1) % n][1] - r[(i + 1) % n][0] * r[i][1] for i in range(n))


def pt_in_ring(r, p):
    c = False
    n = len(r)
    for i in range(n):
        a, b = r[i], r[(i + 1) % n]
        if (a[1] > p[1]) != (b[1] > p[1]):
            x = Fraction(a[0]) + Fraction(p[1] - a[1]) * Fraction(b[0] - a[0]) / Fraction(b[1] - a[1])
            if x > p[0]:
                c = not c
    return c


def trace_rings(cells, keep_collinear=False):
    out = {}
    for (i, j, k) in cells:
        for (a, b, nb) in _sides(i, j, k):
            if nb not in cells:
                out.setdefault(a, []).append(b)
    rings = []
    for start in sorted(out):
        while out.get(start):
            first = out[start].pop()
            ring = [start, first]
            prev, cur = start, first
            while cur != start:
                cands = out[cur]
                d = (cur[0] - prev[0], cur[1] - prev[1])
                best, idx = None, 0
                for ci, c in enumerate(cands):
                    e = (c[0] - cur[0], c[1] - cur[1])
                    th = math.atan2(d[0] * e[1] - d[1] * e[0], d[0] * e[0] + d[1] * e[1])
                    if best is None or th > best:
                        best, idx = th, ci
                nxt = cands.pop(idx)
                ring.append(nxt)
                prev, cur = cur, nxt
            ring.pop()
            rings.append(ring)
    # split at repeated vertices so that every ring is simple
    simple = []
    for ring in rings:
        stack = []
        for p in ring:
            if p in stack:
                pos = stack.index(p)
                simple.append(stack[pos:])
                del stack[pos:]
            stack.append(p)
        if stack:
            simple.append(stack)
    res = []
    for r in simple:
        n = len(r)
        if keep_collinear:
            res.append(list(r))
        else:
            res.append([r[i] for i in range(n)
                        if (r[i][0] - r[i - 1][0]) * (r[(i + 1) % n][1] - r[i][1])
                        - (r[i][1] - r[i - 1][1]) * (r[(i + 1) % n][0] - r[i][0]) != 0])
    return res


def tri_pt(i, j, k):
    x, y = 2 * i, 2 * j
    return [(x + 1, Fraction(2 * y + 1, 2)), (Fraction(2 * x + 3, 2), y + 1), (x + 1, Fraction(2 * y + 3, 2)),
            (Fraction(2 * x + 1, 2), y + 1)][k]


def cells_to_polygons(cells, keep_collinear=False):
    """list of polygons (ring 0 exterior, counter-clockwise; holes clockwise), integer coordinates, rings not closed"""
    rings = trace_rings(cells, keep_collinear)
    exts = [r for r in rings if area2(r) > 0]
    holes = [r for r in rings if area2(r) < 0]
    polys = [[e] for e in exts]
    for h in holes:
        xs = [p[0] for p in h]
        ys = [p[1] for p in h]
        sample = None
        for x in range(min(xs) // 2 - 1, max(xs) // 2 + 1):
            for y in range(min(ys) // 2 - 1, max(ys) // 2 + 1):
                for k in range(4):
                    q = tri_pt(x, y, k)
                    if pt_in_ring(h, q):
                        sample = q
                        break
                if sample:
                    break
            if sample:
                break
        best = None
        for idx, pl in enumerate(polys):
            if pt_in_ring(pl[0], sample):
                a = area2(pl[0])
                if best is None or a < best[1]:
                    best = (idx, a)
        polys[best[0]].append(h)
    return polys


def gen_cells(rng, n, dens, mode):
    """mode 0: whole squares only (rectilinear); mode 1: squares and single triangles (octilinear)"""
    s = set()
    for x in range(n):
        for y in range(n):
            if mode == 0:
                if rng.random() < dens:
                    s.update((x, y, k) for k in range(4))
            else:
                r = rng.random()
                if r < dens * 0.5:
                    s.update((x, y, k) for k in range(4))
                elif r < dens * 0.5 + 0.35:
                    s.update((x, y, k) for k in range(4) if rng.random() < 0.5)
    return s


def fpoly(polys, scale=1.0, off=(0.0, 0.0)):
    return [[[(float(x) * scale + off[0], float(y) * scale + off[1]) for (x, y) in r] for r in p] for p in polys]


def cell_operand(rng, n, mode, dens=None, keep_collinear=False, scale=1.0, off=(0.0, 0.0)):
    dens = dens if dens is not None else rng.choice([0.25, 0.4, 0.55, 0.7])
    cells = gen_cells(rng, n, dens, mode)
    polys = fpoly(cells_to_polygons(cells, keep_collinear), scale, off)
    return ('M', polys), cells


def expected_cells(a, b, op):
    return {'I': a & b, 'U': a | b, 'D': a - b, 'X': a ^ b}[op]


# ------------------------------------------------------------------ general polygons

def star(rng, n, cx, cy, r, jitter=0.3, rmin=0.35):
    pts = []
    for i in range(n):
        a = 2 * math.pi * (i + rng.uniform(-jitter, jitter)) / n
        rr = r * rng.uniform(rmin, 1.0)
        pts.append((cx + rr * math.cos(a), cy + rr * math.sin(a)))
    return pts


def simple_ring_ok(r):
    """exact test: the closed polyline r is simple (no two non-adjacent edges meet, no repeated vertex)"""
    n = len(r)
    if n < 3 or len(set(r)) != n:
        return False
    F = Fraction

    def orient(a, b, c):
        v = (F(b[0]) - F(a[0])) * (F(c[1]) - F(a[1])) - (F(b[1]) - F(a[1])) * (F(c[0]) - F(a[0]))
        return (v > 0) - (v < 0)

    def onseg(a, b, c):
        return min(a[0], b[0]) <= c[0] <= max(a[0], b[0]) and min(a[1], b[1]) <= c[1] <= max(a[1], b[1])

    def meet(a, b, c, d):
        o1, o2, o3, o4 = orient(a, b, c), orient(a, b, d), orient(c, d, a), orient(c, d, b)
        if o1 != o2 and o3 != o4:
            return True
        return (o1 == 0 and onseg(a, b, c)) or (o2 == 0 and onseg(a, b, d)) or (o3 == 0 and onseg(c, d, a)) or (o4 == 0 and onseg(c, d, b))
    for i in range(n):
        a, b = r[i], r[(i + 1) % n]
        if orient(r[i - 1], a, b) == 0:
            return False
        for j in range(i + 1, n):
            c, d = r[j], r[(j + 1) % n]
            if j == i + 1 or (i == 0 and j == n - 1):
                continue
            if meet(a, b, c, d):
                return False
    return area2([(Fraction(x), Fraction(y)) for x, y in r]) != 0


def lattice_polygon(rng, L, nmax=9, tries=50):
    """a simple polygon with vertices on the integer lattice [0,L]^2 (snapped star shape)"""
    for _ in range(tries):
        n = rng.randrange(3, nmax + 1)
        cx, cy = rng.uniform(0.3 * L, 0.7 * L), rng.uniform(0.3 * L, 0.7 * L)
        pts = [(float(min(L, max(0, round(x)))), float(min(L, max(0, round(y))))) for (x, y) in star(rng, n, cx, cy, 0.6 * L)]
        ded = [p for i, p in enumerate(pts) if p != pts[i - 1]]
        if simple_ring_ok(ded):
            return ded
    return [(0.0, 0.0), (float(L), 0.0), (0.0, float(L))]


def gp_polygon(rng, n=None, c=(0.0, 0.0), r=10.0, prec=64):
    n = n or rng.randrange(3, 10)
    pts = star(rng, n, c[0] + rng.uniform(-3, 3), c[1] + rng.uniform(-3, 3), r)
    if prec == 32:
        from .fmt import to_f32
        pts = [(to_f32(x), to_f32(y)) for (x, y) in pts]
    return pts


def star_polygon_selfx(rng, p, q, c=(0.0, 0.0), r=10.0):
    """the {p/q} star polygon with perturbed radii: self-crossing in general position"""
    pts = []
    rot = rng.uniform(0, 2 * math.pi)
    for i in range(p):
        a = rot + 2 * math.pi * ((i * q) % p) / p
        rr = r * rng.uniform(0.7, 1.0)
        pts.append((c[0] + rr * math.cos(a), c[1] + rr * math.sin(a)))
    return pts


# ------------------------------------------------------------------ families

def fam_rect(rng):
    n = rng.randrange(2, 7)
    a, ca = cell_operand(rng, n, 0)
    b, cb = cell_operand(rng, n, 0)
    return a, b, {'family': 'rect', 'n': n, 'cells': (sorted(ca), sorted(cb))}


def fam_oct(rng):
    n = rng.randrange(2, 6)
    kc = rng.random() < 0.3
    a, ca = cell_operand(rng, n, 1, keep_collinear=kc)
    b, cb = cell_operand(rng, n, 1, keep_collinear=kc)
    return a, b, {'family': 'oct', 'n': n, 'cells': (sorted(ca), sorted(cb))}


def rings_apart(r1, r2):
    """exact: the two simple rings have no common point and neither lies inside the other"""
    F = Fraction

    def orient(a, b, c):
        v = (F(b[0]) - F(a[0])) * (F(c[1]) - F(a[1])) - (F(b[1]) - F(a[1])) * (F(c[0]) - F(a[0]))
        return (v > 0) - (v < 0)

    def onseg(a, b, c):
        return min(a[0], b[0]) <= c[0] <= max(a[0], b[0]) and min(a[1], b[1]) <= c[1] <= max(a[1], b[1])
    for i in range(len(r1)):
        a, b = r1[i], r1[(i + 1) % len(r1)]
        for j in range(len(r2)):
            c, d = r2[j], r2[(j + 1) % len(r2)]
            o1, o2, o3, o4 = orient(a, b, c), orient(a, b, d), orient(c, d, a), orient(c, d, b)
            if o1 != o2 and o3 != o4:
                return False
            if (o1 == 0 and onseg(a, b, c)) or (o2 == 0 and onseg(a, b, d)) or (o3 == 0 and onseg(c, d, a)) or (o4 == 0 and onseg(c, d, b)):
                return False
    return not pt_in_ring(r1, r2[0]) and not pt_in_ring(r2, r1[0])


def lattice_operand(rng, L):
    parts = [lattice_polygon(rng, L)]
    if rng.random() < 0.35:
        for _ in range(6):
            q = lattice_polygon(rng, L)
            if rings_apart(parts[0], q):
                parts.append(q)
                break
        else:
            q = lattice_polygon(rng, L)
            dx = float(L + 1) if rng.random() < 0.5 else 0.0
            dy = 0.0 if dx else float(L + 1)
            parts.append([(x + dx, y + dy) for (x, y) in q])
    return ('M', [[p] for p in parts])


def fam_lat(rng):
    L = rng.choice([4, 8, 8, 30, 1000])
    return lattice_operand(rng, L), lattice_operand(rng, L), {'family': 'lat', 'L': L}


def fam_gp(rng, prec=64):
    a = ('M', [[gp_polygon(rng, prec=prec)]])
    b = ('M', [[gp_polygon(rng, prec=prec)]])
    return a, b, {'family': 'gp'}


def fam_self(rng):
    p, q = rng.choice([(5, 2), (7, 2), (7, 3), (9, 2), (9, 4)])
    a = ('M', [[star_polygon_selfx(rng, p, q, (rng.uniform(-2, 2), rng.uniform(-2, 2)))]])
    p, q = rng.choice([(5, 2), (7, 2), (7, 3)])
    b = ('M', [[star_polygon_selfx(rng, p, q, (rng.uniform(-2, 2), rng.uniform(-2, 2)))]])
    return a, b, {'family': 'self'}


def fam_degen(rng):
    """valid but unusual: empty operands, empty rings, unclosed rings, repeated vertices, -0.0, Polygon wrappers"""
    sq = [(0.0, 0.0), (2.0, 0.0), (2.0, 2.0), (0.0, 2.0)]
    sq2 = [(1.0, 1.0), (3.0, 1.0), (3.0, 3.0), (1.0, 3.0)]
    choices = [
        ('M', []),
        ('M', [[[]]]),
        ('M', [[sq]]),
        ('M', [[sq + [sq[0]]]]),
        ('M', [[[p for p in sq for _ in range(2)]]]),
        ('M', [[[(-0.0, -0.0), (2.0, -0.0), (2.0, 2.0), (-0.0, 2.0)]]]),
        ('M', [[sq2, []]]),
        ('M', [[sq, [(0.5, 0.5), (0.5, 1.5), (1.5, 1.5), (1.5, 0.5)]]]),
        ('P', [sq2]),
        ('P', [[]]),
        ('M', [[sq], [[(5.0, 5.0), (6.0, 5.0), (6.0, 6.0)]]]),
    ]
    a = rng.choice(choices)
    b = rng.choice(choices)
    return a, b, {'family': 'degen'}


def fam_ulp(rng):
    """near-vertical against near-horizontal bars perturbed by a few ulps"""
    def nudge(x, k):
        for _ in range(abs(k)):
            x = math.nextafter(x, math.inf if k > 0 else -math.inf)
        return x
    x0 = rng.choice([1.0, 0.3, 13.0, 1e3])
    k = [rng.randrange(-3, 4) for _ in range(8)]
    a = [(nudge(x0, k[0]), -5.0), (nudge(x0 + 1.0, k[1]), -5.0), (nudge(x0 + 1.0, k[2]), 5.0), (nudge(x0, k[3]), 5.0)]
    y0 = rng.choice([0.5, 0.7, -1.0])      # never 0.0: nudging it would leave the exponent range (N3)
    b = [(x0 - 4.0, nudge(y0, k[4])), (x0 + 4.0, nudge(y0, k[5])), (x0 + 4.0, nudge(y0 + 1.0, k[6])), (x0 - 4.0, nudge(y0 + 1.0, k[7]))]
    return ('M', [[a]]), ('M', [[b]]), {'family': 'ulp'}


FAMILIES = {'rect': fam_rect, 'oct': fam_oct, 'lat': fam_lat, 'gp': fam_gp, 'self': fam_self, 'degen': fam_degen, 'ulp': fam_ulp}
EXACT_FAMILIES = ('rect', 'oct')


def mixed(rng, weights):
    fams = list(weights)
    f = rng.choices(fams, [weights[k] for k in fams])[0]
    return FAMILIES[f](rng)


# ------------------------------------------------------------------ exact classification of arrangements

def degenerate_arrangement(a, b):
    """exact: some vertex lies on a non-adjacent edge, two edges overlap, or three edges are concurrent"""
    from .fmt import rings_of_operand
    F = Fraction
    edges = []
    for o in (a, b):
        for r in rings_of_operand(o):
            r = [p for i, p in enumerate(r) if i == 0 or p != r[i - 1]]
            if len(r) > 1 and r[0] == r[-1]:
                r = r[:-1]
            n = len(r)
            for i in range(n):
                if r[i] != r[(i + 1) % n]:
                    edges.append(((F(r[i][0]), F(r[i][1])), (F(r[(i + 1) % n][0]), F(r[(i + 1) % n][1]))))

    def orient(p, q, s):
        v = (q[0] - p[0]) * (s[1] - p[1]) - (q[1] - p[1]) * (s[0] - p[0])
        return (v > 0) - (v < 0)

    def inbox(p, q, s):
        return min(p[0], q[0]) <= s[0] <= max(p[0], q[0]) and min(p[1], q[1]) <= s[1] <= max(p[1], q[1])
    pts = {}
    for i, (p, q) in enumerate(edges):
        for j in range(i + 1, len(edges)):
            (s, t) = edges[j]
            o1, o2, o3, o4 = orient(p, q, s), orient(p, q, t), orient(s, t, p), orient(s, t, q)
            shared = {p, q} & {s, t}
            if o1 == 0 and o2 == 0:
                # collinear: overlap in more than a point?
                lo = max(min(p, q), min(s, t))
                hi = min(max(p, q), max(s, t))
                if lo < hi:
                    return True
                continue
            for (v, e0, e1, o) in ((s, p, q, o1), (t, p, q, o2), (p, s, t, o3), (q, s, t, o4)):
                if o == 0 and inbox(e0, e1, v) and v not in (e0, e1):
                    return True
            if o1 != o2 and o3 != o4 and not shared:
                # proper crossing: record the point to detect concurrency
                d = (q[0] - p[0]) * (t[1] - s[1]) - (q[1] - p[1]) * (t[0] - s[0])
                u = ((s[0] - p[0]) * (t[1] - s[1]) - (s[1] - p[1]) * (t[0] - s[0])) / d
                x = (p[0] + u * (q[0] - p[0]), p[1] + u * (q[1] - p[1]))
                pts.setdefault(x, set()).update((i, j))
    return any(len(v) > 2 for v in pts.values())


def fam_share(rng):
    """operands that share boundary pieces: B is A with some cells toggled / removed / added"""
    n = rng.randrange(2, 6)
    mode = rng.choice([0, 1])
    ca = gen_cells(rng, n, rng.choice([0.4, 0.55, 0.7]), mode)
    cb = set(ca)
    allc = [(x, y, k) for x in range(n) for y in range(n) for k in range(4)]
    for _ in range(rng.randrange(1, 2 * n)):
        c = rng.choice(allc)
        grp = [c] if mode == 1 and rng.random() < 0.5 else [(c[0], c[1], k) for k in range(4)]
        if rng.random() < 0.5:
            cb.difference_update(grp)
        else:
            cb.update(grp)
    kc = rng.random() < 0.3
    a = ('M', fpoly(cells_to_polygons(ca, kc)))
    b = ('M', fpoly(cells_to_polygons(cb, kc)))
    return a, b, {'family': 'share', 'n': n, 'cells': (sorted(ca), sorted(cb))}


def fam_selfop(rng):
    """A op A: every edge coincident"""
    f = rng.choice([fam_rect, fam_oct, fam_lat, fam_gp])
    a, _, meta = f(rng)
    return a, a, dict(meta, family='selfop')


FAMILIES['share'] = fam_share
FAMILIES['selfop'] = fam_selfop
