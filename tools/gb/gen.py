"""Generators of polygon operands (families of DESIGN.md §5).  Every random choice comes from the
`random.Random` instance passed in, so that a seed replays exactly.

Cells: the plane is tiled by 2x2 squares, each split by its centre into 4 triangles
(i, j, k), k = 0 bottom, 1 right, 2 top, 3 left; corners have even coordinates, centres odd.
A set of triangles is traced into valid polygons with holes (interior on the left)."""
import math
from fractions import Fraction

# ------------------------------------------------------------------ cell sets -> rings


def _sides(i, j, k):
    c0, c1, c2, c3 = (2 * i, 2 * j), (2 * i + 2, 2 * j), (2 * i + 2, 2 * j + 2), (2 * i, 2 * j + 2)
    m = (2 * i + 1, 2 * j + 1)
    if k == 0:
        return [(c0, c1, (i, j - 1, 2)), (c1, m, (i, j, 1)), (m, c0, (i, j, 3))]
    if k == 1:
        return [(c1, c2, (i + 1, j, 3)), (c2, m, (i, j, 2)), (m, c1, (i, j, 0))]
    if k == 2:
        return [(c2, c3, (i, j + 1, 0)), (c3, m, (i, j, 3)), (m, c2, (i, j, 1))]
    return [(c3, c0, (i - 1, j, 1)), (c0, m, (i, j, 0)), (m, c3, (i, j, 2))]


def area2(r):
    n = len(r)
    return sum(r[i][0] * r[(i + 1) % n][1] - r[(i + 1) % n][0] * r[i][1] for i in range(n))


def pt_in_ring(r, p):
    c = False
    n = len(r)
    for i in range(n):
        a, b = r[i], r[(i + 1) % n]
        if (a[1] > p[1]) != (b[1] > p[1]):
            x = Fraction(a[0]) + Fraction(p[1] - a[1]) * Fraction(b[0] - a[0]) / Fraction(b[1] - a[1])
            if x > p[0]:
                c = not c
    return c


def trace_rings(cells, keep_collinear=False):
    out = {}
    for (i, j, k) in cells:
        for (a, b, nb) in _sides(i, j, k):
            if nb not in cells:
                out.setdefault(a, []).append(b)
    rings = []
    for start in sorted(out):
        while out.get(start):
            first = out[start].pop()
            ring = [start, first]
            prev, cur = start, first
            while cur != start:
                cands = out[cur]
                d = (cur[0] - prev[0], cur[1] - prev[1])
                best, idx = None, 0
                for ci, c in enumerate(cands):
                    e = (c[0] - cur[0], c[1] - cur[1])
                    th = math.atan2(d[0] * e[1] - d[1] * e[0], d[0] * e[0] + d[1] * e[1])
                    if best is None or th > best:
                        best, idx = th, ci
                nxt = cands.pop(idx)
                ring.append(nxt)
                prev, cur = cur, nxt
            ring.pop()
            rings.append(ring)
    # split at repeated vertices so that every ring is simple
    simple = []
    for ring in rings:
        stack = []
        for p in ring:
            if p in stack:
                pos = stack.index(p)
                simple.append(stack[pos:])
                del stack[pos:]
            stack.append(p)
        if stack:
            simple.append(stack)
    res = []
    for r in simple:
        n = len(r)
        if keep_collinear:
            res.append(list(r))
        else:
            res.append([r[i] for i in range(n)
                        if (r[i][0] - r[i - 1][0]) * (r[(i + 1) % n][1] - r[i][1])
                        - (r[i][1] - r[i - 1][1]) * (r[(i + 1) % n][0] - r[i][0]) != 0])
    return res


def tri_pt(i, j, k):
    x, y = 2 * i, 2 * j
    return [(x + 1, Fraction(2 * y + 1, 2)), (Fraction(2 * x + 3, 2), y + 1), (x + 1, Fraction(2 * y + 3, 2)),
            (Fraction(2 * x + 1, 2), y + 1)][k]


def cells_to_polygons(cells, keep_collinear=False):
    """list of polygons (ring 0 exterior, counter-clockwise; holes clockwise), integer coordinates, rings not closed"""
    rings = trace_rings(cells, keep_collinear)
    exts = [r for r in rings if area2(r) > 0]
    holes = [r for r in rings if area2(r) < 0]
    polys = [[e] for e in exts]
    for h in holes:
        xs = [p[0] for p in h]
        ys = [p[1] for p in h]
        sample = None
        for x in range(min(xs) // 2 - 1, max(xs) // 2 + 1):
            for y in range(min(ys) // 2 - 1, max(ys) // 2 + 1):
                for k in range(4):
                    q = tri_pt(x, y, k)
                    if pt_in_ring(h, q):
                        sample = q
                        break
                if sample:
                    break
            if sample:
                break
        best = None
        for idx, pl in enumerate(polys):
            if pt_in_ring(pl[0], sample):
                a = area2(pl[0])
                if best is None or a < best[1]:
                    best = (idx, a)
        polys[best[0]].append(h)
    return polys


def gen_cells(rng, n, dens, mode):
    """mode 0: whole squares only (rectilinear); mode 1: squares and single triangles (octilinear)"""
    s = set()
    for x in range(n):
        for y in range(n):
            if mode == 0:
                if rng.random() < dens:
                    s.update((x, y, k) for k in range(4))
            else:
                r = rng.random()
                if r < dens * 0.5:
                    s.update((x, y, k) for k in range(4))
                elif r < dens * 0.5 + 0.35:
                    s.update((x, y, k) for k in range(4) if rng.random() < 0.5)
    return s


def fpoly(polys, scale=1.0, off=(0.0, 0.0)):
    return [[[(float(x) * scale + off[0], float(y) * scale + off[1]) for (x, y) in r] for r in p] for p in polys]


def cell_operand(rng, n, mode, dens=None, keep_collinear=False, scale=1.0, off=(0.0, 0.0)):
    dens = dens if dens is not None else rng.choice([0.25, 0.4, 0.55, 0.7])
    cells = gen_cells(rng, n, dens, mode)
    polys = fpoly(cells_to_polygons(cells, keep_collinear), scale, off)
    return ('M', polys), cells


def expected_cells(a, b, op):
    return {'I': a & b, 'U': a | b, 'D': a - b, 'X': a ^ b}[op]


# ------------------------------------------------------------------ general polygons

def star(rng, n, cx, cy, r, jitter=0.3, rmin=0.35):
    pts = []
    for i in range(n):
        a = 2 * math.pi * (i + rng.uniform(-jitter, jitter)) / n
        rr = r * rng.uniform(rmin, 1.0)
        pts.append((cx + rr * math.cos(a), cy + rr * math.sin(a)))
    return pts


def simple_ring_ok(r):
    """exact test: the closed polyline r is simple (no two non-adjacent edges meet, no repeated vertex)"""
    n = len(r)
    if n < 3 or len(set(r)) != n:
        return False
    F = Fraction

    def orient(a, b, c):
        v = (F(b[0]) - F(a[0])) * (F(c[1]) - F(a[1])) - (F(b[1]) - F(a[1])) * (F(c[0]) - F(a[0]))
        return (v > 0) - (v < 0)

    def onseg(a, b, c):
        return min(a[0], b[0]) <= c[0] <= max(a[0], b[0]) and min(a[1], b[1]) <= c[1] <= max(a[1], b[1])

    def meet(a, b, c, d):
        o1, o2, o3, o4 = orient(a, b, c), orient(a, b, d), orient(c, d, a), orient(c, d, b)
        if o1 != o2 and o3 != o4:
            return True
        return (o1 == 0 and onseg(a, b, c)) or (o2 == 0 and onseg(a, b, d)) or (o3 == 0 and onseg(c, d, a)) or (o4 == 0 and onseg(c, d, b))
    for i in range(n):
        a, b = r[i], r[(i + 1) % n]
        if orient(r[i - 1], a, b) == 0:
            return False
        for j in range(i + 1, n):
            c, d = r[j], r[(j + 1) % n]
            if j == i + 1 or (i == 0 and j == n - 1):
                continue
            if meet(a, b, c, d):
                return False
    return area2([(Fraction(x), Fraction(y)) for x, y in r]) != 0


def lattice_polygon(rng, L, nmax=9, tries=50):
    """a simple polygon with vertices on the integer lattice [0,L]^2 (snapped star shape)"""
    for _ in range(tries):
        n = rng.randrange(3, nmax + 1)
        cx, cy = rng.uniform(0.3 * L, 0.7 * L), rng.uniform(0.3 * L, 0.7 * L)
        pts = [(float(min(L, max(0, round(x)))), float(min(L, max(0, round(y))))) for (x, y) in star(rng, n, cx, cy, 0.6 * L)]
        ded = [p for i, p in enumerate(pts) if p != pts[i - 1]]
        if simple_ring_ok(ded):
            return ded
    return [(0.0, 0.0), (float(L), 0.0), (0.0, float(L))]


def gp_polygon(rng, n=None, c=(0.0, 0.0), r=10.0, prec=64):
    n = n or rng.randrange(3, 10)
    pts = star(rng, n, c[0] + rng.uniform(-3, 3), c[1] + rng.uniform(-3, 3), r)
    if prec == 32:
        from .fmt import to_f32
        pts = [(to_f32(x), to_f32(y)) for (x, y) in pts]
    return pts


def star_polygon_selfx(rng, p, q, c=(0.0, 0.0), r=10.0):
    """the {p/q} star polygon with perturbed radii: self-crossing in general position"""
    pts = []
    rot = rng.uniform(0, 2 * math.pi)
    for i in range(p):
        a = rot + 2 * math.pi * ((i * q) % p) / p
        rr = r * rng.uniform(0.7, 1.0)
        pts.append((c[0] + rr * math.cos(a), c[1] + rr * math.sin(a)))
    return pts


# ------------------------------------------------------------------ families

def fam_rect(rng):
    n = rng.randrange(2, 7)
    a, ca = cell_operand(rng, n, 0)
    b, cb = cell_operand(rng, n, 0)
    return a, b, {'family': 'rect', 'n': n, 'cells': (sorted(ca), sorted(cb))}


def fam_oct(rng):
    n = rng.randrange(2, 6)
    kc = rng.random() < 0.3
    a, ca = cell_operand(rng, n, 1, keep_collinear=kc)
    b, cb = cell_operand(rng, n, 1, keep_collinear=kc)
    return a, b, {'family': 'oct', 'n': n, 'cells': (sorted(ca), sorted(cb))}


def rings_apart(r1, r2):
    """exact: the two simple rings have no common point and neither lies inside the other"""
    F = Fraction

    def orient(a, b, c):
        v = (F(b[0]) - F(a[0])) * (F(c[1]) - F(a[1])) - (F(b[1]) - F(a[1])) * (F(c[0]) - F(a[0]))
        return (v > 0) - (v < 0)

    def onseg(a, b, c):
        return min(a[0], b[0]) <= c[0] <= max(a[0], b[0]) and min(a[1], b[1]) <= c[1] <= max(a[1], b[1])
    for i in range(len(r1)):
        a, b = r1[i], r1[(i + 1) % len(r1)]
        for j in range(len(r2)):
            c, d = r2[j], r2[(j + 1) % len(r2)]
            o1, o2, o3, o4 = orient(a, b, c), orient(a, b, d), orient(c, d, a), orient(c, d, b)
            if o1 != o2 and o3 != o4:
                return False
            if (o1 == 0 and onseg(a, b, c)) or (o2 == 0 and onseg(a, b, d)) or (o3 == 0 and onseg(c, d, a)) or (o4 == 0 and onseg(c, d, b)):
                return False
    return not pt_in_ring(r1, r2[0]) and not pt_in_ring(r2, r1[0])


def lattice_operand(rng, L):
    parts = [lattice_polygon(rng, L)]
    if rng.random() < 0.35:
        for _ in range(6):
            q = lattice_polygon(rng, L)
            if rings_apart(parts[0], q):
                parts.append(q)
                break
        else:
            q = lattice_polygon(rng, L)
            dx = float(L + 1) if rng.random() < 0.5 else 0.0
            dy = 0.0 if dx else float(L + 1)
            parts.append([(x + dx, y + dy) for (x, y) in q])
    return ('M', [[p] for p in parts])


def fam_lat(rng):
    L = rng.choice([4, 8, 8, 30, 1000])
    return lattice_operand(rng, L), lattice_operand(rng, L), {'family': 'lat', 'L': L}


def fam_gp(rng, prec=64):
    a = ('M', [[gp_polygon(rng, prec=prec)]])
    b = ('M', [[gp_polygon(rng, prec=prec)]])
    return a, b, {'family': 'gp'}


def fam_self(rng):
    p, q = rng.choice([(5, 2), (7, 2), (7, 3), (9, 2), (9, 4)])
    a = ('M', [[star_polygon_selfx(rng, p, q, (rng.uniform(-2, 2), rng.uniform(-2, 2)))]])
    p, q = rng.choice([(5, 2), (7, 2), (7, 3)])
    b = ('M', [[star_polygon_selfx(rng, p, q, (rng.uniform(-2, 2), rng.uniform(-2, 2)))]])
    return a, b, {'family': 'self'}


def fam_degen(rng):
    """valid but unusual: empty operands, empty rings, unclosed rings, repeated vertices, -0.0, Polygon wrappers"""
    sq = [(0.0, 0.0), (2.0, 0.0), (2.0, 2.0), (0.0, 2.0)]
    sq2 = [(1.0, 1.0), (3.0, 1.0), (3.0, 3.0), (1.0, 3.0)]
    choices = [
        ('M', []),
        ('M', [[[]]]),
        ('M', [[sq]]),
        ('M', [[sq + [sq[0]]]]),
        ('M', [[[p for p in sq for _ in range(2)]]]),
        ('M', [[[(-0.0, -0.0), (2.0, -0.0), (2.0, 2.0), (-0.0, 2.0)]]]),
        ('M', [[sq2, []]]),
        ('M', [[sq, [(0.5, 0.5), (0.5, 1.5), (1.5, 1.5), (1.5, 0.5)]]]),
        ('P', [sq2]),
        ('P', [[]]),
        ('M', [[sq], [[(5.0, 5.0), (6.0, 5.0), (6.0, 6.0)]]]),
    ]
    a = rng.choice(choices)
    b = rng.choice(choices)
    return a, b, {'family': 'degen'}


def fam_ulp(rng):
    """near-vertical against near-horizontal bars perturbed by a few ulps"""
    def nudge(x, k):
        for _ in range(abs(k)):
            x = math.nextafter(x, math.inf if k > 0 else -math.inf)
        return x
    x0 = rng.choice([1.0, 0.3, 13.0, 1e3])
    k = [rng.randrange(-3, 4) for _ in range(8)]
    a = [(nudge(x0, k[0]), -5.0), (nudge(x0 + 1.0, k[1]), -5.0), (nudge(x0 + 1.0, k[2]), 5.0), (nudge(x0, k[3]), 5.0)]
    y0 = rng.choice([0.5, 0.7, -1.5])      # neither y0 nor y0 + 1 may be 0.0: nudging it would leave the exponent range (N3)
    b = [(x0 - 4.0, nudge(y0, k[4])), (x0 + 4.0, nudge(y0, k[5])), (x0 + 4.0, nudge(y0 + 1.0, k[6])), (x0 - 4.0, nudge(y0 + 1.0, k[7]))]
    return ('M', [[a]]), ('M', [[b]]), {'family': 'ulp'}


FAMILIES = {'rect': fam_rect, 'oct': fam_oct, 'lat': fam_lat, 'gp': fam_gp, 'self': fam_self, 'degen': fam_degen, 'ulp': fam_ulp}
EXACT_FAMILIES = ('rect', 'oct', 'boxes', 'fan', 'sliver')


def mixed(rng, weights):
    fams = list(weights)
    f = rng.choices(fams, [weights[k] for k in fams])[0]
    return FAMILIES[f](rng)


# ------------------------------------------------------------------ exact classification of arrangements

def degenerate_arrangement(a, b):
    """exact: some vertex lies on a non-adjacent edge, two edges overlap, or three edges are concurrent"""
    from .fmt import rings_of_operand
    F = Fraction
    edges = []
    for o in (a, b):
        for r in rings_of_operand(o):
            r = [p for i, p in enumerate(r) if i == 0 or p != r[i - 1]]
            if len(r) > 1 and r[0] == r[-1]:
                r = r[:-1]
            n = len(r)
            for i in range(n):
                if r[i] != r[(i + 1) % n]:
                    edges.append(((F(r[i][0]), F(r[i][1])), (F(r[(i + 1) % n][0]), F(r[(i + 1) % n][1]))))

    def orient(p, q, s):
        v = (q[0] - p[0]) * (s[1] - p[1]) - (q[1] - p[1]) * (s[0] - p[0])
        return (v > 0) - (v < 0)

    def inbox(p, q, s):
        return min(p[0], q[0]) <= s[0] <= max(p[0], q[0]) and min(p[1], q[1]) <= s[1] <= max(p[1], q[1])
    pts = {}
    for i, (p, q) in enumerate(edges):
        for j in range(i + 1, len(edges)):
            (s, t) = edges[j]
            o1, o2, o3, o4 = orient(p, q, s), orient(p, q, t), orient(s, t, p), orient(s, t, q)
            shared = {p, q} & {s, t}
            if o1 == 0 and o2 == 0:
                # collinear: overlap in more than a point?
                lo = max(min(p, q), min(s, t))
                hi = min(max(p, q), max(s, t))
                if lo < hi:
                    return True
                continue
            for (v, e0, e1, o) in ((s, p, q, o1), (t, p, q, o2), (p, s, t, o3), (q, s, t, o4)):
                if o == 0 and inbox(e0, e1, v) and v not in (e0, e1):
                    return True
            if o1 != o2 and o3 != o4 and not shared:
                # proper crossing: record the point to detect concurrency
                d = (q[0] - p[0]) * (t[1] - s[1]) - (q[1] - p[1]) * (t[0] - s[0])
                u = ((s[0] - p[0]) * (t[1] - s[1]) - (s[1] - p[1]) * (t[0] - s[0])) / d
                x = (p[0] + u * (q[0] - p[0]), p[1] + u * (q[1] - p[1]))
                pts.setdefault(x, set()).update((i, j))
    return any(len(v) > 2 for v in pts.values())


def fam_share(rng):
    """operands that share boundary pieces: B is A with some cells toggled / removed / added"""
    n = rng.randrange(2, 6)
    mode = rng.choice([0, 1])
    ca = gen_cells(rng, n, rng.choice([0.4, 0.55, 0.7]), mode)
    cb = set(ca)
    allc = [(x, y, k) for x in range(n) for y in range(n) for k in range(4)]
    for _ in range(rng.randrange(1, 2 * n)):
        c = rng.choice(allc)
        grp = [c] if mode == 1 and rng.random() < 0.5 else [(c[0], c[1], k) for k in range(4)]
        if rng.random() < 0.5:
            cb.difference_update(grp)
        else:
            cb.update(grp)
    kc = rng.random() < 0.3
    a = ('M', fpoly(cells_to_polygons(ca, kc)))
    b = ('M', fpoly(cells_to_polygons(cb, kc)))
    return a, b, {'family': 'share', 'n': n, 'cells': (sorted(ca), sorted(cb))}


def fam_selfop(rng):
    """A op A: every edge coincident; half of the time every ring is written down in the opposite direction (clockwise
    exteriors, counter-clockwise holes: a valid way of writing the operand), so that an operand handed back verbatim is
    told apart from an assembled result"""
    f = rng.choice([fam_rect, fam_oct, fam_lat, fam_gp])
    a, _, meta = f(rng)
    if rng.random() < 0.5:
        kind, v = a
        rev = lambda poly: [list(reversed(r)) for r in poly]  # noqa: E731
        a = (kind, rev(v)) if kind == 'P' else (kind, [rev(poly) for poly in v])
        meta = dict(meta, reversed_rings=True)
    return a, a, dict(meta, family='selfop')


FAMILIES['share'] = fam_share
FAMILIES['selfop'] = fam_selfop


# ------------------------------------------------------------------ families added after the seeded-change campaign
def _rep32(v):
    """the rational v is exactly representable in binary32"""
    from .fmt import to_f32
    try:
        f = float(v)
    except OverflowError:
        return False
    return Fraction(f) == v and to_f32(f) == f


def _orient(a, b, c):
    F = Fraction
    v = (F(b[0]) - F(a[0])) * (F(c[1]) - F(a[1])) - (F(b[1]) - F(a[1])) * (F(c[0]) - F(a[0]))
    return (v > 0) - (v < 0)


_SYM8 = [lambda x, y: (x, y), lambda x, y: (-x, y), lambda x, y: (x, -y), lambda x, y: (-x, -y),
         lambda x, y: (y, x), lambda x, y: (-y, x), lambda x, y: (y, -x), lambda x, y: (-y, -x)]


def fam_fan(rng):
    """two triangles that share exactly one vertex P; an edge of one passes a hair's breadth (a few units in the last
    place of binary32) from a vertex of the other, coordinates of mixed magnitude, all exactly representable in binary32.
    No two edges cross, so no intersection point is ever computed: the arithmetic is exact (comparisons and the
    orientation predicate only) and every clause holds with tolerance 0 in both precisions."""
    while True:
        P = (rng.choice([0.75, 0.25, 0.0, 1.5, 3.0]), rng.choice([0.75, 0.25, 0.0, 1.5, -2.0]))
        bx, by = float(rng.randrange(10 ** 6, 8 * 10 ** 6)), float(rng.randrange(10 ** 5, 4 * 10 ** 6))
        B = (bx, by)
        t = rng.uniform(0.3, 0.9)
        cx0 = round(P[0] + t * (bx - P[0]))
        # among a window of abscissae take the lattice point strictly below the line P->B that is nearest to it (the
        # orientation determinant is then far smaller than the rounding error of its evaluation in single precision)
        best = None
        Fr = Fraction
        for cxi in range(cx0 - rng.choice([0, 50, 400]), cx0 + 1):
            yl = Fr(P[1]) + (Fr(cxi) - Fr(P[0])) * (Fr(by) - Fr(P[1])) / (Fr(bx) - Fr(P[0]))
            cyi = math.floor(yl)
            if cyi == yl:
                cyi -= 1
            gap = yl - cyi
            if best is None or gap < best[0]:
                best = (gap, float(cxi), float(cyi))
        cx, cy = best[1], best[2] - rng.choice([0, 0, 0, 1])
        if _orient(P, B, (cx, cy)) >= 0:
            continue
        C = (cx, cy)
        H = float(rng.randrange(10 ** 5, 10 ** 6))
        subj = [P, B, (bx, by + H)]
        if rng.random() < 0.5:
            clip = [P, (cx, cy - H), C]
        else:
            # a separate part whose apex C almost touches the long edge P->B from below (no common vertex: the two nearly
            # collinear points are compared by the orientation predicate only)
            hw = float(rng.randrange(100, 5000))
            clip = [C, (cx - hw, cy - H), (cx + hw, cy - H)]
            if any(_orient(P, B, q) >= 0 for q in clip):
                continue
        if max(abs(v) for p in subj + clip for v in p) >= 2 ** 23:
            continue
        f = rng.choice(_SYM8)
        subj = [f(x, y) for (x, y) in subj]
        clip = [f(x, y) for (x, y) in clip]
        k = rng.randrange(3)
        subj = subj[k:] + subj[:k]
        if rng.random() < 0.5:
            clip.reverse()
        a, b = ('M', [[subj]]), ('M', [[clip]])
        if rng.random() < 0.5:
            a, b = b, a
        return a, b, {'family': 'fan'}


def _segments_of(r):
    return [(r[i], r[(i + 1) % len(r)]) for i in range(len(r))]


def _crossings_rep32(r1, r2):
    """(all pairwise intersection points of the two rings' edges are representable in binary32, number of proper crossings)"""
    from . import segs
    n = 0
    for (a, b) in _segments_of(r1):
        for (c, d) in _segments_of(r2):
            cl = segs.classify(a, b, c, d)
            if cl[0] == 'overlap':
                return False, 0
            if cl[0] == 'point':
                if not (_rep32(cl[1][0]) and _rep32(cl[1][1])):
                    return False, 0
                if segs.interior(a, b, cl[1]) or segs.interior(c, d, cl[1]):
                    if not (segs.interior(a, b, cl[1]) and segs.interior(c, d, cl[1])):
                        return False, 0          # T-junction: keep the family in general position apart from exactness
                    n += 1
    return True, n


def fam_sliver(rng):
    """long thin triangles (aspect ratio 2^8 .. 2^15) crossing each other at very small angles; every vertex and every
    crossing point is a dyadic rational exactly representable in binary32, so both precisions are exact"""
    for _ in range(400):
        W = float(2 ** rng.randrange(8, 16))
        xs = [-W, -W / 2, 0.0, W / 2, W]
        ys = [-2.0, -1.0, 0.0, 1.0, 2.0, 3.0, 4.0]
        r1 = [(rng.choice(xs), rng.choice(ys)) for _ in range(3)]
        r2 = [(rng.choice(xs), rng.choice(ys)) for _ in range(3)]
        if not (simple_ring_ok(r1) and simple_ring_ok(r2)):
            continue
        ok, n = _crossings_rep32(r1, r2)
        if ok and n >= 2:
            return ('M', [[r1]]), ('M', [[r2]]), {'family': 'sliver', 'W': W}
    r1 = [(0.0, 0.0), (32768.0, 0.0), (32768.0, 2.0)]
    r2 = [(-16384.0, 2.0), (-16384.0, -1.0), (32768.0, -1.0)]
    return ('M', [[r1]]), ('M', [[r2]]), {'family': 'sliver', 'W': 32768.0}


def _box(x0, y0, x1, y1, rng):
    r = [(float(x0), float(y0)), (float(x1), float(y0)), (float(x1), float(y1)), (float(x0), float(y1))]
    k = rng.randrange(4)
    r = r[k:] + r[:k]
    if rng.random() < 0.35:
        r.reverse()                  # clockwise: a valid way of writing the ring down
    if rng.random() < 0.3:
        r = r + [r[0]]
    return r


def fam_boxes(rng):
    """two axis-parallel integer rectangles in every mutual position: overlapping, nested, equal, touching along an edge,
    along part of an edge, at a corner, bounding boxes disjoint on each of the four sides; written counter-clockwise or
    clockwise from any start vertex, as Polygon or MultiPolygon"""
    x0, y0 = rng.randrange(0, 4), rng.randrange(0, 4)
    w, h = rng.randrange(1, 5), rng.randrange(1, 5)
    rel = rng.choice(['overlap', 'nested', 'equal', 'edge', 'part', 'corner', 'left', 'right', 'above', 'below', 'cross'])
    w2, h2 = rng.randrange(1, 5), rng.randrange(1, 5)
    if rel == 'overlap':
        u0, v0 = x0 + rng.randrange(-w2 + 1, w), y0 + rng.randrange(-h2 + 1, h)
    elif rel == 'nested':
        w, h = w + 2, h + 2
        w2, h2 = rng.randrange(1, w - 1 + 1), rng.randrange(1, h - 1 + 1)
        u0, v0 = x0 + rng.randrange(0, w - w2 + 1), y0 + rng.randrange(0, h - h2 + 1)
    elif rel == 'equal':
        u0, v0, w2, h2 = x0, y0, w, h
    elif rel == 'edge':
        side = rng.choice('lrab')
        if side in 'lr':
            h2 = h
            u0, v0 = (x0 - w2, y0) if side == 'l' else (x0 + w, y0)
        else:
            w2 = w
            u0, v0 = (x0, y0 + h) if side == 'a' else (x0, y0 - h2)
    elif rel == 'part':
        side = rng.choice('lrab')
        if side in 'lr':
            u0, v0 = (x0 - w2 if side == 'l' else x0 + w), y0 + rng.randrange(-h2 + 1, h)
        else:
            u0, v0 = x0 + rng.randrange(-w2 + 1, w), (y0 + h if side == 'a' else y0 - h2)
    elif rel == 'corner':
        u0 = x0 + w if rng.random() < 0.5 else x0 - w2
        v0 = y0 + h if rng.random() < 0.5 else y0 - h2
    elif rel == 'left':
        u0, v0 = x0 - w2 - rng.randrange(1, 3), y0 + rng.randrange(-h2 - 1, h + 2)
    elif rel == 'right':
        u0, v0 = x0 + w + rng.randrange(1, 3), y0 + rng.randrange(-h2 - 1, h + 2)
    elif rel == 'above':
        u0, v0 = x0 + rng.randrange(-w2 - 1, w + 2), y0 + h + rng.randrange(1, 3)
    elif rel == 'below':
        u0, v0 = x0 + rng.randrange(-w2 - 1, w + 2), y0 - h2 - rng.randrange(1, 3)
    else:   # cross: a plus sign
        w2, h2 = w + 2, 1
        u0, v0 = x0 - 1, y0 + rng.randrange(0, h)
        if h == 1:
            h = 3
            v0 = y0 + 1
    a = [_box(x0, y0, x0 + w, y0 + h, rng)]
    b = [_box(u0, v0, u0 + w2, v0 + h2, rng)]
    oa = ('P', a) if rng.random() < 0.5 else ('M', [a])
    ob = ('P', b) if rng.random() < 0.5 else ('M', [b])
    return oa, ob, {'family': 'boxes', 'rel': rel}


def fam_straddle(rng):
    """B's vertices are drawn from a range three times as wide as A's, so that B straddles A's bounding box: vertices of B
    beyond A's right / upper edge, edges of B that lie entirely to the right of A, bounding boxes that overlap in one
    coordinate only (the shortcut and early-exit conditions of C09)"""
    L = rng.choice([4, 6, 8])
    a = lattice_polygon(rng, L, nmax=6)
    if rng.random() < 0.4:
        # overhang: a triangle reaching over the right (after a symmetry: any) side of A with two consecutive vertices beyond it,
        # whose only vertex inside A's x-range lies outside A's y-range
        x1 = float(rng.randrange(1, L))
        x2 = float(L + rng.randrange(1, 6))
        ylo, yhi = float(-rng.randrange(1, L + 1)), float(L + rng.randrange(1, 3 * L))
        b = rng.choice([[(x1, ylo), (x2, yhi), (x2, ylo)], [(x1, yhi), (x2, ylo), (x2, yhi)],
                        [(x1, ylo), (x2, ylo), (x2, yhi)], [(x1, yhi), (x2, yhi), (x2, ylo)]])
        k = rng.randrange(3)
        b = b[k:] + b[:k]
        f = rng.choice(_SYM8)
        oa, ob = ('M', [[[f(x, y) for (x, y) in a]]]), ('M', [[[f(x, y) for (x, y) in b]]])
        if rng.random() < 0.3:
            oa, ob = ob, oa
        return oa, ob, {'family': 'straddle', 'L': L, 'overhang': True}
    for _ in range(60):
        n = rng.randrange(3, 6)
        pts = [(float(rng.randrange(-L, 2 * L + 1)), float(rng.randrange(-L, 2 * L + 1))) for _ in range(n)]
        cx = sum(p[0] for p in pts) / n
        cy = sum(p[1] for p in pts) / n
        pts.sort(key=lambda p: math.atan2(p[1] - cy, p[0] - cx))
        if simple_ring_ok(pts):
            b = pts
            break
    else:
        b = [(float(L), -1.0), (float(2 * L), float(L) / 2), (float(L) + 1.0, float(2 * L))]
    oa, ob = ('M', [[a]]), ('M', [[b]])
    if rng.random() < 0.5:
        oa, ob = ob, oa
    return oa, ob, {'family': 'straddle', 'L': L}


FAMILIES['fan'] = fam_fan
FAMILIES['sliver'] = fam_sliver
FAMILIES['boxes'] = fam_boxes
FAMILIES['straddle'] = fam_straddle


def rounded_parallel(a, b, prec):
    """finding N5: two input edges that are NOT parallel (exact cross product of their direction vectors non-zero) but whose
    cross product, evaluated the way segment_intersection.rs does it in the working precision, is exactly 0"""
    from .fmt import rings_of_operand, to_f32
    rnd = (lambda q: to_f32(float(q))) if prec == 32 else (lambda q: float(q))
    F = Fraction
    edges = []
    for o in (a, b):
        for r in rings_of_operand(o):
            r = [p for i, p in enumerate(r) if i == 0 or p != r[i - 1]]
            if len(r) > 1 and r[0] == r[-1]:
                r = r[:-1]
            n = len(r)
            for i in range(n):
                if r[i] != r[(i + 1) % n]:
                    edges.append((r[i], r[(i + 1) % n]))
    if len(edges) > 200:
        return False
    for i, (p, q) in enumerate(edges):
        vax, vay = rnd(F(q[0]) - F(p[0])), rnd(F(q[1]) - F(p[1]))
        for (s, t) in edges[i + 1:]:
            vbx, vby = rnd(F(t[0]) - F(s[0])), rnd(F(t[1]) - F(s[1]))
            exact = (F(q[0]) - F(p[0])) * (F(t[1]) - F(s[1])) - (F(q[1]) - F(p[1])) * (F(t[0]) - F(s[0]))
            if exact == 0:
                continue
            for (ux, uy, wx, wy) in ((vax, vay, vbx, vby), (vbx, vby, vax, vay), (-vax, -vay, vbx, vby), (vbx, vby, -vax, -vay)):
                k = rnd(F(rnd(F(ux) * F(wy))) - F(rnd(F(uy) * F(wx))))
                if k == 0.0:
                    return True
    return False


def fam_near(rng, prec=32):
    """a right triangle and a small square whose corner lies a few units in the last place OUTSIDE the hypotenuse
    (checked exactly): the operands are disjoint and no edge touches another, but the orientation of the corner with
    respect to the hypotenuse can only be decided by an exact predicate; coordinates carry full mantissas"""
    from .fmt import to_f32
    R = to_f32 if prec == 32 else (lambda v: v)
    import struct

    def nudge(x, k):
        if prec == 64:
            for _ in range(abs(k)):
                x = math.nextafter(x, math.inf if k > 0 else -math.inf)
            return x
        b = struct.unpack('>i', struct.pack('>f', x))[0]
        b += k if b >= 0 else -k
        return struct.unpack('>f', struct.pack('>i', b))[0]
    while True:
        adv = adversarial_corner(rng, prec, 200) if rng.random() < 0.7 else None
        if adv:
            (w, _), (_, h), (cx, cy) = adv
            tri = [(0.0, 0.0), (w, 0.0), (0.0, h)]
            s = float(rng.choice([50, 20, 64, 7]))
            sq = [(cx, cy), (R(cx + s), cy), (R(cx + s), R(cy + s)), (cx, R(cy + s))]
            if any(_orient((w, 0.0), (0.0, h), q) >= 0 for q in sq):
                continue
            f = rng.choice(_SYM8)
            tri2 = [f(x, y) for (x, y) in tri]
            sq2 = [f(x, y) for (x, y) in sq]
            k = rng.randrange(4)
            sq2 = sq2[k:] + sq2[:k]
            a, b = ('M', [[tri2]]), ('M', [[sq2]])
            if rng.random() < 0.5:
                a, b = b, a
            return a, b, {'family': 'near', 'adversarial': True}
        w, h = float(rng.choice([1000, 700, 4096, 300, 2500])), float(rng.choice([700, 1000, 333, 2048, 90]))
        tri = [(0.0, 0.0), (w, 0.0), (0.0, h)]
        t = rng.uniform(0.15, 0.85)
        cx = R(w * (1 - t))
        cy = R(h * t)
        # move the corner outwards (up/right of the hypotenuse) until it is strictly outside, then a few more steps
        steps = 0
        while _orient((w, 0.0), (0.0, h), (cx, cy)) >= 0 and steps < 50:
            cy = nudge(cy, 1)
            steps += 1
        cy = nudge(cy, rng.randrange(0, 3))
        if _orient((w, 0.0), (0.0, h), (cx, cy)) >= 0:
            continue
        s = float(rng.choice([50, 20, 64, 7]))
        sq = [(cx, cy), (R(cx + s), cy), (R(cx + s), R(cy + s)), (cx, R(cy + s))]
        if any(_orient((w, 0.0), (0.0, h), q) >= 0 for q in sq):
            continue
        f = rng.choice(_SYM8)
        tri2 = [f(x, y) for (x, y) in tri]
        sq2 = [f(x, y) for (x, y) in sq]
        k = rng.randrange(4)
        sq2 = sq2[k:] + sq2[:k]
        a, b = ('M', [[tri2]]), ('M', [[sq2]])
        if rng.random() < 0.5:
            a, b = b, a
        return a, b, {'family': 'near'}


FAMILIES['near'] = fam_near


def naive_orient_sign(p0, p1, p2, prec):
    """sign of the plain floating-point determinant (p0-p2) x (p1-p2) evaluated in the working precision (the quantity a
    non-robust orientation test would look at)"""
    from .fmt import to_f32
    R = to_f32 if prec == 32 else (lambda v: v)
    dl = R(R(p0[0] - p2[0]) * R(p1[1] - p2[1]))
    dr = R(R(p0[1] - p2[1]) * R(p1[0] - p2[0]))
    d = R(dl - dr)
    return (d > 0) - (d < 0)


def adversarial_corner(rng, prec, tries=4000):
    """(a, b, c): c lies strictly on the negative side of the line a->b, a few units in the last place away, and the plain
    floating-point determinant of (a, b, c) — in some argument order — has the WRONG non-zero sign"""
    from .fmt import to_f32
    R = to_f32 if prec == 32 else (lambda v: v)
    import struct

    def nudge(x, k):
        if prec == 64:
            for _ in range(abs(k)):
                x = math.nextafter(x, math.inf if k > 0 else -math.inf)
            return x
        b = struct.unpack('>i', struct.pack('>f', x))[0]
        b += k if b >= 0 else -k
        return struct.unpack('>f', struct.pack('>i', b))[0]
    for _ in range(tries):
        w, h = float(rng.choice([1000, 700, 4096, 300, 2500, 77])), float(rng.choice([700, 1000, 333, 2048, 90, 51]))
        a, b = (w, 0.0), (0.0, h)
        t = rng.uniform(0.1, 0.9)
        cx, cy = R(w * (1 - t)), R(h * t)
        steps = 0
        while _orient(a, b, (cx, cy)) >= 0 and steps < 60:
            cy = nudge(cy, 1)
            steps += 1
        for extra in range(3):
            c = (cx, nudge(cy, extra))
            if _orient(a, b, c) >= 0:
                continue
            for (p0, p1, p2, sgn) in ((a, b, c, -1), (b, a, c, 1), (c, a, b, -1), (a, c, b, 1), (b, c, a, -1), (c, b, a, 1)):
                s = naive_orient_sign(p0, p1, p2, prec)
                if s != 0 and s != sgn:
                    return a, b, c
    return None


def near_degenerate(a, b, prec, ulps=32):
    """finding N6: some vertex lies within `ulps` units in the last place (of the magnitude of the coordinates involved) of an
    edge it is not an endpoint of, without lying on it — decided exactly"""
    from .fmt import rings_of_operand
    F = Fraction
    eps = F(1, 2 ** (24 if prec == 32 else 53))
    rings = []
    for o in (a, b):
        for r in rings_of_operand(o):
            r = [p for i, p in enumerate(r) if i == 0 or p != r[i - 1]]
            if len(r) > 1 and r[0] == r[-1]:
                r = r[:-1]
            if len(r) >= 2:
                rings.append([(F(x), F(y)) for (x, y) in r])
    edges = [(r[i], r[(i + 1) % len(r)]) for r in rings for i in range(len(r)) if r[i] != r[(i + 1) % len(r)]]
    verts = {p for r in rings for p in r}
    if len(edges) * len(verts) > 40000:
        return False
    for (p, q) in edges:
        dx, dy = q[0] - p[0], q[1] - p[1]
        l2 = dx * dx + dy * dy
        mag = max(abs(p[0]), abs(p[1]), abs(q[0]), abs(q[1]), F(1, 2 ** 100))
        tol = ulps * eps * mag
        for v in verts:
            if v == p or v == q:
                continue
            cr = dx * (v[1] - p[1]) - dy * (v[0] - p[0])
            if cr == 0:
                continue
            t = dx * (v[0] - p[0]) + dy * (v[1] - p[1])
            if t < 0 or t > l2:
                continue
            if cr * cr <= tol * tol * l2:
                return True
    return False


def fam_near64(rng):
    a, b, m = fam_near(rng, 64)
    return a, b, dict(m, family='near64')


FAMILIES['near64'] = fam_near64



def fam_ulp32(rng):
    """the `ulp` family in binary32, on either side of x = 0: near-vertical against near-horizontal bars whose corners are a
    few units in the last place apart, so that division points fall onto the abscissa of a left endpoint (the one-ulp bump of
    divide_segment, in single precision and for negative abscissae)"""
    import struct

    def nudge(x, k):
        b = struct.unpack('>i', struct.pack('>f', x))[0]
        if x == 0.0:
            return x
        b += k if b >= 0 else -k
        return struct.unpack('>f', struct.pack('>i', b))[0]
    sgn = rng.choice([1.0, -1.0])
    x0 = sgn * rng.choice([1.0, 0.3, 13.0, 1000.0])
    from .fmt import to_f32
    x0 = to_f32(x0)
    k = [rng.randrange(-3, 4) for _ in range(8)]
    a = [(nudge(x0, k[0]), -5.0), (nudge(to_f32(x0 + 1.0), k[1]), -5.0), (nudge(to_f32(x0 + 1.0), k[2]), 5.0), (nudge(x0, k[3]), 5.0)]
    y0 = rng.choice([0.5, 0.75, -1.5])
    b = [(to_f32(x0 - 4.0), nudge(y0, k[4])), (to_f32(x0 + 4.0), nudge(y0, k[5])), (to_f32(x0 + 4.0), nudge(y0 + 1.0, k[6])),
         (to_f32(x0 - 4.0), nudge(y0 + 1.0, k[7]))]
    if rng.random() < 0.5:
        # a steep edge between two adjacent binary32 abscissae, cut near its top
        xe = nudge(x0, 1) if rng.random() < 0.5 else nudge(x0, -1)
        a = [(x0, 10.0), (xe, 0.0), (to_f32(x0 + sgn * 3.0), 0.0), (to_f32(x0 + sgn * 3.0), 10.0)]
        if not simple_ring_ok(a):
            a = [(nudge(x0, k[0]), -5.0), (nudge(to_f32(x0 + 1.0), k[1]), -5.0), (nudge(to_f32(x0 + 1.0), k[2]), 5.0), (nudge(x0, k[3]), 5.0)]
        yb = rng.choice([9.5, 9.0, 5.0, 0.5])
        b = [(to_f32(x0 - 4.0), yb), (to_f32(x0 + 4.0), yb), (to_f32(x0 + 4.0), yb + 30.0), (to_f32(x0 - 4.0), yb + 30.0)]
    return ('M', [[a]]), ('M', [[b]]), {'family': 'ulp32'}


FAMILIES['ulp32'] = fam_ulp32


def fam_abut(rng, frame_only=False):
    """interior-disjoint operands that share boundary segments: B is a random set of cells of the COMPLEMENT of A adjacent to A
    (so B touches A from outside — below, above, left, right, around holes), A typically has holes"""
    if frame_only or rng.random() < 0.35:
        # a frame (box with a hole) and a slab abutting one of its sides along part of an edge, the hole lying directly
        # behind the shared piece; all 8 poses
        W, H = rng.randrange(4, 9), rng.randrange(4, 9)
        ha = rng.randrange(1, W - 1)
        hb = rng.randrange(ha + 1, W)
        hc = rng.randrange(1, H - 1)
        hd = rng.randrange(hc + 1, H)
        u0 = rng.randrange(-2, hb)
        u1 = rng.randrange(max(u0 + 1, ha + 1), W + 3)
        h = rng.randrange(1, 4)
        frame = [[(0.0, 0.0), (float(W), 0.0), (float(W), float(H)), (0.0, float(H))],
                 [(float(ha), float(hc)), (float(ha), float(hd)), (float(hb), float(hd)), (float(hb), float(hc))]]
        slab = [[(float(u0), float(-h)), (float(u1), float(-h)), (float(u1), 0.0), (float(u0), 0.0)]]
        f = rng.choice(_SYM8)
        g_ = lambda p: [[f(x, y) for (x, y) in r] for r in p]  # noqa: E731
        a, b = ('M', [g_(frame)]), ('M', [g_(slab)])
        if rng.random() < 0.35:
            a, b = b, a
        return a, b, {'family': 'abut', 'frame': True}
    n = rng.randrange(3, 6)
    mode = rng.choice([0, 0, 1])
    ca = gen_cells(rng, n, rng.choice([0.55, 0.7, 0.8]), mode)
    allc = [(x, y, k) for x in range(-1, n + 1) for y in range(-1, n + 1) for k in range(4)]
    comp = [c for c in allc if c not in ca]
    cb = set()
    for c in comp:
        if rng.random() < 0.45:
            if mode == 0:
                grp = [(c[0], c[1], k) for k in range(4)]
                if all(g not in ca for g in grp):
                    cb.update(grp)
            else:
                cb.add(c)
    if not cb:
        cb = {c for c in comp if c[1] == -1}
    kc = rng.random() < 0.3
    a = ('M', fpoly(cells_to_polygons(ca, kc)))
    b = ('M', fpoly(cells_to_polygons(cb, kc)))
    if rng.random() < 0.5:
        a, b = b, a
    return a, b, {'family': 'abut', 'n': n}


def fam_punch(rng):
    """A is one big square, B a set of small triangles and squares inside it, many of which touch each other in single
    vertices: differences and xors have holes that touch at a vertex (also at their common leftmost / lowest vertex)"""
    if rng.random() < 0.35:
        # a fan of triangles that all have the vertex V as their extreme (leftmost, after a symmetry: any) vertex and touch
        # each other only there
        V = (float(rng.randrange(1, 4)), float(rng.randrange(3, 8)))
        dirs = set()
        while len(dirs) < 6:
            dx, dy = rng.randrange(1, 5), rng.randrange(-4, 5)
            g = math.gcd(dx, abs(dy)) or 1
            dirs.add((dx // g, dy // g))
        dirs = sorted(dirs, key=lambda v: math.atan2(v[1], v[0]))
        ntri = rng.choice([2, 2, 3])
        tris = []
        for t in range(ntri):
            d0, d1 = dirs[2 * t], dirs[2 * t + 1]
            s0, s1 = rng.randrange(1, 3), rng.randrange(1, 3)
            tris.append([V, (V[0] + d0[0] * s0, V[1] + d0[1] * s0), (V[0] + d1[0] * s1, V[1] + d1[1] * s1)])
        big = [(-1.0, -8.0), (14.0, -8.0), (14.0, 18.0), (-1.0, 18.0)]
        f = rng.choice(_SYM8)
        g_ = lambda r: [f(float(x), float(y)) for (x, y) in r]  # noqa: E731
        a = ('M', [[g_(big)]])
        b = ('M', [[g_(t)] for t in tris])
        if rng.random() < 0.3:
            a, b = b, a
        return a, b, {'family': 'punch', 'fan': ntri}
    n = rng.randrange(2, 5)
    cb = gen_cells(rng, n, rng.choice([0.3, 0.5]), 1)
    if not cb:
        cb = {(0, 0, 0), (0, 0, 2)}
    m = float(rng.choice([1, 2]))
    big = [(-m, -m), (2.0 * n + m, -m), (2.0 * n + m, 2.0 * n + m), (-m, 2.0 * n + m)]
    a = ('M', [[big]])
    b = ('M', fpoly(cells_to_polygons(cb, rng.random() < 0.3)))
    if rng.random() < 0.3:
        a, b = b, a
    return a, b, {'family': 'punch', 'n': n}


def fam_tjunc(rng):
    """one operand consists of a box and a triangle whose vertex lies in the interior of an edge of the box (a T-junction
    inside ONE operand: valid, the parts touch in a point); the other operand is a small polygon near the junction.  All 8
    symmetries, so the touching vertex is a leftmost, rightmost, top or bottom one."""
    L = 8
    t = float(rng.randrange(2, 2 * L - 1))
    apex = (t, 0.0)                                     # on the top edge y = 0 of the box [0, 2L] x [-4, 0]
    h = float(rng.randrange(2, 6))
    dx1, dx2 = float(rng.randrange(-6, 0)), float(rng.randrange(1, 7))
    kind = rng.choice(['above', 'side'])
    if kind == 'above':
        tri = [apex, (t + dx2, h), (t + dx1, h)]
    else:
        tri = [apex, (t + dx2, h), (t + dx2 + float(rng.randrange(1, 4)), float(rng.randrange(1, 4)))]
    box = [(0.0, -4.0), (2.0 * L, -4.0), (2.0 * L, 0.0), (0.0, 0.0)]
    if not simple_ring_ok(tri) or any(p[1] <= 0 for p in tri[1:]):
        tri = [apex, (t + 2.0, 3.0), (t - 2.0, 3.0)]
    # the other operand: a small lattice polygon somewhere around the junction
    for _ in range(40):
        cx, cy = t + rng.uniform(-5, 5), rng.uniform(-3, 4)
        n = rng.randrange(3, 6)
        pts = [(float(round(cx + rng.uniform(-4, 4))), float(round(cy + rng.uniform(-4, 4)))) for _ in range(n)]
        mx = sum(p[0] for p in pts) / n
        my = sum(p[1] for p in pts) / n
        pts.sort(key=lambda p: math.atan2(p[1] - my, p[0] - mx))
        if simple_ring_ok(pts):
            break
    else:
        pts = [(t - 3.0, 1.0), (t + 3.0, 1.0), (t, 3.0)]
    f = rng.choice(_SYM8)
    g = lambda r: [f(x, y) for (x, y) in r]  # noqa: E731
    a = ('M', [[g(box)], [g(tri)]])
    if rng.random() < 0.5:
        a = ('M', [[g(tri)], [g(box)]])
    b = ('M', [[g(pts)]])
    if rng.random() < 0.5:
        a, b = b, a
    return a, b, {'family': 'tjunc'}


def with_repeats(rng, o):
    """the same operand with some vertices repeated consecutively (and closing points repeated)"""
    kind, v = o
    polys = [v] if kind == 'P' else v
    out = []
    for p in polys:
        q = []
        for r in p:
            r2 = []
            for pt_ in r:
                r2.extend([pt_] * (1 + (rng.random() < 0.3) + (rng.random() < 0.1)))
            if r2 and rng.random() < 0.4:
                r2 = r2 + [r2[0]] * rng.randrange(1, 3)
            q.append(r2)
        out.append(q)
    return (kind, out[0]) if kind == 'P' else (kind, out)


FAMILIES['abut'] = fam_abut
FAMILIES['frameslab'] = lambda rng: (lambda r: (r[0], r[1], dict(r[2], family='frameslab')))(fam_abut(rng, frame_only=True))
FAMILIES['punch'] = fam_punch
FAMILIES['tjunc'] = fam_tjunc
EXACT_FAMILIES = EXACT_FAMILIES + ('abut', 'punch', 'frameslab')


def fam_tjunc_oct(rng):
    """exact-arithmetic T-junctions inside one operand: a bar of full squares (its long edges carry no intermediate vertex)
    and single triangles above / below it that touch the bar's edge in one vertex; the other operand: random triangles and
    squares around.  Octilinear lattice, so every clause is exact."""
    n = rng.randrange(3, 7)
    ca = {(x, 0, k) for x in range(n) for k in range(4)}
    for x in range(n):
        for y in (1, -1):
            r = rng.random()
            if r < 0.35:
                ca.add((x, y, rng.choice([1, 3])))
            elif r < 0.45:
                ca.add((x, y, 2 if y == 1 else 0))
    cb = set()
    for x in range(-1, n + 1):
        for y in (-1, 0, 1, 2):
            r = rng.random()
            if r < 0.12:
                cb.update((x, y, k) for k in range(4))
            elif r < 0.45:
                cb.update((x, y, k) for k in range(4) if rng.random() < 0.4)
    if not cb:
        cb = {(0, 1, 0)}
    a = ('M', fpoly(cells_to_polygons(ca, False)))
    b = ('M', fpoly(cells_to_polygons(cb, rng.random() < 0.3)))
    f = rng.choice(_SYM8)
    from .relprops import map_operand
    a, b = map_operand(a, f), map_operand(b, f)
    if rng.random() < 0.5:
        a, b = b, a
    return a, b, {'family': 'tjo', 'n': n}


FAMILIES['tjo'] = fam_tjunc_oct
EXACT_FAMILIES = EXACT_FAMILIES + ('tjo',)


def _points_rep(r1, r2):
    """every common point of an edge of r1 and an edge of r2 is exactly representable (and no two edges overlap)"""
    from . import segs
    for (a, b) in _segments_of(r1):
        for (c, d) in _segments_of(r2):
            cl = segs.classify(a, b, c, d)
            if cl[0] == 'overlap':
                return False
            if cl[0] == 'point' and not (_rep32(cl[1][0]) and _rep32(cl[1][1])):
                return False
    return True


def _vtj_once(rng):
    W = rng.choice([2, 4, 8])
    H = rng.choice([2, 4, 8])
    y0 = rng.randrange(1, H) if H > 2 else 1
    pw = [q for q in (4, 8, 16, 32) if q > H]
    d1 = rng.choice(pw) - H
    d2 = rng.choice(pw) - H
    shape = rng.random()
    if shape < 0.6:
        ra = [(0, 0), (W, H // 2), (0, H)]
    elif shape < 0.8:
        ra = [(0, 0), (W, H // 2), (2 * W, H), (0, H)]              # upper edge horizontal: only the lower pair crosses
    else:
        ra = [(0, 0), (2 * W, 0), (W, H // 2), (0, H)]
    rb = [(0, y0), (2 * W, y0 - d1), (2 * W, y0 + d2)]
    pa, pb = [[ra]], [[rb]]
    if rng.random() < 0.3:                                        # something else further right / left
        pa.append([[(3 * W, 0), (4 * W, 0), (4 * W, H)]])
    if rng.random() < 0.3:
        pb.append([[(-3, 0), (-1, 0), (-1, H)]])
    ox, oy = rng.randrange(-4, 5), rng.randrange(-4, 5)
    f = rng.choice(_SYM8)
    g = lambda poly: [[tuple(float(c) for c in f(x + ox, y + oy)) for (x, y) in r] for r in poly]  # noqa: E731
    return [g(q) for q in pa], [g(q) for q in pb], {'family': 'vtj', 'W': W, 'H': H}


def fam_vtj(rng):
    """a vertex of one operand in the interior of a VERTICAL edge of the other, the two edges leaving that vertex fanning out
    wider than the edges that leave the ends of the vertical edge, so that they cross them further on (the crossings are
    found only when the halves of the split vertical edge leave the sweep line).  Only configurations all of whose crossing
    points are representable (dyadic) are kept, so that every clause is exact."""
    while True:
        pa, pb, meta = _vtj_once(rng)
        if all(_points_rep(r1, r2) for q1 in pa for r1 in q1 for q2 in pb for r2 in q2):
            break
    a, b = ('M', pa), ('M', pb)
    if rng.random() < 0.5:
        a, b = b, a
    return a, b, meta


FAMILIES['vtj'] = fam_vtj
EXACT_FAMILIES = EXACT_FAMILIES + ('vtj',)


def fam_wedge(rng):
    """nested wedges with a common apex: a wedge (or a wedge-shaped hole of a box) and a thinner wedge with the SAME apex
    that is otherwise strictly inside it.  Differences and unions have a hole that touches its exterior ring — or an island
    that touches its hole — in one vertex, which (after a symmetry: in one pose out of four) is the lowest-leftmost vertex
    of both rings, with four result edges leaving it.  Edges meet in the shared apex only: no intersection point is computed."""
    for _ in range(50):
        L = rng.randrange(6, 11)
        a, b = rng.randrange(2, 7), rng.randrange(2, 7)
        l = rng.randrange(2, L)
        ys = [y for y in range(-a * l // L - 1, b * l // L + 2) if -a * l < y * L < b * l]
        if len(ys) >= 2:
            break
    else:
        L, a, b, l, ys = 8, 4, 4, 6, [-1, 1]
    y0, y1 = sorted(rng.sample(ys, 2))
    V = (0.0, 0.0)
    outer = [V, (float(L), float(-a)), (float(L), float(b))]
    inner = [V, (float(l), float(y0)), (float(l), float(y1))]
    kind = rng.choice(['wedge', 'wedge', 'holed', 'double'])
    if kind == 'wedge':
        pa, pb = [[outer]], [[inner]]
    elif kind == 'holed':
        big = [(-2.0, -a - 2.0), (L + 2.0, -a - 2.0), (L + 2.0, b + 2.0), (-2.0, b + 2.0)]
        pa, pb = [[big, outer]], [[inner]]
    else:
        # two thin wedges inside the outer one, all three with the same apex
        if len(ys) >= 4:
            q = sorted(rng.sample(ys, 4))
            pb = [[[V, (float(l), float(q[0])), (float(l), float(q[1]))]], [[V, (float(l), float(q[2])), (float(l), float(q[3]))]]]
        else:
            pb = [[inner]]
        pa = [[outer]]
    f = rng.choice(_SYM8)
    nz = lambda q: (q[0] + 0.0, q[1] + 0.0)  # noqa: E731  (no negative zeros)
    tr = lambda polys: [[[nz(f(x, y)) for (x, y) in r] for r in p] for p in polys]  # noqa: E731
    A, B = ('M', tr(pa)), ('M', tr(pb))
    if rng.random() < 0.25:
        A, B = B, A
    return A, B, {'family': 'wedge', 'kind': kind}


FAMILIES['wedge'] = fam_wedge
EXACT_FAMILIES = EXACT_FAMILIES + ('wedge',)


def fam_fanout(rng):
    """three or four lattice triangles that share one vertex V — after a symmetry the LEFT-MOST vertex of each — and fan out
    from it, against a box cutting across all of them (or covering their tips / their common vertex): the result has three
    or more rings that start in one vertex.  Far points on x = V.x + L with L a power of two and box edges at integer
    abscissae: every crossing is dyadic (exact in binary64 and binary32)."""
    L = rng.choice([4, 8])
    ntri = rng.choice([3, 3, 4])
    ys = sorted(rng.sample(range(-L, L + 1), 2 * ntri))
    tris = [[(0.0, 0.0), (float(L), float(ys[2 * t])), (float(L), float(ys[2 * t + 1]))] for t in range(ntri)]
    kind = rng.choice(['bar', 'bar', 'left', 'right'])
    c = rng.randrange(1, L - 1)
    if kind == 'bar':
        box = [(float(c), -L - 1.0), (c + 1.0, -L - 1.0), (c + 1.0, L + 1.0), (float(c), L + 1.0)]
    elif kind == 'left':
        box = [(-1.0, -L - 1.0), (float(c), -L - 1.0), (float(c), L + 1.0), (-1.0, L + 1.0)]
    else:
        box = [(float(c), -L - 1.0), (L + 1.0, -L - 1.0), (L + 1.0, L + 1.0), (float(c), L + 1.0)]
    f = rng.choice(_SYM8)
    nz = lambda q: (q[0] + 0.0, q[1] + 0.0)  # noqa: E731
    g_ = lambda r: [nz(f(x, y)) for (x, y) in r]  # noqa: E731
    A, B = ('M', [[g_(t)] for t in tris]), ('M', [[g_(box)]])
    if rng.random() < 0.3:
        A, B = B, A
    return A, B, {'family': 'fanout', 'kind': kind, 'ntri': ntri}


FAMILIES['fanout'] = fam_fanout
EXACT_FAMILIES = EXACT_FAMILIES + ('fanout',)


def fam_toptip(rng):
    """an operand whose LEFT-MOST vertex is also its unique TOP vertex (a triangle with a tip pointing up-left), a box B
    across its lower right part and a third operand C that reaches only into the tip: rings returned by the library start
    at their left-most vertex, so (A op B) enters the second operation starting at its top vertex.  Widths and the height
    differences are powers of two, box edges at half-integers: every crossing is dyadic.  meta['third'] = C."""
    w = float(rng.choice([4, 8]))
    h = float(rng.choice([4, 8]))
    h2 = h - float(rng.choice([1, 2, 4]))
    if h2 < 0.5:
        h2 = h - 2.0
    tri = [(w, 0.0), (w, h2), (0.0, h)]
    k = rng.randrange(3)
    tri = tri[k:] + tri[:k]
    bx0 = float(rng.randrange(int(w) // 2, int(w)))
    box = [(bx0, -1.0), (w + 1.0, -1.0), (w + 1.0, 0.5), (bx0, 0.5)]
    cy0 = h2 + 0.5 if h2 + 0.5 < h else h - 0.5
    cbox = [(-1.0, cy0), (float(rng.choice([1, 2])), cy0), (float(rng.choice([1, 2])), h + 1.0), (-1.0, h + 1.0)]
    cbox[2] = (cbox[1][0], h + 1.0)
    f = rng.choice([_SYM8[0]] * 4 + list(_SYM8))
    nz = lambda q: (q[0] + 0.0, q[1] + 0.0)  # noqa: E731
    g_ = lambda r: [nz(f(x, y)) for (x, y) in r]  # noqa: E731
    return ('M', [[g_(tri)]]), ('M', [[g_(box)]]), {'family': 'toptip', 'third': ('M', [[g_(cbox)]])}


FAMILIES['toptip'] = fam_toptip
EXACT_FAMILIES = EXACT_FAMILIES + ('toptip',)
