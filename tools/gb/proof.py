"""Proof stage: the property's theorems are compiled, their assumptions are inside the
allow-list, and the development contains nothing that weakens the kernel's guarantee."""
import os
import re
import subprocess
import time

from . import engine

ALLOWED_AXIOMS = {
    # axioms declared by the standard library itself (named in DESIGN.md, trusted base)
    'ClassicalDedekindReals.sig_forall_dec',
    'ClassicalDedekindReals.sig_not_dec',
    'FunctionalExtensionality.functional_extensionality_dep',
    'Classical_Prop.classic',
    'Eqdep.Eq_rect_eq.eq_rect_eq',
    'JMeq.JMeq_eq',
    'ProofIrrelevance.proof_irrelevance',
}

FORBIDDEN = [
    r'\bAdmitted\b', r'\badmit\b', r'\bAxiom\b', r'\bAxioms\b', r'\bParameter\b', r'\bParameters\b',
    r'\bConjecture\b', r'\bConjectures\b', r'Admit\s+Obligations', r'Unset\s+Guard\s+Checking',
    r'Unset\s+Positivity\s+Checking', r'Unset\s+Universe\s+Checking', r'bypass_check', r'type-in-type',
    r'impredicative-set', r'\bnative_compute\b',
]
SECTION_ONLY = [r'\bVariable\b', r'\bVariables\b', r'\bHypothesis\b', r'\bHypotheses\b', r'\bContext\b']


def strip_comments(s):
    out = []
    depth = 0
    i = 0
    in_str = False
    while i < len(s):
        if depth == 0 and s[i] == '"':
            in_str = not in_str
            out.append(s[i])
            i += 1
        elif not in_str and s.startswith('(*', i):
            depth += 1
            i += 2
        elif not in_str and depth > 0 and s.startswith('*)', i):
            depth -= 1
            i += 2
        else:
            if depth == 0:
                out.append(s[i])
            elif s[i] == '\n':
                out.append('\n')
            i += 1
    return ''.join(out)


def scan_sources():
    """returns a list of problems found in coq/theories (and _CoqProject)"""
    problems = []
    root = os.path.join(engine.COQ, 'theories')
    # the development = the files listed in _CoqProject (scratch files of unfinished work are not part of it)
    files = [os.path.join(engine.COQ, ln.strip()) for ln in open(os.path.join(engine.COQ, '_CoqProject'))
             if ln.strip().endswith('.v')]
    for path in sorted(files):
        src = strip_comments(open(path).read())
        rel = os.path.relpath(path, engine.COQ)
        for pat in FORBIDDEN:
            for m in re.finditer(pat, src):
                line = src.count('\n', 0, m.start()) + 1
                problems.append('%s:%d: forbidden %s' % (rel, line, m.group(0)))
        # Variable/Hypothesis outside a section
        depth = 0
        for ln, line in enumerate(src.split('\n'), 1):
            if re.match(r'\s*Section\s+\w+\s*\.', line):
                depth += 1
            elif re.match(r'\s*End\s+\w+\s*\.', line) and depth > 0:
                depth -= 1
            elif depth == 0:
                for pat in SECTION_ONLY:
                    if re.match(r'\s*(Local\s+|Global\s+)?' + pat, line):
                        problems.append('%s:%d: %s outside a section' % (rel, ln, line.strip()))
    proj = open(os.path.join(engine.COQ, '_CoqProject')).read()
    for bad in ['-type-in-type', '-impredicative-set', '-vos', '-vok', '-noinit']:
        if bad in proj:
            problems.append('_CoqProject: forbidden option %s' % bad)
    return problems, len(files)


def theorems_of(pid):
    path = os.path.join(engine.COQ, 'theories', 'Properties', pid + '.v')
    if not os.path.exists(path):
        return []
    src = strip_comments(open(path).read())
    return re.findall(r'^\s*(?:Theorem|Lemma|Corollary|Example)\s+(\w+)', src, re.M)


def print_assumptions(pid, names):
    """{name: None (closed) | [axiom names]}; raises if the property file does not compile"""
    os.makedirs(engine.WORK, exist_ok=True)
    path = os.path.join(engine.WORK, 'pa_%s.v' % pid)
    with open(path, 'w') as f:
        f.write('From GB Require Import Properties.%s.\n' % pid)
        for n in names:
            f.write('Goal True. idtac "@@THEOREM %s". Abort.\n' % n)
            f.write('Print Assumptions %s.\n' % n)
    p = subprocess.run(['coqc', '-Q', os.path.join(engine.COQ, 'theories'), 'GB', path], cwd=engine.WORK,
                       stdout=subprocess.PIPE, stderr=subprocess.STDOUT, text=True, timeout=1200)
    if p.returncode != 0:
        raise engine.BuildError('Print Assumptions for %s failed:\n%s' % (pid, p.stdout[-3000:]))
    res = {}
    cur = None
    for line in p.stdout.splitlines():
        m = re.match(r'@@THEOREM (\w+)', line)
        if m:
            cur = m.group(1)
            res[cur] = None
            continue
        if cur is None:
            continue
        if line.startswith('Closed under the global context'):
            res[cur] = []
        elif line.startswith('Axioms:'):
            res[cur] = []
        else:
            m = re.match(r'^([A-Za-z_][\w.\']*)\s*:', line)
            if m and res[cur] is not None:
                res[cur].append(m.group(1))
    return res


def coqchk(pid):
    """independent re-check of the property's compiled file and everything it depends on"""
    p = subprocess.run(['coqchk', '-o', '-silent', '-Q', os.path.join(engine.COQ, 'theories'), 'GB',
                        'GB.Properties.%s' % pid], cwd=engine.COQ, stdout=subprocess.PIPE, stderr=subprocess.STDOUT,
                       text=True, timeout=3600)
    return p.returncode, p.stdout


def proof_stage(pid, thorough=False):
    t0 = time.time()
    problems, nfiles = scan_sources()
    names = theorems_of(pid)
    info = {'theorems': [], 'files_scanned': nfiles, 'problems': problems}
    if not names:
        info['problems'].append('no theorem registered in Properties/%s.v' % pid)
    pa = print_assumptions(pid, names) if names else {}
    ok = 0
    for n in names:
        ax = pa.get(n)
        bad = None
        if ax is None:
            bad = 'no Print Assumptions output'
        else:
            extra = [a for a in ax if a not in ALLOWED_AXIOMS and a.split('.')[-1] not in {x.split('.')[-1] for x in ALLOWED_AXIOMS}]
            if extra:
                bad = 'depends on axioms outside the allow-list: %s' % ', '.join(extra)
        info['theorems'].append({'name': n, 'axioms': ax if ax else []})
        if bad:
            info['problems'].append('%s: %s' % (n, bad))
        else:
            ok += 1
    if thorough and names:
        rc, out = coqchk(pid)
        info['coqchk'] = out.strip().splitlines()[-12:]
        if rc != 0:
            info['problems'].append('coqchk failed (rc=%d)' % rc)
    info['obligations'] = len(names)
    info['discharged'] = ok
    info['wall_s'] = round(time.time() - t0, 1)
    return info
