"""Tolerant region oracle (exact rational arithmetic, Python): the same slab decomposition as
coq/theories/Slab.v, but a gap whose law fails is exempted when the whole gap lies within `tol` of
one input edge ("a point that is not within rounding distance of an input edge").  Used only for
results with rounded coordinates, on which the verified exact checker cannot apply; exempted gaps
are counted."""
from fractions import Fraction as F


def _edges_of_ring(r, tag):
    r = [(F(x), F(y)) for (x, y) in r]
    n = len(r)
    out = []
    for i in range(n):
        a, b = r[i], r[(i + 1) % n]
        if a[0] == b[0]:
            continue
        if a[0] > b[0]:
            a, b = b, a
        out.append((a, b, tag))
    return out


def _y(e, x):
    (a, b, _) = e
    return a[1] + (x - a[0]) * (b[1] - a[1]) / (b[0] - a[0])


def _dist2_seg(p, a, b):
    dx, dy = b[0] - a[0], b[1] - a[1]
    L = dx * dx + dy * dy
    if L == 0:
        t = F(0)
    else:
        t = ((p[0] - a[0]) * dx + (p[1] - a[1]) * dy) / L
        t = max(F(0), min(F(1), t))
    qx, qy = a[0] + t * dx, a[1] + t * dy
    return (p[0] - qx) ** 2 + (p[1] - qy) ** 2


def check(regions, law, tol, input_tags):
    """regions: list of ('E', rings) | ('Y', multipolygon); law: function(list of bool memberships) -> bool.
    returns (ok, exempted_gaps, first_bad)"""
    edges = []
    readers = []
    tag = 0
    all_segments_input = []
    for k, (kind, v) in enumerate(regions):
        if kind == 'E':
            for r in v:
                edges += _edges_of_ring(r, tag)
            t0 = tag
            readers.append(lambda par, t0=t0: par.get(t0, 0) % 2 == 1)
            if k in input_tags:
                for r in v:
                    rr = [(F(x), F(y)) for (x, y) in r]
                    all_segments_input += [(rr[i], rr[(i + 1) % len(rr)]) for i in range(len(rr))]
            tag += 1
        else:
            polys = []
            for p in v:
                if not p:
                    continue
                tags = []
                for r in p:
                    edges += _edges_of_ring(r, tag)
                    tags.append(tag)
                    tag += 1
                polys.append(tags)
            readers.append(lambda par, polys=polys: any(par.get(t[0], 0) % 2 == 1 and all(par.get(h, 0) % 2 == 0 for h in t[1:])
                                                        for t in polys))
    if not law([rd({}) for rd in readers]):
        return False, 0, ('outside', None)
    xs = set()
    for (a, b, _) in edges:
        xs.add(a[0])
        xs.add(b[0])
    n = len(edges)
    for i in range(n):
        a, b, _ = edges[i]
        ma = (b[1] - a[1]) / (b[0] - a[0])
        for j in range(i + 1, n):
            c, d, _ = edges[j]
            lo, hi = max(a[0], c[0]), min(b[0], d[0])
            if lo >= hi:
                continue
            mc = (d[1] - c[1]) / (d[0] - c[0])
            if ma == mc:
                continue
            x = (c[1] - a[1] + a[0] * ma - c[0] * mc) / (ma - mc)
            if lo < x < hi:
                xs.add(x)
    xs = sorted(xs)
    tol2 = F(tol) * F(tol)
    exempt = 0
    for u, v in zip(xs, xs[1:]):
        sp = [e for e in edges if e[0][0] <= u and v <= e[1][0]]
        mid = (u + v) / 2
        sp.sort(key=lambda e: (_y(e, mid), _y(e, u), _y(e, v)))
        par = {}
        for j, e in enumerate(sp):
            par[e[2]] = par.get(e[2], 0) + 1
            if j + 1 < len(sp):
                f = sp[j + 1]
                yu0, yu1, yv0, yv1 = _y(e, u), _y(f, u), _y(e, v), _y(f, v)
                if yu0 == yu1 and yv0 == yv1:
                    continue
                if not law([rd(par) for rd in readers]):
                    corners = [(u, yu0), (u, yu1), (v, yv0), (v, yv1)]
                    if any(all(_dist2_seg(c, a, b) <= tol2 for c in corners) for (a, b) in all_segments_input):
                        exempt += 1
                    else:
                        return False, exempt, ('gap', (float(u), float(v), float(_y(e, mid)), float(_y(f, mid))))
            else:
                if not law([rd(par) for rd in readers]):
                    return False, exempt, ('top', (float(u), float(v)))
    return True, exempt, None


LAWS = {
    'I': lambda a, b: a and b,
    'U': lambda a, b: a or b,
    'D': lambda a, b: a and not b,
    'X': lambda a, b: a != b,
}


def check01(case_lhs_rings, case_rhs_rings, op, result_mp, tol):
    f = LAWS[op]
    return check([('E', case_lhs_rings), ('E', case_rhs_rings), ('Y', result_mp)],
                 lambda m: m[2] == f(m[0], m[1]), tol, (0, 1))
