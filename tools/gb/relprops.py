"""Relational properties C05-C11: groups of related calls whose results must satisfy region laws
(decided for every point of the plane by the verified exact checker) and, on the exact class,
exact equalities."""
import random
from fractions import Fraction as F

from . import boolcheck as bc
from . import c01, campaign, fmt, gen, laws, relcheck
from .laws import And, Eq, In, Not, Op, Or

OPS = 'IDUX'


class Group:
    def __init__(self, gid, family, meta):
        self.gid, self.family, self.meta = gid, family, meta
        self.cases = []           # bc.Case
        self.items = None         # function(results, exact) -> (list of relcheck.Item, list of direct failure strings)

    def add(self, suffix, prec, op, lhs, rhs):
        c = bc.Case('%s_%s' % (self.gid, suffix), self.family, prec, op, lhs, rhs, self.meta)
        self.cases.append(c)
        return c


def operand_area(o):
    """even-odd area of a valid operand: sum over polygons of |exterior| - sum |holes| (exact)"""
    s = F(0)
    for p in fmt.polys_of(o):
        if not p:
            continue
        s += abs(fmt.area2_ring(p[0])) - sum(abs(fmt.area2_ring(h)) for h in p[1:])
    return s / 2


def mp_area(mp):
    return operand_area(('M', mp))


def inputs_of(*operands):
    return [r for o in operands for r in fmt.rings_of_operand(o)]


# ------------------------------------------------------------------ C05
def build_c05(rng, g, a, b):
    cs = {op: g.add(op, 64, op, a, b) for op in OPS}
    cs['R'] = g.add('R', 64, 'D', b, a)

    def items(res, exact):
        r = {k: res[c.cid][1] for k, c in cs.items()}
        regs = [('Y', r['I']), ('Y', r['D']), ('Y', r['R']), ('Y', r['U']), ('Y', r['X'])]
        law = And(Not(And(In(0), In(1))), Not(And(In(0), In(2))), Not(And(In(1), In(2))),
                  Eq(In(3), Or(In(0), In(1), In(2))), Eq(In(4), Or(In(1), In(2))))
        allexact = all(exact.get(c.cid) for c in cs.values())
        direct = []
        if g.family == 'self':
            pass                      # shoelace area is not the even-odd area of a self-crossing ring
        elif allexact:
            ar = {k: mp_area(v) for k, v in r.items()}
            aa, ab = operand_area(a), operand_area(b)
            if ar['I'] + ar['U'] != aa + ab:
                direct.append('area(I)+area(U)=%s != area(A)+area(B)=%s' % (ar['I'] + ar['U'], aa + ab))
            if ar['X'] != ar['U'] - ar['I']:
                direct.append('area(X)=%s != area(U)-area(I)=%s' % (ar['X'], ar['U'] - ar['I']))
            if ar['D'] != aa - ar['I']:
                direct.append('area(A-B)=%s != area(A)-area(I)=%s' % (ar['D'], aa - ar['I']))
        else:
            ar = {k: float(mp_area(v)) for k, v in r.items()}
            aa, ab = float(operand_area(a)), float(operand_area(b))
            tol = 1e-9 * max(1.0, aa + ab)
            if abs(ar['I'] + ar['U'] - aa - ab) > tol or abs(ar['X'] - ar['U'] + ar['I']) > tol or abs(ar['D'] - aa + ar['I']) > tol:
                direct.append('area identities off by more than 1e-9 relative: %s vs A=%s B=%s' % (ar, aa, ab))
        return [relcheck.Item(g.gid, regs, law, 64, inputs_of(a, b), not allexact,
                              'I, A-B, B-A pairwise interior-disjoint, their union = U, X = (A-B) u (B-A)', list(cs.values()))], direct
    g.items = items


# ------------------------------------------------------------------ C06
def build_c06(rng, g, a, b):
    cs = {}
    for op in 'IUX':
        cs[op] = g.add(op, 64, op, a, b)
        cs[op + 's'] = g.add(op + 's', 64, op, b, a)
    for op in OPS:
        cs['self' + op] = g.add('self' + op, 64, op, a, a)
    empty = ('M', [])
    for op in OPS:
        cs['er' + op] = g.add('er' + op, 64, op, a, empty)
        cs['el' + op] = g.add('el' + op, 64, op, empty, a)
    # bounding boxes disjoint (B moved to one of the four sides, rings rewritten so that the sweep would not hand them back
    # as given) and merely touching (B moved until the boxes share a boundary line)
    x0, y0, x1, y1 = bbox_of(a)
    u0, v0, u1, v1 = bbox_of(b)
    side = rng.choice(['left', 'right', 'above', 'below'])
    gap = float(rng.randrange(1, 4))
    dx, dy = {'left': (x0 - u1 - gap, 0.0), 'right': (x1 - u0 + gap, 0.0), 'above': (0.0, y1 - v0 + gap),
              'below': (0.0, y0 - v1 - gap)}[side]
    touch = {'left': (x0 - u1, 0.0), 'right': (x1 - u0, 0.0), 'above': (0.0, y1 - v0), 'below': (0.0, y0 - v1)}
    movable = all(float(v) == int(v) and abs(v) < 2 ** 40 for v in (x0, y0, x1, y1, u0, v0, u1, v1)) and fmt.polys_of(a) and fmt.polys_of(b)
    bts = {}
    if movable:
        ar = rewrite_operand(rng, a)
        bd = rewrite_operand(rng, map_operand(b, lambda x, y: (x + dx, y + dy)))
        for sd, (tx, ty) in touch.items():
            bts[sd] = map_operand(b, lambda x, y, tx=tx, ty=ty: (x + tx, y + ty))
        for op in OPS:
            cs['dj' + op] = g.add('dj' + op, 64, op, ar, bd)
            cs['dk' + op] = g.add('dk' + op, 64, op, bd, ar)
            for sd in bts:
                cs['tc' + sd + op] = g.add('tc' + sd + op, 64, op, a, bts[sd])

    def items(res, exact):
        its, direct = [], []
        inp = inputs_of(a, b)
        for op in 'IUX':
            r1, r2 = res[cs[op].cid][1], res[cs[op + 's'].cid][1]
            ex = exact.get(cs[op].cid) and exact.get(cs[op + 's'].cid)
            if ex:
                # the boundaries, not the rings (see boundary_canon): how a boundary is cut into rings is not part of the property
                if fmt.canon_mp(r1) != fmt.canon_mp(r2) and boundary_canon(r1) != boundary_canon(r2):
                    direct.append('%s(A,B) and %s(B,A) have different boundaries' % (op, op))
            its.append(relcheck.Item('%s_c%s' % (g.gid, op), [('Y', r1), ('Y', r2)], Eq(In(0), In(1)), 64, inp, not ex,
                                     'commutativity of %s' % op, [cs[op], cs[op + 's']]))
        aa = ('E', fmt.rings_of_operand(a))
        for op in OPS:
            r = res[cs['self' + op].cid][1]
            ex = exact.get(cs['self' + op].cid)
            law = Eq(In(0), In(1)) if op in 'IU' else Not(In(0))
            its.append(relcheck.Item('%s_s%s' % (g.gid, op), [('Y', r), aa], law, 64, inp, not ex,
                                     'A %s A' % op, [cs['self' + op]]))
        pa = fmt.polys_of(a)
        for op in OPS:
            r = res[cs['er' + op].cid][1]
            want = [] if op == 'I' else pa
            if [list(map(tuple, [tuple(x) for x in rg])) for p in r for rg in p] != [list(map(tuple, [tuple(x) for x in rg])) for p in closed(want) for rg in p]:
                direct.append('%s(A, empty) is not %s' % (op, 'empty' if op == 'I' else 'A'))
            r = res[cs['el' + op].cid][1]
            want = pa if op in 'UX' else []
            if [list(map(tuple, [tuple(x) for x in rg])) for p in r for rg in p] != [list(map(tuple, [tuple(x) for x in rg])) for p in closed(want) for rg in p]:
                direct.append('%s(empty, A) is not %s' % (op, 'A' if op in 'UX' else 'empty'))
        if movable:
            flat = lambda mp: [[tuple(x) for x in rg] for p in mp for rg in p]  # noqa: E731
            par, pbd = closed(fmt.polys_of(ar)), closed(fmt.polys_of(bd))
            for op in OPS:
                # disjoint boxes: "the obvious combinations of the inputs", as given
                want = {'I': [], 'U': par + pbd, 'X': par + pbd, 'D': par}[op]
                if flat(res[cs['dj' + op].cid][1]) != flat(want):
                    direct.append('%s(A, B) with B\'s box strictly %s of A\'s is not the obvious combination of the inputs' % (op, side))
                want = {'I': [], 'U': pbd + par, 'X': pbd + par, 'D': pbd}[op]
                if flat(res[cs['dk' + op].cid][1]) != flat(want):
                    direct.append('%s(B, A) with B\'s box strictly %s of A\'s is not the obvious combination of the inputs' % (op, side))
                # touching boxes, on each of the four sides: the region law (goes through the sweep)
                for sd, bt in bts.items():
                    rt = res[cs['tc' + sd + op].cid][1]
                    ext = exact.get(cs['tc' + sd + op].cid)
                    its.append(relcheck.Item('%s_t%s%s' % (g.gid, sd, op), [aa, ('E', fmt.rings_of_operand(bt)), ('Y', rt)],
                                             Eq(In(2), Op(op, In(0), In(1))), 64, inp + fmt.rings_of_operand(bt), not ext,
                                             'touching bounding boxes (%s), %s' % (sd, op), [cs['tc' + sd + op]]))
        return its, direct
    g.items = items


def closed(polys):
    """what geo_types::Polygon::new makes of the rings (closing point appended when missing)"""
    out = []
    for p in polys:
        q = []
        for r in p:
            r = list(r)
            if r and r[0] != r[-1]:
                r = r + [r[0]]
            q.append(r)
        out.append(q)
    return out


# ------------------------------------------------------------------ C07
def rewrite_operand(rng, o):
    """another way of writing the same operand down"""
    polys = [[list(r) for r in p] for p in fmt.polys_of(o)]
    for p in polys:
        for i, r in enumerate(p):
            r = fmt.strip_closing(r)
            if not r:
                continue
            k = rng.randrange(len(r))
            r = r[k:] + r[:k]
            if rng.random() < 0.5:
                r.reverse()
            if rng.random() < 0.4:
                j = rng.randrange(len(r))
                r = r[:j] + [r[j]] * rng.randrange(1, 3) + r[j:]
            if rng.random() < 0.5:
                r = r + [r[0]]
                if rng.random() < 0.35:
                    r = r + [r[0]] * rng.randrange(1, 3)      # the closing point repeated: [a, b, c, a, a]
            if rng.random() < 0.2:
                r = [r[0]] * rng.randrange(1, 3) + r           # the first point repeated: [a, a, b, c]
            p[i] = r
        if len(p) > 2:
            hs = p[1:]
            rng.shuffle(hs)
            p[1:] = hs
    rng.shuffle(polys)
    if len(polys) == 1 and rng.random() < 0.5:
        return ('P', polys[0])
    return ('M', polys)


def build_c07(rng, g, a, b):
    a2, b2 = rewrite_operand(rng, a), rewrite_operand(rng, b)
    am = ('M', fmt.polys_of(a))
    bm = ('M', fmt.polys_of(b))
    cs = {}
    for op in OPS:
        cs[op] = g.add(op, 64, op, am, bm)
        cs[op + 'w'] = g.add(op + 'w', 64, op, a2, b2)
        # the four trait impls on the first polygon of each operand
        if fmt.polys_of(a) and fmt.polys_of(b):
            p, q = fmt.polys_of(a)[0], fmt.polys_of(b)[0]
            for tag, (l, r) in {'PP': (('P', p), ('P', q)), 'PM': (('P', p), ('M', [q])), 'MP': (('M', [p]), ('P', q)),
                                'MM': (('M', [p]), ('M', [q]))}.items():
                cs[op + tag] = g.add(op + tag, 64, op, l, r)

    def items(res, exact):
        its, direct = [], []
        inp = inputs_of(a, b)
        for op in OPS:
            r1, r2 = res[cs[op].cid][1], res[cs[op + 'w'].cid][1]
            ex = exact.get(cs[op].cid) and exact.get(cs[op + 'w'].cid)
            its.append(relcheck.Item('%s_w%s' % (g.gid, op), [('Y', r1), ('Y', r2)], Eq(In(0), In(1)), 64, inp, not ex,
                                     'rewritten operands, %s' % op, [cs[op], cs[op + 'w']]))
            if ex:
                # the boundaries, not the rings: how a boundary with a pinch vertex is cut into rings may depend on contour ids
                if boundary_canon(r1) != boundary_canon(r2):
                    direct.append('%s: result boundaries differ beyond ring start / direction / repeated vertices / ring assembly' % op)
            if op + 'PP' in cs:
                base = res[cs[op + 'MM'].cid]
                for tag in ('PP', 'PM', 'MP'):
                    if res[cs[op + tag].cid] != base:
                        direct.append('%s: trait impl %s differs from MultiPolygon x MultiPolygon on the same operands' % (op, tag))
        return its, direct
    g.items = items


def norm_ring(r):
    """ring modulo start, direction and repeated vertices"""
    r = fmt.strip_closing([(x + 0.0, y + 0.0) for (x, y) in r])
    r = [p for i, p in enumerate(r) if p != r[i - 1]] or r[:1]
    if not r:
        return ()
    fw = fmt.canon_ring(r)
    bw = fmt.canon_ring(list(reversed(r)))
    return min(fw, bw)


def boundary_canon(mp):
    """the boundary of a result as a canonical list of (line, from, to, multiplicity): the edges of all rings, grouped by
    supporting line, as maximal intervals of constant coverage.  It does not depend on ring start, direction, repeated or
    collinear vertices, the order of rings and polygons, nor on HOW the boundary is cut into rings (a hole that touches its
    exterior at a vertex may be handed back as a ring of its own - the bounding-box shortcut returns the operand as given - or
    threaded into the exterior ring by the sweep: same region, same boundary, different rings).  Two valid results that
    denote the same region have the same canonical boundary."""
    lines = {}
    for p in mp:
        for r in p:
            r = fmt.strip_closing([(F(x), F(y)) for (x, y) in r])
            for i in range(len(r)):
                (x0, y0), (x1, y1) = r[i - 1], r[i]
                if (x0, y0) == (x1, y1):
                    continue
                nx, ny = -(y1 - y0), x1 - x0
                k = nx if nx != 0 else ny
                nx, ny = nx / k, ny / k
                key = (nx, ny, nx * x0 + ny * y0)
                t0, t1 = (x0, x1) if x0 != x1 else (y0, y1)
                ev = lines.setdefault(key, {})
                ev[min(t0, t1)] = ev.get(min(t0, t1), 0) + 1
                ev[max(t0, t1)] = ev.get(max(t0, t1), 0) - 1
    out = []
    for key in sorted(lines):
        cov, start = 0, None
        for t in sorted(lines[key]):
            d = lines[key][t]
            if d == 0:
                continue
            if cov > 0:
                out.append((key, start, t, cov))
            cov, start = cov + d, t
    return out


# ------------------------------------------------------------------ C08
def map_operand(o, f):
    kind, v = o
    g = lambda p: [[f(x, y) for (x, y) in r] for r in p]  # noqa: E731
    return (kind, g(v)) if kind == 'P' else (kind, [g(p) for p in v])


SYMS = {
    'mx': lambda x, y: (-x, y), 'my': lambda x, y: (x, -y), 'r2': lambda x, y: (-x, -y), 'tr': lambda x, y: (y, x),
    'r1': lambda x, y: (-y, x), 'r3': lambda x, y: (y, -x), 'at': lambda x, y: (-y, -x),
}


def build_c08(rng, g, a, b):
    cs = {}
    k = rng.choice([-40, 3, 60, rng.randrange(-100, 100)])
    s = 2.0 ** k
    tx, ty = float(rng.randrange(-50, 50)), float(rng.randrange(-50, 50))
    for op in OPS:
        cs[op] = g.add(op, 64, op, a, b)
        cs[op + 'sc'] = g.add(op + 'sc', 64, op, map_operand(a, lambda x, y: (x * s, y * s)), map_operand(b, lambda x, y: (x * s, y * s)))
        cs[op + 'tl'] = g.add(op + 'tl', 64, op, map_operand(a, lambda x, y: (x + tx, y + ty)), map_operand(b, lambda x, y: (x + tx, y + ty)))
    sym = rng.sample(sorted(SYMS), 2 if g.meta.get('tier') == 'quick' else 7)
    for op in OPS:
        for sname in sym:
            cs[op + sname] = g.add(op + sname, 64, op, map_operand(a, SYMS[sname]), map_operand(b, SYMS[sname]))

    def items(res, exact):
        its, direct = [], []
        inp = inputs_of(a, b)
        for op in OPS:
            base = res[cs[op].cid][1]
            sc = res[cs[op + 'sc'].cid][1]
            want = [[[(x * s, y * s) for (x, y) in r] for r in p] for p in base]
            if sc != want:
                direct.append('%s: scaling by 2^%d is not bit-identical' % (op, k))
            if exact.get(cs[op].cid) and g.family in gen.EXACT_FAMILIES + ('share',):
                tl = res[cs[op + 'tl'].cid][1]
                want = [[[(x + tx, y + ty) for (x, y) in r] for r in p] for p in base]
                if tl != want:
                    direct.append('%s: translation by (%g,%g) of an exact-arithmetic input is not identical' % (op, tx, ty))
            for sname in sym:
                f = SYMS[sname]
                r2 = res[cs[op + sname].cid][1]
                mapped = [[[f(x, y) for (x, y) in r] for r in p] for p in base]
                ex = exact.get(cs[op].cid) and exact.get(cs[op + sname].cid)
                its.append(relcheck.Item('%s_%s%s' % (g.gid, op, sname), [('Y', mapped), ('Y', r2)], Eq(In(0), In(1)), 64,
                                         inputs_of(map_operand(a, f), map_operand(b, f)), not ex,
                                         'symmetry %s, %s' % (sname, op), [cs[op], cs[op + sname]]))
        return its, direct
    g.items = items


# ------------------------------------------------------------------ C09
def bbox_of(*operands):
    pts = [p for o in operands for r in fmt.rings_of_operand(o) for p in r]
    if not pts:
        return (0.0, 0.0, 1.0, 1.0)
    return (min(p[0] for p in pts), min(p[1] for p in pts), max(p[0] for p in pts), max(p[1] for p in pts))


def build_c09(rng, g, a, b):
    x0, y0, x1, y1 = bbox_of(a, b)
    w, h = max(x1 - x0, 1.0), max(y1 - y0, 1.0)
    d = rng.choice(['left', 'right', 'above', 'below'])
    ox, oy = {'left': (x0 - 3 * w - 7.0, y0), 'right': (x1 + 2 * w + 5.0, y0), 'above': (x0, y1 + 2 * h + 5.0),
              'below': (x0, y0 - 3 * h - 7.0)}[d]
    ox, oy = float(round(ox)), float(round(oy))
    far = [[(ox, oy), (ox + 2.0, oy), (ox + 2.0, oy + 1.0), (ox + 1.0, oy + 2.0), (ox, oy + 1.0)]]
    side = rng.choice(['subject', 'clipping'])
    cs = {}
    for op in OPS:
        cs[op] = g.add(op, 64, op, a, b)
        a2 = ('M', fmt.polys_of(a) + [far]) if side == 'subject' else a
        b2 = ('M', fmt.polys_of(b) + [far]) if side == 'clipping' else b
        cs[op + 'f'] = g.add(op + 'f', 64, op, a2, b2)

    def items(res, exact):
        its, direct = [], []
        inp = inputs_of(a, b) + far
        for op in OPS:
            base, withfar = res[cs[op].cid][1], res[cs[op + 'f'].cid][1]
            present = op in 'UX' or (op == 'D' and side == 'subject')
            law = Eq(In(1), Or(In(0), In(2))) if present else Eq(In(1), In(0))
            ex = exact.get(cs[op].cid) and exact.get(cs[op + 'f'].cid)
            its.append(relcheck.Item('%s_f%s' % (g.gid, op), [('Y', base), ('Y', withfar), ('E', far)], law, 64, inp, not ex,
                                     'far part %s on the %s, %s' % (d, side, op), [cs[op], cs[op + 'f']]))
            if ex:
                # the boundaries, not the rings: rings handed back by the bounding-box shortcut are the operand's rings as given
                # (C04), rings assembled by the sweep are re-oriented and a hole that touches its exterior at a vertex is threaded
                # into the exterior ring - the same region (the law above) with the same boundary
                want = boundary_canon(base + (closed([far]) if present else []))
                if boundary_canon(withfar) != want:
                    direct.append('%s: result with the far part (%s, %s) is not the base result %s the part itself'
                                  % (op, d, side, 'plus' if present else 'without'))
        return its, direct
    g.items = items


# ------------------------------------------------------------------ C10
def build_c10(rng, g, a, b):
    # every fourth group of a lattice family at a large power-of-two scale (2^33 .. 2^44): all coordinates stay exactly
    # representable in binary32, but the SQUARE of a cross product of two edges overflows there (the products themselves do
    # not), so everything that is only compared with zero must keep working; chosen from the group id, not from the
    # generator state, so that the other groups do not depend on it
    idx = int(''.join(ch for ch in g.gid if ch.isdigit()) or 0)
    if idx % 4 == 3 and g.family in ('rect', 'oct', 'share', 'boxes', 'sliver'):   # small coordinates only: 2^44 x 2^6 stays far below 2^63 (N3)
        f = 2.0 ** (33 + idx % 12)
        a = map_operand(a, lambda x, y: (x * f, y * f))
        b = map_operand(b, lambda x, y: (x * f, y * f))
        g.meta['scale_log2'] = 33 + idx % 12
    elif idx % 4 == 1 and g.family in ('rect', 'boxes', 'oct'):
        # small shapes far from the origin, at offsets that are not round in binary (UTM-like eastings / northings); all
        # coordinates and crossings stay exactly representable in binary32 (integers below 2^24; for the octilinear family,
        # whose crossings may be half-integers, below 2^21): anything computed from ABSOLUTE coordinates in F loses all
        # its digits there
        if g.family == 'oct':
            ox, oy = float(50001 + 7919 * (idx % 13)), float(1400003 + 10007 * (idx % 59))
        else:
            ox, oy = float(500001 + 7919 * (idx % 97)), float(5000011 + 104729 * (idx % 37))
        a = map_operand(a, lambda x, y: (x + ox, y + oy))
        b = map_operand(b, lambda x, y: (x + ox, y + oy))
        g.meta['offset'] = (ox, oy)
    a32, b32 = campaign.to32(a), campaign.to32(b)
    cs = {}
    for op in OPS:
        cs[op] = g.add(op, 64, op, a32, b32)        # the f32-representable operands, computed in f64
        cs[op + 's'] = g.add(op + 's', 32, op, a32, b32)

    def items(res, exact):
        its, direct = [], []
        inp = inputs_of(a32, b32)
        for op in OPS:
            r64, r32 = res[cs[op].cid][1], res[cs[op + 's'].cid][1]
            ex = exact.get(cs[op].cid) and exact.get(cs[op + 's'].cid)
            if ex and r64 != r32:
                direct.append('%s: f32 and f64 results differ although both are exact' % op)
            # f32 correctness: the C01 law on the f32 result
            law = Eq(In(2), Op(op, In(0), In(1)))
            its.append(relcheck.Item('%s_s%s' % (g.gid, op), [('E', fmt.rings_of_operand(a32)), ('E', fmt.rings_of_operand(b32)), ('Y', r32)],
                                     law, 32, inp, not exact.get(cs[op + 's'].cid), 'f32 result of %s is the named region' % op, [cs[op + 's']]))
        return its, direct
    g.items = items


# ------------------------------------------------------------------ C11 (second stage cases are created after the first results are known)
def build_c11_stage1(rng, g, a, b, c):
    g.meta['abc'] = (a, b, c)
    for op in OPS:
        g.add('1' + op, 64, op, a, b)


def build_c11_stage2(rng, g, res):
    a, b, c = g.meta['abc']
    first = {op: res['%s_1%s' % (g.gid, op)] for op in OPS}
    cs = {}
    pairs = [(o1, o2) for o1 in OPS for o2 in OPS]
    if g.meta.get('tier') == 'quick':
        pairs = rng.sample(pairs, 6)
    third = {'C': c, 'A': a, 'B': b}
    for (o1, o2) in pairs:
        if first[o1][0] != 'ok':
            continue
        r1 = ('M', first[o1][1])
        # a re-used operand only on exact-arithmetic families (C11: "for floating-point operands only with an independent
        # third operand" - the vertices of a rounded first result lie within rounding distance of the edges of A and B)
        reuse = g.family in gen.EXACT_FAMILIES + ('share',)
        names = (['C', rng.choice('AB')] if g.meta.get('tier') == 'quick' else 'CAB') if reuse else ['C']
        for tname in names:
            t = third[tname]
            cs[(o1, o2, tname, 'l')] = g.add('2%s%s%sl' % (o1, o2, tname), 64, o2, r1, t)
            cs[(o1, o2, tname, 'r')] = g.add('2%s%s%sr' % (o1, o2, tname), 64, o2, t, r1)

    def items(res2, exact):
        its, direct = [], []
        inp = inputs_of(a, b, c)
        A, B, C = ('E', fmt.rings_of_operand(a)), ('E', fmt.rings_of_operand(b)), ('E', fmt.rings_of_operand(c))
        for (o1, o2, tname, side), cse in cs.items():
            r = res2[cse.cid][1]
            tin = {'A': In(0), 'B': In(1), 'C': In(2)}[tname]
            inner = Op(o1, In(0), In(1))
            want = Op(o2, inner, tin) if side == 'l' else Op(o2, tin, inner)
            ex = exact.get(cse.cid) and exact.get('%s_1%s' % (g.gid, o1))
            its.append(relcheck.Item('%s_%s%s%s%s' % (g.gid, o1, o2, tname, side), [A, B, C, ('Y', r)], Eq(In(3), want), 64, inp, not ex,
                                     '(A %s B) %s %s, nested on the %s' % (o1, o2, tname, 'left' if side == 'l' else 'right'), [cse]))
        return its, direct
    g.items = items
    return list(cs.values())
