"""Evidence files, VIOLATION / KNOWN-FINDING lines, replay files."""
import json
import os
import sys
import time

from . import engine

KNOWN_FILE = os.path.join(engine.VERIF, 'known_findings.json')


def load_known():
    if not os.path.exists(KNOWN_FILE):
        return {'findings': [], 'fixed': []}
    return json.load(open(KNOWN_FILE))


class Report:
    def __init__(self, pid, tier, seed, level):
        self.pid = pid
        self.tier = tier
        self.seed = seed
        self.level = level
        self.t0 = time.time()
        self.coverage = {}
        self.assumptions = []
        self.violations = []
        self.known_hits = {}      # finding id -> [what]
        self.lines = []
        self.known = load_known()
        self.replay_dir = os.path.join(engine.WORK, 'replays', pid)
        os.makedirs(self.replay_dir, exist_ok=True)
        for f in os.listdir(self.replay_dir):
            if f.startswith('%s_%s_' % (pid, tier)):
                os.remove(os.path.join(self.replay_dir, f))
        os.makedirs(os.path.join(engine.VERIF, 'evidence'), exist_ok=True)

    def log(self, *a):
        print('[%s %6.1fs]' % (self.pid, time.time() - self.t0), *a, file=sys.stderr, flush=True)

    def violation(self, what, replay, nofail=False):
        """records a violation; `replay` is a JSON-serialisable description of the failing case (or,
        with nofail, of the theorem / correspondence that no longer checks)"""
        n = len(self.violations)
        path = os.path.join(self.replay_dir, '%s_%s_%d_%d.json' % (self.pid, self.tier, self.seed, n))
        with open(path, 'w') as f:
            json.dump({'property': self.pid, 'what': what, 'no_failing_input_found': nofail, 'replay': replay}, f, indent=1)
        self.violations.append({'what': what, 'replay': path, 'nofail': nofail})
        line = 'VIOLATION property=%s replay=%s' % (self.pid, path)
        if nofail:
            line += ' no-failing-input-found'
        self.lines.append(line)
        self.log('VIOLATION:', what)

    def known_finding(self, fid, what):
        self.known_hits.setdefault(fid, []).append(what)

    def findings_for(self):
        return [f for f in self.known.get('findings', []) if self.pid in f.get('properties', [])]

    def finish(self):
        for f in self.findings_for():
            hits = self.known_hits.get(f['id'], [])
            extra = (' [seen %d time(s) in this run, e.g. %s]' % (len(hits), hits[0])) if hits else ''
            print('KNOWN-FINDING: property=%s %s: %s%s' % (self.pid, f['id'], f['summary'], extra))
        for line in self.lines[:20]:
            print(line)
        ev = {
            'property_id': self.pid,
            'tier': self.tier,
            'seed': self.seed,
            'level': self.level,
            'coverage': self.coverage,
            'assumptions': self.assumptions or list(self.coverage.get('trusted_base', [])),
            'wall_s': round(time.time() - self.t0, 1),
            'violations': len(self.violations),
        }
        with open(os.path.join(engine.VERIF, 'evidence', self.pid + '.json'), 'w') as f:
            json.dump(ev, f, indent=1, default=str)
        sys.stdout.flush()
        return 1 if self.violations else 0
