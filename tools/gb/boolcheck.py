"""Running Boolean-operation cases through the implementation, the model and the exact oracle."""
import json
from fractions import Fraction

from . import engine, fmt, gen


class Case:
    __slots__ = ('cid', 'family', 'prec', 'op', 'lhs', 'rhs', 'meta')

    def __init__(self, cid, family, prec, op, lhs, rhs, meta=None):
        self.cid, self.family, self.prec, self.op, self.lhs, self.rhs = cid, family, prec, op, lhs, rhs
        self.meta = meta or {}

    def line(self, profile='r', prec=None):
        return fmt.bool_line(self.cid, prec or self.prec, profile, self.op, self.lhs, self.rhs)

    def qline(self, profile='r'):
        # the exact instance reads the same bit patterns
        budget = fmt.budget_for(fmt.n_edges(self.lhs) + fmt.n_edges(self.rhs))
        return 'bool %s q %s %d %s %s %s' % (self.cid, profile, budget, self.op,
                                             fmt.enc_operand(self.lhs, self.prec), fmt.enc_operand(self.rhs, self.prec))

    def n_edges(self):
        return fmt.n_edges(self.lhs) + fmt.n_edges(self.rhs)

    def to_json(self):
        def o(x):
            return {'kind': x[0], 'polygons': fmt.polys_of(x)}
        return {'id': self.cid, 'family': self.family, 'prec': self.prec, 'op': self.op,
                'lhs': o(self.lhs), 'rhs': o(self.rhs),
                'lhs_hex': fmt.enc_operand(self.lhs, self.prec), 'rhs_hex': fmt.enc_operand(self.rhs, self.prec),
                'line': self.line()}

    @staticmethod
    def from_json(d):
        t = fmt.Toks(d['line'])
        t.next()
        cid = t.next()
        prec = t.int()
        t.next()
        t.int()
        op = t.next()

        def operand():
            k = t.next()
            if k == 'P':
                return ('P', fmt.dec_polygon(t))
            return ('M', fmt.dec_multipolygon(t))
        lhs = operand()
        rhs = operand()
        return Case(cid, d.get('family', '?'), prec, op, lhs, rhs)


def parse(line):
    try:
        return fmt.parse_bool_result(line)
    except Exception:
        return (line.split()[1] if len(line.split()) > 1 else '?', 'error', line[:200])


def run_impl(cases, profile='r', timeout=300):
    lines = [c.line(profile) for c in cases]
    outs = engine.run_lines(engine.impl_bin(profile), lines, timeout=timeout)
    return {c.cid: parse(o)[1:] for c, o in zip(cases, outs)}


def run_model(cases, profile='r', timeout=1200, binary=None):
    lines = [c.line(profile) for c in cases]
    outs = engine.run_lines(binary or engine.MODEL, lines, timeout=timeout)
    return {c.cid: parse(o)[1:] for c, o in zip(cases, outs)}


def run_model_q(cases, profile='r', timeout=1800):
    lines = [c.qline(profile) for c in cases]
    outs = engine.run_lines(engine.MODEL, lines, timeout=timeout)
    return {c.cid: parse(o)[1:] for c, o in zip(cases, outs)}


def same_result(a, b):
    """bit-exact agreement modulo ring start and polygon / hole order (and the sign of zero)"""
    if a[0] != b[0]:
        return False
    if a[0] == 'ok':
        return fmt.canon_mp(a[1]) == fmt.canon_mp(b[1])
    return a[1] == b[1]


def identical_result(a, b):
    """agreement including ring starts and all orders"""
    return a == b


def scene01_line(cid, case, result_mp, prec=None):
    prec = prec or case.prec
    law = 'eq in 2 ' + fmt.law_op(case.op, 'in 0', 'in 1')
    regs = [fmt.enc_region_eo(fmt.rings_of_operand(case.lhs), case.prec),
            fmt.enc_region_eo(fmt.rings_of_operand(case.rhs), case.prec),
            enc_mp_region(result_mp, case.prec)]
    return fmt.scene_line(cid, 64, law, regs)


def enc_num(x, prec):
    if isinstance(x, Fraction):
        return 'q%d/%d' % (x.numerator, x.denominator)
    return fmt.hx(x, prec)


def enc_ring_any(r, prec):
    return ' '.join([str(len(r))] + ['%s %s' % (enc_num(x, prec), enc_num(y, prec)) for (x, y) in r])


def enc_mp_region(mp, prec):
    return ' '.join(['Y', str(len(mp))] + [' '.join([str(len(p))] + [enc_ring_any(r, prec) for r in p]) for p in mp])


def enc_eo_region(rings, prec):
    return ' '.join(['E', str(len(rings))] + [enc_ring_any(r, prec) for r in rings])


def run_scenes(lines, timeout=1800):
    outs = engine.run_lines(engine.MODEL, lines, timeout=timeout)
    res = {}
    for ln, o in zip(lines, outs):
        a = o.split()
        res[ln.split()[1]] = a[2] if len(a) > 2 else 'error'
    return res


def close_to(mp_f, mp_q, rel=1e-9):
    """same structure (after canonicalisation) and every vertex within rel * magnitude"""
    a = fmt.canon_mp(mp_f)
    b = fmt.canon_mp([[[(float(x), float(y)) for (x, y) in r] for r in p] for p in mp_q])
    if len(a) != len(b):
        return False
    scale = max([1.0] + [abs(c) for p in a for r in (p[0],) + p[1] for v in r for c in v])
    tol = rel * scale

    def ring_close(r, s):
        return len(r) == len(s) and all(abs(u[0] - v[0]) <= tol and abs(u[1] - v[1]) <= tol for u, v in zip(r, s))
    for p, q in zip(a, b):
        if not ring_close(p[0], q[0]) or len(p[1]) != len(q[1]):
            return False
        if not all(ring_close(h, g) for h, g in zip(p[1], q[1])):
            return False
    return True


def exact_equal(mp_f, mp_q):
    """the float result denotes exactly the rational result (modulo ring start and order)"""
    return fmt.canon_mp(fmt.mp_to_fractions(mp_f)) == fmt.canon_mp(fmt.mp_to_fractions(mp_q))


def shrink_case(case, fails, max_evals=150):
    """removes polygons and holes, then vertices (keeping rings simple), while `fails(case)` holds"""
    evals = [0]

    def ok(c):
        evals[0] += 1
        return evals[0] <= max_evals and fails(c)

    def variants(op_):
        kind, v = op_
        polys = fmt.polys_of(op_)
        if kind == 'M':
            for i in range(len(polys)):
                yield ('M', polys[:i] + polys[i + 1:])
        for i, p in enumerate(polys):
            for j in range(1, len(p)):
                q = p[:j] + p[j + 1:]
                yield (kind, q) if kind == 'P' else ('M', polys[:i] + [q] + polys[i + 1:])
        for i, p in enumerate(polys):
            for j, r in enumerate(p):
                rr = fmt.strip_closing(r)
                if len(rr) <= 3:
                    continue
                for k in range(len(rr)):
                    r2 = rr[:k] + rr[k + 1:]
                    if not gen.simple_ring_ok(r2):
                        continue
                    q = p[:j] + [r2] + p[j + 1:]
                    yield (kind, q) if kind == 'P' else ('M', polys[:i] + [q] + polys[i + 1:])
    cur = case
    progress = True
    while progress and evals[0] < max_evals:
        progress = False
        for side in ('lhs', 'rhs'):
            for v in variants(getattr(cur, side)):
                cand = Case(cur.cid, cur.family, cur.prec, cur.op, v if side == 'lhs' else cur.lhs,
                            v if side == 'rhs' else cur.rhs, cur.meta)
                if ok(cand):
                    cur = cand
                    progress = True
                    break
            if progress:
                break
    return cur
