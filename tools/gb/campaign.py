"""A campaign: generated Boolean-operation cases run through implementation, model and exact oracle,
with the verdict logic shared by the region-level properties."""
import random
from collections import Counter

from . import boolcheck as bc
from . import engine, fmt, gen, tolslab

OPS = 'IDUX'


def make_cases(rng, n_pairs, weights, prec=64, ops=OPS, prefix='c'):
    cases = []
    for i in range(n_pairs):
        a, b, meta = gen.mixed(rng, weights)
        if prec == 32:
            a = to32(a)
            b = to32(b)
        # exercise the four trait pairings
        if a[0] == 'M' and len(a[1]) == 1 and rng.random() < 0.4:
            a = ('P', a[1][0])
        if b[0] == 'M' and len(b[1]) == 1 and rng.random() < 0.4:
            b = ('P', b[1][0])
        for op in ops:
            cases.append(bc.Case('%s%d%s' % (prefix, i, op), meta['family'], prec, op, a, b, dict(meta, pair=i)))
    return cases


def to32(o):
    kind, v = o
    f = lambda p: [[(fmt.to_f32(x), fmt.to_f32(y)) for (x, y) in r] for r in p]  # noqa: E731
    return (kind, f(v)) if kind == 'P' else (kind, [f(p) for p in v])


def histogram(cases):
    h = Counter()
    for c in cases:
        n = c.n_edges()
        h['<=8' if n <= 8 else '<=16' if n <= 16 else '<=32' if n <= 32 else '<=64' if n <= 64 else '>64'] += 1
    return dict(h)


class Outcome:
    """everything known about one case after the campaign"""
    __slots__ = ('case', 'impl', 'model', 'corr', 'oracle', 'exactq', 'status', 'detail')

    def __init__(self, case):
        self.case = case
        self.impl = self.model = None
        self.corr = None          # implementation == model (bit-exact modulo ring start / order)
        self.oracle = None        # 'true' / 'false' / ...: exact cert01 on the implementation's result
        self.exactq = None        # float result denotes exactly the result of the exact-arithmetic run
        self.status = None        # 'exact-pass' | 'tolerant-pass' | 'fail-region' | 'fail-outcome' | 'skip'
        self.detail = ''


def run_campaign(rep, cases, profile='r', need_q='on-failure'):
    outs = {c.cid: Outcome(c) for c in cases}
    impl = bc.run_impl(cases, profile)
    model = bc.run_model(cases, profile)
    for c in cases:
        o = outs[c.cid]
        o.impl, o.model = impl[c.cid], model[c.cid]
        o.corr = bc.same_result(o.impl, o.model)
    # exact oracle on the implementation's result
    lines = [bc.scene01_line(c.cid, c, outs[c.cid].impl[1]) for c in cases if outs[c.cid].impl[0] == 'ok']
    sc = bc.run_scenes(lines)
    for c in cases:
        o = outs[c.cid]
        if o.impl[0] != 'ok':
            o.status = 'fail-outcome'
            o.detail = '%s %s' % (o.impl[0], o.impl[1] or '')
            continue
        o.oracle = sc.get(c.cid, 'error')
        if o.oracle == 'true':
            o.status = 'exact-pass'
    # second chance for rounded results: compare with the exact-arithmetic run of the model
    pending = [c for c in cases if outs[c.cid].status is None]
    if need_q == 'all':
        qcases = [c for c in cases if outs[c.cid].impl[0] == 'ok']
    else:
        qcases = pending
    if qcases:
        qres = bc.run_model_q(qcases, profile)
        qlines = [bc.scene01_line(c.cid, c, qres[c.cid][1]) for c in qcases if qres[c.cid][0] == 'ok']
        qsc = bc.run_scenes(qlines)
        for c in qcases:
            o = outs[c.cid]
            q = qres[c.cid]
            if q[0] == 'ok':
                o.exactq = bc.exact_equal(o.impl[1], q[1])
            if o.status is not None:
                continue
            rel = 1e-9 if c.prec == 64 else 1e-4
            if q[0] == 'ok' and qsc.get(c.cid) == 'true' and bc.close_to(o.impl[1], q[1], rel):
                o.status = 'tolerant-pass'
                continue
            mag = max([1.0] + [abs(v) for r in fmt.rings_of_operand(c.lhs) + fmt.rings_of_operand(c.rhs) for p in r for v in p])
            ok, exempt, bad = tolslab.check01(fmt.rings_of_operand(c.lhs), fmt.rings_of_operand(c.rhs), c.op, o.impl[1], rel * mag)
            if ok:
                o.status = 'tolerant-pass'
                o.detail = 'exempted_gaps=%d' % exempt
            else:
                o.status = 'fail-region'
                o.detail = 'oracle=%s exact-run=%s exact-run-oracle=%s tolerant-oracle: %s' % (o.oracle, q[0], qsc.get(c.cid), bad)
    return outs


def attribute_known(rep, o, findings):
    """returns the id of the known finding that explains outcome `o`, or None (DESIGN.md §8)"""
    c = o.case
    if not o.corr:
        return None                                   # the model does not reproduce it
    sig = 'region' if o.status == 'fail-region' else (o.impl[0] + ':' + str(o.impl[1]))
    for f in findings:
        if sig not in f.get('signatures', []):
            continue
        if f['id'] == 'N1':
            if o.exactq is True:
                continue                              # exact class: not a rounding problem
            if not gen.degenerate_arrangement(c.lhs, c.rhs):
                continue
            return 'N1'
        if f['id'] == 'N6':
            if o.exactq is True or not gen.near_degenerate(c.lhs, c.rhs, c.prec):
                continue
            return 'N6'
        if f['id'] == 'N5':
            if o.exactq is True or not gen.rounded_parallel(c.lhs, c.rhs, c.prec):
                continue
            return 'N5'
        if f['id'] == 'N2' and sig == 'budget:None':
            if o.exactq is True:
                continue
            return 'N2'
    return None
