"""C11 — results can be fed back in: chained operations obey Boolean algebra."""
from . import relprops, relrun
LEVEL = 'proof'
W = {'rect': 0.3, 'oct': 0.45, 'share': 0.1, 'lat': 0.05, 'gp': 0.1, 'abut': 0.2, 'punch': 0.08, 'frameslab': 0.15, 'toptip': 0.2}


def run(rep, tier, seed):
    relrun.run_rel(rep, 'C11', tier, seed, relprops.build_c11_stage1, W, 120 if tier == 'quick' else 1500,
                   'each group = the 4 first-stage results of (A,B) fed back as left or right operand of a second operation with an '
                   'independent third operand or A or B again (6 of the 16 operation pairs in the quick tier, all in the thorough tier); '
                   'the final region must be the pointwise combination (verified checker).',
                   stage2=relprops.build_c11_stage2, third=True)
