"""C07 — the result does not depend on how an operand is written down or wrapped."""
from . import relprops, relrun
LEVEL = 'proof'
W = {'rect': 0.25, 'oct': 0.35, 'share': 0.1, 'lat': 0.1, 'gp': 0.2, 'boxes': 0.08, 'straddle': 0.25, 'abut': 0.08, 'tjo': 0.08}


def run(rep, tier, seed):
    relrun.run_rel(rep, 'C07', tier, seed, relprops.build_c07, W, 220 if tier == 'quick' else 3000,
                   'each group = 4 operations x (base operands, rewritten operands: ring rotation, reversal, repeated vertices, explicit '
                   'closing point, hole and part permutation, Polygon instead of MultiPolygon) + the four trait impls on the same first '
                   'polygons, which must return identical values.')
