"""C16 — the pairwise intersection step splits both segments at one common, correct point."""
import itertools
import math
import random
from fractions import Fraction as F

from . import c01, engine, fmt, segs

LEVEL = 'proof'
PID = 'C16'


def pts(x, y):
    return '%s %s' % (fmt.hx(float(x)), fmt.hx(float(y)))


def pi_line(cid, s1, s2, subj1, subj2, io1=0, io2=0, prec=64, profile='r'):
    (p1, q1), (p2, q2) = s1, s2
    h = lambda p: '%s %s' % (fmt.hx(p[0], prec), fmt.hx(p[1], prec))  # noqa: E731
    return 'pi %s %d %s %s %s %d %d 1 %s %s %d %d 1' % (cid, prec, profile, h(p1), h(q1), subj1, io1, h(p2), h(q2), subj2, io2)


def parse_ev(s):
    a = s.split()
    ev = {'p': (fmt.unhx(a[0]), fmt.unhx(a[1])), 'left': a[2] == '1', 'subj': a[3] == '1', 'cid': int(a[4])}
    i = 6
    if a[i] == '~':
        ev['other'] = None
        i += 1
    else:
        ev['other'] = (fmt.unhx(a[i][1:]), fmt.unhx(a[i + 1]))
        i += 2
    ev['type'], ev['io'], ev['oio'], ev['rt'] = a[i], a[i + 1] == '1', a[i + 2] == '1', a[i + 3]
    return ev


def parse_pi(payload):
    """-> (kind, dict) with dict = code, l1, l2, pushed"""
    if not payload.startswith('ok '):
        return payload, None
    parts = payload[3:].split(' | ')
    code = int(parts[0])
    l1, l2 = parse_ev(parts[1]), parse_ev(parts[2])
    n = int(parts[3])
    pushed = [parse_ev(x) for x in parts[4].split(' ; ')] if n else []
    return 'ok', {'code': code, 'l1': l1, 'l2': l2, 'pushed': pushed}


def left_right(s):
    """the segment ordered as the sweep orders it (left endpoint first)"""
    p, q = s
    return (p, q) if (p[0], p[1]) < (q[0], q[1]) else (q, p)


def judge_pair(s1, s2, subj1, subj2, io1, io2, r, exact, tol):
    """list of clause violations of C16 for one call; `r` = parsed implementation answer"""
    bad = []
    (a, b), (c, d) = left_right(s1), left_right(s2)
    cl = segs.classify(a, b, c, d)
    code, l1, l2, pushed = r['code'], r['l1'], r['l2'], r['pushed']
    div1 = l1['other'] != b          # segment 1 was divided (its left event now ends elsewhere)
    div2 = l2['other'] != d
    if not exact:
        # rounded arithmetic: only the containment, common-point and tolerance clauses apply (C16 quantifier)
        dps = ([l1['other']] if div1 else []) + ([l2['other']] if div2 else [])
        for D in dps:
            for (u, v) in ((a, b), (c, d)):
                if not (min(u[0], v[0]) <= D[0] <= max(u[0], v[0]) and min(u[1], v[1]) <= D[1] <= max(u[1], v[1])):
                    bad.append('division point %s outside the bounding box of segment %s-%s' % (D, u, v))
            # backward-stable reading of "within rounding tolerance of the true intersection": the point is within the
            # tolerance of BOTH segments (for nearly parallel segments the intersection point itself is ill-conditioned)
            from .tolslab import _dist2_seg
            Df = (F(D[0]), F(D[1]))
            for (u, v) in ((a, b), (c, d)):
                if _dist2_seg(Df, (F(u[0]), F(u[1])), (F(v[0]), F(v[1]))) > F(tol) ** 2:
                    bad.append('division point %s farther than the tolerance from segment %s-%s' % (D, u, v))
        if cl[0] != 'overlap' and len(dps) == 2 and dps[0] != dps[1]:
            # (exactly collinear overlapping segments are divided at the two ends of the overlap: different points by design)
            bad.append('N2? the two segments are divided at different points %s and %s' % (dps[0], dps[1]))
        if cl[0] != 'overlap' and len(pushed) != 2 * len(dps):
            bad.append('%d events pushed for %d divisions' % (len(pushed), len(dps)))
        return bad
    if cl[0] == 'none':
        if code != 0 or pushed or div1 or div2:
            bad.append('disjoint segments: code %d, %d events pushed' % (code, len(pushed)))
        return bad
    if cl[0] == 'point':
        P = cl[1]
        in1, in2 = segs.interior(a, b, P), segs.interior(c, d, P)
        if not in1 and not in2:
            if pushed or div1 or div2:
                bad.append('segments meeting at a common endpoint were divided')
            return bad
        if code == 0 and (exact or not (min(max(abs(float(P[0]) - e[0]), abs(float(P[1]) - e[1])) for e in (a, b)) <= tol
                                        and min(max(abs(float(P[0]) - e[0]), abs(float(P[1]) - e[1])) for e in (c, d)) <= tol)):
            bad.append('segments meet at %s (interior of %s) but no intersection is reported' % ((float(P[0]), float(P[1])), 'both' if in1 and in2 else 'one'))
            return bad
        def near_end(u, v):
            return min(max(abs(float(P[0]) - e[0]), abs(float(P[1]) - e[1])) for e in (u, v)) <= tol
        # with rounded arithmetic a meeting point within the tolerance of an endpoint may legitimately be taken for that endpoint
        chk1 = exact or not near_end(a, b)
        chk2 = exact or not near_end(c, d)
        if (chk1 and in1 != div1) or (chk2 and in2 != div2):
            bad.append('meeting point interior to segment1=%s segment2=%s but divided segment1=%s segment2=%s' % (in1, in2, div1, div2))
        dps = ([l1['other']] if div1 else []) + ([l2['other']] if div2 else [])
        for D in dps:
            if exact and (F(D[0]), F(D[1])) != P and representable(P):
                bad.append('division point %s is not the exact intersection %s' % (D, (float(P[0]), float(P[1]))))
            if abs(D[0] - float(P[0])) > tol or abs(D[1] - float(P[1])) > tol:
                bad.append('division point %s farther than the tolerance from the true intersection %s' % (D, (float(P[0]), float(P[1]))))
            for (u, v) in ((a, b), (c, d)):
                if not (min(u[0], v[0]) <= D[0] <= max(u[0], v[0]) and min(u[1], v[1]) <= D[1] <= max(u[1], v[1])):
                    bad.append('division point %s outside the bounding box of segment %s-%s' % (D, u, v))
        if len(dps) == 2 and dps[0] != dps[1]:
            bad.append('N2? the two segments are divided at different points %s and %s' % (dps[0], dps[1]))
        if len(pushed) != 2 * len(dps):
            bad.append('%d events pushed for %d divisions' % (len(pushed), len(dps)))
        return bad
    # overlap
    P, Q = cl[1], cl[2]
    if subj1 == subj2:
        if code != 0 or pushed:
            bad.append('overlapping segments of one operand: code %d, %d events pushed' % (code, len(pushed)))
        return bad
    left_co = (a == c)
    right_co = (b == d)
    if left_co:
        if code != 2:
            bad.append('overlap with common left endpoint: code %d instead of 2' % code)
        if l2['type'] != 'C':
            bad.append('upper coincident piece is not typed NonContributing')
        want = 'S' if io1 == io2 else 'D'
        if l1['type'] != want:
            bad.append('lower coincident piece typed %s, expected %s' % (l1['type'], want))
    elif code != 3:
        bad.append('overlap without common left endpoint: code %d instead of 3' % code)
    # every overlap endpoint interior to a segment must now be an endpoint of a piece
    ends = {l1['p'], l1['other'], l2['p'], l2['other']} | {e['p'] for e in pushed}
    for X in (P, Q):
        Xf = (float(X[0]), float(X[1]))
        if (segs.interior(a, b, X) or segs.interior(c, d, X)) and Xf not in ends:
            bad.append('overlap endpoint %s is not a division point' % (Xf,))
    return bad


def representable(P):
    return F(float(P[0])) == P[0] and F(float(P[1])) == P[1]


def run(rep, tier, seed):
    rng = random.Random(seed)
    c01.proof_part(rep, PID, tier)
    cov = rep.coverage
    lat = [(float(x), float(y)) for x in range(4) for y in range(4)]
    segments = [(p, q) for p in lat for q in lat if p < q]          # 120 undirected segments
    if tier == 'thorough':
        segments = [(p, q) for p in lat for q in lat if p != q]     # 240 directed
    jobs = []
    for s1 in segments:
        for s2 in segments:
            for (subj1, subj2) in ((1, 0), (0, 1), (1, 1)):
                io1, io2 = (len(jobs) >> 1) & 1, len(jobs) & 1
                jobs.append((s1, s2, subj1, subj2, io1, io2, 64, True))
    n_lattice = len(jobs)
    # collinear integer segments of many lengths (touching end to start, overlapping, nested, disjoint) along small
    # primitive directions: exact arithmetic, all clauses
    ncol = 3000 if tier == 'quick' else 60000
    dirs = [(1, 0), (0, 1), (1, 1), (1, -1), (2, 1), (1, 2), (3, -1), (2, -3), (7, 1), (1, 5)]
    for _ in range(ncol):
        dx, dy = rng.choice(dirs)
        ox, oy = rng.randrange(-5, 6), rng.randrange(-5, 6)
        t = sorted(rng.sample(range(0, 31), 3))
        kind = rng.choice(['touch', 'touch', 'overlap', 'nested', 'apart'])
        if kind == 'touch':
            (a0, a1), (b0, b1) = (t[0], t[1]), (t[1], t[2])
        elif kind == 'overlap':
            (a0, a1), (b0, b1) = (t[0], t[2]), (t[1], t[2] + rng.randrange(1, 9))
        elif kind == 'nested':
            (a0, a1), (b0, b1) = (t[0], t[2] + 1), (t[1], t[2])
        else:
            (a0, a1), (b0, b1) = (t[0], t[1]), (t[2], t[2] + rng.randrange(1, 9))
        P = lambda u: (float(ox + u * dx), float(oy + u * dy))  # noqa: E731
        s1, s2 = (P(a0), P(a1)), (P(b0), P(b1))
        if rng.random() < 0.5:
            s1, s2 = s2, s1
        if rng.random() < 0.5:
            s1 = (s1[1], s1[0])
        if s1[0] == s1[1] or s2[0] == s2[1]:
            continue
        subj = rng.choice([(1, 0), (0, 1), (1, 1)])
        jobs.append((s1, s2, subj[0], subj[1], rng.randrange(2), rng.randrange(2), 64, True))
    n_exact = len(jobs)
    # floats: general position, ulp neighbourhoods, the N2 family (steep edge, second edge a few ulps from its top)
    nf = 20000 if tier == 'quick' else 400000

    def nudge(x, k):
        for _ in range(abs(k)):
            x = math.nextafter(x, math.inf if k > 0 else -math.inf)
        return x
    for i in range(nf):
        r = rng.random()
        if r < 0.5:
            s1 = ((rng.uniform(-10, 10), rng.uniform(-10, 10)), (rng.uniform(-10, 10), rng.uniform(-10, 10)))
            s2 = ((rng.uniform(-10, 10), rng.uniform(-10, 10)), (rng.uniform(-10, 10), rng.uniform(-10, 10)))
        elif r < 0.8:
            base = [(float(rng.randrange(1, 9)), float(rng.randrange(1, 9))) for _ in range(4)]   # never nudge 0.0 into the subnormals
            base = [(nudge(x, rng.randrange(-2, 3)), nudge(y, rng.randrange(-2, 3))) for (x, y) in base]
            s1, s2 = (base[0], base[1]), (base[2], base[3])
        else:
            y = nudge(1.0, -rng.randrange(1, 4))
            s1 = ((0.0, y), (2.0, y))
            s2 = ((1.0, 1.0), (float(rng.randrange(2, 6)), -float(rng.randrange(1, 9))))
        if s1[0] == s1[1] or s2[0] == s2[1]:
            continue
        prec = 64
        jobs.append((s1, s2, 1, 0, 0, 0, prec, False))
    lines = [pi_line('j%d' % i, j[0], j[1], j[2], j[3], j[4], j[5], j[6]) for i, j in enumerate(jobs)]
    impl = engine.run_lines(engine.impl_bin('r'), lines, timeout=600)
    model = engine.run_lines(engine.MODEL, lines, timeout=1800)
    mism = [i for i in range(len(jobs)) if impl[i] != model[i]]
    fails, n2 = [], []
    classes = {}
    for i, j in enumerate(jobs):
        kind, r = parse_pi(engine.payload(impl[i]))
        if kind != 'ok':
            fails.append((i, ['the call did not return normally: ' + kind]))
            continue
        s1, s2, subj1, subj2, io1, io2, prec, exact = j
        mag = max(1.0, max(abs(v) for s in (s1, s2) for p in s for v in p))
        bad = judge_pair(s1, s2, subj1, subj2, io1, io2, r, exact, 1e-9 * mag)
        cl = segs.classify(*left_right(s1), *left_right(s2))[0]
        classes[cl] = classes.get(cl, 0) + 1
        if bad:
            if not exact and all(b.startswith('N2?') for b in bad) and bump_case(r):
                n2.append(i)
            elif (not exact and impl[i] == model[i] and bumped_division(r)
                  and all(b.startswith('N2?') or 'outside the bounding box' in b for b in bad)):
                # the same corner case with one segment divided only: the bumped point leaves the other segment's box
                n2.append(i)
            else:
                fails.append((i, bad))
    # order independence (lattice part): swapping the arguments divides the same segments at the same points
    swapped = 0
    idx = {(j[0], j[1], j[2], j[3]): i for i, j in enumerate(jobs[:n_lattice])}
    for (s1, s2, a, b), i in idx.items():
        k = idx.get((s2, s1, b, a))
        if k is None or k < i:
            continue
        ki, ri = parse_pi(engine.payload(impl[i]))
        kk, rk = parse_pi(engine.payload(impl[k]))
        if ki != 'ok' or kk != 'ok':
            continue
        swapped += 1
        def close(u, v):
            return abs(u[0] - v[0]) <= 1e-9 and abs(u[1] - v[1]) <= 1e-9
        cl = segs.classify(*left_right(s1), *left_right(s2))
        same = (ri['l1']['other'], ri['l2']['other']) == (rk['l2']['other'], rk['l1']['other'])
        if not same and cl[0] == 'point' and not representable(cl[1]):
            # the exact meeting point is not a float: the two computations may round differently
            same = close(ri['l1']['other'], rk['l2']['other']) and close(ri['l2']['other'], rk['l1']['other'])
        if not same or (ri['code'] == 0) != (rk['code'] == 0):
            fails.append((i, ['outcome depends on the argument order: %s / %s' % ((ri['code'], ri['l1']['other'], ri['l2']['other']),
                                                                               (rk['code'], rk['l2']['other'], rk['l1']['other']))]))
    for i in n2:
        rep.known_finding('N2', 'pair %s | %s' % (jobs[i][0], jobs[i][1]))
    cov['evaluations'] = len(jobs)
    cov['lattice_configurations'] = n_lattice
    cov['exhaustive'] = True
    cov['exhaustive_domain'] = 'all ordered pairs of the %d %s lattice segments with endpoints in {0..3}^2 x 3 operand assignments' % (
        len(segments), 'undirected' if tier == 'quick' else 'directed')
    cov['collinear_integer_pairs'] = n_exact - n_lattice
    cov['float_pairs'] = len(jobs) - n_exact
    cov['geometry_classes'] = classes
    cov['swapped_pairs_compared'] = swapped
    cov['traces_validated_against_impl'] = len(jobs) - len(mism)
    cov['distinct_nontrivial'] = sum(v for k, v in classes.items() if k != 'none')
    cov['n2_bump_pairs_seen'] = len(n2)
    cov['rule'] = ('possible_intersection on two fresh segments built like fill_queue builds them; lattice part exhaustive, all clauses with '
                   'exact rational reference; float part: general position, lattice points nudged by up to 2 ulps, and the N2 family; '
                   'containment, tolerance (1e-9 x magnitude) and common-point clauses. distinct_nontrivial = pairs that actually meet.')
    cov['samples'] = [lines[7], lines[n_lattice + 3], lines[n_exact + 3]]
    cov['trusted_base'] = c01.TRUSTED + ['the reference classification of segment pairs is exact rational Python code (tools/gb/segs.py); the '
                                         'exactness of the division point at the exact instance is a Coq theorem (intersection_exact_all)']
    rep.log('%d calls, %d model mismatches, %d failing, %d N2' % (len(jobs), len(mism), len(fails), len(n2)))
    if fails:
        i, bad = fails[0]
        rep.violation('C16: %s (%d failing pairs)' % (bad[0], len(fails)),
                      {'segments': [jobs[i][0], jobs[i][1]], 'subject_flags': jobs[i][2:4], 'in_out': jobs[i][4:6], 'failures': bad,
                       'line': lines[i], 'implementation': impl[i][:1500], 'replay_cmd': "printf '%%s\\n' '%s' | harness/target/release/vh" % lines[i]})
    elif mism:
        i = mism[0]
        rep.violation('correspondence Divide.possible_intersection <-> possible_intersection broken on %d pair(s); every clause of C16 '
                      'still holds on the implementation\'s answers' % len(mism),
                      {'correspondence': 'coq/theories/Divide.v possible_intersection / divide_segment, Intersect.v intersection',
                       'line': lines[i], 'implementation': impl[i][:1500], 'model': model[i][:1500]}, nofail=True)


def bump_case(r):
    """the two division points differ by the one-ulp bump of divide_segment's corner case 1"""
    d1, d2 = r['l1']['other'], r['l2']['other']
    return d1[1] == d2[1] and (d1[0] == math.nextafter(d2[0], math.inf) or d2[0] == math.nextafter(d1[0], math.inf))


def bumped_division(r):
    """some division point is the one-ulp bump of corner case 1: x = next_up(x of the divided segment's left endpoint), y below it"""
    for l in (r['l1'], r['l2']):
        L, D = l['p'], l['other']
        if D[0] == math.nextafter(L[0], math.inf) and D[1] < L[1]:
            return True
    return False
