"""C06 — set-algebra laws: commutativity, self-operations, empty and disjoint operands."""
from . import relprops, relrun
LEVEL = 'proof'
W = {'rect': 0.25, 'oct': 0.3, 'share': 0.15, 'lat': 0.1, 'gp': 0.15, 'degen': 0.05, 'boxes': 0.15, 'abut': 0.2, 'punch': 0.05, 'frameslab': 0.12}


def run(rep, tier, seed):
    relrun.run_rel(rep, 'C06', tier, seed, relprops.build_c06, W, 220 if tier == 'quick' else 3000,
                   'each group = op(A,B), op(B,A) for the symmetric operations, A op A for all four, op(A,empty), op(empty,A); ring sets '
                   'compared after normalising start and order on the exact class, regions by the verified checker otherwise; results with '
                   'an empty operand compared literally.')
