(* conversions between OCaml ints and the extracted inductive numbers (ExtrOcamlBasic only) *)
open BinNums
open Datatypes
let rec pos_of_int64 (n : int64) : positive =
  if Int64.equal n 1L then Coq_xH
  else if Int64.equal (Int64.logand n 1L) 0L then Coq_xO (pos_of_int64 (Int64.shift_right_logical n 1))
  else Coq_xI (pos_of_int64 (Int64.shift_right_logical n 1))

let z_of_int64 (n : int64) : coq_Z =
  if Int64.equal n 0L then Z0
  else if Int64.compare n 0L > 0 then Zpos (pos_of_int64 n)
  else Zneg (pos_of_int64 (Int64.neg n))

(* unsigned 64-bit pattern -> non-negative Z *)
let z_of_bits64 (n : int64) : coq_Z =
  if Int64.equal n 0L then Z0 else Zpos (pos_of_int64 n) (* logical shifts: works for the top bit too *)

let rec int64_of_pos (p : positive) : int64 =
  match p with
  | Coq_xH -> 1L
  | Coq_xO q -> Int64.shift_left (int64_of_pos q) 1
  | Coq_xI q -> Int64.logor (Int64.shift_left (int64_of_pos q) 1) 1L

let int64_of_z (z : coq_Z) : int64 =
  match z with Z0 -> 0L | Zpos p -> int64_of_pos p | Zneg p -> Int64.neg (int64_of_pos p)

let int_of_z z = Int64.to_int (int64_of_z z)
let z_of_int n = z_of_int64 (Int64.of_int n)
let int_of_pos p = Int64.to_int (int64_of_pos p)
let pos_of_int n = pos_of_int64 (Int64.of_int n)
let n_of_int n : coq_N = if n = 0 then N0 else Npos (pos_of_int n)
let int_of_n (n : coq_N) = match n with N0 -> 0 | Npos p -> int_of_pos p

let rec nat_of_int n : nat = if n <= 0 then O else S (nat_of_int (n - 1))
let nat_of_int n =
  let rec go acc n = if n <= 0 then acc else go (S acc) (n - 1) in
  go O n
let int_of_nat (n : nat) =
  let rec go acc n = match n with O -> acc | S m -> go (acc + 1) m in
  go 0 n


(* decimal strings <-> inductive numbers (through lists of base-10^9 limbs would be faster; the
   pure driver is only used for spot checks) *)
let z_of_string (s : string) : coq_Z =
  let neg = String.length s > 0 && s.[0] = '-' in
  let s = if neg then String.sub s 1 (String.length s - 1) else s in
  let ten = z_of_int 10 in
  let acc = ref Z0 in
  String.iter (fun c -> acc := BinInt.Z.add (BinInt.Z.mul !acc ten) (z_of_int (Char.code c - 48))) s;
  if neg then BinInt.Z.opp !acc else !acc
let string_of_z (z : coq_Z) : string =
  let ten = z_of_int 10 in
  let rec go z acc =
    if z = Z0 then acc
    else
      let (q, r) = BinInt.Z.div_eucl z ten in
      go q (string_of_int (int_of_z r) ^ acc) in
  match z with
  | Z0 -> "0"
  | Zpos _ -> go z ""
  | Zneg p -> "-" ^ go (Zpos p) ""
let string_of_pos (p : positive) = string_of_z (Zpos p)
let pos_of_string s = match z_of_string s with Zpos p -> p | _ -> Coq_xH
