#!/bin/sh
# Extracts the Coq model to OCaml (into gen/) and builds the driver ./gbmodel.
# Assumes /verif/coq has been built (make).
set -e
cd "$(dirname "$0")"
mkdir -p gen
cd gen
if [ ! -f .stamp ] || [ ../../coq/theories/Extract.v -nt .stamp ] || [ -n "$(find ../../coq/theories -maxdepth 1 -name '*.vo' -newer .stamp | head -1)" ]; then
  rm -f *.ml *.mli
  timeout 900 coqc -Q ../../coq/theories GB ../../coq/theories/Extract.v > extract.log 2>&1 || { cat extract.log; exit 1; }
  touch .stamp
fi
cd ..
if [ ! -x gbmodel ] || [ driver.ml -nt gbmodel ] || [ gen/.stamp -nt gbmodel ]; then
  SRCS=$(ocamlfind ocamldep -sort -I gen gen/*.mli gen/*.ml)
  ocamlfind ocamlopt -w -a -O3 -unboxed-types 2>/dev/null -I gen $SRCS driver.ml -o gbmodel 2>/dev/null || \
  ocamlfind ocamlopt -w -a -inline 100 -I gen $SRCS driver.ml -o gbmodel
fi
