#!/bin/sh
# Extracts the Coq model to OCaml and builds two drivers:
#   gbmodel       Z/positive/N mapped to zarith big integers (ExtrOcamlBasic + ExtrOcamlZBigInt): fast
#   gbmodel_pure  ExtrOcamlBasic only, numbers stay the extracted inductives: reference for spot checks
# Assumes /verif/coq has been built (make).
set -e
cd "$(dirname "$0")"
TH=../../coq/theories
need_extract() { # $1 = dir
  [ ! -f "$1/.stamp" ] || [ "$TH/Extract.v" -nt "$1/.stamp" ] || [ -n "$(find $TH/.. -name '*.vo' -newer "$1/.stamp" 2>/dev/null | head -1)" ]
}
mkdir -p gen_pure gen_big
if (cd gen_pure && need_extract .); then
  (cd gen_pure && rm -f *.ml *.mli && timeout 900 coqc -Q $TH GB $TH/Extract.v > extract.log 2>&1 && touch .stamp) || { cat gen_pure/extract.log; exit 1; }
fi
if (cd gen_big && need_extract .); then
  (cd gen_big && rm -f *.ml *.mli && \
   sed 's/^From Coq Require Import Extraction ExtrOcamlBasic\./From Coq Require Import Extraction ExtrOcamlBasic ExtrOcamlZBigInt./' $TH/Extract.v > ExtractBig.v && \
   timeout 900 coqc -Q $TH GB ExtractBig.v > extract.log 2>&1 && touch .stamp) || { cat gen_big/extract.log; exit 1; }
fi
build_one() { # $1 = gen dir, $2 = conv file, $3 = output, $4 = extra packages
  if [ ! -x "$3" ] || [ driver.ml -nt "$3" ] || [ "$2" -nt "$3" ] || [ "$1/.stamp" -nt "$3" ]; then
    cp "$2" "$1/conv.ml"
    SRCS=$(ocamlfind ocamldep -sort -I "$1" "$1"/*.mli "$1"/*.ml | tr ' ' '\n' | grep -v '/conv.ml$' | tr '\n' ' ')
    ocamlfind ocamlopt $4 -w -a -inline 100 -I "$1" $SRCS "$1/conv.ml" driver.ml -o "$3"
    rm -f driver.cm* driver.o
  fi
}
build_one gen_pure conv_pure.ml gbmodel_pure ""
build_one gen_big conv_big.ml gbmodel "-package zarith -linkpkg"
