(* conversions between OCaml ints and the extracted numbers when positive/N/Z are mapped to
   zarith's Big_int_Z.big_int by ExtrOcamlZBigInt (nat stays inductive) *)
open Datatypes
let pos_of_int64 (n : int64) = Big_int_Z.big_int_of_int64 n
let z_of_int64 (n : int64) = Big_int_Z.big_int_of_int64 n
let z_of_bits64 (n : int64) =
  if Int64.compare n 0L >= 0 then Big_int_Z.big_int_of_int64 n
  else Big_int_Z.add_big_int (Big_int_Z.big_int_of_int64 n) (Big_int_Z.power_int_positive_int 2 64)
let int64_of_z z =
  (* values of up to 64 bits, two's complement wrap for the top bit *)
  if Big_int_Z.ge_big_int z (Big_int_Z.power_int_positive_int 2 63)
  then Big_int_Z.int64_of_big_int (Big_int_Z.sub_big_int z (Big_int_Z.power_int_positive_int 2 64))
  else Big_int_Z.int64_of_big_int z
let int64_of_pos = int64_of_z
let int_of_z z = Big_int_Z.int_of_big_int z
let z_of_int n = Big_int_Z.big_int_of_int n
let int_of_pos p = Big_int_Z.int_of_big_int p
let pos_of_int n = Big_int_Z.big_int_of_int n
let n_of_int n = Big_int_Z.big_int_of_int n
let int_of_n n = Big_int_Z.int_of_big_int n
let nat_of_int n =
  let rec go acc n = if n <= 0 then acc else go (S acc) (n - 1) in
  go O n
let int_of_nat (n : nat) =
  let rec go acc n = match n with O -> acc | S m -> go (acc + 1) m in
  go 0 n
let string_of_z z = Big_int_Z.string_of_big_int z
let z_of_string s = Big_int_Z.big_int_of_string s
let string_of_pos = string_of_z
let pos_of_string = z_of_string
