(* Driver of the extracted Coq model: reads one command per line on stdin (format: see
   /verif/tools/FORMAT.md) and prints one line of canonical observation per command.
   All arithmetic is done by the extracted code; this file only parses and prints. *)
open Datatypes

open Conv

(* ---------- tokens ---------- *)
type toks = { a : string array; mutable i : int }
let next t = let s = t.a.(t.i) in t.i <- t.i + 1; s
let next_int t = int_of_string (next t)
let has_more t = t.i < Array.length t.a

(* ---------- numbers ---------- *)
(* a numeric format: the instance of the model and how its values are read and printed *)
type fmt = { num : Num.coq_Num; rd : string -> Obj.t; pr : Obj.t -> string }

let sf_of_hex (s : string) : SpecFloat.spec_float =
  let bits = Int64.of_string ("0x" ^ s) in
  if String.length s = 16 then NumB.of_bits (z_of_int 53) (z_of_int 1024) (z_of_bits64 bits)
  else NumB.of_bits (z_of_int 24) (z_of_int 128) (z_of_bits64 bits)

(* canonical printing: both zeros print as +0 *)
let hex_of_sf prec emax hexlen (x : SpecFloat.spec_float) : string =
  let x = match x with SpecFloat.S754_zero _ -> SpecFloat.S754_zero false | _ -> x in
  let b = int64_of_z (NumB.to_bits prec emax x) in
  if hexlen = 16 then Printf.sprintf "%016Lx" b else Printf.sprintf "%08Lx" b

let f64 = { num = NumB.coq_NB64; rd = (fun s -> Obj.repr (sf_of_hex s));
            pr = (fun x -> hex_of_sf (z_of_int 53) (z_of_int 1024) 16 (Obj.obj x)) }
let f32 = { num = NumB.coq_NB32; rd = (fun s -> Obj.repr (sf_of_hex s));
            pr = (fun x -> hex_of_sf (z_of_int 24) (z_of_int 128) 8 (Obj.obj x)) }

(* rationals travel as q<num>/<den> *)
let q_of_tok (s : string) : QArith_base.coq_Q =
  if String.length s > 0 && s.[0] = 'q' then begin
    let body = String.sub s 1 (String.length s - 1) in
    match String.split_on_char '/' body with
    | [n; d] -> { QArith_base.coq_Qnum = z_of_string n; QArith_base.coq_Qden = pos_of_string d }
    | [n] -> { QArith_base.coq_Qnum = z_of_string n; QArith_base.coq_Qden = pos_of_int 1 }
    | _ -> failwith ("bad rational " ^ s)
  end else
    match Convert.sf2q (sf_of_hex s) with
    | Some q -> q
    | None -> failwith "non-finite coordinate for the exact instance"
let tok_of_q (q : QArith_base.coq_Q) : string =
  "q" ^ string_of_z q.QArith_base.coq_Qnum ^ "/" ^ string_of_pos q.QArith_base.coq_Qden
let fq = { num = NumQ.coq_NQ;
           rd = (fun s -> Obj.repr (NumQ.QF (q_of_tok s)));
           pr = (fun x -> match (Obj.obj x : NumQ.qx) with
               | NumQ.QF q -> tok_of_q q | NumQ.QPInf -> "+inf" | NumQ.QNInf -> "-inf" | NumQ.QNaN -> "nan") }

let fmt_of_string s =
  match s with
  | "64" -> f64 | "32" -> f32 | "q" | "q64" | "q32" -> fq
  | _ -> failwith ("bad precision " ^ s)

let float_of_tok f (s : string) : Obj.t = f.rd s
let tok_of_float f (x : Obj.t) : string = f.pr x

let read_pt f t : Num.pt =
  let x = float_of_tok f (next t) in
  let y = float_of_tok f (next t) in
  { Num.px = x; Num.py = y }

let pt_str f (p : Num.pt) = tok_of_float f p.Num.px ^ " " ^ tok_of_float f p.Num.py

let read_list t (rd : toks -> 'a) : 'a list =
  let n = next_int t in
  let rec go k acc = if k = 0 then List.rev acc else go (k - 1) (rd t :: acc) in
  go n []

let read_ring f t : FillQueue.ring = read_list t (read_pt f)

let read_polygon f t : FillQueue.polygon =
  let rings = read_list t (read_ring f) in
  match rings with
  | [] -> FillQueue.polygon_new f.num [] []
  | ext :: ints -> FillQueue.polygon_new f.num ext ints

let read_operand f t : BoolOp.operand =
  match next t with
  | "P" -> BoolOp.OpPolygon (read_polygon f t)
  | "M" -> BoolOp.OpMulti (read_list t (read_polygon f))
  | s -> failwith ("bad operand tag " ^ s)

let ring_str f (r : FillQueue.ring) =
  String.concat " " (string_of_int (List.length r) :: List.map (pt_str f) r)

let polygon_str f (p : FillQueue.polygon) =
  let rings = p.FillQueue.exterior :: p.FillQueue.interiors in
  String.concat " " (string_of_int (List.length rings) :: List.map (ring_str f) rings)

let multipolygon_str f (m : FillQueue.polygon list) =
  String.concat " " (string_of_int (List.length m) :: List.map (polygon_str f) m)

let op_of_string = function
  | "I" -> Event.Intersection | "D" -> Event.Difference | "U" -> Event.Union | "X" -> Event.Xor
  | s -> failwith ("bad op " ^ s)

let cfg_of_string = function
  | "r" -> Outcome.release | "d" -> Outcome.debug
  | "p" -> Outcome.pinned
  | "n" -> { Outcome.release with Outcome.c_noshort = true }
  | s -> failwith ("bad profile " ^ s)

let site_str (s : Outcome.panic_site) =
  match s with
  | Outcome.PUnwrapPossibleIntersection -> "panic unwrap:possible_intersection"
  | Outcome.PIndexContours | Outcome.PIndexResultEvents -> "panic index:connect_edges"
  | Outcome.PIndexHoleIds -> "panic index:mod"
  | Outcome.PDebugSweepLineMisses -> "panic assert:subdivide_segments"
  | Outcome.PDebugDivideNotLeft | Outcome.PDebugDivideNotBefore -> "panic assert:divide_segment"
  | Outcome.PDebugIterationOrder | Outcome.PDebugLowerContour -> "panic assert:connect_edges"
  | Outcome.PEventBudget -> "budget"

let outcome_str (o : 'a Outcome.outcome) (f : 'a -> string) =
  match o with
  | Outcome.Ok x -> "ok " ^ f x
  | Outcome.Panic s -> site_str s
  | Outcome.OutOfFuel -> "hang"

(* ---------- events ---------- *)
let et_str = function
  | Event.Normal -> "N" | Event.NonContributing -> "C" | Event.SameTransition -> "S"
  | Event.DifferentTransition -> "D"
let rt_str = function Event.RTNone -> "-" | Event.InOut -> "io" | Event.OutIn -> "oi"
let b01 b = if b then "1" else "0"

(* one event, with references to other events rendered through [ref_] *)
let event_str f (st : Event.store) ref_ i =
  let e = Event.getE f.num st i in
  String.concat " "
    [ pt_str f e.Event.e_point; b01 e.Event.e_left; b01 e.Event.e_is_subject;
      string_of_int (int_of_n e.Event.e_contour_id); b01 e.Event.e_is_exterior_ring;
      ref_ e.Event.e_other; et_str e.Event.e_edge_type; b01 e.Event.e_in_out;
      b01 e.Event.e_other_in_out; rt_str e.Event.e_result_transition;
      ref_ e.Event.e_prev_in_result ]

(* ---------- commands ---------- *)
let cmd_bool t =
  let id = next t in
  let f = fmt_of_string (next t) in
  let cfg = cfg_of_string (next t) in
  let budget = next_int t in
  let op = op_of_string (next t) in
  let lhs = read_operand f t in
  let rhs = read_operand f t in
  let r = BoolOp.boolean f.num cfg (nat_of_int budget) lhs rhs op in
  Printf.printf "bool %s %s\n" id (outcome_str r (multipolygon_str f))

let bb_str f (b : FillQueue.bounding_box) =
  String.concat " " [ tok_of_float f b.FillQueue.bb_minx; tok_of_float f b.FillQueue.bb_miny;
                      tok_of_float f b.FillQueue.bb_maxx; tok_of_float f b.FillQueue.bb_maxy ]

(* fill_queue: boxes, then the queue drained in pop order; an event refers to its partner by
   the partner's coordinates (ids are not observable on the Rust side) *)
let cmd_fillq t =
  let id = next t in
  let f = fmt_of_string (next t) in
  let op = op_of_string (next t) in
  let a = BoolOp.as_slice f.num (read_operand f t) in
  let b = BoolOp.as_slice f.num (read_operand f t) in
  let fl = FillQueue.fill_queue f.num a b op in
  let st = fl.FillQueue.f_st in
  let ref_ = function None -> "~" | Some o -> "@" ^ pt_str f (Event.point_of f.num st o) in
  let rec drain q acc =
    match Divide.qpop f.num st q with
    | None -> List.rev acc
    | Some (e, q') -> drain q' (event_str f st ref_ e :: acc) in
  let evs = drain fl.FillQueue.f_q [] in
  Printf.printf "fillq %s %s | %s | %d | %s\n" id (bb_str f fl.FillQueue.f_sbbox) (bb_str f fl.FillQueue.f_cbbox)
    (List.length evs) (String.concat " ; " evs)

(* subdivide: the returned vector; references are indices into the vector ("#k"), or the
   coordinates of the target if it is not in the vector ("@x y"), "~" for none *)
let cmd_subdiv t =
  let id = next t in
  let f = fmt_of_string (next t) in
  let cfg = cfg_of_string (next t) in
  let budget = next_int t in
  let op = op_of_string (next t) in
  let a = BoolOp.as_slice f.num (read_operand f t) in
  let b = BoolOp.as_slice f.num (read_operand f t) in
  let fl = FillQueue.fill_queue f.num a b op in
  let r = Subdivide.subdivide f.num cfg (nat_of_int budget) fl op in
  let show ((st, evs), slsize) =
    let tbl = Hashtbl.create 64 in
    List.iteri (fun k e -> if not (Hashtbl.mem tbl (int_of_pos e)) then Hashtbl.add tbl (int_of_pos e) k) evs;
    let ref_ = function
      | None -> "~"
      | Some o ->
        (match Hashtbl.find_opt tbl (int_of_pos o) with
         | Some k -> "#" ^ string_of_int k
         | None -> "@" ^ pt_str f (Event.point_of f.num st o)) in
    ignore slsize;
    Printf.sprintf "%d | %s" (List.length evs)
      (String.concat " ; " (List.map (event_str f st ref_) evs)) in
  Printf.printf "subdiv %s %s\n" id (outcome_str r show)

(* planar: the verified planarity certificate (Cert13) on the model's own run of subdivide:
   "1" accepted, "0" rejected, "-" the sweep did not return; second token: the coverage certificate (Cert13Cover),
   evaluated for sweeps that run to completion (Union, Xor), "-" otherwise *)
let cmd_planar t =
  let id = next t in
  let prec = next t in
  let f = fmt_of_string prec in
  let cfg = cfg_of_string (next t) in
  let budget = next_int t in
  let op = op_of_string (next t) in
  let a = BoolOp.as_slice f.num (read_operand f t) in
  let b = BoolOp.as_slice f.num (read_operand f t) in
  let fl = FillQueue.fill_queue f.num a b op in
  let r = Subdivide.subdivide f.num cfg (nat_of_int budget) fl op in
  let verdict =
    match r with
    | Outcome.Ok ((st, evs), _) ->
      let ok = (match prec with
          | "64" -> Cert13.planar_64 (Obj.magic st) evs
          | "32" -> Cert13.planar_32 (Obj.magic st) evs
          | _ -> Cert13.planar_q (Obj.magic st) evs) in
      let complete = (match op with Event.Union | Event.Xor -> true | _ -> false) in
      let cov = if not complete then "-" else b01 (match prec with
          | "64" -> Cert13Cover.cover_64 (Obj.magic a) (Obj.magic b) (Obj.magic st) evs
          | "32" -> Cert13Cover.cover_32 (Obj.magic a) (Obj.magic b) (Obj.magic st) evs
          | _ -> Cert13Cover.cover_q (Obj.magic a) (Obj.magic b) (Obj.magic st) evs) in
      b01 ok ^ " " ^ cov
    | _ -> "- -" in
  Printf.printf "planar %s %s\n" id verdict

(* ---------- splay ---------- *)
let zcmp (a : int) (b : int) : comparison = if a < b then Lt else if a > b then Gt else Eq

let rec shape_str (t : (int, int) Splay.tree) : string =
  match t with
  | Splay.Leaf -> "."
  | Splay.Node (l, x, r) ->
    Printf.sprintf "(%d %d %s %s)" x.Splay.ekey x.Splay.eval (shape_str l) (shape_str r)

let out_str (o : (int, int) SplayOps.out) : string =
  match o with
  | SplayOps.RNone -> "-"
  | SplayOps.RVal v -> Printf.sprintf "v%d" v
  | SplayOps.RKey k -> Printf.sprintf "k%d" k
  | SplayOps.RKV (k, v) -> Printf.sprintf "kv%d,%d" k v
  | SplayOps.RBool b -> "b" ^ b01 b
  | SplayOps.RNat n -> Printf.sprintf "n%d" (int_of_nat n)
  | SplayOps.RIter items ->
    "it[" ^ String.concat ";" (List.map (fun (kv, rem) ->
        (match kv with None -> "-" | Some (k, v) -> Printf.sprintf "%d,%d" k v) ^ ":" ^ string_of_int (int_of_nat rem)) items) ^ "]"

(* ops: i k v | r k | g k | f k | c k | n k | p k | min | max | len | emp | clr | ext n (k v)* | it n (0|1)*
        | dbg (print the shape) | stab k m (g|n|p|c q)*  (hold a reference across m lookups) *)
let cmd_splay t =
  let id = next t in
  let s = ref (Splay.empty : (int, int) Splay.t) in
  let outs = ref [] in
  let emit x = outs := x :: !outs in
  let do_op (o : (int, int) SplayOps.op) =
    let (s', r) = SplayOps.step zcmp !s o in
    s := s'; r in
  let read_lookup () : (int, int) SplayOps.op =
    match next t with
    | "g" -> SplayOps.OGet (next_int t)
    | "n" -> SplayOps.ONext (next_int t)
    | "p" -> SplayOps.OPrev (next_int t)
    | "c" -> SplayOps.OContains (next_int t)
    | "f" -> SplayOps.OFindKey (next_int t)
    | x -> failwith ("bad lookup " ^ x) in
  while has_more t do
    match next t with
    | "i" -> let k = next_int t in let v = next_int t in emit (out_str (do_op (SplayOps.OInsert (k, v))))
    | "r" -> emit (out_str (do_op (SplayOps.ORemove (next_int t))))
    | "g" -> emit (out_str (do_op (SplayOps.OGet (next_int t))))
    | "f" -> emit (out_str (do_op (SplayOps.OFindKey (next_int t))))
    | "c" -> emit (out_str (do_op (SplayOps.OContains (next_int t))))
    | "n" -> emit (out_str (do_op (SplayOps.ONext (next_int t))))
    | "p" -> emit (out_str (do_op (SplayOps.OPrev (next_int t))))
    | "min" -> emit (out_str (do_op SplayOps.OMin))
    | "max" -> emit (out_str (do_op SplayOps.OMax))
    | "len" -> emit (out_str (do_op SplayOps.OLen))
    | "emp" -> emit (out_str (do_op SplayOps.OIsEmpty))
    | "clr" -> emit (out_str (do_op SplayOps.OClear))
    | "ext" ->
      let kvs = read_list t (fun t -> let k = next_int t in let v = next_int t in (k, v)) in
      emit (out_str (do_op (SplayOps.OExtend kvs)))
    | "it" ->
      let dirs = read_list t (fun t -> next_int t = 1) in
      emit (out_str (do_op (SplayOps.OIntoIter dirs)))
    | "dbg" -> emit (shape_str (Splay.root !s))
    | "stab" ->
      (* the element found for k keeps its identity, key and value across further lookups *)
      let k = next_int t in
      let find () = List.find_opt (fun e -> e.Splay.ekey = k) (Splay.inorder (Splay.root !s)) in
      let r0 = do_op (SplayOps.OGet k) in
      let before = find () in
      let m = next_int t in
      let lookups = ref [] in
      for _ = 1 to m do lookups := out_str (do_op (read_lookup ())) :: !lookups done;
      ignore (do_op (SplayOps.OGet k));   (* the harness looks the key up again to compare addresses *)
      let after = find () in
      let same = match before, after with
        | None, None -> true
        | Some a, Some b -> a.Splay.eid = b.Splay.eid && a.Splay.eval = b.Splay.eval
        | _ -> false in
      emit (Printf.sprintf "stab{%s|%s|%s}" (out_str r0) (String.concat "," (List.rev !lookups)) (b01 same))
    | x -> failwith ("bad splay op " ^ x)
  done;
  Printf.printf "splay %s %s\n" id (String.concat " " (List.rev !outs))


(* ---------- exact region oracle ---------- *)
(* scene <id> <prec> <law tokens ...> ; <nregions> region*
   region := E <nrings> ring* | Y <npoly> polygon*       (float coordinates, converted exactly)
   law    := in k | true | false | not L | and L L | or L L | xor L L | eq L L   (prefix) *)
exception Nonfinite
let qpt_of_tok _f t : Slab.qpt =
  let rd s = try q_of_tok s with Failure _ -> raise Nonfinite in
  let x = rd (next t) in
  let y = rd (next t) in
  { Slab.qx = x; Slab.qy = y }

let rec read_law t : Scene.law =
  match next t with
  | "in" -> Scene.LIn (nat_of_int (next_int t))
  | "true" -> Scene.LTrue
  | "false" -> Scene.LFalse
  | "not" -> Scene.LNot (read_law t)
  | "and" -> let a = read_law t in let b = read_law t in Scene.LAnd (a, b)
  | "or" -> let a = read_law t in let b = read_law t in Scene.LOr (a, b)
  | "xor" -> let a = read_law t in let b = read_law t in Scene.LXor (a, b)
  | "eq" -> let a = read_law t in let b = read_law t in Scene.LEq (a, b)
  | s -> failwith ("bad law token " ^ s)

let read_qring f t : Slab.ring = read_list t (qpt_of_tok f)
let read_qpolygon f t : Slab.qpolygon =
  match read_list t (read_qring f) with
  | [] -> { Slab.q_ext = []; Slab.q_holes = [] }
  | ext :: holes -> { Slab.q_ext = ext; Slab.q_holes = holes }

let read_region f t : Scene.region =
  match next t with
  | "E" -> Scene.REo (read_list t (read_qring f))
  | "Y" -> Scene.RPoly (read_list t (read_qpolygon f))
  | s -> failwith ("bad region tag " ^ s)

let cmd_scene t =
  let id = next t in
  let f = fmt_of_string (next t) in
  let l = read_law t in
  (match next t with ";" -> () | s -> failwith ("expected ; got " ^ s));
  (try
     let sc = read_list t (read_region f) in
     Printf.printf "scene %s %s\n" id (if Scene.check_scene sc l then "true" else "false")
   with Nonfinite -> Printf.printf "scene %s nonfinite\n" id)

(* noshare <id> <prec> <multipolygon>: the verified certificate Cert02Edges.no_shared_boundary on a result *)
let cmd_noshare t =
  let id = next t in
  let _f = fmt_of_string (next t) in
  (try
     let rdq () = (try q_of_tok (next t) with Failure _ -> raise Nonfinite) in
     let pt _ = let x = rdq () in let y = rdq () in (x, y) in
     let mp = read_list t (fun t -> read_list t (fun t -> read_list t pt)) in
     Printf.printf "noshare %s %s\n" id (b01 (Cert02Edges.no_shared_boundary (Obj.magic mp)))
   with Nonfinite -> Printf.printf "noshare %s nonfinite\n" id)

(* cert14 (arguments as subdiv): the certificate Cert14 on the model's own run of subdivide: "1" / "0", "-" if the sweep
   did not return *)
let cmd_cert14 t =
  let id = next t in
  let prec = next t in
  let f = fmt_of_string prec in
  let cfg = cfg_of_string (next t) in
  let budget = next_int t in
  let op = op_of_string (next t) in
  let a = BoolOp.as_slice f.num (read_operand f t) in
  let b = BoolOp.as_slice f.num (read_operand f t) in
  let fl = FillQueue.fill_queue f.num a b op in
  let r = Subdivide.subdivide f.num cfg (nat_of_int budget) fl op in
  let verdict =
    match r with
    | Outcome.Ok ((st, evs), _) ->
      b01 (match prec with
          | "64" -> Cert14.cert14_64 op (Obj.magic a) (Obj.magic b) (Obj.magic st) evs
          | "32" -> Cert14.cert14_32 op (Obj.magic a) (Obj.magic b) (Obj.magic st) evs
          | _ -> Cert14.cert14_q op (Obj.magic a) (Obj.magic b) (Obj.magic st) evs)
    | _ -> "-" in
  Printf.printf "cert14 %s %s\n" id verdict

(* cert04 <id> <prec> <assembled 0|1> <n> (ax ay bx by subj)* <multipolygon>: the verified certificate Cert04.cert04 on
   explicitly given input edges and a result (float coordinates converted exactly) *)
let cmd_cert04 t =
  let id = next t in
  let f = fmt_of_string (next t) in
  let assembled = next_int t = 1 in
  (try
     let rdq () = (try q_of_tok (next t) with Failure _ -> raise Nonfinite) in
     let edges = read_list t (fun _ ->
         let ax = rdq () in let ay = rdq () in let bx = rdq () in let by = rdq () in
         let s = next_int t = 1 in
         (((ax, ay), (bx, by)), s)) in
     let pt _ = let x = rdq () in let y = rdq () in (x, y) in
     let mp = read_list t (fun t -> read_list t (fun t -> read_list t pt)) in
     ignore f;
     Printf.printf "cert04 %s %s\n" id (b01 (Cert04.cert04 assembled (Obj.magic edges) (Obj.magic mp)))
   with Nonfinite -> Printf.printf "cert04 %s nonfinite\n" id)

(* ---------- orders, pairs, intersection step, decision table ---------- *)
let cmp_chr = function Lt -> "L" | Gt -> "G" | Eq -> "E"

(* orders <id> <prec> <profile> <budget> <op> <A> <B> <stage: q|s>
   all-pairs matrices of the event order (over the events of the queue / the subdivided vector) and of
   the segment order (over the left events among them), row-major *)
let cmd_orders t =
  let id = next t in
  let f = fmt_of_string (next t) in
  let cfg = cfg_of_string (next t) in
  let budget = next_int t in
  let op = op_of_string (next t) in
  let a = BoolOp.as_slice f.num (read_operand f t) in
  let b = BoolOp.as_slice f.num (read_operand f t) in
  let stage = next t in
  let fl = FillQueue.fill_queue f.num a b op in
  let finish st evs =
    let ev = Array.of_list evs in
    let n = Array.length ev in
    let buf = Buffer.create (n * n + 16) in
    for i = 0 to n - 1 do for j = 0 to n - 1 do
        Buffer.add_string buf (cmp_chr (Cmp.cmp_events f.num st ev.(i) ev.(j))) done done;
    let lefts = List.filter (fun e -> (Event.getE f.num st e).Event.e_left) evs in
    let lv = Array.of_list lefts in
    let m = Array.length lv in
    let buf2 = Buffer.create (m * m + 16) in
    for i = 0 to m - 1 do for j = 0 to m - 1 do
        Buffer.add_string buf2 (cmp_chr (Cmp.compare_segments f.num st lv.(i) lv.(j))) done done;
    let seg e = let x = Event.getE f.num st e in
      pt_str f x.Event.e_point ^ " " ^ (match x.Event.e_other with Some o -> pt_str f (Event.point_of f.num st o) | None -> "~ ~")
                ^ " " ^ b01 x.Event.e_left ^ " " ^ b01 x.Event.e_is_subject ^ " " ^ string_of_int (int_of_n x.Event.e_contour_id) in
    Printf.sprintf "%d %s | %s | %d %s" n (String.concat " ; " (List.map seg evs)) (Buffer.contents buf) m (Buffer.contents buf2) in
  if stage = "q" then begin
    let st = fl.FillQueue.f_st in
    let rec drain q acc = match Divide.qpop f.num st q with None -> List.rev acc | Some (e, q') -> drain q' (e :: acc) in
    Printf.printf "orders %s ok %s\n" id (finish st (drain fl.FillQueue.f_q []))
  end else begin
    let r = Subdivide.subdivide f.num cfg (nat_of_int budget) fl op in
    Printf.printf "orders %s %s\n" id (outcome_str r (fun ((st, evs), _) -> finish st evs))
  end

(* two segments given by their endpoints; built the way fill_queue builds them *)
let mk_segment f st (p : Num.pt) (q : Num.pt) subj cid =
  let (st1, e1) = Event.alloc f.num st (Event.new_event f.num (n_of_int cid) p false None subj true) in
  let (st2, e2) = Event.alloc f.num st1 (Event.new_event f.num (n_of_int cid) q false (Some e1) subj true) in
  let st3 = Event.upd f.num st2 e1 (fun e -> Event.set_other f.num e (Some e2)) in
  let st4 = if Cmp.ev_lt f.num st3 e1 e2 then Event.upd f.num st3 e2 (fun e -> Event.set_left f.num e true)
    else Event.upd f.num st3 e1 (fun e -> Event.set_left f.num e true) in
  let (l, r) = if (Event.getE f.num st4 e1).Event.e_left then (e1, e2) else (e2, e1) in
  (st4, l, r)

(* pair <id> <prec> p1 q1 subj1 cid1 p2 q2 subj2 cid2 -> the two orders in both directions *)
let cmd_pair t =
  let id = next t in
  let f = fmt_of_string (next t) in
  let p1 = read_pt f t in let q1 = read_pt f t in
  let s1 = next_int t = 1 in let c1 = next_int t in
  let p2 = read_pt f t in let q2 = read_pt f t in
  let s2 = next_int t = 1 in let c2 = next_int t in
  let (st, l1, r1) = mk_segment f (Event.empty_store f.num) p1 q1 s1 c1 in
  let (st, l2, r2) = mk_segment f st p2 q2 s2 c2 in
  let c a b = cmp_chr (Cmp.cmp_events f.num st a b) in
  let s a b = cmp_chr (Cmp.compare_segments f.num st a b) in
  Printf.printf "pair %s %s%s%s%s%s%s%s%s %s%s%s%s\n" id
    (c l1 l2) (c l2 l1) (c r1 r2) (c r2 r1) (c l1 r2) (c r2 l1) (c r1 l2) (c l2 r1)
    (s l1 l2) (s l2 l1) (s l1 l1) (s l2 l2)

(* pi <id> <prec> <profile> p1 q1 subj1 io1 oio1 p2 q2 subj2 io2 oio2 : the public intersection step on two
   fresh segments; prints the return code, both segments afterwards and the queue drained *)
let cmd_pi t =
  let id = next t in
  let f = fmt_of_string (next t) in
  let cfg = cfg_of_string (next t) in
  let p1 = read_pt f t in let q1 = read_pt f t in
  let s1 = next_int t = 1 in let io1 = next_int t = 1 in let oio1 = next_int t = 1 in
  let p2 = read_pt f t in let q2 = read_pt f t in
  let s2 = next_int t = 1 in let io2 = next_int t = 1 in let oio2 = next_int t = 1 in
  let (st, l1, _) = mk_segment f (Event.empty_store f.num) p1 q1 s1 1 in
  let (st, l2, _) = mk_segment f st p2 q2 s2 2 in
  let st = Event.upd f.num st l1 (fun e -> Event.set_in_out f.num e io1 oio1) in
  let st = Event.upd f.num st l2 (fun e -> Event.set_in_out f.num e io2 oio2) in
  let r = Divide.possible_intersection f.num cfg { Divide.sq_st = st; Divide.sq_q = [] } l1 l2 in
  let show (s, code) =
    let st = s.Divide.sq_st in
    let ref_ = function None -> "~" | Some o -> "@" ^ pt_str f (Event.point_of f.num st o) in
    let rec drain q acc = match Divide.qpop f.num st q with None -> List.rev acc | Some (e, q') -> drain q' (e :: acc) in
    let evs = drain s.Divide.sq_q [] in
    Printf.sprintf "%d | %s | %s | %d | %s" (int_of_nat code) (event_str f st ref_ l1) (event_str f st ref_ l2)
      (List.length evs) (String.concat " ; " (List.map (event_str f st ref_) evs)) in
  Printf.printf "pi %s %s\n" id (outcome_str r show)

(* cftable <id> <profile>: compute_fields on every combination of its inputs *)
let cmd_cftable t =
  let id = next t in
  let cfg = cfg_of_string (next t) in
  let f = f64 in
  let buf = Buffer.create 100000 in
  let bools = [false; true] in
  let ops = [Event.Intersection; Event.Union; Event.Difference; Event.Xor] in
  let types = [Event.Normal; Event.NonContributing; Event.SameTransition; Event.DifferentTransition] in
  let pt x y = { Num.px = f.rd (Printf.sprintf "%016Lx" (Int64.bits_of_float x)); Num.py = f.rd (Printf.sprintf "%016Lx" (Int64.bits_of_float y)) } in
  (* prev kinds: 0 none, 1 non-vertical, 2 vertical; pp kinds: 0 prev has no prev_in_result, 1 it has *)
  List.iter (fun op -> List.iter (fun esubj -> List.iter (fun ety -> List.iter (fun pk ->
      List.iter (fun psubj -> List.iter (fun pio -> List.iter (fun poio -> List.iter (fun prt -> List.iter (fun ppk ->
          if pk = 0 && (psubj || pio || poio || prt <> Event.RTNone || ppk = 1) then () else begin
            let st = Event.empty_store f.num in
            let (st, pp, _) = mk_segment f st (pt 0. (-5.)) (pt 9. (-5.)) true 7 in
            let (st, pl, _) = if pk = 2 then mk_segment f st (pt 1. 0.) (pt 1. 4.) psubj 1 else mk_segment f st (pt 0. 0.) (pt 9. 1.) psubj 1 in
            let st = Event.upd f.num st pl (fun e -> Event.set_in_out f.num e pio poio) in
            let st = Event.upd f.num st pl (fun e -> Event.set_result_transition f.num e prt) in
            let st = if ppk = 1 then Event.upd f.num st pl (fun e -> Event.set_prev_in_result f.num e (Some pp)) else st in
            let (st, el, _) = mk_segment f st (pt 1. 2.) (pt 8. 3.) esubj 2 in
            let st = Event.upd f.num st el (fun e -> Event.set_edge_type f.num e ety) in
            let st' = Fields.compute_fields f.num cfg st el (if pk = 0 then None else Some pl) op in
            let e = Event.getE f.num st' el in
            let pir = match e.Event.e_prev_in_result with None -> "~" | Some x -> if x = pl then "p" else if x = pp then "q" else "?" in
            Buffer.add_string buf (Printf.sprintf "%s%s%s%s%s " (b01 e.Event.e_in_out) (b01 e.Event.e_other_in_out)
                                     (rt_str e.Event.e_result_transition) pir (et_str e.Event.e_edge_type))
          end) [0; 1]) [Event.RTNone; Event.InOut; Event.OutIn]) bools) bools) bools) [0; 1; 2]) types) bools) ops;
  Printf.printf "cftable %s %s\n" id (String.trim (Buffer.contents buf))

let () =
  try
    while true do
      let line = input_line stdin in
      let line = String.trim line in
      if line <> "" && line.[0] <> '#' then begin
        let t = { a = Array.of_list (List.filter (fun s -> s <> "") (String.split_on_char ' ' line)); i = 0 } in
        (match next t with
         | "bool" -> cmd_bool t
         | "fillq" -> cmd_fillq t
         | "subdiv" -> cmd_subdiv t
         | "planar" -> cmd_planar t
         | "splay" -> cmd_splay t
         | "scene" -> cmd_scene t
         | "cert04" -> cmd_cert04 t
         | "noshare" -> cmd_noshare t
         | "cert14" -> cmd_cert14 t
         | "orders" -> cmd_orders t
         | "pair" -> cmd_pair t
         | "pi" -> cmd_pi t
         | "cftable" -> cmd_cftable t
         | c -> Printf.printf "error unknown command %s\n" c);
        flush stdout
      end
    done
  with End_of_file -> ()
