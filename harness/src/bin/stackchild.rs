//! C18 scenarios, each run in its own process:  stackchild <scenario> <n> <main|thread>
//! Exit status 0 and a line "ok span=<bytes>" on success; a stack overflow kills the process.
use geo_booleanop::boolean::BooleanOp;
use geo_booleanop::splay::{SplaySet, SplayTree};
use geo_types::{Coord, LineString, MultiPolygon, Polygon};
use std::sync::atomic::{AtomicUsize, Ordering};

static LO: AtomicUsize = AtomicUsize::new(usize::MAX);
static HI: AtomicUsize = AtomicUsize::new(0);

fn probe() {
    let x = 0u8;
    let a = &x as *const u8 as usize;
    LO.fetch_min(a, Ordering::Relaxed);
    HI.fetch_max(a, Ordering::Relaxed);
}

/// a key whose drop records the address of a local: the span of these addresses is the stack actually used
#[derive(Debug)]
struct K(i64);
impl Drop for K {
    fn drop(&mut self) {
        probe();
    }
}
fn kcmp(a: &K, b: &K) -> std::cmp::Ordering {
    probe();
    a.0.cmp(&b.0)
}

fn keys(order: &str, n: i64) -> Vec<i64> {
    match order {
        "inc" => (0..n).collect(),
        "dec" => (0..n).rev().collect(),
        // zig-zag: smallest, largest, second smallest, ...
        _ => (0..n).map(|i| if i % 2 == 0 { i / 2 } else { n - 1 - i / 2 }).collect(),
    }
}

fn build(order: &str, n: i64) -> SplayTree<K, i64, fn(&K, &K) -> std::cmp::Ordering> {
    let mut t: SplayTree<K, i64, fn(&K, &K) -> std::cmp::Ordering> = SplayTree::new(kcmp);
    for k in keys(order, n) {
        t.insert(K(k), k);
    }
    t
}

fn scenario(name: &str, n: i64) {
    let mut parts = name.split('-');
    let what = parts.next().unwrap();
    let order = parts.next().unwrap_or("inc");
    match what {
        "drop" => {
            let t = build(order, n);
            assert_eq!(t.len() as i64, n);
            drop(t);
        }
        "clear" => {
            let mut t = build(order, n);
            t.clear();
            assert_eq!(t.len(), 0);
            t.insert(K(1), 1);
        }
        "query" => {
            let t = build(order, n);
            // lookups on a chain-shaped tree: the deepest key, absent keys, neighbours, extremes
            assert!(t.contains(&K(0)));
            assert!(t.get(&K(n)).is_none());
            assert!(t.next(&K(n / 2)).is_some());
            assert!(t.prev(&K(n / 2)).is_some());
            assert_eq!(t.min().map(|k| k.0), Some(0));
            assert_eq!(t.max().map(|k| k.0), Some(n - 1));
            let mut t = t;
            assert!(t.remove(&K(n / 3)).is_some());
        }
        "iter" => {
            let t = build(order, n);
            let mut c = 0i64;
            let mut last = -1;
            for (k, _) in t {
                assert!(k.0 > last);
                last = k.0;
                c += 1;
            }
            assert_eq!(c, n);
        }
        "iterback" => {
            let t = build(order, n);
            let mut it = t.into_iter();
            let mut c = 0i64;
            while let Some(_) = it.next_back() {
                c += 1;
            }
            assert_eq!(c, n);
        }
        "partial" => {
            // consume a few elements from both ends, then drop the iterator
            let t = build(order, n);
            let mut it = t.into_iter();
            for _ in 0..5 {
                it.next();
                it.next_back();
            }
            drop(it);
        }
        "set" => {
            let mut s: SplaySet<i64, fn(&i64, &i64) -> std::cmp::Ordering> = SplaySet::new(|a: &i64, b: &i64| a.cmp(b));
            for k in keys(order, n) {
                s.insert(k);
            }
            assert!(s.contains(&0));
            drop(s);
        }
        "boolean" => {
            // n thin rectangles against a far box: the early break leaves the sweep line full
            let rect = |x0: f64, y0: f64, x1: f64, y1: f64| {
                Polygon::new(
                    LineString(vec![
                        Coord { x: x0, y: y0 },
                        Coord { x: x1, y: y0 },
                        Coord { x: x1, y: y1 },
                        Coord { x: x0, y: y1 },
                        Coord { x: x0, y: y0 },
                    ]),
                    vec![],
                )
            };
            if order == "uni" || order == "xor" || order == "inthit" {
                // a tall pile of rectangles that ARE in the result: each one's lower edge records the upper edge of the
                // rectangle below as its nearest lower result edge (a chain of n links); "inthit": an intersection whose
                // clipping box covers the left ends of all rectangles and stops the sweep early
                let a = MultiPolygon((0..n).map(|i| rect(0.0, 2.0 * i as f64, 10.0, 2.0 * i as f64 + 1.0)).collect::<Vec<_>>());
                if order == "inthit" {
                    let b = MultiPolygon(vec![rect(-1.0, -1.0, 5.0, 2.0 * n as f64)]);
                    let r = a.intersection(&b);
                    assert!(r.0.len() == n as usize);
                    return;
                }
                let b = MultiPolygon(vec![rect(20.0, 0.25, 21.0, 0.75), rect(-5.0, 0.25, 1.0, 0.75)]);
                let r = if order == "uni" { a.union(&b) } else { a.xor(&b) };
                assert!(r.0.len() >= n as usize);
                return;
            }
            if order == "hub" {
                // n thin triangles meeting only in the origin (all to the left of it) and one to the right, united with a
                // small square inside their bounding box: one result vertex of degree 2n + 2
                let tri = |a: (f64, f64), b: (f64, f64), c: (f64, f64)| {
                    Polygon::new(
                        LineString(vec![
                            Coord { x: a.0, y: a.1 },
                            Coord { x: b.0, y: b.1 },
                            Coord { x: c.0, y: c.1 },
                            Coord { x: a.0, y: a.1 },
                        ]),
                        vec![],
                    )
                };
                let m = 1024.0;
                let mut parts: Vec<Polygon<f64>> = (0..n)
                    .map(|k| {
                        let y0 = (2 * k - n) as f64;
                        tri((0.0, 0.0), (-m, y0), (-m, y0 + 1.0))
                    })
                    .collect();
                parts.push(tri((0.0, 0.0), (m, -1.0), (m, 1.0)));
                let a = MultiPolygon(parts);
                let b = MultiPolygon(vec![rect(1.0, 10.0, 2.0, 11.0)]);
                let r = a.union(&b);
                assert!(r.0.len() == n as usize + 2);
                let r2 = a.xor(&b);
                assert!(r2.0.len() == n as usize + 2);
                return;
            }
            if order == "intdesc" || order == "intmix" {
                // staggered left ends: every new segment enters the status BELOW all the others ("intdesc") or alternately
                // below and above ("intmix"); the clipping box ends before the rectangles do, so the sweep stops early
                let d = 1.0 / 1024.0;
                let w = n as f64 * d + 300.0;
                let a = MultiPolygon(
                    (0..n)
                        .map(|i| {
                            let y = if order == "intmix" && i % 2 == 1 { 2.0 * i as f64 } else { -2.0 * i as f64 };
                            rect(i as f64 * d, y, w, y + 1.0)
                        })
                        .collect::<Vec<_>>(),
                );
                let b = MultiPolygon(vec![rect(-5.0, 0.25, n as f64 * d + 100.0, 0.75)]);
                let r = a.intersection(&b);
                assert!(r.0.len() == 1);
                let r2 = b.intersection(&a);
                assert!(r2.0.len() == 1);
                return;
            }
            let a = MultiPolygon((0..n).map(|i| rect(0.0, 2.0 * i as f64, 10.0, 2.0 * i as f64 + 1.0)).collect::<Vec<_>>());
            let b = MultiPolygon(vec![rect(-5.0, -3.0, 0.0, 0.5)]);
            let r = if order == "dif" { a.difference(&b) } else { a.intersection(&b) };
            assert!(r.0.len() <= n as usize + 1);
        }
        _ => panic!("unknown scenario {}", name),
    }
}

fn main() {
    let args: Vec<String> = std::env::args().collect();
    let name = args[1].clone();
    let n: i64 = args[2].parse().unwrap();
    let mode = args.get(3).map(|s| s.as_str()).unwrap_or("main").to_string();
    if mode == "thread" {
        let h = std::thread::Builder::new()
            .stack_size(2 * 1024 * 1024)
            .spawn(move || scenario(&name, n))
            .unwrap();
        h.join().unwrap();
    } else {
        scenario(&name, n);
    }
    let (lo, hi) = (LO.load(Ordering::Relaxed), HI.load(Ordering::Relaxed));
    println!("ok span={}", if hi >= lo { hi - lo } else { 0 });
}
