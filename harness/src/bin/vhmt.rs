//! C12: the same calls from many threads, in shuffled orders, repeatedly; every result must equal the
//! single-threaded one and the operands must be untouched.  Reads `bool` lines (f64) on stdin:
//!   vhmt <threads> <rounds> <seed>
use gbharness::*;
use geo_booleanop::boolean::verif_hooks;
use geo_booleanop::boolean::{BooleanOp, Operation};
use geo_types::MultiPolygon;
use std::io::BufRead;
use std::sync::Arc;

struct CaseD {
    id: String,
    budget: u64,
    op: Operation,
    lhs: Vec<geo_types::Polygon<f64>>,
    rhs: Vec<geo_types::Polygon<f64>>,
    lhs_is_p: bool,
    rhs_is_p: bool,
}

fn run(c: &CaseD) -> String {
    verif_hooks::reset_event_budget(c.budget);
    let r = guarded(|| match (c.lhs_is_p, c.rhs_is_p) {
        (true, true) => c.lhs[0].boolean(&c.rhs[0], c.op),
        (true, false) => c.lhs[0].boolean(&MultiPolygon(c.rhs.clone()), c.op),
        (false, true) => MultiPolygon(c.lhs.clone()).boolean(&c.rhs[0], c.op),
        (false, false) => MultiPolygon(c.lhs.clone()).boolean(&MultiPolygon(c.rhs.clone()), c.op),
    });
    match r {
        Ok(m) => format!("ok {}", multipolygon_str(&m)),
        Err(e) => e,
    }
}

/// the same call with ONE object passed on both sides (only when the two operands are equal values of the same kind)
fn run_aliased(c: &CaseD) -> Option<String> {
    if c.lhs != c.rhs || c.lhs_is_p != c.rhs_is_p || c.lhs.is_empty() {
        return None;
    }
    verif_hooks::reset_event_budget(c.budget);
    let r = guarded(|| {
        if c.lhs_is_p {
            let p = c.lhs[0].clone();
            p.boolean(&p, c.op)
        } else {
            let m = MultiPolygon(c.lhs.clone());
            m.boolean(&m, c.op)
        }
    });
    Some(match r {
        Ok(m) => format!("ok {}", multipolygon_str(&m)),
        Err(e) => e,
    })
}

fn enc(c: &CaseD) -> String {
    format!(
        "{} | {}",
        multipolygon_str(&MultiPolygon(c.lhs.clone())),
        multipolygon_str(&MultiPolygon(c.rhs.clone()))
    )
}

fn main() {
    install_panic_hook();
    let args: Vec<String> = std::env::args().collect();
    let threads: usize = args[1].parse().unwrap();
    let rounds: usize = args[2].parse().unwrap();
    let seed: u64 = args[3].parse().unwrap();
    let mut cases = Vec::new();
    for line in std::io::stdin().lock().lines() {
        let line = line.unwrap();
        let mut t = Toks::new(line.trim());
        if t.try_next() != Some("bool") {
            continue;
        }
        let id = t.next().to_string();
        let _prec = t.next();
        let _profile = t.next();
        let budget = t.int() as u64;
        let op = match t.next() {
            "I" => Operation::Intersection,
            "D" => Operation::Difference,
            "U" => Operation::Union,
            _ => Operation::Xor,
        };
        let l: Operand<f64> = read_operand(&mut t);
        let r: Operand<f64> = read_operand(&mut t);
        cases.push(CaseD {
            id,
            budget,
            op,
            lhs_is_p: matches!(l, Operand::P(_)),
            rhs_is_p: matches!(r, Operand::P(_)),
            lhs: l.as_vec(),
            rhs: r.as_vec(),
        });
    }
    let cases = Arc::new(cases);
    // reference: one pass, one thread
    let reference: Arc<Vec<String>> = Arc::new(cases.iter().map(run).collect());
    let before: Arc<Vec<String>> = Arc::new(cases.iter().map(enc).collect());
    let mut handles = Vec::new();
    for th in 0..threads {
        let cases = cases.clone();
        let reference = reference.clone();
        let before = before.clone();
        handles.push(std::thread::spawn(move || {
            install_panic_hook();
            let mut bad: Vec<String> = Vec::new();
            // xorshift shuffle, different per thread and round
            let mut s = seed ^ ((th as u64 + 1) * 0x9E3779B97F4A7C15);
            for round in 0..rounds {
                let mut order: Vec<usize> = (0..cases.len()).collect();
                for i in (1..order.len()).rev() {
                    s ^= s << 13;
                    s ^= s >> 7;
                    s ^= s << 17;
                    order.swap(i, (s % (i as u64 + 1)) as usize);
                }
                for &i in &order {
                    let r = run(&cases[i]);
                    if r != reference[i] {
                        bad.push(format!("{} result differs in thread {} round {}", cases[i].id, th, round));
                    }
                    if enc(&cases[i]) != before[i] {
                        bad.push(format!("{} operand modified in thread {} round {}", cases[i].id, th, round));
                    }
                }
            }
            bad
        }));
    }
    let mut bad = Vec::new();
    for h in handles {
        bad.extend(h.join().unwrap());
    }
    // equal operands must give equal results whether or not they are one and the same object
    let mut aliased = 0;
    for (c, r) in cases.iter().zip(reference.iter()) {
        if let Some(a) = run_aliased(c) {
            aliased += 1;
            if &a != r {
                bad.push(format!("{} result differs when one object is passed as both operands (instead of two equal values)", c.id));
            }
        }
    }
    println!("mtalias calls={}", aliased);
    for (c, r) in cases.iter().zip(reference.iter()) {
        println!("bool {} {}", c.id, r);
    }
    println!("mt calls={} bad={}", threads * rounds * cases.len(), bad.len());
    for b in bad.iter().take(20) {
        println!("mtbad {}", b);
    }
}
