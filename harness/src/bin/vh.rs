//! Correspondence harness: reads one command per line on stdin, runs the implementation,
//! prints one canonical observation per line (same format as /verif/ocaml/driver.ml).
use gbharness::*;
use geo_booleanop::boolean::compare_segments::compare_segments;
use geo_booleanop::boolean::compute_fields::compute_fields;
use geo_booleanop::boolean::fill_queue::fill_queue;
use geo_booleanop::boolean::possible_intersection::possible_intersection;
use geo_booleanop::boolean::subdivide_segments::subdivide;
use geo_booleanop::boolean::sweep_event::{EdgeType, ResultTransition, SweepEvent};
use geo_booleanop::boolean::verif_hooks;
use geo_booleanop::boolean::{BooleanOp, BoundingBox, Operation};
use geo_booleanop::splay::SplayTree;
use geo_types::{Coord, MultiPolygon};
use std::collections::HashMap;
use std::io::{BufRead, Write};
use std::rc::Rc;

fn op_of(s: &str) -> Operation {
    match s {
        "I" => Operation::Intersection,
        "D" => Operation::Difference,
        "U" => Operation::Union,
        "X" => Operation::Xor,
        _ => panic!("bad op"),
    }
}

fn run_boolean<F: Bits>(lhs: &Operand<F>, rhs: &Operand<F>, op: Operation) -> MultiPolygon<F> {
    match (lhs, rhs) {
        (Operand::P(a), Operand::P(b)) => a.boolean(b, op),
        (Operand::P(a), Operand::M(b)) => a.boolean(b, op),
        (Operand::M(a), Operand::P(b)) => a.boolean(b, op),
        (Operand::M(a), Operand::M(b)) => a.boolean(b, op),
    }
}

fn cmd_bool<F: Bits>(id: &str, t: &mut Toks) -> String {
    let _profile = t.next();
    let budget = t.int() as u64;
    let op = op_of(t.next());
    let lhs: Operand<F> = read_operand(t);
    let rhs: Operand<F> = read_operand(t);
    verif_hooks::reset_event_budget(budget);
    match guarded(|| run_boolean(&lhs, &rhs, op)) {
        Ok(m) => format!("bool {} ok {}", id, multipolygon_str(&m)),
        Err(c) => format!("bool {} {}", id, c),
    }
}

fn et_str(e: EdgeType) -> &'static str {
    match e {
        EdgeType::Normal => "N",
        EdgeType::NonContributing => "C",
        EdgeType::SameTransition => "S",
        EdgeType::DifferentTransition => "D",
    }
}
fn rt_str(r: ResultTransition) -> &'static str {
    match r {
        ResultTransition::None => "-",
        ResultTransition::InOut => "io",
        ResultTransition::OutIn => "oi",
    }
}
fn b01(b: bool) -> &'static str {
    if b {
        "1"
    } else {
        "0"
    }
}

fn event_str<F: Bits>(e: &Rc<SweepEvent<F>>, refstr: &dyn Fn(Option<Rc<SweepEvent<F>>>) -> String) -> String {
    [
        pt_str(e.point),
        b01(e.is_left()).to_string(),
        b01(e.is_subject).to_string(),
        e.contour_id.to_string(),
        b01(e.is_exterior_ring).to_string(),
        refstr(e.get_other_event()),
        et_str(e.get_edge_type()).to_string(),
        b01(e.is_in_out()).to_string(),
        b01(e.is_other_in_out()).to_string(),
        rt_str(e.get_result_transition()).to_string(),
        refstr(e.get_prev_in_result()),
    ]
    .join(" ")
}

fn empty_box<F: Bits>() -> BoundingBox<F> {
    BoundingBox {
        min: Coord { x: F::infinity(), y: F::infinity() },
        max: Coord { x: F::neg_infinity(), y: F::neg_infinity() },
    }
}
fn bb_str<F: Bits>(b: &BoundingBox<F>) -> String {
    format!("{} {} {} {}", b.min.x.to_hex(), b.min.y.to_hex(), b.max.x.to_hex(), b.max.y.to_hex())
}

fn cmd_fillq<F: Bits>(id: &str, t: &mut Toks) -> String {
    let op = op_of(t.next());
    let a: Vec<_> = read_operand::<F>(t).as_vec();
    let b: Vec<_> = read_operand::<F>(t).as_vec();
    let r = guarded(|| {
        let mut sbbox = empty_box::<F>();
        let mut cbbox = empty_box::<F>();
        let mut q = fill_queue(&a, &b, &mut sbbox, &mut cbbox, op);
        let refstr = |o: Option<Rc<SweepEvent<F>>>| match o {
            None => "~".to_string(),
            Some(o) => format!("@{}", pt_str(o.point)),
        };
        // keep every event alive while printing (partners are weak references)
        let mut evs = Vec::new();
        while let Some(e) = q.pop() {
            evs.push(e);
        }
        let strs: Vec<String> = evs.iter().map(|e| event_str(e, &refstr)).collect();
        format!("{} | {} | {} | {}", bb_str(&sbbox), bb_str(&cbbox), strs.len(), strs.join(" ; "))
    });
    match r {
        Ok(s) => format!("fillq {} {}", id, s),
        Err(c) => format!("fillq {} {}", id, c),
    }
}

fn cmd_subdiv<F: Bits>(id: &str, t: &mut Toks) -> String {
    let _profile = t.next();
    let budget = t.int() as u64;
    let op = op_of(t.next());
    let a: Vec<_> = read_operand::<F>(t).as_vec();
    let b: Vec<_> = read_operand::<F>(t).as_vec();
    verif_hooks::reset_event_budget(budget);
    let r = guarded(|| {
        let mut sbbox = empty_box::<F>();
        let mut cbbox = empty_box::<F>();
        let mut q = fill_queue(&a, &b, &mut sbbox, &mut cbbox, op);
        let evs = subdivide(&mut q, &sbbox, &cbbox, op);
        let mut idx: HashMap<*const SweepEvent<F>, usize> = HashMap::new();
        for (k, e) in evs.iter().enumerate() {
            idx.entry(Rc::as_ptr(e)).or_insert(k);
        }
        let refstr = |o: Option<Rc<SweepEvent<F>>>| match o {
            None => "~".to_string(),
            Some(o) => match idx.get(&Rc::as_ptr(&o)) {
                Some(k) => format!("#{}", k),
                None => format!("@{}", pt_str(o.point)),
            },
        };
        let strs: Vec<String> = evs.iter().map(|e| event_str(e, &refstr)).collect();
        let s = format!("{} | {}", strs.len(), strs.join(" ; "));
        drop(q);
        s
    });
    match r {
        Ok(s) => format!("subdiv {} ok {}", id, s),
        Err(c) => format!("subdiv {} {}", id, c),
    }
}

// ---------------------------------------------------------------- splay
fn int_cmp(a: &i32, b: &i32) -> std::cmp::Ordering {
    a.cmp(b)
}

/// "Some(Node { key: 1, value: 2, left: None, right: Some(Node {..}) })" -> "(1 2 . (..))"
fn compact_shape(dbg: &str) -> String {
    let mut out = String::new();
    let b = dbg.as_bytes();
    let mut i = 0;
    while i < b.len() {
        if dbg[i..].starts_with("None") {
            out.push('.');
            i += 4;
        } else if dbg[i..].starts_with("Some(Node { key: ") {
            out.push('(');
            i += "Some(Node { key: ".len();
        } else if dbg[i..].starts_with(", value: ") {
            out.push(' ');
            i += ", value: ".len();
        } else if dbg[i..].starts_with(", left: ") {
            out.push(' ');
            i += ", left: ".len();
        } else if dbg[i..].starts_with(", right: ") {
            out.push(' ');
            i += ", right: ".len();
        } else if dbg[i..].starts_with(" })") {
            out.push(')');
            i += 3;
        } else {
            out.push(b[i] as char);
            i += 1;
        }
    }
    out
}

fn okv(o: Option<(&i32, &i32)>) -> String {
    match o {
        None => "-".into(),
        Some((k, v)) => format!("kv{},{}", k, v),
    }
}

type Tree = SplayTree<i32, i32, fn(&i32, &i32) -> std::cmp::Ordering>;

fn lookup_op(tr: &Tree, t: &mut Toks) -> String {
    match t.next() {
        "g" => {
            let k = t.int() as i32;
            match tr.get(&k) {
                None => "-".into(),
                Some(v) => format!("v{}", v),
            }
        }
        "f" => {
            let k = t.int() as i32;
            match tr.find_key(&k) {
                None => "-".into(),
                Some(v) => format!("k{}", v),
            }
        }
        "c" => {
            let k = t.int() as i32;
            format!("b{}", b01(tr.contains(&k)))
        }
        "n" => {
            let k = t.int() as i32;
            okv(tr.next(&k))
        }
        "p" => {
            let k = t.int() as i32;
            okv(tr.prev(&k))
        }
        x => panic!("bad lookup {}", x),
    }
}

fn cmd_splay(id: &str, t: &mut Toks) -> String {
    let r = guarded(|| {
        let mut tr: Tree = SplayTree::new(int_cmp);
        let mut outs: Vec<String> = Vec::new();
        while let Some(tok) = t.try_next() {
            match tok {
                "i" => {
                    let k = t.int() as i32;
                    let v = t.int() as i32;
                    outs.push(match tr.insert(k, v) {
                        None => "-".into(),
                        Some(o) => format!("v{}", o),
                    });
                }
                "r" => {
                    let k = t.int() as i32;
                    outs.push(match tr.remove(&k) {
                        None => "-".into(),
                        Some(o) => format!("v{}", o),
                    });
                }
                "g" | "f" | "c" | "n" | "p" => {
                    // re-dispatch through lookup_op: it expects the tag as next token
                    let k = t.int();
                    let line = format!("{} {}", tok, k);
                    let mut tt = Toks::new(&line);
                    outs.push(lookup_op(&tr, &mut tt));
                }
                "min" => outs.push(match tr.min() {
                    None => "-".into(),
                    Some(k) => format!("k{}", k),
                }),
                "max" => outs.push(match tr.max() {
                    None => "-".into(),
                    Some(k) => format!("k{}", k),
                }),
                "len" => outs.push(format!("n{}", tr.len())),
                "emp" => outs.push(format!("b{}", b01(tr.is_empty()))),
                "clr" => {
                    tr.clear();
                    outs.push("-".into());
                }
                "ext" => {
                    let n = t.int();
                    let kvs: Vec<(i32, i32)> = (0..n).map(|_| (t.int() as i32, t.int() as i32)).collect();
                    tr.extend(kvs);
                    outs.push("-".into());
                }
                "it" => {
                    let n = t.int();
                    let dirs: Vec<bool> = (0..n).map(|_| t.int() == 1).collect();
                    let old = std::mem::replace(&mut tr, SplayTree::new(int_cmp));
                    let mut it = old.into_iter();
                    let mut items = Vec::new();
                    for d in dirs {
                        let x = if d { it.next() } else { it.next_back() };
                        let rem = it.size_hint().0;
                        items.push(match x {
                            None => format!("-:{}", rem),
                            Some((k, v)) => format!("{},{}:{}", k, v, rem),
                        });
                    }
                    drop(it); // possibly partially consumed
                    outs.push(format!("it[{}]", items.join(";")));
                }
                "dbg" => outs.push(compact_shape(&format!("{:?}", tr))),
                "stab" => {
                    let k = t.int() as i32;
                    // a reference obtained from a lookup is held across further lookups
                    let r0: Option<&i32> = tr.get(&k);
                    let addr0 = r0.map(|r| r as *const i32);
                    let val0 = r0.copied();
                    let first = match r0 {
                        None => "-".to_string(),
                        Some(v) => format!("v{}", v),
                    };
                    let m = t.int();
                    let mut looks = Vec::new();
                    for _ in 0..m {
                        looks.push(lookup_op(&tr, t));
                    }
                    let same = match r0 {
                        None => tr.get(&k).is_none(),
                        Some(r) => Some(*r) == val0 && tr.get(&k).map(|x| x as *const i32) == addr0,
                    };
                    outs.push(format!("stab{{{}|{}|{}}}", first, looks.join(","), b01(same)));
                }
                x => panic!("bad splay op {}", x),
            }
        }
        outs.join(" ")
    });
    match r {
        Ok(s) => format!("splay {} {}", id, s),
        Err(c) => format!("splay {} {}", id, c),
    }
}

// ---------------------------------------------------------------- orders, pairs, intersection step, decision table
fn cmp_chr(o: std::cmp::Ordering) -> char {
    match o {
        std::cmp::Ordering::Less => 'L',
        std::cmp::Ordering::Greater => 'G',
        std::cmp::Ordering::Equal => 'E',
    }
}

fn orders_finish<F: Bits>(evs: &[Rc<SweepEvent<F>>]) -> String {
    let n = evs.len();
    let mut m1 = String::with_capacity(n * n);
    for i in 0..n {
        for j in 0..n {
            m1.push(cmp_chr(evs[i].cmp(&evs[j])));
        }
    }
    let lefts: Vec<&Rc<SweepEvent<F>>> = evs.iter().filter(|e| e.is_left()).collect();
    let m = lefts.len();
    let mut m2 = String::with_capacity(m * m);
    for i in 0..m {
        for j in 0..m {
            m2.push(cmp_chr(compare_segments(lefts[i], lefts[j])));
        }
    }
    let segs: Vec<String> = evs
        .iter()
        .map(|e| {
            format!(
                "{} {} {} {} {}",
                pt_str(e.point),
                match e.get_other_event() {
                    Some(o) => pt_str(o.point),
                    None => "~ ~".to_string(),
                },
                b01(e.is_left()),
                b01(e.is_subject),
                e.contour_id
            )
        })
        .collect();
    format!("{} {} | {} | {} {}", n, segs.join(" ; "), m1, m, m2)
}

fn cmd_orders<F: Bits>(id: &str, t: &mut Toks) -> String {
    let _profile = t.next();
    let budget = t.int() as u64;
    let op = op_of(t.next());
    let a: Vec<_> = read_operand::<F>(t).as_vec();
    let b: Vec<_> = read_operand::<F>(t).as_vec();
    let stage = t.next();
    verif_hooks::reset_event_budget(budget);
    let r = guarded(|| {
        let mut sbbox = empty_box::<F>();
        let mut cbbox = empty_box::<F>();
        let mut q = fill_queue(&a, &b, &mut sbbox, &mut cbbox, op);
        if stage == "q" {
            let mut evs = Vec::new();
            while let Some(e) = q.pop() {
                evs.push(e);
            }
            orders_finish(&evs)
        } else {
            let evs = subdivide(&mut q, &sbbox, &cbbox, op);
            let s = orders_finish(&evs);
            drop(q);
            s
        }
    });
    match r {
        Ok(s) => format!("orders {} ok {}", id, s),
        Err(c) => format!("orders {} {}", id, c),
    }
}

type Ev<F> = Rc<SweepEvent<F>>;
/// (left event, right event), built the way fill_queue builds a segment
fn mk_segment<F: Bits>(p: Coord<F>, q: Coord<F>, subj: bool, cid: u32) -> (Ev<F>, Ev<F>) {
    let e1 = SweepEvent::new_rc(cid, p, false, std::rc::Weak::new(), subj, true);
    let e2 = SweepEvent::new_rc(cid, q, false, Rc::downgrade(&e1), subj, true);
    e1.set_other_event(&e2);
    if e1 < e2 {
        e2.set_left(true)
    } else {
        e1.set_left(true)
    }
    if e1.is_left() {
        (e1, e2)
    } else {
        (e2, e1)
    }
}

fn cmd_pair<F: Bits>(id: &str, t: &mut Toks) -> String {
    let p1 = read_pt::<F>(t);
    let q1 = read_pt::<F>(t);
    let s1 = t.int() == 1;
    let c1 = t.int() as u32;
    let p2 = read_pt::<F>(t);
    let q2 = read_pt::<F>(t);
    let s2 = t.int() == 1;
    let c2 = t.int() as u32;
    let r = guarded(|| {
        let (l1, r1) = mk_segment(p1, q1, s1, c1);
        let (l2, r2) = mk_segment(p2, q2, s2, c2);
        let c = |a: &Ev<F>, b: &Ev<F>| cmp_chr(a.cmp(b));
        let s = |a: &Ev<F>, b: &Ev<F>| cmp_chr(compare_segments(a, b));
        format!(
            "{}{}{}{}{}{}{}{} {}{}{}{}",
            c(&l1, &l2), c(&l2, &l1), c(&r1, &r2), c(&r2, &r1), c(&l1, &r2), c(&r2, &l1), c(&r1, &l2), c(&l2, &r1),
            s(&l1, &l2), s(&l2, &l1), s(&l1, &l1), s(&l2, &l2)
        )
    });
    match r {
        Ok(s) => format!("pair {} {}", id, s),
        Err(c) => format!("pair {} {}", id, c),
    }
}

fn cmd_pi<F: Bits>(id: &str, t: &mut Toks) -> String {
    let _profile = t.next();
    let p1 = read_pt::<F>(t);
    let q1 = read_pt::<F>(t);
    let (s1, io1, oio1) = (t.int() == 1, t.int() == 1, t.int() == 1);
    let p2 = read_pt::<F>(t);
    let q2 = read_pt::<F>(t);
    let (s2, io2, oio2) = (t.int() == 1, t.int() == 1, t.int() == 1);
    let r = guarded(|| {
        let (l1, r1) = mk_segment(p1, q1, s1, 1);
        let (l2, r2) = mk_segment(p2, q2, s2, 2);
        l1.set_in_out(io1, oio1);
        l2.set_in_out(io2, oio2);
        let mut queue = std::collections::BinaryHeap::new();
        let code = possible_intersection(&l1, &l2, &mut queue);
        let refstr = |o: Option<Ev<F>>| match o {
            None => "~".to_string(),
            Some(o) => format!("@{}", pt_str(o.point)),
        };
        let mut evs = Vec::new();
        while let Some(e) = queue.pop() {
            evs.push(e);
        }
        let strs: Vec<String> = evs.iter().map(|e| event_str(e, &refstr)).collect();
        let s = format!("{} | {} | {} | {} | {}", code, event_str(&l1, &refstr), event_str(&l2, &refstr), strs.len(), strs.join(" ; "));
        drop((r1, r2));
        s
    });
    match r {
        Ok(s) => format!("pi {} ok {}", id, s),
        Err(c) => format!("pi {} {}", id, c),
    }
}

fn cmd_cftable(id: &str, _t: &mut Toks) -> String {
    let r = guarded(|| {
        let mut out = String::new();
        let bools = [false, true];
        let ops = [Operation::Intersection, Operation::Union, Operation::Difference, Operation::Xor];
        let types = [EdgeType::Normal, EdgeType::NonContributing, EdgeType::SameTransition, EdgeType::DifferentTransition];
        let rts = [ResultTransition::None, ResultTransition::InOut, ResultTransition::OutIn];
        let pt = |x: f64, y: f64| Coord { x, y };
        for op in ops {
            for esubj in bools {
                for ety in types {
                    for pk in 0..3 {
                        for psubj in bools {
                            for pio in bools {
                                for poio in bools {
                                    for prt in rts {
                                        for ppk in 0..2 {
                                            if pk == 0 && (psubj || pio || poio || prt != ResultTransition::None || ppk == 1) {
                                                continue;
                                            }
                                            let (pp, _ppr) = mk_segment(pt(0., -5.), pt(9., -5.), true, 7);
                                            let (pl, _plr) = if pk == 2 {
                                                mk_segment(pt(1., 0.), pt(1., 4.), psubj, 1)
                                            } else {
                                                mk_segment(pt(0., 0.), pt(9., 1.), psubj, 1)
                                            };
                                            pl.set_in_out(pio, poio);
                                            pl.set_result_transition(prt);
                                            if ppk == 1 {
                                                pl.set_prev_in_result(&pp);
                                            }
                                            let (el, _elr) = mk_segment(pt(1., 2.), pt(8., 3.), esubj, 2);
                                            el.set_edge_type(ety);
                                            compute_fields(&el, if pk == 0 { None } else { Some(&pl) }, op);
                                            let pir = match el.get_prev_in_result() {
                                                None => "~",
                                                Some(x) => {
                                                    if Rc::ptr_eq(&x, &pl) {
                                                        "p"
                                                    } else if Rc::ptr_eq(&x, &pp) {
                                                        "q"
                                                    } else {
                                                        "?"
                                                    }
                                                }
                                            };
                                            out.push_str(&format!(
                                                "{}{}{}{}{} ",
                                                b01(el.is_in_out()),
                                                b01(el.is_other_in_out()),
                                                rt_str(el.get_result_transition()),
                                                pir,
                                                et_str(el.get_edge_type())
                                            ));
                                        }
                                    }
                                }
                            }
                        }
                    }
                }
            }
        }
        out
    });
    match r {
        Ok(s) => format!("cftable {} {}", id, s.trim_end()),
        Err(c) => format!("cftable {} {}", id, c),
    }
}

fn main() {
    install_panic_hook();
    let stdin = std::io::stdin();
    let stdout = std::io::stdout();
    let mut out = stdout.lock();
    for line in stdin.lock().lines() {
        let line = line.unwrap();
        let line = line.trim();
        if line.is_empty() || line.starts_with('#') {
            continue;
        }
        let mut t = Toks::new(line);
        let cmd = t.next();
        let id = t.next();
        let res = match cmd {
            "bool" | "fillq" | "subdiv" | "orders" | "pair" | "pi" => {
                let prec = t.next();
                match (cmd, prec) {
                    ("bool", "64") => cmd_bool::<f64>(id, &mut t),
                    ("bool", "32") => cmd_bool::<f32>(id, &mut t),
                    ("fillq", "64") => cmd_fillq::<f64>(id, &mut t),
                    ("fillq", "32") => cmd_fillq::<f32>(id, &mut t),
                    ("subdiv", "64") => cmd_subdiv::<f64>(id, &mut t),
                    ("subdiv", "32") => cmd_subdiv::<f32>(id, &mut t),
                    ("orders", "64") => cmd_orders::<f64>(id, &mut t),
                    ("orders", "32") => cmd_orders::<f32>(id, &mut t),
                    ("pair", "64") => cmd_pair::<f64>(id, &mut t),
                    ("pair", "32") => cmd_pair::<f32>(id, &mut t),
                    ("pi", "64") => cmd_pi::<f64>(id, &mut t),
                    ("pi", "32") => cmd_pi::<f32>(id, &mut t),
                    _ => format!("error bad precision {}", prec),
                }
            }
            "splay" => cmd_splay(id, &mut t),
            "cftable" => cmd_cftable(id, &mut t),
            _ => format!("error unknown command {}", cmd),
        };
        writeln!(out, "{}", res).unwrap();
        out.flush().unwrap();
    }
}
