//! Correspondence harness: reads one command per line on stdin, runs the implementation,
//! prints one canonical observation per line (same format as /verif/ocaml/driver.ml).
use gbharness::*;
use geo_booleanop::boolean::compare_segments::compare_segments;
use geo_booleanop::boolean::compute_fields::compute_fields;
use geo_booleanop::boolean::fill_queue::fill_queue;
use geo_booleanop::boolean::possible_intersection::possible_intersection;
use geo_booleanop::boolean::subdivide_segments::subdivide;
use geo_booleanop::boolean::sweep_event::{EdgeType, ResultTransition, SweepEvent};
use geo_booleanop::boolean::verif_hooks;
use geo_booleanop::boolean::{BooleanOp, BoundingBox, Operation};
use geo_booleanop::splay::SplayTree;
use geo_types::{Coord, MultiPolygon};
use std::collections::HashMap;
use std::io::{BufRead, Write};
use std::rc::Rc;

fn op_of(s: &str) -> Operation {
    match s {
        "I" => Operation::Intersection,
        "D" => Operation::Difference,
        "U" => Operation::Union,
        "X" => Operation::Xor,
        _ => panic!("bad op"),
    }
}

fn run_boolean<F: Bits>(lhs: &Operand<F>, rhs: &Operand<F>, op: Operation) -> MultiPolygon<F> {
    match (lhs, rhs) {
        (Operand::P(a), Operand::P(b)) => a.boolean(b, op),
        (Operand::P(a), Operand::M(b)) => a.boolean(b, op),
        (Operand::M(a), Operand::P(b)) => a.boolean(b, op),
        (Operand::M(a), Operand::M(b)) => a.boolean(b, op),
    }
}

fn cmd_bool<F: Bits>(id: &str, t: &mut Toks) -> String {
    let _profile = t.next();
    let budget = t.int() as u64;
    let op = op_of(t.next());
    let lhs: Operand<F> = read_operand(t);
    let rhs: Operand<F> = read_operand(t);
    verif_hooks::reset_event_budget(budget);
    match guarded(|| run_boolean(&lhs, &rhs, op)) {
        Ok(m) => format!("bool {} ok {}", id, multipolygon_str(&m)),
        Err(c) => format!("bool {} {}", id, c),
    }
}

fn et_str(e: EdgeType) -> &'static str {
    match e {
        EdgeType::Normal => "N",
        EdgeType::NonContributing => "C",
        EdgeType::SameTransition => "S",
        EdgeType::DifferentTransition => "D",
    }
}
fn rt_str(r: ResultTransition) -> &'static str {
    match r {
        ResultTransition::None => "-",
        ResultTransition::InOut => "io",
        ResultTransition::OutIn => "oi",
    }
}
fn b01(b: bool) -> &'static str {
    if b {
        "1"
    } else {
        "0"
    }
}

fn event_str<F: Bits>(e: &Rc<SweepEvent<F>>, refstr: &dyn Fn(Option<Rc<SweepEvent<F>>>) -> String) -> String {
    [
        pt_str(e.point),
        b01(e.is_left()).to_string(),
        b01(e.is_subject).to_string(),
        e.contour_id.to_string(),
        b01(e.is_exterior_ring).to_string(),
        refstr(e.get_other_event()),
        et_str(e.get_edge_type()).to_string(),
        b01(e.is_in_out()).to_string(),
        b01(e.is_other_in_out()).to_string(),
        rt_str(e.get_result_transition()).to_string(),
        refstr(e.get_prev_in_result()),
    ]
    .join(" ")
}

fn empty_box<F: Bits>() -> BoundingBox<F> {
    BoundingBox {
        min: Coord { x: F::infinity(), y: F::infinity() },
        max: Coord { x: F::neg_infinity(), y: F::neg_infinity() },
    }
}
fn bb_str<F: Bits>(b: &BoundingBox<F>) -> String {
    format!("{} {} {} {}", b.min.x.to_hex(), b.min.y.to_hex(), b.max.x.to_hex(), b.max.y.to_hex())
}

fn cmd_fillq<F: Bits>(id: &str, t: &mut Toks) -> String {
    let op = op_of(t.next());
    let a: Vec<_> = read_operand::<F>(t).as_vec();
    let b: Vec<_> = read_operand::<F>(t).as_vec();
    let r = guarded(|| {
        let mut sbbox = empty_box::<F>();
        let mut cbbox = empty_box::<F>();
        let mut q = fill_queue(&a, &b, &mut sbbox, &mut cbbox, op);
        let refstr = |o: Option<Rc<SweepEvent<F>>>| match o {
            None => "~".to_string(),
            Some(o) => format!("@{}", pt_str(o.point)),
        };
        // keep every event alive while printing (partners are weak references)
        let mut evs = Vec::new();
        while let Some(e) = q.pop() {
            evs.push(e);
        }
        let strs: Vec<String> = evs.iter().map(|e| event_str(e, &refstr)).collect();
        format!("{} | {} | {} | {}", bb_str(&sbbox), bb_str(&cbbox), strs.len(), strs.join(" ; "))
    });
    match r {
        Ok(s) => format!("fillq {} {}", id, s),
        Err(c) => format!("fillq {} {}", id, c),
    }
}

fn cmd_subdiv<F: Bits>(id: &str, t: &mut Toks) -> String {
    let _profile = t.next();
    let budget = t.int() as u64;
    let op = op_of(t.next());
    let a: Vec<_> = read_operand::<F>(t).as_vec();
    let b: Vec<_> = read_operand::<F>(t).as_vec();
    verif_hooks::reset_event_budget(budget);
    let r = guarded(|| {
        let mut sbbox = empty_box::<F>();
        let mut cbbox = empty_box::<F>();
        let mut q = fill_queue(&a, &b, &mut sbbox, &mut cbbox, op);
        let evs = subdivide(&mut q, &sbbox, &cbbox, op);
        let mut idx: HashMap<*const SweepEvent<F>, usize> = HashMap::new();
        for (k, e) in evs.iter().enumerate() {
            idx.entry(Rc::as_ptr(e)).or_insert(k);
        }
        let refstr = |o: Option<Rc<SweepEvent<F>>>| match o {
            None => "~".to_string(),
            Some(o) => match idx.get(&Rc::as_ptr(&o)) {
                Some(k) => format!("#{}", k),
                None => format!("@{}", pt_str(o.point)),
            },
        };
        let strs: Vec<String> = evs.iter().map(|e| event_str(e, &refstr)).collect();
        let s = format!("{} | {}", strs.len(), strs.join(" ; "));
        drop(q);
        s
    });
    match r {
        Ok(s) => format!("subdiv {} ok {}", id, s),
        Err(c) => format!("subdiv {} {}", id, c),
    }
}

// ---------------------------------------------------------------- splay
fn int_cmp(a: &i32, b: &i32) -> std::cmp::Ordering {
    a.cmp(b)
}

/// "Some(Node { key: 1, value: 2, left: None, right: Some(Node {..}) })" -> "(1 2 . (..))"
fn compact_shape(dbg: &str) -> String {
    let mut out = String::new();
    let b = dbg.as_bytes();
    let mut i = 0;
    while i < b.len() {
        if dbg[i..].starts_with("None") {
            out.push('.');
            i += 4;
        } else if dbg[i..].starts_with("Some(Node { key: ") {
            out.push('(');
            i += "Some(Node { key: ".len();
        } else if dbg[i..].starts_with(", value: ") {
            out.push(' ');
            i += ", value: ".len();
        } else if dbg[i..].starts_with(", left: ") {
            out.push(' ');
            i += ", left: ".len();
        } else if dbg[i..].starts_with(", right: ") {
            out.push(' ');
            i += ", right: ".len();
        } else if dbg[i..].starts_with(" })") {
            out.push(')');
            i += 3;
        } else {
            out.push(b[i] as char);
            i += 1;
        }
    }
    out
}

fn okv(o: Option<(&i32, &i32)>) -> String {
    match o {
        None => "-".into(),
        Some((k, v)) => format!("kv{},{}", k, v),
    }
}

type Tree = SplayTree<i32, i32, fn(&i32, &i32) -> std::cmp::Ordering>;

fn lookup_op(tr: &Tree, t: &mut Toks) -> String {
    match t.next() {
        "g" => {
            let k = t.int() as i32;
            match tr.get(&k) {
                None => "-".into(),
                Some(v) => format!("v{}", v),
            }
        }
        "f" => {
            let k = t.int() as i32;
            match tr.find_key(&k) {
                None => "-".into(),
                Some(v) => format!("k{}", v),
            }
        }
        "c" => {
            let k = t.int() as i32;
            format!("b{}", b01(tr.contains(&k)))
        }
        "n" => {
            let k = t.int() as i32;
            okv(tr.next(&k))
        }
        "p" => {
            let k = t.int() as i32;
            okv(tr.prev(&k))
        }
        x => panic!("bad lookup {}", x),
    }
}

fn cmd_splay(id: &str, t: &mut Toks) -> String {
    let r = guarded(|| {
        let mut tr: Tree = SplayTree::new(int_cmp);
        let mut outs: Vec<String> = Vec::new();
        while let Some(tok) = t.try_next() {
            match tok {
                "i" => {
                    let k = t.int() as i32;
                    let v = t.int() as i32;
                    outs.push(match tr.insert(k, v) {
                        None => "-".into(),
                        Some(o) => format!("v{}", o),
                    });
                }
                "r" => {
                    let k = t.int() as i32;
                    outs.push(match tr.remove(&k) {
                        None => "-".into(),
                        Some(o) => format!("v{}", o),
                    });
                }
                "g" | "f" | "c" | "n" | "p" => {
                    // re-dispatch through lookup_op: it expects the tag as next token
                    let k = t.int();
                    let line = format!("{} {}", tok, k);
                    let mut tt = Toks::new(&line);
                    outs.push(lookup_op(&tr, &mut tt));
                }
                "min" => outs.push(match tr.min() {
                    None => "-".into(),
                    Some(k) => format!("k{}", k),
                }),
                "max" => outs.push(match tr.max() {
                    None => "-".into(),
                    Some(k) => format!("k{}", k),
                }),
                "len" => outs.push(format!("n{}", tr.len())),
                "emp" => outs.push(format!("b{}", b01(tr.is_empty()))),
                "clr" => {
                    tr.clear();
                    outs.push("-".into());
                }
                "ext" => {
                    let n = t.int();
                    let kvs: Vec<(i32, i32)> = (0..n).map(|_| (t.int() as i32, t.int() as i32)).collect();
                    tr.extend(kvs);
                    outs.push("-".into());
                }
                "it" => {
                    let n = t.int();
                    let dirs: Vec<bool> = (0..n).map(|_| t.int() == 1).collect();
                    let old = std::mem::replace(&mut tr, SplayTree::new(int_cmp));
                    let mut it = old.into_iter();
                    let mut items = Vec::new();
                    for d in dirs {
                        let x = if d { it.next() } else { it.next_back() };
                        let rem = it.size_hint().0;
                        items.push(match x {
                            None => format!("-:{}", rem),
                            Some((k, v)) => format!("{},{}:{}", k, v, rem),
                        });
                    }
                    drop(it); // possibly partially consumed
                    outs.push(format!("it[{}]", items.join(";")));
                }
                "dbg" => outs.push(compact_shape(&format!("{:?}", tr))),
                "stab" => {
                    let k = t.int() as i32;
                    // a reference obtained from a lookup is held across further lookups
                    let r0: Option<&i32> = tr.get(&k);
                    let addr0 = r0.map(|r| r as *const i32);
                    let val0 = r0.copied();
                    let first = match r0 {
                        None => "-".to_string(),
                        Some(v) => format!("v{}", v),
                    };
                    let m = t.int();
                    let mut looks = Vec::new();
                    for _ in 0..m {
                        looks.push(lookup_op(&tr, t));
                    }
                    let same = match r0 {
                        None => tr.get(&k).is_none(),
                        Some(r) => Some(*r) == val0 && tr.get(&k).map(|x| x as *const i32) == addr0,
                    };
                    outs.push(format!("stab{{{}|{}|{}}}", first, looks.join(","), b01(same)));
                }
                x => panic!("bad splay op {}", x),
            }
        }
        outs.join(" ")
    });
    match r {
        Ok(s) => format!("splay {} {}", id, s),
        Err(c) => format!("splay {} {}", id, c),
    }
}

fn main() {
    install_panic_hook();
    let stdin = std::io::stdin();
    let stdout = std::io::stdout();
    let mut out = stdout.lock();
    for line in stdin.lock().lines() {
        let line = line.unwrap();
        let line = line.trim();
        if line.is_empty() || line.starts_with('#') {
            continue;
        }
        let mut t = Toks::new(line);
        let cmd = t.next();
        let id = t.next();
        let res = match cmd {
            "bool" | "fillq" | "subdiv" => {
                let prec = t.next();
                match (cmd, prec) {
                    ("bool", "64") => cmd_bool::<f64>(id, &mut t),
                    ("bool", "32") => cmd_bool::<f32>(id, &mut t),
                    ("fillq", "64") => cmd_fillq::<f64>(id, &mut t),
                    ("fillq", "32") => cmd_fillq::<f32>(id, &mut t),
                    ("subdiv", "64") => cmd_subdiv::<f64>(id, &mut t),
                    ("subdiv", "32") => cmd_subdiv::<f32>(id, &mut t),
                    _ => format!("error bad precision {}", prec),
                }
            }
            "splay" => cmd_splay(id, &mut t),
            _ => format!("error unknown command {}", cmd),
        };
        writeln!(out, "{}", res).unwrap();
        out.flush().unwrap();
    }
    let _ = (compare_segments::<f64>, compute_fields::<f64>, possible_intersection::<f64>);
}
