//! Shared parsing / printing for the correspondence harness (format: /verif/tools/FORMAT.md).
use geo_booleanop::boolean::Float;
use geo_types::{Coord, LineString, MultiPolygon, Polygon};
use std::cell::RefCell;

pub trait Bits: Float {
    fn from_hex(s: &str) -> Self;
    fn to_hex(self) -> String;
}
impl Bits for f64 {
    fn from_hex(s: &str) -> f64 {
        f64::from_bits(u64::from_str_radix(s, 16).expect("bad hex float"))
    }
    fn to_hex(self) -> String {
        let x = if self == 0.0 { 0.0 } else { self };
        format!("{:016x}", x.to_bits())
    }
}
impl Bits for f32 {
    fn from_hex(s: &str) -> f32 {
        f32::from_bits(u32::from_str_radix(s, 16).expect("bad hex float"))
    }
    fn to_hex(self) -> String {
        let x = if self == 0.0 { 0.0 } else { self };
        format!("{:08x}", x.to_bits())
    }
}

pub struct Toks<'a> {
    it: std::str::SplitWhitespace<'a>,
}
impl<'a> Toks<'a> {
    pub fn new(s: &'a str) -> Self {
        Toks { it: s.split_whitespace() }
    }
    pub fn next(&mut self) -> &'a str {
        self.it.next().expect("unexpected end of line")
    }
    pub fn try_next(&mut self) -> Option<&'a str> {
        self.it.next()
    }
    pub fn int(&mut self) -> i64 {
        self.next().parse().expect("bad integer")
    }
}

pub fn read_pt<F: Bits>(t: &mut Toks) -> Coord<F> {
    let x = F::from_hex(t.next());
    let y = F::from_hex(t.next());
    Coord { x, y }
}
pub fn read_ring<F: Bits>(t: &mut Toks) -> LineString<F> {
    let n = t.int();
    LineString((0..n).map(|_| read_pt(t)).collect())
}
pub fn read_polygon<F: Bits>(t: &mut Toks) -> Polygon<F> {
    let n = t.int();
    let mut rings: Vec<LineString<F>> = (0..n).map(|_| read_ring(t)).collect();
    if rings.is_empty() {
        Polygon::new(LineString(vec![]), vec![])
    } else {
        let ext = rings.remove(0);
        Polygon::new(ext, rings)
    }
}
pub enum Operand<F: Bits> {
    P(Polygon<F>),
    M(MultiPolygon<F>),
}
impl<F: Bits> Operand<F> {
    pub fn as_vec(&self) -> Vec<Polygon<F>> {
        match self {
            Operand::P(p) => vec![p.clone()],
            Operand::M(m) => m.0.clone(),
        }
    }
}
pub fn read_operand<F: Bits>(t: &mut Toks) -> Operand<F> {
    match t.next() {
        "P" => Operand::P(read_polygon(t)),
        "M" => {
            let n = t.int();
            Operand::M(MultiPolygon((0..n).map(|_| read_polygon(t)).collect()))
        }
        s => panic!("bad operand tag {}", s),
    }
}

pub fn pt_str<F: Bits>(p: Coord<F>) -> String {
    format!("{} {}", p.x.to_hex(), p.y.to_hex())
}
pub fn ring_str<F: Bits>(r: &LineString<F>) -> String {
    let mut v = vec![r.0.len().to_string()];
    v.extend(r.0.iter().map(|p| pt_str(*p)));
    v.join(" ")
}
pub fn polygon_str<F: Bits>(p: &Polygon<F>) -> String {
    let mut v = vec![(1 + p.interiors().len()).to_string(), ring_str(p.exterior())];
    v.extend(p.interiors().iter().map(ring_str));
    v.join(" ")
}
pub fn multipolygon_str<F: Bits>(m: &MultiPolygon<F>) -> String {
    let mut v = vec![m.0.len().to_string()];
    v.extend(m.0.iter().map(polygon_str));
    v.join(" ")
}

thread_local! {
    static LAST_PANIC: RefCell<Option<(String, String)>> = const { RefCell::new(None) };
}

/// Installs a panic hook that records (file, message) of the last panic of this thread
/// instead of printing it.
pub fn install_panic_hook() {
    std::panic::set_hook(Box::new(|info| {
        let file = info.location().map(|l| l.file().to_string()).unwrap_or_default();
        let msg = if let Some(s) = info.payload().downcast_ref::<&str>() {
            s.to_string()
        } else if let Some(s) = info.payload().downcast_ref::<String>() {
            s.clone()
        } else {
            String::new()
        };
        LAST_PANIC.with(|p| *p.borrow_mut() = Some((file, msg)));
    }));
}

/// Canonical class of the last panic: "budget", "panic index:<file stem>", "panic unwrap:<stem>",
/// "panic assert:<stem>".
pub fn last_panic_class() -> String {
    let (file, msg) = LAST_PANIC.with(|p| p.borrow_mut().take()).unwrap_or_default();
    if msg.contains("event budget exceeded") {
        return "budget".to_string();
    }
    let stem = std::path::Path::new(&file)
        .file_stem()
        .map(|s| s.to_string_lossy().to_string())
        .unwrap_or_default();
    let kind = if msg.starts_with("index out of bounds") {
        "index"
    } else if msg.contains("Option::unwrap()") {
        "unwrap"
    } else if msg.contains("attempt to") && msg.contains("overflow") {
        "overflow"
    } else if msg.contains("key not present") {
        "expect"
    } else {
        "assert"
    };
    format!("panic {}:{}", kind, stem)
}

/// Runs `f`, mapping a panic to its canonical class.
pub fn guarded<T>(f: impl FnOnce() -> T) -> Result<T, String> {
    match std::panic::catch_unwind(std::panic::AssertUnwindSafe(f)) {
        Ok(x) => Ok(x),
        Err(_) => Err(last_panic_class()),
    }
}
