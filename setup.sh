#!/bin/sh
# Builds the whole framework from the files on disk, offline: Coq development (full .vo build),
# extraction + OCaml drivers, Rust harness (release and dev profile, hooks on) against /repo.
set -e
cd "$(dirname "$0")"
export CARGO_NET_OFFLINE=true
( cd coq && coq_makefile -f _CoqProject -o Makefile > /dev/null && timeout 7200 make -j16 )
( cd ocaml && sh ./build.sh )
( cd harness && cp -f /repo/Cargo.lock Cargo.lock && cargo build --offline --release --bins && cargo build --offline --bins )
echo "setup ok"
