#!/bin/sh
# runs every quick check in sequence (development helper)
cd "$(dirname "$0")"
for p in C01 C02 C03 C04 C05 C06 C07 C08 C09 C10 C11 C12 C13 C14 C15 C16 C17 C18; do
  /usr/bin/time -f "$p %es" ./check $p --tier ${1:-quick} > work/out_$p.txt 2> work/err_$p.txt; echo "$p exit=$? $(grep -c VIOLATION work/out_$p.txt) violations; $(tail -1 work/err_$p.txt)"
done
