(** * The local rules of the classification: selection tables, result transitions, flag
    propagation (C01, C02, C05, C06, C14).  All statements are over every numeric instance. *)
From Coq Require Import Bool List PArith NArith ZArith FMapPositive.
From GB Require Import Prim Num Event Cmp Outcome Fields.
Set Implicit Arguments.

(** ** semantics of the four operations on memberships *)
Definition sem (o : operation) (a b : bool) : bool :=
  match o with
  | Intersection => a && b
  | Union => a || b
  | Difference => a && negb b
  | Xor => xorb a b
  end.

(** C05: pointwise the three pieces partition the union and xor is the two differences *)
Lemma ops_pointwise (a b : bool) :
  (sem Intersection a b && sem Difference a b = false)
  /\ (sem Intersection a b && sem Difference b a = false)
  /\ (sem Difference a b && sem Difference b a = false)
  /\ (sem Union a b = sem Intersection a b || sem Difference a b || sem Difference b a)
  /\ (sem Xor a b = sem Difference a b || sem Difference b a).
Proof. destruct a, b; repeat split; reflexivity. Qed.

(** C06: the three symmetric operations are symmetric on memberships *)
Lemma ops_commute (o : operation) (a b : bool) :
  o <> Difference -> sem o a b = sem o b a.
Proof. destruct o, a, b; intros H; try reflexivity; now elim H. Qed.

Section Tables.
Variable N : Num.
Notation event := (event N).

(** ** meaning of the flags of a sub-segment
    [in_out] = the own operand is inside just below the edge; [other_in_out] = the other
    operand is outside just below it.  Crossing the edge upwards toggles the own operand;
    for a typed carrier the coincident twin toggles the other operand too, with
    ([SameTransition]) or against ([DifferentTransition]) the carrier. *)
Definition own_below (e : event) : bool := e_in_out e.
Definition other_below (e : event) : bool :=
  match e_edge_type e with
  | SameTransition => e_in_out e
  | DifferentTransition => negb (e_in_out e)
  | _ => negb (e_other_in_out e)
  end.
Definition own_above (e : event) : bool := negb (own_below e).
Definition other_above (e : event) : bool :=
  match e_edge_type e with
  | SameTransition | DifferentTransition => negb (other_below e)
  | _ => other_below e
  end.

(** membership in the result of [op] given the memberships in (own, other) operand *)
Definition res (o : operation) (subj : bool) (own oth : bool) : bool :=
  if subj then sem o own oth else sem o oth own.

(** what the tables must say: the edge is selected iff the result differs across it, and the
    transition is [OutIn] iff the result is inside above it *)
Definition expected (e : event) (o : operation) : result_transition :=
  match e_edge_type e with
  | NonContributing => RTNone
  | _ =>
      let rb := res o (e_is_subject e) (own_below e) (other_below e) in
      let ra := res o (e_is_subject e) (own_above e) (other_above e) in
      if eqb rb ra then RTNone else if ra then OutIn else InOut
  end.

Definition table (cfg : config) (e : event) (o : operation) : result_transition :=
  if in_result e o then determine_result_transition cfg e o else RTNone.

(** C01/C14: the repaired tables are correct for every flag assignment, edge type, operand
    role and operation *)
Theorem tables_correct (cfg : config) (e : event) (o : operation) :
  c_f1 cfg = true -> table cfg e o = expected e o.
Proof.
  intros Hf. unfold table, expected, in_result, determine_result_transition, res, own_above,
    other_above, own_below, other_below.
  rewrite Hf.
  destruct e as [p cid subj ext lf oth pir ty io oio rt op oc]; cbn.
  destruct ty, o, subj, io, oio; reflexivity.
Qed.

(** the pinned tables are wrong (defect F1): a shared edge with both operands leaving,
    under union, is reported as entering the result *)
Theorem tables_pinned_wrong :
  exists (e : event) (o : operation), table pinned e o <> expected e o.
Proof.
  exists (mkEv (mkPt N (pinfX N) (pinfY N)) 0%N true true true None None SameTransition true false RTNone 0%Z 0%Z), Union.
  unfold table, expected, in_result, determine_result_transition, res, own_above, other_above,
    own_below, other_below; cbn. discriminate.
Qed.

(** exactly one of two coincident edges carries the boundary: the twin is never selected *)
Lemma twin_not_selected (cfg : config) (e : event) (o : operation) :
  e_edge_type e = NonContributing -> table cfg e o = RTNone.
Proof. intros H. unfold table, in_result. now rewrite H. Qed.

(** C06: for the symmetric operations the tables do not look at the operand role *)
Lemma tables_role_independent (cfg : config) (e e' : event) (o : operation) :
  o <> Difference ->
  e_edge_type e' = e_edge_type e -> e_in_out e' = e_in_out e -> e_other_in_out e' = e_other_in_out e ->
  table cfg e' o = table cfg e o.
Proof.
  intros Ho Ht Hi Hoi. unfold table, in_result, determine_result_transition.
  rewrite Ht, Hi, Hoi. destruct o; try reflexivity. now elim Ho.
Qed.

(** ** store lemmas *)
Lemma getE_upd_same (st : store N) i f : getE (upd st i f) i = f (getE st i).
Proof. unfold getE, upd; cbn [st_map]. rewrite !pfind_eq, PositiveMap.gss. unfold getE. rewrite ?pfind_eq. reflexivity. Qed.
Lemma getE_upd_other (st : store N) i j f : i <> j -> getE (upd st i f) j = getE st j.
Proof. intros H. unfold getE, upd; cbn [st_map]. rewrite !pfind_eq, PositiveMap.gso by congruence. unfold getE. rewrite ?pfind_eq. reflexivity. Qed.
Lemma is_vertical_upd_flags (st : store N) i j f :
  (forall e, e_point (f e) = e_point e /\ e_other (f e) = e_other e) ->
  is_vertical (upd st i f) j = is_vertical st j.
Proof.
  intros Hf. unfold is_vertical, point_of.
  destruct (Pos.eq_dec i j) as [->|Hij].
  - rewrite getE_upd_same. destruct (Hf (getE st j)) as [Hp Ho]. rewrite Hp, Ho.
    destruct (e_other (getE st j)) as [o|]; [|reflexivity].
    destruct (Pos.eq_dec j o) as [->|Hjo].
    + rewrite getE_upd_same. now rewrite (proj1 (Hf _)).
    + now rewrite getE_upd_other.
  - rewrite getE_upd_other by assumption.
    destruct (e_other (getE st j)) as [o|]; [|reflexivity].
    destruct (Pos.eq_dec i o) as [->|Hio].
    + rewrite getE_upd_same. now rewrite (proj1 (Hf _)).
    + now rewrite getE_upd_other.
Qed.

(** ** flag propagation *)
(** what the flags of a new edge must be, given the edge [p] directly below it in the status
    (every status edge toggles its own operand; a vertical edge separates nothing) *)
Definition expected_in_out (same vert : bool) (p : event) : bool * bool :=
  let own_b := if same then (if vert then e_in_out p else negb (e_in_out p))
               else negb (e_other_in_out p) in
  let oth_b := if same then negb (e_other_in_out p)
               else (if vert then e_in_out p else negb (e_in_out p)) in
  (own_b, negb oth_b).

Definition flags_after (cfg : config) (st : store N) (ev : eid) (mp : option eid) (o : operation) : bool * bool :=
  let e := getE (compute_fields cfg st ev mp o) ev in (e_in_out e, e_other_in_out e).

(** C14: [compute_fields] implements the propagation rule, including vertical predecessors
    of either operand (repaired code) *)
Theorem propagation_correct (cfg : config) (st : store N) (ev prev : eid) (o : operation) :
  c_f2 cfg = true -> ev <> prev ->
  flags_after cfg st ev (Some prev) o =
  expected_in_out (eqb (e_is_subject (getE st ev)) (e_is_subject (getE st prev)))
                  (is_vertical st prev) (getE st prev).
Proof.
  intros Hf Hne. unfold flags_after, compute_fields, expected_in_out. rewrite Hf.
  set (e := getE st ev). set (p := getE st prev). set (v := is_vertical st prev).
  destruct (eqb (e_is_subject e) (e_is_subject p)), v; cbn [andb];
    repeat match goal with
           | |- context [if ?c then _ else _] => destruct c
           | |- context [match ?c with Some _ => _ | None => _ end] => destruct c
           end;
    rewrite ?getE_upd_same; cbn; rewrite ?getE_upd_same; cbn;
    destruct (e_in_out p), (e_other_in_out p); reflexivity.
Qed.

Theorem propagation_first (cfg : config) (st : store N) (ev : eid) (o : operation) :
  flags_after cfg st ev None o = (false, true).
Proof.
  unfold flags_after, compute_fields.
  repeat match goal with
         | |- context [if ?c then _ else _] => destruct c
         end; rewrite ?getE_upd_same; cbn; rewrite ?getE_upd_same; reflexivity.
Qed.

(** the pinned propagation is wrong (defect F2): an edge that starts on a vertical edge of its
    own operand gets inverted flags *)
Theorem propagation_pinned_wrong :
  eqX N (pinfX N) (pinfX N) = true ->
  exists (st : store N) (ev prev : eid) (o : operation), ev <> prev /\
    flags_after pinned st ev (Some prev) o <>
    expected_in_out (eqb (e_is_subject (getE st ev)) (e_is_subject (getE st prev)))
                    (is_vertical st prev) (getE st prev).
Proof.
  intros Hrefl.
  (* prev = event 1 (left end of a vertical segment 1-2), ev = event 3, all of the subject *)
  pose (P := mkPt N (pinfX N) (pinfY N)).
  pose (e1 := mkEv P 1%N true true true (Some 2%positive) None Normal false true RTNone 0%Z 0%Z).
  pose (e2 := mkEv P 1%N true true false (Some 1%positive) None Normal false true RTNone 0%Z 0%Z).
  pose (e3 := mkEv P 1%N true true true None None Normal false true RTNone 0%Z 0%Z).
  pose (st := mkStore (PositiveMap.add 3%positive e3 (PositiveMap.add 2%positive e2
                (PositiveMap.add 1%positive e1 (PositiveMap.empty (event))))) 4%positive).
  exists st, 3%positive, 1%positive, Union. split; [discriminate|].
  assert (Hv : is_vertical st 1%positive = true) by (unfold is_vertical, point_of, getE; cbn; exact Hrefl).
  unfold flags_after, compute_fields, expected_in_out, pinned. rewrite Hv.
  cbn [c_f2 c_f1 andb]. unfold getE; cbn. discriminate.
Qed.

End Tables.
