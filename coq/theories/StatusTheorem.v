(** * The classification rule is the crossing-number rule (C01, C14).

    Abstract setting: the sweep-line status at one abscissa is a list of edges from bottom to
    top, each belonging to the subject or the clipping operand, each vertical or not.  The
    flags of every edge are computed from the edge directly below it by the rule
    [FieldsProofs.expected_in_out] (which [compute_fields] is proved to implement,
    [propagation_correct]); the lowest edge gets (false, true) ([propagation_first]).

    Theorem [status_flags_are_parities]: for EVERY such list the computed flags are the
    crossing-number memberships just below the edge: [in_out] = an odd number of non-vertical
    edges of the own operand lie below, [other_in_out] = an even number of non-vertical edges
    of the other operand lie below.  (Vertical edges separate nothing: they are transparent.)
    This is the inductive core of the Martinez-Rueda classification for a status that is
    sorted by the true vertical order and has no coincident edges; that the status IS so
    sorted is the part that remains per-run (C13, C15). *)
From Coq Require Import Bool List Arith.
From GB Require Import Num Event FieldsProofs.
Import ListNotations.

(** a status entry: operand, vertical?, and the flags the sweep computed *)
Record sentry := mkS { s_subj : bool; s_vert : bool }.

(** parity of the non-vertical edges of operand [b] in a list *)
Fixpoint par_op (b : bool) (l : list sentry) : bool :=
  match l with
  | [] => false
  | e :: tl => xorb (negb (s_vert e) && eqb (s_subj e) b) (par_op b tl)
  end.

(** the rule, in terms of (operand, vertical, in_out, other_in_out) of the predecessor *)
Definition rule (prev : option (sentry * (bool * bool))) (subj : bool) : bool * bool :=
  match prev with
  | None => (false, true)
  | Some (p, (pio, poio)) =>
      let same := eqb subj (s_subj p) in
      let own_b := if same then (if s_vert p then pio else negb pio) else negb poio in
      let oth_b := if same then negb poio else (if s_vert p then pio else negb pio) in
      (own_b, negb oth_b)
  end.

(** [rule] is [expected_in_out] read on an event record *)
Lemma rule_is_expected_in_out (N : Num) (p : event N) (pe : sentry) subj :
  s_subj pe = e_is_subject p ->
  rule (Some (pe, (e_in_out p, e_other_in_out p))) subj
  = expected_in_out (eqb subj (e_is_subject p)) (s_vert pe) p.
Proof. intros H. unfold rule, expected_in_out. rewrite H. reflexivity. Qed.

(** the flags of the edges of a status, computed bottom-up; [below]: entries already passed
    (nearest first), [prev]: the nearest one with its flags *)
Fixpoint run (prev : option (sentry * (bool * bool))) (l : list sentry) : list (sentry * (bool * bool)) :=
  match l with
  | [] => []
  | e :: tl => let f := rule prev (s_subj e) in (e, f) :: run (Some (e, f)) tl
  end.

(** what the flags must be for an edge with [below] below it *)
Definition truth (below : list sentry) (subj : bool) : bool * bool :=
  (par_op subj below, negb (par_op (negb subj) below)).

Lemma par_op_cons b e tl : par_op b (e :: tl) = xorb (negb (s_vert e) && eqb (s_subj e) b) (par_op b tl).
Proof. reflexivity. Qed.

(** one step: if the predecessor's flags are the truth for what lies below it, the new edge's
    flags are the truth for what lies below the new edge *)
Lemma rule_step (below : list sentry) (p : sentry) (subj : bool) :
  rule (Some (p, truth below (s_subj p))) subj = truth (p :: below) subj.
Proof.
  unfold rule, truth. rewrite !par_op_cons.
  destruct p as [ps pv]; cbn [s_subj s_vert].
  destruct subj, ps, pv; cbn; destruct (par_op true below), (par_op false below); reflexivity.
Qed.

Theorem run_truth : forall (l : list sentry) (below : list sentry) (prev : option (sentry * (bool * bool))),
  (match prev with
   | None => below = []
   | Some (p, f) => exists b', below = p :: b' /\ f = truth b' (s_subj p)
   end) ->
  forall k e f, nth_error (run prev l) k = Some (e, f) ->
  nth_error l k = Some e /\ f = truth (rev (firstn k l) ++ below) (s_subj e).
Proof.
  induction l as [|e0 tl IH]; intros below prev Hprev k e f H; [destruct k; discriminate|].
  cbn [run] in H.
  assert (F0 : rule prev (s_subj e0) = truth below (s_subj e0)).
  { destruct prev as [[p fp]|].
    - destruct Hprev as (b' & -> & ->). apply rule_step.
    - subst below. reflexivity. }
  destruct k as [|k]; cbn [nth_error] in H.
  - inversion H; subst. split; [reflexivity|]. cbn [firstn rev app]. exact F0.
  - destruct (IH (e0 :: below) (Some (e0, rule prev (s_subj e0))) (ex_intro _ below (conj eq_refl F0)) k e f H) as [H1 H2].
    split; [exact H1|]. cbn [firstn rev]. rewrite <- app_assoc. exact H2.
Qed.

(** C14 / C01: for every status, the flags computed bottom-up by the rule are the
    crossing-number memberships below each edge *)
Corollary status_flags_are_parities (l : list sentry) (k : nat) (e : sentry) (f : bool * bool) :
  nth_error (run None l) k = Some (e, f) ->
  fst f = par_op (s_subj e) (firstn k l) /\ snd f = negb (par_op (negb (s_subj e)) (firstn k l)).
Proof.
  intros H. destruct (run_truth l [] None eq_refl k e f H) as [_ ->]. rewrite app_nil_r. unfold truth; cbn [fst snd].
  assert (P : forall b m, par_op b (rev m) = par_op b m).
  { intros b m. induction m as [|x m IHm]; [reflexivity|]. cbn [rev].
    assert (A : forall m1 m2, par_op b (m1 ++ m2) = xorb (par_op b m1) (par_op b m2)).
    { induction m1 as [|y m1 IH1]; intros m2; cbn [app par_op]; [now destruct (par_op b m2)|].
      rewrite IH1. now rewrite xorb_assoc. }
    rewrite A, IHm. cbn [par_op]. rewrite xorb_false_r. apply xorb_comm. }
  now rewrite !P.
Qed.

(** non-vacuity: subject, clipping, vertical subject, subject *)
Example status_example :
  map snd (run None [mkS true false; mkS false false; mkS true true; mkS true false])
  = [(false, true); (false, false); (true, false); (true, false)].
Proof. reflexivity. Qed.
