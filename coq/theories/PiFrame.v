(** * The footprint of the intersection step, every instance.

    [possible_intersection s se1 se2] never moves a point and changes the partner link of no
    event other than [se1], [se2], their partners and the events it creates: a frame rule for
    the step, by a walk through all its arms with the one-step re-linking lemma
    [SplitCover.divide_segment_shape]. *)
From Coq Require Import Bool List PArith NArith Lia.
From GB Require Import Prim Num Event Intersect Cmp Heap Outcome Divide FieldsProofs LinkProofs SplitCover.
Import ListNotations.

Section Frame.
Variable N : Num.
Variable cfg : config.
Notation store := (store N).

Variable s : sq N.
Variables se1 se2 other1 other2 : eid.

Definition inFP (k : eid) : Prop := k = se1 \/ k = se2 \/ k = other1 \/ k = other2.

Definition frame (x : sq N) : Prop :=
  sqinv N x /\ grows N (sq_st s) (sq_st x) /\
  (forall k, mapped N (sq_st s) k -> e_point (getE (sq_st x) k) = e_point (getE (sq_st s) k)) /\
  (forall k, mapped N (sq_st s) k -> ~ inFP k -> e_other (getE (sq_st x) k) = e_other (getE (sq_st s) k)).

Lemma frame_refl : sqinv N s -> frame s.
Proof. intros S. split; [exact S|]. split; [apply grows_refl|]. split; reflexivity. Qed.

Lemma frame_div (x x' : sq N) T Tr p :
  frame x -> mapped N (sq_st x) T -> e_other (getE (sq_st x) T) = Some Tr ->
  (inFP T \/ ~ mapped N (sq_st s) T) -> (inFP Tr \/ ~ mapped N (sq_st s) Tr) ->
  divide_segment cfg x T p = Ok x' ->
  frame x' /\
  (forall k, mapped N (sq_st x) k -> k <> T -> k <> Tr -> e_other (getE (sq_st x') k) = e_other (getE (sq_st x) k)) /\
  (forall k, mapped N (sq_st x) k -> e_point (getE (sq_st x') k) = e_point (getE (sq_st x) k)) /\
  exists l, ~ mapped N (sq_st x) l /\ mapped N (sq_st x') l /\
            e_other (getE (sq_st x') Tr) = Some l /\ e_other (getE (sq_st x') l) = Some Tr.
Proof.
  intros (S & G & Pt & Ot) MT OT FT FTr Dv. pose proof S as [[W L] Q].
  destruct (L T MT) as (Tr' & OT' & Hne & MTr & _). assert (Tr' = Tr) by congruence. subst Tr'.
  pose proof (divide_segment_inv N cfg x T p S MT) as DI. rewrite Dv in DI. destruct DI as [S' G'].
  destruct (divide_segment_shape N cfg x x' T Tr p W MT MTr Hne OT Dv)
    as (r & l & i' & Nr & Nl & _ & A1 & A2 & A3 & A4 & A5 & A6 & Ei & Keep & KeepO).
  split; [|split; [exact KeepO | split; [exact Keep|]]].
  - split; [exact S'|]. split; [eapply grows_trans; eauto|]. split.
    + intros k Mk. rewrite (Keep k (G k Mk)). now apply Pt.
    + intros k Mk Hk. rewrite KeepO; [now apply Ot | exact (G k Mk) | |].
      * intros ->. destruct FT as [F|F]; [exact (Hk F) | exact (F Mk)].
      * intros ->. destruct FTr as [F|F]; [exact (Hk F) | exact (F Mk)].
  - exists l. split; [exact Nl|]. split; [|split; [exact A4 | exact A3]].
    destruct (mapped_dec N (sq_st x') l) as [K|K]; [exact K|].
    destruct S' as [[_ L'] _]. destruct (L' Tr (G' _ MTr)) as (o & Oo & _ & Mo & _). congruence.
Qed.

Lemma frame_type (x : sq N) j t :
  frame x -> mapped N (sq_st x) j -> frame (mkSQ (upd (sq_st x) j (fun e => set_edge_type e t)) (sq_q x)).
Proof.
  intros (S & G & Pt & Ot) Mj.
  destruct (sqinv_set_edge_type N x j t S Mj) as [S' G'].
  assert (K : forall k, e_point (getE (upd (sq_st x) j (fun e => set_edge_type e t)) k) = e_point (getE (sq_st x) k)
                     /\ e_other (getE (upd (sq_st x) j (fun e => set_edge_type e t)) k) = e_other (getE (sq_st x) k)).
  { intros k. destruct (Pos.eq_dec j k) as [->|Hn]; [rewrite getE_upd_same | rewrite getE_upd_other by exact Hn]; split; reflexivity. }
  split; [exact S'|]. split; [eapply grows_trans; eauto|]. cbn [sq_st]. split.
  - intros k Mk. rewrite (proj1 (K k)). now apply Pt.
  - intros k Mk Hk. rewrite (proj2 (K k)). now apply Ot.
Qed.

Definition fr_out (r : outcome (sq N * nat)) : Prop :=
  match r with Ok (x', _) => frame x' | _ => True end.

Theorem pi_frame :
  sqinv N s -> mapped N (sq_st s) se1 -> mapped N (sq_st s) se2 ->
  e_other (getE (sq_st s) se1) = Some other1 -> e_other (getE (sq_st s) se2) = Some other2 ->
  se1 <> se2 -> se1 <> other2 -> se2 <> other1 ->
  fr_out (possible_intersection cfg s se1 se2).
Proof.
  intros S M1 M2 O1 O2 N12 N1o N2o. pose proof S as [[W L] Q].
  pose proof (frame_refl S) as F0.
  assert (I1 : inFP se1) by (left; reflexivity). assert (I2 : inFP se2) by (right; left; reflexivity).
  assert (Io1 : inFP other1) by (right; right; left; reflexivity). assert (Io2 : inFP other2) by (right; right; right; reflexivity).
  (* one division, then the continuation *)
  assert (Step : forall (x : sq N) T Tr p (k : sq N -> outcome (sq N * nat)),
            frame x -> mapped N (sq_st x) T -> e_other (getE (sq_st x) T) = Some Tr ->
            (inFP T \/ ~ mapped N (sq_st s) T) -> (inFP Tr \/ ~ mapped N (sq_st s) Tr) ->
            (forall x', divide_segment cfg x T p = Ok x' -> fr_out (k x')) ->
            fr_out (obind (divide_segment cfg x T p) k)).
  { intros x T Tr p k Fx MT OT FT FTr K. destruct (divide_segment cfg x T p) as [x'|site|] eqn:Dv; cbn [obind]; [|exact I|exact I].
    now apply K. }
  unfold possible_intersection. rewrite O1, O2.
  destruct (intersection _ _ _ _) as [|inter|ia ib].
  - exact F0.
  - destruct (pt_eq _ _ || pt_eq _ _); [exact F0|].
    destruct (negb (pt_eq (e_point (getE (sq_st s) se1)) inter) && negb (pt_eq (point_of (sq_st s) other1) inter)).
    + apply (Step s se1 other1); auto. intros s1 Dv1.
      destruct (frame_div s s1 se1 other1 inter F0 M1 O1 (or_introl I1) (or_introl Io1) Dv1) as (F1 & KO1 & _ & _).
      destruct (negb (pt_eq (e_point (getE (sq_st s) se2)) inter) && negb (pt_eq (point_of (sq_st s) other2) inter)).
      * apply (Step s1 se2 other2); auto.
        -- destruct F1 as (_ & G1 & _). now apply G1.
        -- rewrite (KO1 se2 M2 (not_eq_sym N12) N2o). exact O2.
        -- intros s2 Dv2. cbn. 
           assert (M2' : mapped N (sq_st s1) se2) by (destruct F1 as (_ & G1 & _); now apply G1).
           assert (O2' : e_other (getE (sq_st s1) se2) = Some other2) by (rewrite (KO1 se2 M2 (not_eq_sym N12) N2o); exact O2).
           exact (proj1 (frame_div s1 s2 se2 other2 inter F1 M2' O2' (or_introl I2) (or_introl Io2) Dv2)).
      * cbn. exact F1.
    + cbn [obind].
      destruct (negb (pt_eq (e_point (getE (sq_st s) se2)) inter) && negb (pt_eq (point_of (sq_st s) other2) inter)).
      * apply (Step s se2 other2); auto. intros s2 Dv2. cbn.
        exact (proj1 (frame_div s s2 se2 other2 inter F0 M2 O2 (or_introl I2) (or_introl Io2) Dv2)).
      * cbn. exact F0.
  - destruct (eqb _ _); [exact F0|].
    (* the two type updates *)
    assert (T : forall ty,
      let x := mkSQ (upd (upd (sq_st s) se2 (fun e => set_edge_type e NonContributing)) se1 (fun e => set_edge_type e ty)) (sq_q s) in
      frame x /\ (forall k, e_other (getE (sq_st x) k) = e_other (getE (sq_st s) k)) /\
      (forall k, e_point (getE (sq_st x) k) = e_point (getE (sq_st s) k))).
    { intros ty x.
      pose proof (frame_type s se2 NonContributing F0 M2) as Fa.
      assert (M1a : mapped N (sq_st (mkSQ (upd (sq_st s) se2 (fun e => set_edge_type e NonContributing)) (sq_q s))) se1)
        by (cbn [sq_st]; apply mapped_upd; now right).
      pose proof (frame_type _ se1 ty Fa M1a) as Fb. cbn [sq_st sq_q] in Fb. split; [exact Fb|].
      assert (K : forall (st : store) j t k, e_other (getE (upd st j (fun e => set_edge_type e t)) k) = e_other (getE st k)
                                          /\ e_point (getE (upd st j (fun e => set_edge_type e t)) k) = e_point (getE st k)).
      { intros st j t k. destruct (Pos.eq_dec j k) as [->|Hn]; [rewrite getE_upd_same | rewrite getE_upd_other by exact Hn]; split; reflexivity. }
      split; intros k; unfold x; cbn [sq_st]; [rewrite (proj1 (K _ _ _ _)), (proj1 (K _ _ _ _)) | rewrite (proj2 (K _ _ _ _)), (proj2 (K _ _ _ _))]; reflexivity. }
    (* a division of se1 or se2 in a store with the links of [s], followed (possibly) by one more *)
    assert (Div1 : forall (x : sq N) p (k : sq N -> outcome (sq N * nat)),
              frame x -> e_other (getE (sq_st x) se1) = Some other1 ->
              (forall x', divide_segment cfg x se1 p = Ok x' -> frame x' ->
                          (forall j, mapped N (sq_st x) j -> j <> se1 -> j <> other1 -> e_other (getE (sq_st x') j) = e_other (getE (sq_st x) j)) ->
                          (exists l, ~ mapped N (sq_st x) l /\ mapped N (sq_st x') l /\ e_other (getE (sq_st x') other1) = Some l /\ e_other (getE (sq_st x') l) = Some other1) ->
                          fr_out (k x')) ->
              fr_out (obind (divide_segment cfg x se1 p) k)).
    { intros x p k Fx Ox K. destruct (divide_segment cfg x se1 p) as [x'|site|] eqn:Dv; cbn [obind]; [|exact I|exact I].
      assert (Mx : mapped N (sq_st x) se1) by (destruct Fx as (_ & G & _); now apply G).
      pose proof Ox as Oxx.
      destruct (frame_div x x' se1 other1 p Fx Mx Oxx (or_introl I1) (or_introl Io1) Dv) as (F' & KO & _ & Hl).
      apply K; auto. }
    assert (Div2 : forall (x : sq N) p (k : sq N -> outcome (sq N * nat)),
              frame x -> e_other (getE (sq_st x) se2) = Some other2 ->
              (forall x', divide_segment cfg x se2 p = Ok x' -> frame x' ->
                          (forall j, mapped N (sq_st x) j -> j <> se2 -> j <> other2 -> e_other (getE (sq_st x') j) = e_other (getE (sq_st x) j)) ->
                          (exists l, ~ mapped N (sq_st x) l /\ mapped N (sq_st x') l /\ e_other (getE (sq_st x') other2) = Some l /\ e_other (getE (sq_st x') l) = Some other2) ->
                          fr_out (k x')) ->
              fr_out (obind (divide_segment cfg x se2 p) k)).
    { intros x p k Fx Ox K. destruct (divide_segment cfg x se2 p) as [x'|site|] eqn:Dv; cbn [obind]; [|exact I|exact I].
      assert (Mx : mapped N (sq_st x) se2) by (destruct Fx as (_ & G & _); now apply G).
      pose proof Ox as Oxx.
      destruct (frame_div x x' se2 other2 p Fx Mx Oxx (or_introl I2) (or_introl Io2) Dv) as (F' & KO & _ & Hl).
      apply K; auto. }
    destruct (pt_eq (e_point (getE (sq_st s) se1)) (e_point (getE (sq_st s) se2))) eqn:LC;
    destruct (pt_eq (point_of (sq_st s) other1) (point_of (sq_st s) other2)) eqn:RC;
    destruct (ev_lt (sq_st s) se1 se2) eqn:C1; destruct (ev_lt (sq_st s) other1 other2) eqn:C2;
      cbn [app nth_ev nth fst snd negb];
      try match goal with
          | |- context [Pos.eqb ?a ?b] => destruct (Pos.eqb_spec a b); try congruence
          end; cbn [negb obind];
      (* both ends coincide *)
      try (match goal with
           | |- fr_out (Ok (mkSQ (upd (upd _ se2 _) se1 (fun e => set_edge_type e ?ty)) _, _)) =>
               destruct (T ty) as (Fb & _ & _); exact Fb
           end);
      (* left ends coincide: one division after the type updates *)
      try (match goal with
           | |- fr_out (obind (divide_segment _ (mkSQ (upd (upd _ se2 _) se1 (fun e => set_edge_type e ?ty)) _) se1 _) _) =>
               destruct (T ty) as (Fb & Ob & _); apply (Div1 _ _ _ Fb); [rewrite Ob; exact O1 | intros x' _ F' _ _; exact F']
           | |- fr_out (obind (divide_segment _ (mkSQ (upd (upd _ se2 _) se1 (fun e => set_edge_type e ?ty)) _) se2 _) _) =>
               destruct (T ty) as (Fb & Ob & _); apply (Div2 _ _ _ Fb); [rewrite Ob; exact O2 | intros x' _ F' _ _; exact F']
           end).
    (* right ends coincide / four distinct ends *)
    all: try (apply (Div1 s _ _ F0 O1); intros x' _ F' _ _; exact F').
    all: try (apply (Div2 s _ _ F0 O2); intros x' _ F' _ _; exact F').
    + (* se2 first, then se1 *)
      apply (Div2 s _ _ F0 O2). intros s1 Dv1 F1 KO1 _.
      apply (Div1 s1 _ _ F1); [rewrite (KO1 se1 M1 N12 N1o); exact O1 | intros x' _ F' _ _; exact F'].
    + (* se2 contains se1: se2, then the rest of se2 *)
      apply (Div2 s _ _ F0 O2). intros s1 Dv1 F1 KO1 (l & Nl & Ml & Ol1 & Ol2).
      unfold other_of. rewrite Ol1.
      apply (Step s1 l other2); auto. intros s2 Dv2. cbn.
      exact (proj1 (frame_div s1 s2 l other2 _ F1 Ml Ol2 (or_intror Nl) (or_introl Io2) Dv2)).
    + (* se1 contains se2 *)
      apply (Div1 s _ _ F0 O1). intros s1 Dv1 F1 KO1 (l & Nl & Ml & Ol1 & Ol2).
      unfold other_of. rewrite Ol1.
      apply (Step s1 l other1); auto. intros s2 Dv2. cbn.
      exact (proj1 (frame_div s1 s2 l other1 _ F1 Ml Ol2 (or_intror Nl) (or_introl Io1) Dv2)).
    + (* se1 first, then se2 *)
      apply (Div1 s _ _ F0 O1). intros s1 Dv1 F1 KO1 _.
      apply (Div2 s1 _ _ F1); [rewrite (KO1 se2 M2 (not_eq_sym N12) N2o); exact O2 | intros x' _ F' _ _; exact F'].
Qed.

(** the statement unfolded *)
Corollary pi_frame_ok (s' : sq N) (code : nat) :
  sqinv N s -> mapped N (sq_st s) se1 -> mapped N (sq_st s) se2 ->
  e_other (getE (sq_st s) se1) = Some other1 -> e_other (getE (sq_st s) se2) = Some other2 ->
  se1 <> se2 -> se1 <> other2 -> se2 <> other1 ->
  possible_intersection cfg s se1 se2 = Ok (s', code) ->
  (forall k, mapped N (sq_st s) k -> mapped N (sq_st s') k) /\
  (forall k, mapped N (sq_st s) k -> e_point (getE (sq_st s') k) = e_point (getE (sq_st s) k)) /\
  (forall k, mapped N (sq_st s) k -> k <> se1 -> k <> se2 -> k <> other1 -> k <> other2 ->
             e_other (getE (sq_st s') k) = e_other (getE (sq_st s) k)).
Proof.
  intros S M1 M2 O1 O2 N12 N1o N2o H. pose proof (pi_frame S M1 M2 O1 O2 N12 N1o N2o) as F. rewrite H in F.
  destruct F as (_ & G & Pt & Ot). split; [exact G|]. split; [exact Pt|].
  intros k Mk K1 K2 K3 K4. apply Ot; [exact Mk|]. intros [E|[E|[E|E]]]; congruence.
Qed.

End Frame.
