(** * Model of [lib/src/splay]: top-down splay tree (map and set), shape-exact.

    The Rust loop of [splay] (two hole pointers into the "smaller" and "bigger"
    chains, zig-zig rotation, zig-zag as two plain links) is rendered as the
    structurally recursive [go], which consumes one node per call and carries the
    not-yet-linked parent as a [pend] state.  Every node carries an identity [eid]
    (standing for the heap address of the boxed node), its key and its value.

    No proofs in this file. *)
From Coq Require Import List PArith.
Import ListNotations.

Set Implicit Arguments.

Section Splay.
Variables K V : Type.
Variable cmp : K -> K -> comparison.   (* comparator(query, node.key) *)

Record elt := mkElt { eid : positive; ekey : K; eval : V }.

Inductive tree := Leaf | Node (l : tree) (x : elt) (r : tree).

(** pending (not yet linked) parent of the subtree under inspection *)
Inductive pend :=
| PNone
| PLess (px : elt) (pr : tree)      (* key < px, we descended into its left child *)
| PGreater (pl : tree) (px : elt)   (* key > px, we descended into its right child *)
| PRotR (x : elt) (n : tree)        (* after a right rotation: x is the new top, n its right child *)
| PRotL (n : tree) (x : elt).

(** fragments of the smaller / bigger chain, innermost first *)
Fixpoint asm_sm (sm : list (tree * elt)) (fill : tree) : tree :=
  match sm with [] => fill | (l, x) :: rest => asm_sm rest (Node l x fill) end.
Fixpoint asm_bg (bg : list (elt * tree)) (fill : tree) : tree :=
  match bg with [] => fill | (x, r) :: rest => asm_bg rest (Node fill x r) end.
Definition finish l x r sm bg := Node (asm_sm sm l) x (asm_bg bg r).

Definition link (p : pend) (sm : list (tree * elt)) (bg : list (elt * tree)) :=
  match p with
  | PNone => (sm, bg)
  | PLess px pr => (sm, (px, pr) :: bg)
  | PGreater pl px => ((pl, px) :: sm, bg)
  | PRotR px n => (sm, (px, n) :: bg)
  | PRotL n px => ((n, px) :: sm, bg)
  end.

Fixpoint go (key : K) (t : tree) (p : pend) (sm : list (tree * elt)) (bg : list (elt * tree)) : tree :=
  match t with
  | Leaf =>
      match p with
      | PNone => Leaf
      | PLess px pr => finish Leaf px pr sm bg
      | PGreater pl px => finish pl px Leaf sm bg
      | PRotR x n => finish Leaf x n sm bg
      | PRotL n x => finish n x Leaf sm bg
      end
  | Node l x r =>
      let c := cmp key (ekey x) in
      let dflt :=
        match c with
        | Eq => finish l x r (fst (link p sm bg)) (snd (link p sm bg))
        | Lt => go key l (PLess x r) (fst (link p sm bg)) (snd (link p sm bg))
        | Gt => go key r (PGreater l x) (fst (link p sm bg)) (snd (link p sm bg))
        end in
      match p, c with
      | PLess px pr, Lt => go key l (PRotR x (Node r px pr)) sm bg
      | PGreater pl px, Gt => go key r (PRotL (Node pl px l) x) sm bg
      | _, _ => dflt
      end
  end.

(** [splay key root]; the Rust function is only ever called on a non-empty tree *)
Definition splay (key : K) (t : tree) : tree := go key t PNone [] [].

(** ** The container *)
Record t := mkT { root : tree; size : nat; next_id : positive }.

Definition empty : t := mkT Leaf 0 1%positive.
Definition len (s : t) : nat := size s.
Definition is_empty (s : t) : bool := match size s with O => true | S _ => false end.
Definition clear (s : t) : t := mkT Leaf 0 (next_id s).

Definition set_root (s : t) (r : tree) : t := mkT r (size s) (next_id s).

(** [get]/[get_mut]/[find_key]/[contains]: splay, then look at the root.
    Result: the restructured container and the element found (if any). *)
Definition lookup (s : t) (key : K) : t * option elt :=
  match root s with
  | Leaf => (s, None)
  | Node l x r =>
      match splay key (Node l x r) with
      | Leaf => (set_root s Leaf, None) (* unreachable *)
      | Node l' x' r' =>
          (set_root s (Node l' x' r'),
           match cmp key (ekey x') with Eq => Some x' | _ => None end)
      end
  end.

Fixpoint succ_walk (key : K) (t : tree) (best : option elt) : option elt :=
  match t with
  | Leaf => best
  | Node l x r =>
      match cmp key (ekey x) with
      | Lt => succ_walk key l (Some x)
      | _ => succ_walk key r best
      end
  end.

Fixpoint pred_walk (key : K) (t : tree) (best : option elt) : option elt :=
  match t with
  | Leaf => best
  | Node l x r =>
      match cmp key (ekey x) with
      | Gt => pred_walk key r (Some x)
      | _ => pred_walk key l best
      end
  end.

Definition next (s : t) (key : K) : t * option elt :=
  match root s with
  | Leaf => (s, None)
  | Node l x r =>
      let t' := splay key (Node l x r) in
      (set_root s t', succ_walk key t' None)
  end.

Definition prev (s : t) (key : K) : t * option elt :=
  match root s with
  | Leaf => (s, None)
  | Node l x r =>
      let t' := splay key (Node l x r) in
      (set_root s t', pred_walk key t' None)
  end.

(** [insert]: returns the new container and the replaced value, if any.  On [Equal]
    the stored key is kept and only the value is replaced. *)
Definition insert (s : t) (key : K) (v : V) : t * option V :=
  match root s with
  | Leaf =>
      (mkT (Node Leaf (mkElt (next_id s) key v) Leaf) (S (size s)) (Pos.succ (next_id s)), None)
  | Node l0 x0 r0 =>
      match splay key (Node l0 x0 r0) with
      | Leaf => (s, None) (* unreachable *)
      | Node l x r =>
          match cmp key (ekey x) with
          | Eq => (mkT (Node l (mkElt (eid x) (ekey x) v) r) (size s) (next_id s), Some (eval x))
          | Lt => (mkT (Node l (mkElt (next_id s) key v) (Node Leaf x r)) (S (size s)) (Pos.succ (next_id s)), None)
          | Gt => (mkT (Node (Node l x Leaf) (mkElt (next_id s) key v) r) (S (size s)) (Pos.succ (next_id s)), None)
          end
      end
  end.

(** [remove]: the left subtree is splayed with the same key and its (new) right child
    is overwritten by the old right subtree, as in the source. *)
Definition remove (s : t) (key : K) : t * option V :=
  match root s with
  | Leaf => (s, None)
  | Node l0 x0 r0 =>
      match splay key (Node l0 x0 r0) with
      | Leaf => (s, None) (* unreachable *)
      | Node l x r =>
          match cmp key (ekey x) with
          | Eq =>
              let newroot :=
                match l with
                | Leaf => r
                | Node ll lx lr =>
                    match splay key (Node ll lx lr) with
                    | Leaf => r (* unreachable *)
                    | Node l2 x2 _ => Node l2 x2 r
                    end
                end in
              (mkT newroot (pred (size s)) (next_id s), Some (eval x))
          | _ => (set_root s (Node l x r), None)
          end
      end
  end.

Fixpoint min_node (t : tree) (best : option elt) : option elt :=
  match t with Leaf => best | Node l x _ => min_node l (Some x) end.
Fixpoint max_node (t : tree) (best : option elt) : option elt :=
  match t with Leaf => best | Node _ x r => max_node r (Some x) end.
Definition min (s : t) : option elt := min_node (root s) None.
Definition max (s : t) : option elt := max_node (root s) None.

Definition extend (s : t) (kvs : list (K * V)) : t :=
  fold_left (fun acc kv => fst (insert acc (fst kv) (snd kv))) kvs s.

(** ** Consuming iterator *)
Record iter := mkIter { cur : tree; remaining : nat }.
Definition into_iter (s : t) : iter := mkIter (root s) (size s).

(** rotate the left spine away; [nxt l x r] is the loop started on [Node l x r] *)
Fixpoint nxt (l : tree) (x : elt) (r : tree) : elt * tree :=
  match l with
  | Leaf => (x, r)
  | Node ll y lr => nxt ll y (Node lr x r)
  end.
Fixpoint nxt_back (l : tree) (x : elt) (r : tree) : elt * tree :=
  match r with
  | Leaf => (x, l)
  | Node rl y rr => nxt_back (Node l x rl) y rr
  end.

Definition iter_next (it : iter) : iter * option elt :=
  match cur it with
  | Leaf => (it, None)
  | Node l x r => let '(y, rest) := nxt l x r in (mkIter rest (pred (remaining it)), Some y)
  end.
Definition iter_next_back (it : iter) : iter * option elt :=
  match cur it with
  | Leaf => (it, None)
  | Node l x r => let '(y, rest) := nxt_back l x r in (mkIter rest (pred (remaining it)), Some y)
  end.

(** ** Observation helpers *)
Fixpoint inorder (t : tree) : list elt :=
  match t with Leaf => [] | Node l x r => inorder l ++ x :: inorder r end.
Fixpoint height (t : tree) : nat :=
  match t with Leaf => 0 | Node l _ r => S (Nat.max (height l) (height r)) end.
Fixpoint tsize (t : tree) : nat :=
  match t with Leaf => 0 | Node l _ r => S (tsize l + tsize r) end.

End Splay.

Arguments Leaf {K V}.
Arguments PNone {K V}.
Arguments empty {K V}.
