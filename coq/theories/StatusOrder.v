(** * The segment order on the sweep line is the order of heights (C15 / C14), exact instance.

    For two non-vertical, non-collinear, non-crossing segments whose left events are ordered by
    the event order one way or the other, and an abscissa [x0] inside the x-extent of both at
    which they have different heights: [compare_segments] answers [Lt] exactly when the first is
    lower at [x0].  Hence on any set of such segments (the status line in general position)
    the public segment order is a strict total order — that of the heights at the sweep position
    — whatever the order in which the comparisons are made. *)
From Coq Require Import Bool List PArith QArith Lqa Lia.
From GB Require Import Num NumQ NumLaws NumLawsQ Event Intersect Cmp IntersectProofs EventOrderQ SegOrder SegOrderQ.
Local Open Scope Q_scope.

Section Height.
Variable st : store NQ.
Variables a b ar br : eid.
Variables alx aly arx ary blx bly brx bry : Q.
Hypothesis Oa : e_other (getE st a) = Some ar.
Hypothesis Ob : e_other (getE st b) = Some br.
Hypothesis La : e_left (getE st a) = true.
Hypothesis Lb : e_left (getE st b) = true.
Hypothesis Pal : e_point (getE st a) = fpt alx aly.
Hypothesis Par : e_point (getE st ar) = fpt arx ary.
Hypothesis Pbl : e_point (getE st b) = fpt blx bly.
Hypothesis Pbr : e_point (getE st br) = fpt brx bry.
(** both run strictly left to right *)
Hypothesis Ha : alx < arx.
Hypothesis Hb : blx < brx.
Hypothesis Hab : a <> b.
(** not on one line, and no point interior to both (stated for both roles) *)
Hypothesis Ncol_ab : ~ (sa alx aly arx ary blx bly == 0 /\ sb alx aly arx ary brx bry == 0).
Hypothesis Ncol_ba : ~ (sa blx bly brx bry alx aly == 0 /\ sb blx bly brx bry arx ary == 0).
Hypothesis NC_ab : NC alx aly arx ary blx bly brx bry.
Hypothesis NC_ba : NC blx bly brx bry alx aly arx ary.
(** the event order decides which left event comes first *)
Hypothesis Hord : is_before st a b = true \/ is_before st b a = true.

(** the points of the two segments over a common abscissa *)
Variables s t : Q.
Hypothesis Hs : 0 <= s <= 1.
Hypothesis Ht : 0 <= t <= 1.
Hypothesis Hx : alx + s * (arx - alx) == blx + t * (brx - blx).
Let ha := aly + s * (ary - aly).
Let hb := bly + t * (bry - bly).
Hypothesis Hdiff : ~ ha == hb.

Lemma HV_ab : HV arx ary blx bly brx bry. Proof. intros K. lra. Qed.
Lemma HV_ba : HV brx bry alx aly arx ary. Proof. intros K. lra. Qed.

Theorem compare_segments_by_height : compare_segments st a b = Lt <-> ha < hb.
Proof.
  destruct (is_before st a b) eqn:Bab.
  - (* a is the earlier segment *)
    pose proof (compare_segments_vertical_order st a b ar br alx aly arx ary blx bly brx bry
                  Oa Ob La Pal Par Pbl Pbr Ha (or_introl Hb) s t Hab Bab Ncol_ab NC_ab HV_ab Hs Ht Hx) as V.
    unfold nx, ny in V. fold ha hb in V.
    destruct (compare_segments st a b); [destruct V| |]; split; intros K; try discriminate; try reflexivity; try lra.
  - destruct Hord as [K|Bba]; [discriminate|].
    assert (Hx' : blx + t * (brx - blx) == nx alx arx s) by (unfold nx; lra).
    pose proof (compare_segments_vertical_order_swapped st b a br ar blx bly brx bry alx aly arx ary
                  Ob Oa Lb Pbl Pbr Pal Par Hb (or_introl Ha) t s (not_eq_sym Hab) Bab Bba Ncol_ba NC_ba HV_ba Ht Hs Hx') as V.
    unfold ny in V. fold ha hb in V.
    destruct (compare_segments st a b); [destruct V| |]; split; intros K; try discriminate; try reflexivity; try lra.
Qed.

Corollary compare_segments_by_height_gt : compare_segments st a b = Gt <-> hb < ha.
Proof.
  pose proof compare_segments_by_height as H.
  pose proof (proj1 (compare_segments_eq_iff NQ st a b)) as E.
  destruct (compare_segments st a b) eqn:C.
  - exfalso. apply Hab. now apply E.
  - split; [discriminate|]. intros K. assert (ha < hb) by (apply H; reflexivity). lra.
  - split; [intros _|reflexivity]. destruct (Q_dec ha hb) as [[K|K]|K]; [|exact K|contradiction].
    assert (X : Gt = Lt) by (apply H; exact K). discriminate.
Qed.

End Height.
