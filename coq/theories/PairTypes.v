(** * The typing of coincident pieces by the intersection step (C16, last clause), exact instance.

    Two left events of different operands whose segments overlap and whose LEFT end points
    coincide (this is how every coincident piece eventually meets its twin: after the overlap
    has been cut at its ends the two pieces start at one point): the step answers 2, types the
    second one [NonContributing] and the first one [SameTransition] when the two in/out flags
    agree, [DifferentTransition] otherwise — whether or not it also has to cut the longer one
    at the right end of the shorter one. *)
From Coq Require Import Bool List PArith NArith QArith Lqa Lia.
From GB Require Import Prim Num NumQ NumLaws NumLawsQ Event Intersect Cmp Heap Outcome Divide
  IntersectProofs FieldsProofs LinkProofs PiProofs SplitCover OnEdge OnEdgeFull PairResolve.
Local Open Scope Q_scope.

Lemma divide_segment_keeps_type cfg (s s' : sq NQ) (se_l : eid) (i : pt NQ) :
  wf NQ (sq_st s) ->
  divide_segment cfg s se_l i = Ok s' ->
  forall k, mapped NQ (sq_st s) k -> e_edge_type (getE (sq_st s') k) = e_edge_type (getE (sq_st s) k).
Proof.
  intros W. unfold divide_segment.
  destruct (c_debug cfg && negb (e_left (getE (sq_st s) se_l))); [discriminate|].
  destruct (e_other (getE (sq_st s) se_l)) as [se_r|] eqn:Or.
  2: { intros H; inversion H; subst. reflexivity. }
  rewrite bump_dead_exact.
  set (el := getE (sq_st s) se_l).
  destruct (alloc (sq_st s) (new_event (e_contour_id el) i false (Some se_l) (e_is_subject el) true)) as [st1 r] eqn:E1.
  destruct (alloc st1 (new_event (e_contour_id el) i true (Some se_r) (e_is_subject el) true)) as [st2 l] eqn:E2.
  assert (Hst1 : st1 = fst (alloc (sq_st s) (new_event (e_contour_id el) i false (Some se_l) (e_is_subject el) true))) by (rewrite E1; reflexivity).
  assert (Hst2 : st2 = fst (alloc st1 (new_event (e_contour_id el) i true (Some se_r) (e_is_subject el) true))) by (rewrite E2; reflexivity).
  destruct (c_debug cfg && negb (is_before st2 se_l r)); [discriminate|].
  intros H; inversion H; subst s'; clear H. cbn [sq_st]. intros k Mk.
  assert (Keep : forall (sto : store NQ) j f q, (forall e, e_edge_type (f e) = e_edge_type e) ->
            e_edge_type (getE (upd sto j f) q) = e_edge_type (getE sto q)).
  { intros sto j f q Hf. destruct (Pos.eq_dec j q) as [->|Hn].
    - rewrite getE_upd_same. apply Hf.
    - now rewrite getE_upd_other. }
  assert (N1 : k <> st_next (sq_st s)) by (intros ->; apply (fresh_unmapped NQ _ W); exact Mk).
  assert (N2 : k <> st_next st1).
  { rewrite Hst1, next_alloc. pose proof (W _ Mk). intros ->. lia. }
  rewrite !Keep by (intros; reflexivity).
  destruct (negb (is_before st2 l se_r)); [rewrite !Keep by (intros; reflexivity)|];
    rewrite Hst2, (getE_alloc_old NQ st1 _ k N2), Hst1, (getE_alloc_old NQ (sq_st s) _ k N1); reflexivity.
Qed.

Section Types.
Variable edges : list edge.
Variable cfg : config.

Theorem pi_overlap_types (s s' : sq NQ) (se1 se2 other1 other2 : eid) (code : nat) (ia ib : pt NQ)
        (p1x p1y o1x o1y p2x p2y o2x o2y : Q) :
  sqinv NQ s -> mapped NQ (sq_st s) se1 -> mapped NQ (sq_st s) se2 ->
  e_other (getE (sq_st s) se1) = Some other1 -> e_other (getE (sq_st s) se2) = Some other2 ->
  e_point (getE (sq_st s) se1) = fpt p1x p1y -> e_point (getE (sq_st s) other1) = fpt o1x o1y ->
  e_point (getE (sq_st s) se2) = fpt p2x p2y -> e_point (getE (sq_st s) other2) = fpt o2x o2y ->
  e_is_subject (getE (sq_st s) se1) <> e_is_subject (getE (sq_st s) se2) ->
  intersection (fpt p1x p1y) (fpt o1x o1y) (fpt p2x p2y) (fpt o2x o2y) = LOverlap ia ib ->
  qeqp p1x p1y p2x p2y ->
  possible_intersection cfg s se1 se2 = Ok (s', code) ->
  code = 2%nat /\
  e_edge_type (getE (sq_st s') se2) = NonContributing /\
  e_edge_type (getE (sq_st s') se1) =
    (if eqb (e_in_out (getE (sq_st s) se1)) (e_in_out (getE (sq_st s) se2)) then SameTransition else DifferentTransition).
Proof.
  intros S M1 M2 O1 O2 P1 Q1 P2 Q2 Hsub EI LC. pose proof S as [[W L] Q].
  assert (N12 : se1 <> se2) by (intros K; apply Hsub; rewrite K; reflexivity).
  unfold possible_intersection. rewrite O1, O2. unfold point_of. rewrite P1, Q1, P2, Q2, EI.
  destruct (eqb (e_is_subject (getE (sq_st s) se1)) (e_is_subject (getE (sq_st s) se2))) eqn:Esub;
    [apply eqb_prop in Esub; contradiction|].
  apply pt_eq_fpt in LC. rewrite LC.
  set (ty := if eqb (e_in_out (getE (sq_st s) se1)) (e_in_out (getE (sq_st s) se2)) then SameTransition else DifferentTransition).
  set (st1 := upd (sq_st s) se2 (fun e => set_edge_type e NonContributing)).
  set (st2 := upd st1 se1 (fun e => set_edge_type e ty)).
  assert (T1 : e_edge_type (getE st2 se1) = ty) by (unfold st2; rewrite getE_upd_same; reflexivity).
  assert (T2 : e_edge_type (getE st2 se2) = NonContributing).
  { unfold st2. rewrite getE_upd_other by exact N12. unfold st1. rewrite getE_upd_same. reflexivity. }
  assert (M1' : mapped NQ st1 se1) by (apply mapped_upd; now right).
  destruct (sqinv_set_edge_type NQ s se2 NonContributing S M2) as [Sa Ga].
  destruct (sqinv_set_edge_type NQ (mkSQ st1 (sq_q s)) se1 ty Sa M1') as [Sb Gb]. cbn [sq_st sq_q] in Sb, Gb. fold st2 in Sb, Gb.
  assert (W2 : wf NQ st2) by (destruct Sb as [[X _] _]; exact X).
  assert (G2 : forall k, mapped NQ (sq_st s) k -> mapped NQ st2 k) by (intros k Mk; apply Gb, Ga, Mk).
  destruct (pt_eq (fpt o1x o1y) (fpt o2x o2y)) eqn:RC.
  - cbn [negb app obind]. fold ty. fold st1. fold st2. intros H; inversion H; subst s' code. cbn [sq_st]. auto.
  - cbn [negb app]. fold ty. fold st1. fold st2.
    destruct (ev_lt (sq_st s) other1 other2); cbn [nth_ev nth fst snd].
    + destruct (divide_segment cfg (mkSQ st2 (sq_q s)) se1 _) as [s3|site|] eqn:Dv; cbn [obind]; try discriminate.
      intros H; inversion H; subst s' code.
      pose proof (divide_segment_keeps_type cfg (mkSQ st2 (sq_q s)) s3 se1 _ W2 Dv) as K. cbn [sq_st] in K.
      split; [reflexivity|]. rewrite (K se2 (G2 _ M2)), (K se1 (G2 _ M1)). auto.
    + destruct (divide_segment cfg (mkSQ st2 (sq_q s)) se2 _) as [s3|site|] eqn:Dv; cbn [obind]; try discriminate.
      intros H; inversion H; subst s' code.
      pose proof (divide_segment_keeps_type cfg (mkSQ st2 (sq_q s)) s3 se2 _ W2 Dv) as K. cbn [sq_st] in K.
      split; [reflexivity|]. rewrite (K se2 (G2 _ M2)), (K se1 (G2 _ M1)). auto.
Qed.

End Types.
