(** * A verified per-run certificate for C04 on exact runs: every edge of every result ring lies
    on ONE input edge, every result vertex is an end point of an input edge or a common point of
    two input edges reported by the exact kernel, every ring is closed, has at least three
    distinct vertices, no repeated consecutive vertex and non-zero area, and (when the rings
    were assembled by the operation) is counter-clockwise.  Evaluated on the IMPLEMENTATION's
    own result (converted exactly), with the operands' edges as the check reads them. *)
From Coq Require Import Bool List PArith NArith QArith Lqa Lia.
From GB Require Import Prim Num NumQ NumLaws NumLawsQ Intersect IntersectProofs SplitCover OnEdge PairResolve Cert13 Cert13Cover.
Import ListNotations.
Local Open Scope Q_scope.

Definition qp := (Q * Q)%type.
Definition peqb (p q : qp) : bool := qeqpb (fst p) (snd p) (fst q) (snd q).

(** [p] lies on the closed edge [e] *)
Definition pt_on (e : edge) (p : qp) : bool :=
  let '(ax, ay, (bx, by_), _) := e in
  negb (qeqpb ax ay bx by_) && on_lineb ax ay bx by_ (fst p) (snd p) &&
  Qle_bool 0 (par ax ay bx by_ (fst p) (snd p)) && Qle_bool (par ax ay bx by_ (fst p) (snd p)) 1.

Lemma pt_on_sound e p : pt_on e p = true ->
  let '(ax, ay, (bx, by_), _) := e in on_seg ax ay bx by_ (fst p) (snd p).
Proof.
  destruct e as [[[ax ay] [bx by_]] se]. unfold pt_on. intros H.
  apply andb_prop in H. destruct H as [H H4]. apply andb_prop in H. destruct H as [H H3]. apply andb_prop in H. destruct H as [H1 H2].
  apply negb_true_iff in H1. assert (Hd : ~ qeqp ax ay bx by_) by (intros K; apply qeqpb_spec in K; congruence).
  apply Qle_bool_iff in H3, H4.
  destruct (on_line_par ax ay bx by_ (fst p) (snd p) Hd H2) as [E1 E2]. unfold at_par in E1, E2. cbn [fst snd] in E1, E2.
  exists (par ax ay bx by_ (fst p) (snd p)). split; [split; assumption | split; assumption].
Qed.

Definition edge_on (E : list edge) (a b : qp) : bool := existsb (fun e => pt_on e a && pt_on e b) E.

(** an end point of an input edge, or a common point of two input edges found by the kernel *)
Definition is_endpoint (E : list edge) (v : qp) : bool :=
  existsb (fun e => let '(ax, ay, (bx, by_), _) := e in peqb v (ax, ay) || peqb v (bx, by_)) E.
Definition meets_at (e f : edge) (v : qp) : bool :=
  let '(ax, ay, (bx, by_), _) := e in
  let '(cx, cy, (dx, dy), _) := f in
  negb (qeqpb ax ay bx by_) &&
  match intersection (fpt ax ay) (fpt bx by_) (fpt cx cy) (fpt dx dy) with
  | LNone => false
  | LPoint p => pt_eq p (fpt (fst v) (snd v))
  | LOverlap p q => pt_eq p (fpt (fst v) (snd v)) || pt_eq q (fpt (fst v) (snd v))
  end.
Definition vertex_ok (E : list edge) (v : qp) : bool :=
  is_endpoint E v || existsb (fun e => existsb (fun f => meets_at e f v) E) E.

Lemma meets_at_sound e f v : meets_at e f v = true ->
  let '(ax, ay, (bx, by_), _) := e in let '(cx, cy, (dx, dy), _) := f in
  on_both ax ay bx by_ cx cy dx dy (fst v) (snd v).
Proof.
  destruct e as [[[ax ay] [bx by_]] se], f as [[[cx cy] [dx dy]] sf]. unfold meets_at. intros H.
  apply andb_prop in H. destruct H as [Hd H]. apply negb_true_iff in Hd.
  assert (Hne : ~ (bx == ax /\ by_ == ay)).
  { intros [K1 K2]. assert (qeqpb ax ay bx by_ = true) by (apply qeqpb_spec; split; symmetry; assumption). congruence. }
  pose proof (@intersection_exact_all ax ay bx by_ cx cy dx dy Hne) as EX.
  assert (T : forall x y, on_both ax ay bx by_ cx cy dx dy x y -> pt_eq (fpt x y) (fpt (fst v) (snd v)) = true ->
              on_both ax ay bx by_ cx cy dx dy (fst v) (snd v)).
  { intros x y (s & t & Hs & Ht & X1 & Y1 & X2 & Y2) K. apply pt_eq_fpt in K. destruct K as [K1 K2].
    exists s, t. repeat split; try tauto; lra. }
  destruct (intersection (fpt ax ay) (fpt bx by_) (fpt cx cy) (fpt dx dy)) as [|p|p q]; [discriminate| |].
  - cbn [exact_result] in EX. destruct EX as (x & y & -> & Hon). exact (T x y Hon H).
  - cbn [exact_result] in EX. destruct EX as (x & y & x' & y' & -> & -> & H1 & H2).
    apply orb_true_iff in H. destruct H as [H|H]; [exact (T x y H1 H) | exact (T x' y' H2 H)].
Qed.

(** ** rings *)
Fixpoint area2 (first prev : qp) (rest : list qp) : Q :=
  match rest with
  | [] => fst prev * snd first - fst first * snd prev
  | p :: r => fst prev * snd p - fst p * snd prev + area2 first p r
  end.
Definition ring_area2 (r : list qp) : Q := match r with [] => 0 | p :: rest => area2 p p rest end.

Fixpoint count_distinct (seen : list qp) (l : list qp) : nat :=
  match l with
  | [] => length seen
  | p :: r => if existsb (peqb p) seen then count_distinct seen r else count_distinct (p :: seen) r
  end.

(** [r] without its repeated closing point; consecutive pairs including the closing edge *)
Fixpoint edges_ok (E : list edge) (first prev : qp) (rest : list qp) : bool :=
  match rest with
  | [] => negb (peqb prev first) && edge_on E prev first
  | p :: r => negb (peqb prev p) && edge_on E prev p && edges_ok E first p r
  end.

Definition open_ring (r : list qp) : option (list qp) :=
  match r with
  | [] => None
  | h :: t => if peqb h (last t h) then (if Nat.leb 3 (length t) then Some (removelast (h :: t)) else None) else None
  end.

Definition ring_ok (assembled : bool) (E : list edge) (r : list qp) : bool :=
  match open_ring r with
  | Some (p :: rest) =>
      Nat.leb 3 (count_distinct [] (p :: rest)) &&
      negb (Qeq_bool (ring_area2 (p :: rest)) 0) &&
      (negb assembled || Qle_bool 0 (ring_area2 (p :: rest))) &&
      edges_ok E p p rest && forallb (vertex_ok E) (p :: rest)
  | _ => false
  end.

Definition cert04 (assembled : bool) (E : list edge) (R : list (list (list qp))) : bool :=
  forallb (fun poly => forallb (ring_ok assembled E) poly) R.

(** ** soundness of the geometric clauses *)
Definition lies_on_input (E : list edge) (a b : qp) : Prop :=
  exists ax ay bx by_ se, In (ax, ay, (bx, by_), se) E /\ on_seg ax ay bx by_ (fst a) (snd a) /\ on_seg ax ay bx by_ (fst b) (snd b).
Definition from_inputs (E : list edge) (v : qp) : Prop :=
  (exists ax ay bx by_ se, In (ax, ay, (bx, by_), se) E /\ (qeqp (fst v) (snd v) ax ay \/ qeqp (fst v) (snd v) bx by_)) \/
  (exists ax ay bx by_ se cx cy dx dy sf, In (ax, ay, (bx, by_), se) E /\ In (cx, cy, (dx, dy), sf) E /\
     on_both ax ay bx by_ cx cy dx dy (fst v) (snd v)).

Lemma edge_on_sound E a b : edge_on E a b = true -> lies_on_input E a b.
Proof.
  unfold edge_on. intros H. apply existsb_exists in H. destruct H as (e & He & H). apply andb_prop in H. destruct H as [H1 H2].
  pose proof (pt_on_sound e a H1) as S1. pose proof (pt_on_sound e b H2) as S2.
  destruct e as [[[ax ay] [bx by_]] se]. exists ax, ay, bx, by_, se. auto.
Qed.

Lemma vertex_ok_sound E v : vertex_ok E v = true -> from_inputs E v.
Proof.
  unfold vertex_ok. intros H. apply orb_true_iff in H. destruct H as [H|H].
  - left. unfold is_endpoint in H. apply existsb_exists in H. destruct H as (e & He & H).
    destruct e as [[[ax ay] [bx by_]] se]. exists ax, ay, bx, by_, se. split; [exact He|].
    apply orb_true_iff in H. unfold peqb in H. cbn [fst snd] in H. destruct H as [H|H]; apply qeqpb_spec in H; auto.
  - right. apply existsb_exists in H. destruct H as (e & He & H). apply existsb_exists in H. destruct H as (f & Hf & H).
    pose proof (meets_at_sound e f v H) as S.
    destruct e as [[[ax ay] [bx by_]] se], f as [[[cx cy] [dx dy]] sf].
    exists ax, ay, bx, by_, se, cx, cy, dx, dy, sf. auto.
Qed.

(** consecutive points of the open ring, cyclically *)
Fixpoint cyc_pairs (first prev : qp) (rest : list qp) : list (qp * qp) :=
  match rest with
  | [] => [(prev, first)]
  | p :: r => (prev, p) :: cyc_pairs first p r
  end.

Lemma edges_ok_sound E first : forall rest prev, edges_ok E first prev rest = true ->
  forall a b, In (a, b) (cyc_pairs first prev rest) -> peqb a b = false /\ lies_on_input E a b.
Proof.
  induction rest as [|p r IH]; intros prev H a b Hin; cbn [edges_ok cyc_pairs] in *.
  - destruct Hin as [K|[]]. inversion K; subst. apply andb_prop in H. destruct H as [H1 H2].
    split; [now apply negb_true_iff | now apply edge_on_sound].
  - apply andb_prop in H. destruct H as [H H3]. apply andb_prop in H. destruct H as [H1 H2].
    destruct Hin as [K|Hin]; [inversion K; subst; split; [now apply negb_true_iff | now apply edge_on_sound] | exact (IH p H3 a b Hin)].
Qed.

Theorem cert04_sound (assembled : bool) (E : list edge) (R : list (list (list qp))) :
  cert04 assembled E R = true ->
  forall poly r, In poly R -> In r poly ->
  exists p rest, open_ring r = Some (p :: rest) /\
    (3 <= count_distinct [] (p :: rest))%nat /\ ~ ring_area2 (p :: rest) == 0 /\
    (assembled = true -> 0 < ring_area2 (p :: rest)) /\
    (forall a b, In (a, b) (cyc_pairs p p rest) -> peqb a b = false /\ lies_on_input E a b) /\
    (forall v, In v (p :: rest) -> from_inputs E v).
Proof.
  unfold cert04. intros H poly r Hp Hr. rewrite forallb_forall in H. specialize (H poly Hp).
  rewrite forallb_forall in H. specialize (H r Hr). unfold ring_ok in H.
  destruct (open_ring r) as [[|p rest]|] eqn:Eo; try discriminate.
  apply andb_prop in H. destruct H as [H H5]. apply andb_prop in H. destruct H as [H H4].
  apply andb_prop in H. destruct H as [H H3]. apply andb_prop in H. destruct H as [H1 H2].
  exists p, rest. split; [reflexivity|]. apply Nat.leb_le in H1. apply negb_true_iff in H2. apply Qeq_bool_neq in H2.
  split; [exact H1|]. split; [exact H2|]. split.
  - intros ->. cbn [negb orb] in H3. apply Qle_bool_iff in H3. lra.
  - split; [exact (edges_ok_sound E p rest p H4)|].
    intros v Hv. rewrite forallb_forall in H5. apply vertex_ok_sound. exact (H5 v Hv).
Qed.

Example cert04_example :
  let E := [(0, 0, (4, 0), true); (4, 0, (4, 4), true); (4, 4, (0, 4), true); (0, 4, (0, 0), true);
            (2, 2, (6, 2), false); (6, 2, (6, 6), false); (6, 6, (2, 6), false); (2, 6, (2, 2), false)] in
  cert04 true E [[[(2, 2); (4, 2); (4, 4); (2, 4); (2, 2)]]] = true /\
  cert04 true E [[[(2, 2); (2, 4); (4, 4); (4, 2); (2, 2)]]] = false /\
  cert04 false E [[[(2, 2); (2, 4); (4, 4); (4, 2); (2, 2)]]] = true /\
  cert04 true E [[[(2, 2); (4, 2); (4, 5); (2, 4); (2, 2)]]] = false /\
  cert04 true E [[[(2, 2); (4, 2); (3, 3); (2, 2)]]] = false.
Proof. vm_compute. repeat split. Qed.
