(** * Order laws an instance of [Num] may satisfy on its non-NaN values.
    Theorems that only use comparisons, min and max are proved for every instance that
    satisfies them ([NumLawsQ.v] proves them for the exact instance). *)
From Coq Require Import Bool.
From GB Require Import Num.
Set Implicit Arguments.

(** laws of one carrier with its comparisons, min and max; [ok] singles out the values on
    which the order is total (everything but NaN) *)
Record OrderLaws (T : Type) (ok : T -> Prop) (lt le eq : T -> T -> bool) (mn mx : T -> T -> T) : Prop := {
  ol_le_total : forall a b, ok a -> ok b -> le a b = negb (lt b a);
  ol_lt_le : forall a b, lt a b = true -> le a b = true;
  ol_lt_irrefl : forall a, lt a a = false;
  ol_le_trans : forall a b c, ok a -> ok b -> ok c -> le a b = true -> le b c = true -> le a c = true;
  ol_eq_le : forall a b, ok a -> ok b -> eq a b = (le a b && le b a);
  ol_min_ok : forall a b, ok a -> ok b -> ok (mn a b);
  ol_max_ok : forall a b, ok a -> ok b -> ok (mx a b);
  ol_min_l : forall a b, ok a -> ok b -> le (mn a b) a = true;
  ol_min_r : forall a b, ok a -> ok b -> le (mn a b) b = true;
  ol_min_glb : forall a b c, ok a -> ok b -> ok c -> le c a = true -> le c b = true -> le c (mn a b) = true;
  ol_max_l : forall a b, ok a -> ok b -> le a (mx a b) = true;
  ol_max_r : forall a b, ok a -> ok b -> le b (mx a b) = true;
  ol_max_lub : forall a b c, ok a -> ok b -> ok c -> le a c = true -> le b c = true -> le (mx a b) c = true
}.

Record NumLaws (N : Num) : Type := {
  okX : X N -> Prop;
  okY : Y N -> Prop;
  nl_X : OrderLaws okX (ltX N) (leX N) (eqX N) (minX N) (maxX N);
  nl_Y : OrderLaws okY (ltY N) (leY N) (eqY N) (minY N) (maxY N);
  nl_pinfX_ok : okX (pinfX N);
  nl_ninfX_ok : okX (ninfX N);
  nl_pinfY_ok : okY (pinfY N);
  nl_ninfY_ok : okY (ninfY N);
  nl_pinfX_top : forall a, okX a -> leX N a (pinfX N) = true;
  nl_ninfX_bot : forall a, okX a -> leX N (ninfX N) a = true;
  nl_pinfY_top : forall a, okY a -> leY N a (pinfY N) = true;
  nl_ninfY_bot : forall a, okY a -> leY N (ninfY N) a = true;
  nl_infX_strict : ltX N (ninfX N) (pinfX N) = true;
  nl_infY_strict : ltY N (ninfY N) (pinfY N) = true
}.
