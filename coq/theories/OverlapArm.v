(** * Where [possible_intersection] puts new events (C16), exact instance, all arms: every event
    the step creates lies at a point that is on BOTH segments — the exact intersection point in
    the crossing case, and in the overlap case an end point of one segment lying inside the
    other, i.e. an end of the common part.  (The case analysis is that of [OnEdgeFull].) *)
From Coq Require Import Bool List PArith NArith QArith Lqa Lia.
From GB Require Import Prim Num NumQ NumLaws NumLawsQ Event Intersect Cmp Heap Outcome Divide Fields FillQueue
  Subdivide IntersectProofs FieldsProofs SplayKeys LinkProofs PiProofs SplitCover OnEdge OnEdgeFull.
Import ListNotations.
Local Open Scope Q_scope.

Section Overlap.
Variable edges : list edge.
Notation store := (store NQ).

(** the events of [st'] that did not exist in [s] lie on both segments (se1, se2 as they are in [s]) *)
Definition newpts (s : sq NQ) (se1 se2 : eid) (st' : store) : Prop :=
  forall k, mapped NQ st' k -> ~ mapped NQ (sq_st s) k ->
  forall other1 other2 p1x p1y o1x o1y p2x p2y o2x o2y,
    e_other (getE (sq_st s) se1) = Some other1 -> e_other (getE (sq_st s) se2) = Some other2 ->
    e_point (getE (sq_st s) se1) = fpt p1x p1y -> e_point (getE (sq_st s) other1) = fpt o1x o1y ->
    e_point (getE (sq_st s) se2) = fpt p2x p2y -> e_point (getE (sq_st s) other2) = fpt o2x o2y ->
    exists x y, e_point (getE st' k) = fpt x y /\ on_both p1x p1y o1x o1y p2x p2y o2x o2y x y.

Lemma divo cfg (s0 : sq NQ) (se1 se2 other1 other2 : eid) (p1x p1y o1x o1y p2x p2y o2x o2y : Q) :
  e_other (getE (sq_st s0) se1) = Some other1 -> e_other (getE (sq_st s0) se2) = Some other2 ->
  e_point (getE (sq_st s0) se1) = fpt p1x p1y -> e_point (getE (sq_st s0) other1) = fpt o1x o1y ->
  e_point (getE (sq_st s0) se2) = fpt p2x p2y -> e_point (getE (sq_st s0) other2) = fpt o2x o2y ->
  forall (s s' : sq NQ) (se_l se_r : eid) (lx ly rx ry ix iy : Q),
  sqinv NQ s -> einv2 edges (sq_st s) -> newpts s0 se1 se2 (sq_st s) -> mapped NQ (sq_st s) se_l ->
  e_other (getE (sq_st s) se_l) = Some se_r ->
  e_left (getE (sq_st s) se_l) = true ->
  e_point (getE (sq_st s) se_l) = fpt lx ly -> e_point (getE (sq_st s) se_r) = fpt rx ry ->
  strictly_inside lx ly rx ry ix iy ->
  on_both p1x p1y o1x o1y p2x p2y o2x o2y ix iy ->
  divide_segment cfg s se_l (fpt ix iy) = Ok s' ->
  einv2 edges (sq_st s') /\
  (forall k, mapped NQ (sq_st s) k -> e_left (getE (sq_st s') k) = e_left (getE (sq_st s) k)) /\
  (forall l, e_other (getE (sq_st s') se_r) = Some l ->
     e_left (getE (sq_st s') l) = true /\ e_point (getE (sq_st s') l) = fpt ix iy /\
     e_other (getE (sq_st s') l) = Some se_r /\ ~ mapped NQ (sq_st s) l) /\
  newpts s0 se1 se2 (sq_st s').
Proof.
  intros O1 O2 P1 Q1 P2 Q2 s s' se_l se_r lx ly rx ry ix iy Sq E Nw Ml Or Ll Pl Pr Hin HB Hd.
  destruct (divide_segment_einv2 edges cfg s s' se_l se_r lx ly rx ry ix iy Sq E Ml Or Ll Pl Pr Hin Hd) as (E' & F' & Hl).
  split; [exact E'|]. split; [exact F'|]. split; [exact Hl|].
  pose proof Sq as [[W L] Q].
  intros k Mk Nk0 a1 a2 c1 c2 c3 c4 c5 c6 c7 c8 A1 A2 B1 B2 B3 B4.
  assert (a1 = other1) by congruence. assert (a2 = other2) by congruence. subst a1 a2.
  rewrite P1 in B1. rewrite Q1 in B2. rewrite P2 in B3. rewrite Q2 in B4.
  apply fpt_inj in B1, B2, B3, B4. destruct B1 as [<- <-], B2 as [<- <-], B3 as [<- <-], B4 as [<- <-].
  destruct (mapped_dec NQ (sq_st s) k) as [Mks|Nks].
  - rewrite (divide_segment_keeps_points cfg s s' se_l (fpt ix iy) W Hd k Mks).
    exact (Nw k Mks Nk0 other1 other2 _ _ _ _ _ _ _ _ O1 O2 P1 Q1 P2 Q2).
  - exists ix, iy. split; [|exact HB].
    exact (divide_segment_new_events_at_point cfg s s' se_l (fpt ix iy) L Ml Hd k Mk Nks).
Qed.

Definition peo (s : sq NQ) (se1 se2 : eid) (r : outcome (sq NQ * nat)) : Prop :=
  match r with
  | Ok (s', _) => einv2 edges (sq_st s') /\ FP (sq_st s) (sq_st s') /\ newpts s se1 se2 (sq_st s')
  | _ => True
  end.

Lemma peo_step cfg (s0 : sq NQ) (se1 se2 other1 other2 : eid) (p1x p1y o1x o1y p2x p2y o2x o2y : Q) :
  e_other (getE (sq_st s0) se1) = Some other1 -> e_other (getE (sq_st s0) se2) = Some other2 ->
  e_point (getE (sq_st s0) se1) = fpt p1x p1y -> e_point (getE (sq_st s0) other1) = fpt o1x o1y ->
  e_point (getE (sq_st s0) se2) = fpt p2x p2y -> e_point (getE (sq_st s0) other2) = fpt o2x o2y ->
  forall (s s' : sq NQ) (T Tr : eid) (lx ly rx ry ix iy : Q),
  sqinv NQ s -> einv2 edges (sq_st s) ->
  (forall k, mapped NQ (sq_st s0) k -> mapped NQ (sq_st s) k /\ e_left (getE (sq_st s) k) = e_left (getE (sq_st s0) k)) ->
  newpts s0 se1 se2 (sq_st s) ->
  mapped NQ (sq_st s) T -> e_other (getE (sq_st s) T) = Some Tr -> e_left (getE (sq_st s) T) = true ->
  e_point (getE (sq_st s) T) = fpt lx ly -> e_point (getE (sq_st s) Tr) = fpt rx ry ->
  strictly_inside lx ly rx ry ix iy ->
  on_both p1x p1y o1x o1y p2x p2y o2x o2y ix iy ->
  divide_segment cfg s T (fpt ix iy) = Ok s' ->
  einv2 edges (sq_st s') /\ FP (sq_st s0) (sq_st s') /\ newpts s0 se1 se2 (sq_st s').
Proof.
  intros O1 O2 P1 Q1 P2 Q2 s s' T Tr lx ly rx ry ix iy Sq E H0 Nw MT OT LT PT PTr Hin HB Hd.
  destruct (divo cfg s0 se1 se2 other1 other2 _ _ _ _ _ _ _ _ O1 O2 P1 Q1 P2 Q2 s s' T Tr lx ly rx ry ix iy Sq E Nw MT OT LT PT PTr Hin HB Hd)
    as (E' & F' & _ & Nw').
  split; [exact E'|]. split; [|exact Nw'].
  intros k Mk. destruct (H0 k Mk) as [Mk' Fk]. rewrite (F' k Mk'). exact Fk.
Qed.

Theorem possible_intersection_peo cfg (s : sq NQ) (se1 se2 : eid) :
  sqinv NQ s -> einv2 edges (sq_st s) -> mapped NQ (sq_st s) se1 -> mapped NQ (sq_st s) se2 ->
  e_left (getE (sq_st s) se1) = true -> e_left (getE (sq_st s) se2) = true ->
  peo s se1 se2 (possible_intersection cfg s se1 se2).
Proof.
  intros S E M1 M2 Lf1 Lf2. pose proof S as [[W L] Q].
  assert (Nw0 : newpts s se1 se2 (sq_st s)) by (intros k Mk Nk; contradiction).
  assert (Same : forall k, mapped NQ (sq_st s) k -> mapped NQ (sq_st s) k /\ e_left (getE (sq_st s) k) = e_left (getE (sq_st s) k))
    by (intros k Mk; split; [exact Mk | reflexivity]).
  assert (Good0 : peo s se1 se2 (Ok (s, 0%nat))) by (cbn; split; [exact E | split; [apply FP_refl | exact Nw0]]).
  unfold possible_intersection.
  destruct (L se1 M1) as (other1 & O1 & Hne1 & Mo1 & Back1 & _).
  destruct (L se2 M2) as (other2 & O2 & Hne2 & Mo2 & Back2 & _).
  rewrite O1, O2.
  destruct (E se1 other1 M1 O1) as (p1x & p1y & o1x & o1y & a1x & a1y & b1x & b1y & P1 & Q1 & D1 & I1 & S1a & S1b & F1 & Lx1).
  destruct (E se2 other2 M2 O2) as (p2x & p2y & o2x & o2y & a2x & a2y & b2x & b2y & P2 & Q2 & D2 & I2 & S2a & S2b & F2 & Lx2).
  rewrite Lf1 in F1. rewrite Lf2 in F2. cbn [negb] in F1, F2. specialize (Lx1 Lf1). specialize (Lx2 Lf2).
  assert (N2o : se2 <> other1) by (intros K; rewrite K in Lf2; congruence).
  assert (N1o : se1 <> other2) by (intros K; rewrite K in Lf1; congruence).
  unfold point_of. rewrite P1, Q1, P2, Q2.
  assert (Hne : ~ (o1x == p1x /\ o1y == p1y)) by (intros [K1 K2]; apply D1; split; symmetry; assumption).
  pose proof (@intersection_exact_all p1x p1y o1x o1y p2x p2y o2x o2y Hne) as EX.
  destruct (intersection (fpt p1x p1y) (fpt o1x o1y) (fpt p2x p2y) (fpt o2x o2y)) as [|inter|ia ib] eqn:EI.
  - exact Good0.
  - (* one common point *)
    cbn [exact_result] in EX. destruct EX as (x & y & -> & Hon).
    destruct (on_both_seg1 _ _ _ _ _ _ _ _ _ _ Hon) as [On1 On2].
    destruct (pt_eq (fpt p1x p1y) (fpt p2x p2y) || pt_eq (fpt o1x o1y) (fpt o2x o2y)) eqn:Eends; [exact Good0|].
    apply orb_false_iff in Eends. destruct Eends as [Ep Eo].
    assert (N21 : se2 <> se1).
    { intros K. rewrite K in P2. rewrite P1 in P2. apply fpt_inj in P2. destruct P2 as [<- <-].
      apply pt_eq_fpt_false in Ep. apply Ep. split; reflexivity. }
    set (c1 := negb (pt_eq (fpt p1x p1y) (fpt x y)) && negb (pt_eq (fpt o1x o1y) (fpt x y))).
    set (c2 := negb (pt_eq (fpt p2x p2y) (fpt x y)) && negb (pt_eq (fpt o2x o2y) (fpt x y))).
    assert (In1 : c1 = true -> strictly_inside p1x p1y o1x o1y x y).
    { unfold c1. intros K. apply andb_prop in K. destruct K as [K1 K2].
      apply negb_true_iff in K1, K2. apply pt_eq_fpt_false in K1, K2.
      split; [exact On1|]. split; intros K; [apply K1 | apply K2]; now apply qeqp_sym. }
    assert (In2 : c2 = true -> strictly_inside p2x p2y o2x o2y x y).
    { unfold c2. intros K. apply andb_prop in K. destruct K as [K1 K2].
      apply negb_true_iff in K1, K2. apply pt_eq_fpt_false in K1, K2.
      split; [exact On2|]. split; intros K; [apply K1 | apply K2]; now apply qeqp_sym. }
    destruct c1 eqn:C1.
    + pose proof (divide_segment_inv NQ cfg s se1 (fpt x y) S M1) as DI.
      destruct (divide_segment cfg s se1 (fpt x y)) as [s1|site|] eqn:Dv1; cbn [obind]; [|exact I|exact I].
      destruct DI as [S1 G1].
      destruct (divo cfg s se1 se2 other1 other2 p1x p1y o1x o1y p2x p2y o2x o2y O1 O2 P1 Q1 P2 Q2 s s1 se1 other1 p1x p1y o1x o1y x y S E Nw0 M1 O1 Lf1 P1 Q1 (In1 eq_refl) Hon Dv1) as (E1 & Fl1 & _ & Nw1).
      destruct c2 eqn:C2.
      * destruct (divide_segment_shape NQ cfg s s1 se1 other1 (fpt x y) W M1 Mo1 Hne1 O1 Dv1)
          as (r & l & i' & _ & _ & _ & _ & _ & _ & _ & _ & _ & _ & Keep & KeepO).
        assert (O2' : e_other (getE (sq_st s1) se2) = Some other2) by (rewrite (KeepO se2 M2 N21 N2o); exact O2).
        assert (P2' : e_point (getE (sq_st s1) se2) = fpt p2x p2y) by (rewrite (Keep se2 M2); exact P2).
        assert (Q2' : e_point (getE (sq_st s1) other2) = fpt o2x o2y) by (rewrite (Keep other2 Mo2); exact Q2).
        destruct (divide_segment cfg s1 se2 (fpt x y)) as [s2|site|] eqn:Dv2; cbn [obind]; [|exact I|exact I].
        cbn [peo].
        assert (H01 : forall k, mapped NQ (sq_st s) k -> mapped NQ (sq_st s1) k /\ e_left (getE (sq_st s1) k) = e_left (getE (sq_st s) k))
          by (intros k Mk; split; [apply G1, Mk | apply Fl1, Mk]).
        assert (L2' : e_left (getE (sq_st s1) se2) = true) by (rewrite (Fl1 se2 M2); exact Lf2).
        exact (peo_step cfg s se1 se2 other1 other2 p1x p1y o1x o1y p2x p2y o2x o2y O1 O2 P1 Q1 P2 Q2 s1 s2 se2 other2 p2x p2y o2x o2y x y S1 E1 H01 Nw1 (G1 _ M2) O2' L2' P2' Q2' (In2 eq_refl) Hon Dv2).
      * cbn [obind peo]. split; [exact E1 | split; [exact Fl1 | exact Nw1]].
    + cbn [obind]. destruct c2 eqn:C2.
      * destruct (divide_segment cfg s se2 (fpt x y)) as [s2|site|] eqn:Dv2; cbn [obind]; [|exact I|exact I].
        cbn [peo]. exact (peo_step cfg s se1 se2 other1 other2 p1x p1y o1x o1y p2x p2y o2x o2y O1 O2 P1 Q1 P2 Q2 s s2 se2 other2 p2x p2y o2x o2y x y S E Same Nw0 M2 O2 Lf2 P2 Q2 (In2 eq_refl) Hon Dv2).
      * cbn [obind]. exact Good0.
  - (* an overlap *)
    destruct (eqb (e_is_subject (getE (sq_st s) se1)) (e_is_subject (getE (sq_st s) se2))); [exact Good0|].
    destruct (overlap_params _ _ _ _ _ _ _ _ _ _ Lx1 Lx2 EI) as (al & be & Hab & Ha1 & Hb0 & X2 & Y2 & X3 & Y3).
    (* the four points by their parameters on the first segment *)
    assert (Pp1 : has_param p1x p1y o1x o1y 0 p1x p1y) by (split; ring).
    assert (Po1 : has_param p1x p1y o1x o1y 1 o1x o1y) by (split; ring).
    assert (Pp2 : has_param p1x p1y o1x o1y al p2x p2y) by (split; assumption).
    assert (Po2 : has_param p1x p1y o1x o1y be o2x o2y) by (split; assumption).
    assert (OB : forall w x y, has_param p1x p1y o1x o1y w x y -> 0 <= w <= 1 -> al <= w <= be ->
                  on_both p1x p1y o1x o1y p2x p2y o2x o2y x y).
    { intros w x y [Wx Wy] W1 W2. exists w, ((w - al) / (be - al)). split; [exact W1|]. split.
      - split; [apply Qle_shift_div_l; lra | apply Qle_shift_div_r; lra].
      - repeat split; try assumption; rewrite X2, X3 || rewrite Y2, Y3; rewrite ?Wx, ?Wy; field; lra. }
    assert (N21 : pt_eq (fpt p1x p1y) (fpt p2x p2y) = false -> se2 <> se1).
    { intros Ep K. rewrite K in P2. rewrite P1 in P2. apply fpt_inj in P2. destruct P2 as [<- <-].
      apply pt_eq_fpt_false in Ep. apply Ep. split; reflexivity. }
    destruct (pt_eq (fpt p1x p1y) (fpt p2x p2y)) eqn:LC; destruct (pt_eq (fpt o1x o1y) (fpt o2x o2y)) eqn:RC.
    + (* both ends coincide: only edge types change *)
      cbn [negb app obind].
      set (ty := if eqb (e_in_out (getE (sq_st s) se1)) (e_in_out (getE (sq_st s) se2)) then SameTransition else DifferentTransition).
      set (st1 := upd (sq_st s) se2 (fun e => set_edge_type e NonContributing)).
      set (st2 := upd st1 se1 (fun e => set_edge_type e ty)).
      cbn [peo sq_st].
      assert (M1' : mapped NQ st1 se1) by (apply mapped_upd; now right).
      split; [|split].
      * apply (einv2_upd edges); [apply k2_set_edge_type | exact M1' |].
        apply (einv2_upd edges); [apply k2_set_edge_type | exact M2 | exact E].
      * intros k Mk.
        destruct (getE_upd_keeps_e2 st1 se1 (fun e => set_edge_type e ty) k (k2_set_edge_type ty)) as (_ & _ & _ & A).
        destruct (getE_upd_keeps_e2 (sq_st s) se2 (fun e => set_edge_type e NonContributing) k (k2_set_edge_type NonContributing)) as (_ & _ & _ & B).
        fold st1 in B. fold st2 in A. congruence.
      * intros k Mk Nk. exfalso. apply Nk. unfold st2, st1 in Mk. rewrite !mapped_upd in Mk. destruct Mk as [->|[->|Mk]]; assumption.
    + (* left ends coincide: the longer segment is divided at the right end of the shorter one *)
      apply pt_eq_fpt in LC. apply pt_eq_fpt_false in RC.
      assert (Al0 : al == 0) by (symmetry; apply (qeqp_params p1x p1y o1x o1y Lx1 0 al p1x p1y p2x p2y Pp1 Pp2); exact LC).
      assert (Be1 : ~ be == 1) by (intros K; apply RC; apply (qeqp_params p1x p1y o1x o1y Lx1 1 be o1x o1y o2x o2y Po1 Po2); symmetry; exact K).
      cbn [negb app].
      set (ty := if eqb (e_in_out (getE (sq_st s) se1)) (e_in_out (getE (sq_st s) se2)) then SameTransition else DifferentTransition).
      set (st1 := upd (sq_st s) se2 (fun e => set_edge_type e NonContributing)).
      set (st2 := upd st1 se1 (fun e => set_edge_type e ty)).
      assert (K2 : forall k, e_point (getE st2 k) = e_point (getE (sq_st s) k) /\ e_other (getE st2 k) = e_other (getE (sq_st s) k)
                             /\ e_left (getE st2 k) = e_left (getE (sq_st s) k)).
      { intros k.
        destruct (getE_upd_keeps_e2 st1 se1 (fun e => set_edge_type e ty) k (k2_set_edge_type ty)) as (A1 & A2 & _ & A4).
        destruct (getE_upd_keeps_e2 (sq_st s) se2 (fun e => set_edge_type e NonContributing) k (k2_set_edge_type NonContributing)) as (B1 & B2 & _ & B4).
        fold st1 in B1, B2, B4. fold st2 in A1, A2, A4. repeat split; congruence. }
      assert (M1' : mapped NQ st1 se1) by (apply mapped_upd; now right).
      assert (E2' : einv2 edges st2).
      { apply (einv2_upd edges); [apply k2_set_edge_type | exact M1' |].
        apply (einv2_upd edges); [apply k2_set_edge_type | exact M2 | exact E]. }
      assert (Nw2 : newpts s se1 se2 (sq_st (mkSQ st2 (sq_q s)))).
      { cbn [sq_st]. intros k Mk Nk. exfalso. apply Nk. unfold st2, st1 in Mk. rewrite !mapped_upd in Mk. destruct Mk as [->|[->|Mk]]; assumption. }
      destruct (sqinv_set_edge_type NQ s se2 NonContributing S M2) as [Sa Ga].
      destruct (sqinv_set_edge_type NQ (mkSQ st1 (sq_q s)) se1 ty Sa M1') as [Sb Gb]. cbn [sq_st sq_q] in Sb, Gb. fold st2 in Sb, Gb.
      assert (H0 : forall k, mapped NQ (sq_st s) k -> mapped NQ (sq_st (mkSQ st2 (sq_q s))) k /\ e_left (getE (sq_st (mkSQ st2 (sq_q s))) k) = e_left (getE (sq_st s) k)).
      { intros k Mk. cbn [sq_st]. split; [apply Gb, Ga, Mk | apply K2]. }
      destruct (ev_lt (sq_st s) other1 other2) eqn:C2; cbn [nth_ev nth fst snd].
      * (* o2 before o1: be < 1; se1 is divided at o2 *)
        apply (ev_lt_lex (sq_st s) other1 other2 o1x o1y o2x o2y Q1 Q2 RC) in C2.
        apply (lexlt_params p1x p1y o1x o1y Lx1 be 1 o2x o2y o1x o1y Po2 Po1) in C2.
        unfold point_of. rewrite (proj1 (K2 other2)), Q2.
        destruct (divide_segment cfg (mkSQ st2 (sq_q s)) se1 (fpt o2x o2y)) as [s3|site|] eqn:Dv; cbn [obind]; [|exact I|exact I].
        cbn [peo].
        assert (Hin : strictly_inside p1x p1y o1x o1y o2x o2y) by (apply (inside_by_params p1x p1y o1x o1y Lx1 0 1 be); auto; lra).
        assert (MT : mapped NQ (sq_st (mkSQ st2 (sq_q s))) se1) by (cbn [sq_st]; apply Gb, Ga, M1).
        assert (OT : e_other (getE (sq_st (mkSQ st2 (sq_q s))) se1) = Some other1) by (cbn [sq_st]; rewrite (proj1 (proj2 (K2 se1))); exact O1).
        assert (LT : e_left (getE (sq_st (mkSQ st2 (sq_q s))) se1) = true) by (cbn [sq_st]; rewrite (proj2 (proj2 (K2 se1))); exact Lf1).
        assert (PT : e_point (getE (sq_st (mkSQ st2 (sq_q s))) se1) = fpt p1x p1y) by (cbn [sq_st]; rewrite (proj1 (K2 se1)); exact P1).
        assert (PTr : e_point (getE (sq_st (mkSQ st2 (sq_q s))) other1) = fpt o1x o1y) by (cbn [sq_st]; rewrite (proj1 (K2 other1)); exact Q1).
        exact (peo_step cfg s se1 se2 other1 other2 p1x p1y o1x o1y p2x p2y o2x o2y O1 O2 P1 Q1 P2 Q2 (mkSQ st2 (sq_q s)) s3 se1 other1 p1x p1y o1x o1y o2x o2y Sb E2' H0 Nw2 MT OT LT PT PTr Hin (OB be o2x o2y Po2 ltac:(lra) ltac:(lra)) Dv).
      * (* o1 before o2: 1 < be; se2 is divided at o1 *)
        apply (ev_lt_lex_false (sq_st s) other1 other2 o1x o1y o2x o2y Q1 Q2 RC) in C2.
        apply (lexlt_params p1x p1y o1x o1y Lx1 1 be o1x o1y o2x o2y Po1 Po2) in C2.
        unfold point_of. rewrite (proj1 (K2 other1)), Q1.
        destruct (divide_segment cfg (mkSQ st2 (sq_q s)) se2 (fpt o1x o1y)) as [s3|site|] eqn:Dv; cbn [obind]; [|exact I|exact I].
        cbn [peo].
        assert (Hin : strictly_inside p2x p2y o2x o2y o1x o1y) by (apply (inside_by_params p1x p1y o1x o1y Lx1 al be 1); auto; lra).
        assert (MT : mapped NQ (sq_st (mkSQ st2 (sq_q s))) se2) by (cbn [sq_st]; apply Gb, Ga, M2).
        assert (OT : e_other (getE (sq_st (mkSQ st2 (sq_q s))) se2) = Some other2) by (cbn [sq_st]; rewrite (proj1 (proj2 (K2 se2))); exact O2).
        assert (LT : e_left (getE (sq_st (mkSQ st2 (sq_q s))) se2) = true) by (cbn [sq_st]; rewrite (proj2 (proj2 (K2 se2))); exact Lf2).
        assert (PT : e_point (getE (sq_st (mkSQ st2 (sq_q s))) se2) = fpt p2x p2y) by (cbn [sq_st]; rewrite (proj1 (K2 se2)); exact P2).
        assert (PTr : e_point (getE (sq_st (mkSQ st2 (sq_q s))) other2) = fpt o2x o2y) by (cbn [sq_st]; rewrite (proj1 (K2 other2)); exact Q2).
        exact (peo_step cfg s se1 se2 other1 other2 p1x p1y o1x o1y p2x p2y o2x o2y O1 O2 P1 Q1 P2 Q2 (mkSQ st2 (sq_q s)) s3 se2 other2 p2x p2y o2x o2y o1x o1y Sb E2' H0 Nw2 MT OT LT PT PTr Hin (OB 1 o1x o1y Po1 ltac:(lra) ltac:(lra)) Dv).
    + (* right ends coincide: the earlier segment is divided at the left end of the later one *)
      apply pt_eq_fpt_false in LC. apply pt_eq_fpt in RC.
      assert (Be1 : be == 1) by (symmetry; apply (qeqp_params p1x p1y o1x o1y Lx1 1 be o1x o1y o2x o2y Po1 Po2); exact RC).
      assert (Al0 : ~ al == 0) by (intros K; apply LC; apply (qeqp_params p1x p1y o1x o1y Lx1 0 al p1x p1y p2x p2y Pp1 Pp2); symmetry; exact K).
      cbn [negb app]. rewrite app_nil_r.
      destruct (ev_lt (sq_st s) se1 se2) eqn:C1; cbn [nth_ev nth fst snd].
      * (* p2 before p1: al < 0; se2 is divided at p1 *)
        apply (ev_lt_lex (sq_st s) se1 se2 p1x p1y p2x p2y P1 P2 LC) in C1.
        apply (lexlt_params p1x p1y o1x o1y Lx1 al 0 p2x p2y p1x p1y Pp2 Pp1) in C1.
        unfold point_of. rewrite P1.
        destruct (divide_segment cfg s se2 (fpt p1x p1y)) as [s1|site|] eqn:Dv; cbn [obind]; [|exact I|exact I].
        cbn [peo].
        assert (Hin : strictly_inside p2x p2y o2x o2y p1x p1y) by (apply (inside_by_params p1x p1y o1x o1y Lx1 al be 0); auto; lra).
        exact (peo_step cfg s se1 se2 other1 other2 p1x p1y o1x o1y p2x p2y o2x o2y O1 O2 P1 Q1 P2 Q2 s s1 se2 other2 p2x p2y o2x o2y p1x p1y S E Same Nw0 M2 O2 Lf2 P2 Q2 Hin (OB 0 p1x p1y Pp1 ltac:(lra) ltac:(lra)) Dv).
      * apply (ev_lt_lex_false (sq_st s) se1 se2 p1x p1y p2x p2y P1 P2 LC) in C1.
        apply (lexlt_params p1x p1y o1x o1y Lx1 0 al p1x p1y p2x p2y Pp1 Pp2) in C1.
        unfold point_of. rewrite P2.
        destruct (divide_segment cfg s se1 (fpt p2x p2y)) as [s1|site|] eqn:Dv; cbn [obind]; [|exact I|exact I].
        cbn [peo].
        assert (Hin : strictly_inside p1x p1y o1x o1y p2x p2y) by (apply (inside_by_params p1x p1y o1x o1y Lx1 0 1 al); auto; lra).
        exact (peo_step cfg s se1 se2 other1 other2 p1x p1y o1x o1y p2x p2y o2x o2y O1 O2 P1 Q1 P2 Q2 s s1 se1 other1 p1x p1y o1x o1y p2x p2y S E Same Nw0 M1 O1 Lf1 P1 Q1 Hin (OB al p2x p2y Pp2 ltac:(lra) ltac:(lra)) Dv).
    + (* four distinct ends *)
      apply pt_eq_fpt_false in LC. apply pt_eq_fpt_false in RC.
      assert (Be1 : ~ be == 1) by (intros K; apply RC; apply (qeqp_params p1x p1y o1x o1y Lx1 1 be o1x o1y o2x o2y Po1 Po2); symmetry; exact K).
      assert (Al0 : ~ al == 0) by (intros K; apply LC; apply (qeqp_params p1x p1y o1x o1y Lx1 0 al p1x p1y p2x p2y Pp1 Pp2); symmetry; exact K).
      assert (N21' : se2 <> se1).
      { intros K. rewrite K in P2. rewrite P1 in P2. apply fpt_inj in P2. destruct P2 as [<- <-]. apply LC. split; reflexivity. }
      cbn [negb].
      destruct (ev_lt (sq_st s) se1 se2) eqn:C1; destruct (ev_lt (sq_st s) other1 other2) eqn:C2;
        cbn [app nth_ev nth fst snd].
      * (* al < 0, be < 1: partial overlap, se2 first *)
        apply (ev_lt_lex (sq_st s) se1 se2 p1x p1y p2x p2y P1 P2 LC) in C1.
        apply (lexlt_params p1x p1y o1x o1y Lx1 al 0 p2x p2y p1x p1y Pp2 Pp1) in C1.
        apply (ev_lt_lex (sq_st s) other1 other2 o1x o1y o2x o2y Q1 Q2 RC) in C2.
        apply (lexlt_params p1x p1y o1x o1y Lx1 be 1 o2x o2y o1x o1y Po2 Po1) in C2.
        rewrite (proj2 (Pos.eqb_neq se2 se1) N21'). cbn [negb].
        rewrite P1.
        pose proof (divide_segment_inv NQ cfg s se2 (fpt p1x p1y) S M2) as DI.
        destruct (divide_segment cfg s se2 (fpt p1x p1y)) as [s1|site|] eqn:Dv1; cbn [obind]; [|exact I|exact I].
        destruct DI as [S1 G1].
        assert (In1 : strictly_inside p2x p2y o2x o2y p1x p1y) by (apply (inside_by_params p1x p1y o1x o1y Lx1 al be 0); auto; lra).
        destruct (divo cfg s se1 se2 other1 other2 p1x p1y o1x o1y p2x p2y o2x o2y O1 O2 P1 Q1 P2 Q2 s s1 se2 other2 p2x p2y o2x o2y p1x p1y S E Nw0 M2 O2 Lf2 P2 Q2 In1 (OB 0 p1x p1y Pp1 ltac:(lra) ltac:(lra)) Dv1) as (E1 & Fl1 & _ & Nw1).
        destruct (divide_segment_shape NQ cfg s s1 se2 other2 (fpt p1x p1y) W M2 Mo2 Hne2 O2 Dv1)
          as (r & l & i' & _ & _ & _ & _ & _ & _ & _ & _ & _ & _ & Keep & KeepO).
        unfold point_of. rewrite (Keep other2 Mo2), Q2.
        destruct (divide_segment cfg s1 se1 (fpt o2x o2y)) as [s2|site|] eqn:Dv2; cbn [obind]; [|exact I|exact I].
        cbn [peo].
        assert (H01 : forall k, mapped NQ (sq_st s) k -> mapped NQ (sq_st s1) k /\ e_left (getE (sq_st s1) k) = e_left (getE (sq_st s) k))
          by (intros k Mk; split; [apply G1, Mk | apply Fl1, Mk]).
        assert (OT : e_other (getE (sq_st s1) se1) = Some other1) by (rewrite (KeepO se1 M1 (not_eq_sym N21') N1o); exact O1).
        assert (LT : e_left (getE (sq_st s1) se1) = true) by (rewrite (Fl1 se1 M1); exact Lf1).
        assert (PT : e_point (getE (sq_st s1) se1) = fpt p1x p1y) by (rewrite (Keep se1 M1); exact P1).
        assert (PTr : e_point (getE (sq_st s1) other1) = fpt o1x o1y) by (rewrite (Keep other1 Mo1); exact Q1).
        assert (Hin : strictly_inside p1x p1y o1x o1y o2x o2y) by (apply (inside_by_params p1x p1y o1x o1y Lx1 0 1 be); auto; lra).
        exact (peo_step cfg s se1 se2 other1 other2 p1x p1y o1x o1y p2x p2y o2x o2y O1 O2 P1 Q1 P2 Q2 s1 s2 se1 other1 p1x p1y o1x o1y o2x o2y S1 E1 H01 Nw1 (G1 _ M1) OT LT PT PTr Hin (OB be o2x o2y Po2 ltac:(lra) ltac:(lra)) Dv2).
      * (* al < 0, 1 < be: the second segment contains the first *)
        apply (ev_lt_lex (sq_st s) se1 se2 p1x p1y p2x p2y P1 P2 LC) in C1.
        apply (lexlt_params p1x p1y o1x o1y Lx1 al 0 p2x p2y p1x p1y Pp2 Pp1) in C1.
        apply (ev_lt_lex_false (sq_st s) other1 other2 o1x o1y o2x o2y Q1 Q2 RC) in C2.
        apply (lexlt_params p1x p1y o1x o1y Lx1 1 be o1x o1y o2x o2y Po1 Po2) in C2.
        rewrite Pos.eqb_refl. cbn [negb].
        rewrite P1.
        pose proof (divide_segment_inv NQ cfg s se2 (fpt p1x p1y) S M2) as DI.
        destruct (divide_segment cfg s se2 (fpt p1x p1y)) as [s1|site|] eqn:Dv1; cbn [obind]; [|exact I|exact I].
        destruct DI as [S1 G1].
        assert (In1 : strictly_inside p2x p2y o2x o2y p1x p1y) by (apply (inside_by_params p1x p1y o1x o1y Lx1 al be 0); auto; lra).
        destruct (divo cfg s se1 se2 other1 other2 p1x p1y o1x o1y p2x p2y o2x o2y O1 O2 P1 Q1 P2 Q2 s s1 se2 other2 p2x p2y o2x o2y p1x p1y S E Nw0 M2 O2 Lf2 P2 Q2 In1 (OB 0 p1x p1y Pp1 ltac:(lra) ltac:(lra)) Dv1) as (E1 & Fl1 & Hl & Nw1).
        destruct (divide_segment_shape NQ cfg s s1 se2 other2 (fpt p1x p1y) W M2 Mo2 Hne2 O2 Dv1)
          as (r & l & i' & _ & _ & _ & _ & _ & _ & A4 & _ & _ & _ & Keep & KeepO).
        unfold other_of. rewrite A4.
        destruct (Hl l A4) as (Ll & Pl & Ol & _).
        unfold point_of. rewrite (Keep other1 Mo1), Q1.
        assert (Ml1 : mapped NQ (sq_st s1) l).
        { destruct (mapped_dec NQ (sq_st s1) l) as [K|K]; [exact K|]. rewrite (getE_unmapped_other _ _ K) in Ol. discriminate. }
        destruct (divide_segment cfg s1 l (fpt o1x o1y)) as [s2|site|] eqn:Dv2; cbn [obind]; [|exact I|exact I].
        cbn [peo].
        assert (H01 : forall k, mapped NQ (sq_st s) k -> mapped NQ (sq_st s1) k /\ e_left (getE (sq_st s1) k) = e_left (getE (sq_st s) k))
          by (intros k Mk; split; [apply G1, Mk | apply Fl1, Mk]).
        assert (PTr : e_point (getE (sq_st s1) other2) = fpt o2x o2y) by (rewrite (Keep other2 Mo2); exact Q2).
        assert (Hin : strictly_inside p1x p1y o2x o2y o1x o1y) by (apply (inside_by_params p1x p1y o1x o1y Lx1 0 be 1); auto; lra).
        exact (peo_step cfg s se1 se2 other1 other2 p1x p1y o1x o1y p2x p2y o2x o2y O1 O2 P1 Q1 P2 Q2 s1 s2 l other2 p1x p1y o2x o2y o1x o1y S1 E1 H01 Nw1 Ml1 Ol Ll Pl PTr Hin (OB 1 o1x o1y Po1 ltac:(lra) ltac:(lra)) Dv2).
      * (* 0 < al, be < 1: the first segment contains the second *)
        apply (ev_lt_lex_false (sq_st s) se1 se2 p1x p1y p2x p2y P1 P2 LC) in C1.
        apply (lexlt_params p1x p1y o1x o1y Lx1 0 al p1x p1y p2x p2y Pp1 Pp2) in C1.
        apply (ev_lt_lex (sq_st s) other1 other2 o1x o1y o2x o2y Q1 Q2 RC) in C2.
        apply (lexlt_params p1x p1y o1x o1y Lx1 be 1 o2x o2y o1x o1y Po2 Po1) in C2.
        rewrite Pos.eqb_refl. cbn [negb].
        rewrite P2.
        pose proof (divide_segment_inv NQ cfg s se1 (fpt p2x p2y) S M1) as DI.
        destruct (divide_segment cfg s se1 (fpt p2x p2y)) as [s1|site|] eqn:Dv1; cbn [obind]; [|exact I|exact I].
        destruct DI as [S1 G1].
        assert (In1 : strictly_inside p1x p1y o1x o1y p2x p2y) by (apply (inside_by_params p1x p1y o1x o1y Lx1 0 1 al); auto; lra).
        destruct (divo cfg s se1 se2 other1 other2 p1x p1y o1x o1y p2x p2y o2x o2y O1 O2 P1 Q1 P2 Q2 s s1 se1 other1 p1x p1y o1x o1y p2x p2y S E Nw0 M1 O1 Lf1 P1 Q1 In1 (OB al p2x p2y Pp2 ltac:(lra) ltac:(lra)) Dv1) as (E1 & Fl1 & Hl & Nw1).
        destruct (divide_segment_shape NQ cfg s s1 se1 other1 (fpt p2x p2y) W M1 Mo1 Hne1 O1 Dv1)
          as (r & l & i' & _ & _ & _ & _ & _ & _ & A4 & _ & _ & _ & Keep & KeepO).
        unfold other_of. rewrite A4.
        destruct (Hl l A4) as (Ll & Pl & Ol & _).
        unfold point_of. rewrite (Keep other2 Mo2), Q2.
        assert (Ml1 : mapped NQ (sq_st s1) l).
        { destruct (mapped_dec NQ (sq_st s1) l) as [K|K]; [exact K|]. rewrite (getE_unmapped_other _ _ K) in Ol. discriminate. }
        destruct (divide_segment cfg s1 l (fpt o2x o2y)) as [s2|site|] eqn:Dv2; cbn [obind]; [|exact I|exact I].
        cbn [peo].
        assert (H01 : forall k, mapped NQ (sq_st s) k -> mapped NQ (sq_st s1) k /\ e_left (getE (sq_st s1) k) = e_left (getE (sq_st s) k))
          by (intros k Mk; split; [apply G1, Mk | apply Fl1, Mk]).
        assert (PTr : e_point (getE (sq_st s1) other1) = fpt o1x o1y) by (rewrite (Keep other1 Mo1); exact Q1).
        assert (Hin : strictly_inside p2x p2y o1x o1y o2x o2y) by (apply (inside_by_params p1x p1y o1x o1y Lx1 al 1 be); auto; lra).
        exact (peo_step cfg s se1 se2 other1 other2 p1x p1y o1x o1y p2x p2y o2x o2y O1 O2 P1 Q1 P2 Q2 s1 s2 l other1 p2x p2y o1x o1y o2x o2y S1 E1 H01 Nw1 Ml1 Ol Ll Pl PTr Hin (OB be o2x o2y Po2 ltac:(lra) ltac:(lra)) Dv2).
      * (* 0 < al, 1 < be: partial overlap, se1 first *)
        apply (ev_lt_lex_false (sq_st s) se1 se2 p1x p1y p2x p2y P1 P2 LC) in C1.
        apply (lexlt_params p1x p1y o1x o1y Lx1 0 al p1x p1y p2x p2y Pp1 Pp2) in C1.
        apply (ev_lt_lex_false (sq_st s) other1 other2 o1x o1y o2x o2y Q1 Q2 RC) in C2.
        apply (lexlt_params p1x p1y o1x o1y Lx1 1 be o1x o1y o2x o2y Po1 Po2) in C2.
        rewrite (proj2 (Pos.eqb_neq se1 se2) (not_eq_sym N21')). cbn [negb].
        rewrite P2.
        pose proof (divide_segment_inv NQ cfg s se1 (fpt p2x p2y) S M1) as DI.
        destruct (divide_segment cfg s se1 (fpt p2x p2y)) as [s1|site|] eqn:Dv1; cbn [obind]; [|exact I|exact I].
        destruct DI as [S1 G1].
        assert (In1 : strictly_inside p1x p1y o1x o1y p2x p2y) by (apply (inside_by_params p1x p1y o1x o1y Lx1 0 1 al); auto; lra).
        destruct (divo cfg s se1 se2 other1 other2 p1x p1y o1x o1y p2x p2y o2x o2y O1 O2 P1 Q1 P2 Q2 s s1 se1 other1 p1x p1y o1x o1y p2x p2y S E Nw0 M1 O1 Lf1 P1 Q1 In1 (OB al p2x p2y Pp2 ltac:(lra) ltac:(lra)) Dv1) as (E1 & Fl1 & _ & Nw1).
        destruct (divide_segment_shape NQ cfg s s1 se1 other1 (fpt p2x p2y) W M1 Mo1 Hne1 O1 Dv1)
          as (r & l & i' & _ & _ & _ & _ & _ & _ & _ & _ & _ & _ & Keep & KeepO).
        unfold point_of. rewrite (Keep other1 Mo1), Q1.
        destruct (divide_segment cfg s1 se2 (fpt o1x o1y)) as [s2|site|] eqn:Dv2; cbn [obind]; [|exact I|exact I].
        cbn [peo].
        assert (H01 : forall k, mapped NQ (sq_st s) k -> mapped NQ (sq_st s1) k /\ e_left (getE (sq_st s1) k) = e_left (getE (sq_st s) k))
          by (intros k Mk; split; [apply G1, Mk | apply Fl1, Mk]).
        assert (OT : e_other (getE (sq_st s1) se2) = Some other2) by (rewrite (KeepO se2 M2 N21' N2o); exact O2).
        assert (LT : e_left (getE (sq_st s1) se2) = true) by (rewrite (Fl1 se2 M2); exact Lf2).
        assert (PT : e_point (getE (sq_st s1) se2) = fpt p2x p2y) by (rewrite (Keep se2 M2); exact P2).
        assert (PTr : e_point (getE (sq_st s1) other2) = fpt o2x o2y) by (rewrite (Keep other2 Mo2); exact Q2).
        assert (Hin : strictly_inside p2x p2y o2x o2y o1x o1y) by (apply (inside_by_params p1x p1y o1x o1y Lx1 al be 1); auto; lra).
        exact (peo_step cfg s se1 se2 other1 other2 p1x p1y o1x o1y p2x p2y o2x o2y O1 O2 P1 Q1 P2 Q2 s1 s2 se2 other2 p2x p2y o2x o2y o1x o1y S1 E1 H01 Nw1 (G1 _ M2) OT LT PT PTr Hin (OB 1 o1x o1y Po1 ltac:(lra) ltac:(lra)) Dv2).
Qed.



End Overlap.

(** C16: the statement without the bookkeeping *)
Corollary pi_new_events_on_both edges cfg (s s' : sq NQ) (se1 se2 other1 other2 : eid) (code : nat)
    (p1x p1y o1x o1y p2x p2y o2x o2y : Q) :
  sqinv NQ s -> einv2 edges (sq_st s) -> mapped NQ (sq_st s) se1 -> mapped NQ (sq_st s) se2 ->
  e_left (getE (sq_st s) se1) = true -> e_left (getE (sq_st s) se2) = true ->
  e_other (getE (sq_st s) se1) = Some other1 -> e_other (getE (sq_st s) se2) = Some other2 ->
  e_point (getE (sq_st s) se1) = fpt p1x p1y -> e_point (getE (sq_st s) other1) = fpt o1x o1y ->
  e_point (getE (sq_st s) se2) = fpt p2x p2y -> e_point (getE (sq_st s) other2) = fpt o2x o2y ->
  possible_intersection cfg s se1 se2 = Ok (s', code) ->
  forall k, mapped NQ (sq_st s') k -> ~ mapped NQ (sq_st s) k ->
  exists x y, e_point (getE (sq_st s') k) = fpt x y /\ on_both p1x p1y o1x o1y p2x p2y o2x o2y x y.
Proof.
  intros S E M1 M2 L1 L2 O1 O2 P1 Q1 P2 Q2 H k Mk Nk.
  pose proof (possible_intersection_peo edges cfg s se1 se2 S E M1 M2 L1 L2) as P. rewrite H in P.
  destruct P as (_ & _ & Nw). exact (Nw k Mk Nk other1 other2 _ _ _ _ _ _ _ _ O1 O2 P1 Q1 P2 Q2).
Qed.
