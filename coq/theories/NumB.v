(** * Bit-exact floating-point instances of [Num]: IEEE-754 binary64 / binary32 with
    round-to-nearest-even, built on the standard library's [SpecFloat] (the definitions
    Flocq's [BinarySingleNaN] is proved against).  The orientation predicate is computed
    exactly over [Z] (model of [robust::orient2d], of which only the sign is used). *)
From Coq Require Import Bool ZArith Floats.SpecFloat.
From GB Require Import Num.
Set Implicit Arguments.
Local Open Scope Z_scope.

Section FloatInstance.
Variables prec emax : Z.

Notation F := spec_float.

Definition is_nan (x : F) : bool := match x with S754_nan => true | _ => false end.

(** Rust's [f64::min]/[f64::max]: a NaN argument is ignored *)
Definition fmin (a b : F) : F :=
  match SFcompare a b with
  | Some Gt => b
  | Some _ => a
  | None => if is_nan a then b else a
  end.
Definition fmax (a b : F) : F :=
  match SFcompare a b with
  | Some Lt => b
  | Some _ => a
  | None => if is_nan a then b else a
  end.

(** [float_next_after::NextAfter::next_after(x, +inf)] *)
Definition next_up (x : F) : F :=
  match x with
  | S754_infinity _ => x
  | _ => SFsucc prec emax x
  end.

(** a finite float as mantissa * 2^exponent *)
Definition dyadic (x : F) : option (Z * Z) :=
  match x with
  | S754_zero _ => Some (0, 0)
  | S754_finite s m e => Some (if s then Z.neg m else Z.pos m, e)
  | _ => None
  end.

Definition dy_sub (a b : Z * Z) : Z * Z :=
  let e := Z.min (snd a) (snd b) in
  (fst a * 2 ^ (snd a - e) - fst b * 2 ^ (snd b - e), e).
Definition dy_mul (a b : Z * Z) : Z * Z := (fst a * fst b, snd a + snd b).

(** sign of (ax-cx)(by-cy) - (ay-cy)(bx-cx); [Eq] for non-finite arguments (not modelled) *)
Definition orient_exact (ax ay bx by_ cx cy : F) : comparison :=
  match dyadic ax, dyadic ay, dyadic bx, dyadic by_, dyadic cx, dyadic cy with
  | Some ax, Some ay, Some bx, Some by_, Some cx, Some cy =>
      let l := dy_mul (dy_sub ax cx) (dy_sub by_ cy) in
      let r := dy_mul (dy_sub ay cy) (dy_sub bx cx) in
      Z.compare (fst (dy_sub l r)) 0
  | _, _, _, _, _, _ => Eq
  end.

Definition fone : F := binary_normalize prec emax 1 0 false.

Definition NB : Num :=
  @mkNum F F F F F F
    SFltb SFleb SFeqb
    SFltb SFleb SFeqb
    fmin fmax fmin fmax
    (S754_infinity false) (S754_infinity true) (S754_infinity false) (S754_infinity true)
    (SFsub prec emax) (SFsub prec emax)
    (SFadd prec emax) (SFadd prec emax)
    (SFmul prec emax)
    (SFsub prec emax) (SFadd prec emax)
    (SFmul prec emax)
    (fun x => SFltb (S754_zero false) x)
    (SFdiv prec emax)
    (SFmul prec emax)
    (SFadd prec emax)
    fmin fmax
    SFltb SFleb SFeqb
    (S754_zero false) fone
    next_up
    orient_exact.

End FloatInstance.

Definition NB64 : Num := NB 53 1024.
Definition NB32 : Num := NB 24 128.

(** ** IEEE bit patterns (for the correspondence harness) *)
Section Bits.
Variables prec emax : Z.   (* 53,1024 or 24,128 *)
Let ebits := Z.log2 emax + 1.            (* 11 / 8 *)
Let mbits := prec - 1.                    (* 52 / 23 *)
Let bias := emax - 1.                     (* 1023 / 127 *)
Let emin := 3 - emax - prec.              (* exponent of subnormals: -1074 / -149 *)

Definition to_bits (x : spec_float) : Z :=
  let sign (s : bool) := if s then 2 ^ (ebits + mbits) else 0 in
  match x with
  | S754_zero s => sign s
  | S754_infinity s => sign s + (2 ^ ebits - 1) * 2 ^ mbits
  | S754_nan => (2 ^ ebits - 1) * 2 ^ mbits + 2 ^ (mbits - 1)
  | S754_finite s m e =>
      let m := Z.pos m in
      if m <? 2 ^ mbits then sign s + m
      else sign s + (e - emin + 1) * 2 ^ mbits + (m - 2 ^ mbits)
  end.

Definition of_bits (b : Z) : spec_float :=
  let s := Z.testbit b (ebits + mbits) in
  let ex := (b / 2 ^ mbits) mod 2 ^ ebits in
  let m := b mod 2 ^ mbits in
  if ex =? 2 ^ ebits - 1 then (if m =? 0 then S754_infinity s else S754_nan)
  else if ex =? 0 then
    match m with Z.pos p => S754_finite s p emin | _ => S754_zero s end
  else
    match m + 2 ^ mbits with Z.pos p => S754_finite s p (ex - 1 + emin) | _ => S754_nan end.
End Bits.
