(** * C08 by parametricity: the whole algorithm commutes with positive similarities of the
    plane ([x -> k*x + tx], [y -> k*y + ty], [k > 0]) over exact arithmetic.

    The model is one program over the dimension-typed interface [Num].  Paramcoq generates
    the abstraction theorem of [boolean_operation] (binary parametricity, axiom-free): runs
    on related instances and related inputs give related outcomes.  Here the two instances
    are both [NQ] and the relations are "differs by the similarity" on abscissae/ordinates,
    "scaled by k / k^2 / k^4" on differences / products / squared products and equality on
    ratios; every primitive operation of [NQ] is shown to respect them, so the theorem
    covers every branch of the sweep, the splay tree, the heap, the contour assembly —
    for every input, including non-finite coordinates (which are related to themselves). *)
From Param Require Import Param.
From Coq Require Import Bool ZArith QArith Qreduction List Lia Lqa.
From GB Require Import Prim Num NumQ Event Intersect Cmp Heap Outcome Divide Fields FillQueue
  Subdivide Connect BoolOp.
Import ListNotations.
Local Open Scope Q_scope.

Parametricity Recursive boolean qualified.

Notation bool_R := Coq_o_Init_o_Datatypes_o_bool_R.
Notation list_R := Coq_o_Init_o_Datatypes_o_list_R.
Notation comparison_R := Coq_o_Init_o_Datatypes_o_comparison_R.
Notation Num_R := GB_o_Num_o_Num_R.
Notation pt_R := GB_o_Num_o_pt_R.
Notation polygon_R := GB_o_FillQueue_o_polygon_R.
Notation outcome_R := GB_o_Outcome_o_outcome_R.

Lemma bool_R_of_eq (a b : bool) : a = b -> bool_R a b.
Proof. intros ->; destruct b; constructor. Qed.
Lemma comparison_R_of_eq (a b : comparison) : a = b -> comparison_R a b.
Proof. intros ->; destruct b; constructor. Qed.

(** ** the relation: [b] is the image of [a] under [x -> c*x + t]; special values are
    related to themselves *)
Definition aff (c t : Q) (a b : qx) : Prop :=
  match a, b with
  | QF x, QF y => y == c * x + t
  | QPInf, QPInf | QNInf, QNInf | QNaN, QNaN => True
  | _, _ => False
  end.

Ltac sc := cbn [aff qx_add qx_opp qx_mul qx_div qx_compare sgn_of qx_is_nan inf_of_sign sgn_mul qx_orient].
Tactic Notation "sc" "in" hyp(H) := cbn [aff qx_add qx_opp qx_mul qx_div qx_compare sgn_of qx_is_nan inf_of_sign sgn_mul qx_orient] in H.

Lemma aff_ext c c' t t' a b : c == c' -> t == t' -> aff c t a b -> aff c' t' a b.
Proof. intros Hc Ht; destruct a, b; sc; auto. intros Ha. now rewrite Ha, Hc, Ht. Qed.

Lemma qsgn_cmp q : qsgn q = (q ?= 0).
Proof. unfold qsgn, Qcompare; cbn. now rewrite Z.mul_1_r. Qed.

Lemma Qcompare_aff c t x y x' y' :
  0 < c -> x' == c * x + t -> y' == c * y + t -> (x' ?= y') = (x ?= y).
Proof.
  intros Hc Hx Hy.
  destruct (Qcompare_spec x y) as [E|L|G], (Qcompare_spec x' y') as [E'|L'|G']; try reflexivity;
    exfalso; try rewrite E in *; nra.
Qed.

Lemma qsgn_aff c x x' : 0 < c -> x' == c * x + 0 -> qsgn x' = qsgn x.
Proof.
  intros Hc Hx. rewrite !qsgn_cmp. apply (Qcompare_aff c 0 x 0 x' 0 Hc Hx). ring.
Qed.

Section Affine.
Variables c t : Q.
Hypothesis Hc : 0 < c.

Lemma aff_compare a a' b b' : aff c t a a' -> aff c t b b' -> qx_compare a b = qx_compare a' b'.
Proof.
  destruct a, a'; sc; try contradiction; destruct b, b'; sc; try contradiction; try reflexivity.
  intros Ha Hb. f_equal. symmetry. now apply (Qcompare_aff c t).
Qed.
Lemma aff_lt a a' b b' : aff c t a a' -> aff c t b b' -> bool_R (qx_lt a b) (qx_lt a' b').
Proof. intros Ha Hb. apply bool_R_of_eq. unfold qx_lt. now rewrite (aff_compare _ _ _ _ Ha Hb). Qed.
Lemma aff_le a a' b b' : aff c t a a' -> aff c t b b' -> bool_R (qx_le a b) (qx_le a' b').
Proof. intros Ha Hb. apply bool_R_of_eq. unfold qx_le. now rewrite (aff_compare _ _ _ _ Ha Hb). Qed.
Lemma aff_eq a a' b b' : aff c t a a' -> aff c t b b' -> bool_R (qx_eq a b) (qx_eq a' b').
Proof. intros Ha Hb. apply bool_R_of_eq. unfold qx_eq. now rewrite (aff_compare _ _ _ _ Ha Hb). Qed.
Lemma aff_is_nan a a' : aff c t a a' -> qx_is_nan a = qx_is_nan a'.
Proof. destruct a, a'; sc; try contradiction; reflexivity. Qed.
Lemma aff_min a a' b b' : aff c t a a' -> aff c t b b' -> aff c t (qx_min a b) (qx_min a' b').
Proof.
  intros Ha Hb. unfold qx_min. rewrite <- (aff_compare _ _ _ _ Ha Hb), <- (aff_is_nan _ _ Ha).
  destruct (qx_compare a b) as [[| |]|]; auto. destruct (qx_is_nan a); auto.
Qed.
Lemma aff_max a a' b b' : aff c t a a' -> aff c t b b' -> aff c t (qx_max a b) (qx_max a' b').
Proof.
  intros Ha Hb. unfold qx_max. rewrite <- (aff_compare _ _ _ _ Ha Hb), <- (aff_is_nan _ _ Ha).
  destruct (qx_compare a b) as [[| |]|]; auto. destruct (qx_is_nan a); auto.
Qed.
End Affine.

Lemma aff_opp c t a a' : aff c t a a' -> aff c (- t) (qx_opp a) (qx_opp a').
Proof. destruct a, a'; sc; try contradiction; auto. intros Ha. rewrite Ha. ring. Qed.
Lemma aff_add c t1 t2 a a' b b' :
  aff c t1 a a' -> aff c t2 b b' -> aff c (t1 + t2) (qx_add a b) (qx_add a' b').
Proof.
  destruct a, a'; sc; try contradiction; destruct b, b'; sc; try contradiction; auto.
  intros Ha Hb. rewrite !Qred_correct, Ha, Hb. ring.
Qed.
Lemma aff_sub c t1 t2 a a' b b' :
  aff c t1 a a' -> aff c t2 b b' -> aff c (t1 - t2) (qx_sub a b) (qx_sub a' b').
Proof. intros Ha Hb. unfold qx_sub. apply (aff_add c t1 (- t2)); [exact Ha | now apply aff_opp]. Qed.

Lemma aff_sgn c a a' : 0 < c -> aff c 0 a a' -> sgn_of a = sgn_of a'.
Proof. intros Hc. destruct a, a'; sc; try contradiction; auto. intros H. symmetry. now apply (qsgn_aff c). Qed.

Lemma aff_inf_of_sign c t s : aff c t (inf_of_sign s) (inf_of_sign s).
Proof. destruct s; exact I. Qed.

Lemma aff_mul c1 c2 a a' b b' : 0 < c1 -> 0 < c2 ->
  aff c1 0 a a' -> aff c2 0 b b' -> aff (c1 * c2) 0 (qx_mul a b) (qx_mul a' b').
Proof.
  intros H1 H2 Ha Hb.
  pose proof (aff_sgn _ _ _ H1 Ha) as Sa. pose proof (aff_sgn _ _ _ H2 Hb) as Sb.
  destruct a, a'; sc in Ha; try contradiction; destruct b, b'; sc in Hb; try contradiction;
    try exact I; cbn [qx_mul]; try (rewrite <- ?Sa, <- ?Sb; apply aff_inf_of_sign).
  sc. rewrite !Qred_correct, Ha, Hb. ring.
Qed.

Lemma aff_div c a a' b b' : 0 < c ->
  aff c 0 a a' -> aff c 0 b b' -> aff 1 0 (qx_div a b) (qx_div a' b').
Proof.
  intros Hc Ha Hb.
  pose proof (aff_sgn _ _ _ Hc Ha) as Sa. pose proof (aff_sgn _ _ _ Hc Hb) as Sb.
  destruct a, a'; sc in Ha; try contradiction; destruct b, b'; sc in Hb; try contradiction;
    try exact I; cbn [qx_div]; cbn [sgn_of] in Sa, Sb; try (sc; ring).
  - rewrite <- Sb, <- Sa. destruct (qsgn q1) eqn:E; try apply aff_inf_of_sign;
      sc; rewrite !Qred_correct, Ha, Hb; rewrite qsgn_cmp in E;
      assert (~ q1 == 0) by (intros Z; rewrite Z in E; discriminate); field; split; auto; lra.
  - rewrite <- Sb. apply aff_inf_of_sign.
  - rewrite <- Sb. apply aff_inf_of_sign.
Qed.

Lemma aff_orient c tx ty ax ax' ay ay' bx bx' by_ by' cx cx' cy cy' : 0 < c ->
  aff c tx ax ax' -> aff c ty ay ay' -> aff c tx bx bx' -> aff c ty by_ by' ->
  aff c tx cx cx' -> aff c ty cy cy' ->
  qx_orient ax ay bx by_ cx cy = qx_orient ax' ay' bx' by' cx' cy'.
Proof.
  intros Hc H1 H2 H3 H4 H5 H6.
  destruct ax, ax'; sc in H1; try contradiction; try reflexivity;
  destruct ay, ay'; sc in H2; try contradiction; try reflexivity;
  destruct bx, bx'; sc in H3; try contradiction; try reflexivity;
  destruct by_, by'; sc in H4; try contradiction; try reflexivity;
  destruct cx, cx'; sc in H5; try contradiction; try reflexivity;
  destruct cy, cy'; sc in H6; try contradiction; try reflexivity.
  sc. symmetry. apply (Qcompare_aff (c * c) 0).
  - nra.
  - rewrite H1, H4, H5, H6. ring.
  - rewrite H2, H3, H5, H6. ring.
Qed.

(** ** [NQ] is related to itself by every positive similarity *)
Section Sim.
Variables k tx ty : Q.
Hypothesis Hk : 0 < k.

Let k2 := k * k.
Let k4 := k2 * k2.
Lemma Hk2 : 0 < k2. Proof. unfold k2; nra. Qed.
Lemma Hk4 : 0 < k4. Proof. unfold k4; pose proof Hk2; nra. Qed.
Lemma H1 : 0 < 1. Proof. reflexivity. Qed.

Definition NQ_sim : Num_R NQ NQ.
Proof.
  unfold NQ.
  refine (GB_o_Num_o_Num_R_mkNum_R
            qx qx (aff k tx) qx qx (aff k ty) qx qx (aff k 0) qx qx (aff k2 0) qx qx (aff k4 0)
            qx qx (aff 1 0)
            _ _ _ _ _ _ _ _ _ _ _ _ _ _ _ _ _ _ _ _ _ _ _ _ _ _ _ _ _ _
            _ _ _ _ _ _ _ _ _ _ _ _
            _ _ _ _ _ _ _ _ _ _ _ _ _ _ _ _ _ _ _ _ _ _ _ _ _ _ _ _ _ _ _ _ _ _ _ _ _ _ _ _ _ _ _ _ _ _ _ _
            _ _ _ _ _ _
            _ _ _ _ _ _ _ _ _).
  - intros a a' Ha b b' Hb. exact (aff_lt k tx Hk _ _ _ _ Ha Hb).
  - intros a a' Ha b b' Hb. exact (aff_le k tx Hk _ _ _ _ Ha Hb).
  - intros a a' Ha b b' Hb. exact (aff_eq k tx Hk _ _ _ _ Ha Hb).
  - intros a a' Ha b b' Hb. exact (aff_lt k ty Hk _ _ _ _ Ha Hb).
  - intros a a' Ha b b' Hb. exact (aff_le k ty Hk _ _ _ _ Ha Hb).
  - intros a a' Ha b b' Hb. exact (aff_eq k ty Hk _ _ _ _ Ha Hb).
  - intros a a' Ha b b' Hb. exact (aff_min k tx Hk _ _ _ _ Ha Hb).
  - intros a a' Ha b b' Hb. exact (aff_max k tx Hk _ _ _ _ Ha Hb).
  - intros a a' Ha b b' Hb. exact (aff_min k ty Hk _ _ _ _ Ha Hb).
  - intros a a' Ha b b' Hb. exact (aff_max k ty Hk _ _ _ _ Ha Hb).
  - exact I.
  - exact I.
  - exact I.
  - exact I.
  - intros a a' Ha b b' Hb. refine (aff_ext _ _ _ _ _ _ _ _ (aff_sub k tx tx _ _ _ _ Ha Hb)); ring.
  - intros a a' Ha b b' Hb. refine (aff_ext _ _ _ _ _ _ _ _ (aff_sub k ty ty _ _ _ _ Ha Hb)); ring.
  - intros a a' Ha b b' Hb. refine (aff_ext _ _ _ _ _ _ _ _ (aff_add k tx 0 _ _ _ _ Ha Hb)); ring.
  - intros a a' Ha b b' Hb. refine (aff_ext _ _ _ _ _ _ _ _ (aff_add k ty 0 _ _ _ _ Ha Hb)); ring.
  - intros a a' Ha b b' Hb. exact (aff_mul k k _ _ _ _ Hk Hk Ha Hb).
  - intros a a' Ha b b' Hb. refine (aff_ext _ _ _ _ _ _ _ _ (aff_sub k2 0 0 _ _ _ _ Ha Hb)); ring.
  - intros a a' Ha b b' Hb. refine (aff_ext _ _ _ _ _ _ _ _ (aff_add k2 0 0 _ _ _ _ Ha Hb)); ring.
  - intros a a' Ha b b' Hb. exact (aff_mul k2 k2 _ _ _ _ Hk2 Hk2 Ha Hb).
  - intros a a' Ha. apply (aff_lt k4 0 Hk4); [sc; ring | exact Ha].
  - intros a a' Ha b b' Hb. exact (aff_div k2 _ _ _ _ Hk2 Ha Hb).
  - intros a a' Ha b b' Hb.
    refine (aff_ext _ _ _ _ _ _ _ _ (aff_mul 1 k _ _ _ _ H1 Hk Ha Hb)); ring.
  - intros a a' Ha b b' Hb. refine (aff_ext _ _ _ _ _ _ _ _ (aff_add 1 0 0 _ _ _ _ Ha Hb)); ring.
  - intros a a' Ha b b' Hb. exact (aff_min 1 0 H1 _ _ _ _ Ha Hb).
  - intros a a' Ha b b' Hb. exact (aff_max 1 0 H1 _ _ _ _ Ha Hb).
  - intros a a' Ha b b' Hb. exact (aff_lt 1 0 H1 _ _ _ _ Ha Hb).
  - intros a a' Ha b b' Hb. exact (aff_le 1 0 H1 _ _ _ _ Ha Hb).
  - intros a a' Ha b b' Hb. exact (aff_eq 1 0 H1 _ _ _ _ Ha Hb).
  - sc; ring.
  - sc; ring.
  - intros a a' Ha. exact Ha.
  - intros ax ax' Hax ay ay' Hay bx bx' Hbx by_ by' Hby cx cx' Hcx cy cy' Hcy.
    apply comparison_R_of_eq. exact (aff_orient k tx ty _ _ _ _ _ _ _ _ _ _ _ _ Hk Hax Hay Hbx Hby Hcx Hcy).
Defined.

(** ** the transformed inputs *)
Definition simq (c t : Q) (a : qx) : qx := match a with QF x => QF (c * x + t) | _ => a end.
Lemma aff_simq c t a : aff c t a (simq c t a).
Proof. destruct a; cbn [simq aff]; auto. reflexivity. Qed.

Definition sim_pt (p : pt NQ) : pt NQ := mkPt NQ (simq k tx (px p)) (simq k ty (py p)).
Definition sim_ring (r : ring NQ) : ring NQ := map sim_pt r.
Definition sim_polygon (p : polygon NQ) : polygon NQ :=
  mkPoly (sim_ring (exterior p)) (map sim_ring (interiors p)).
Definition sim_mpoly (m : list (polygon NQ)) : list (polygon NQ) := map sim_polygon m.

Lemma list_R_map {T U : Type} (R : T -> U -> Type) (f : T -> U) :
  (forall x, R x (f x)) -> forall l, list_R T U R l (map f l).
Proof. intros H; induction l as [|x l IH]; cbn; constructor; auto. Qed.

Lemma sim_pt_R p : pt_R NQ NQ NQ_sim p (sim_pt p).
Proof. destruct p as [x y]. unfold sim_pt; cbn. constructor; cbn; apply aff_simq. Qed.

Lemma sim_polygon_R p : polygon_R NQ NQ NQ_sim p (sim_polygon p).
Proof.
  destruct p as [e i]. unfold sim_polygon; cbn. constructor.
  - apply list_R_map, sim_pt_R.
  - apply list_R_map. intros r. apply list_R_map, sim_pt_R.
Qed.

(** ** readable form of the conclusion *)
Definition pt_sim (p q : pt NQ) : Prop := aff k tx (px p) (px q) /\ aff k ty (py p) (py q).
Definition ring_sim (r s : ring NQ) : Prop := Forall2 pt_sim r s.
Definition polygon_sim (p q : polygon NQ) : Prop :=
  ring_sim (exterior p) (exterior q) /\ Forall2 ring_sim (interiors p) (interiors q).
Definition mpoly_sim (m n : list (polygon NQ)) : Prop := Forall2 polygon_sim m n.

Definition outcome_sim (o o' : outcome (list (polygon NQ))) : Prop :=
  match o, o' with
  | Ok m, Ok n => mpoly_sim m n
  | Panic s, Panic s' => s = s'
  | OutOfFuel, OutOfFuel => True
  | _, _ => False
  end.

Lemma list_R_Forall2 {T U : Type} (R : T -> U -> Type) (P : T -> U -> Prop) :
  (forall x y, R x y -> P x y) -> forall l l', list_R T U R l l' -> Forall2 P l l'.
Proof. intros H l l' HR; induction HR; constructor; auto. Qed.

Lemma pt_R_sim p q : pt_R NQ NQ NQ_sim p q -> pt_sim p q.
Proof. intros [x x' Hx y y' Hy]. split; assumption. Qed.

Lemma polygon_R_sim p q : polygon_R NQ NQ NQ_sim p q -> polygon_sim p q.
Proof.
  intros [e e' He i i' Hi]. split; cbn.
  - exact (list_R_Forall2 _ _ pt_R_sim _ _ He).
  - refine (list_R_Forall2 _ _ _ _ _ Hi). intros r r' Hr. exact (list_R_Forall2 _ _ pt_R_sim _ _ Hr).
Qed.

Lemma panic_site_R_eq s s' : GB_o_Outcome_o_panic_site_R s s' -> s = s'.
Proof. intros []; reflexivity. Qed.

Lemma outcome_R_sim o o' :
  outcome_R _ _ (GB_o_BoolOp_o_multipolygon_R NQ NQ NQ_sim) o o' -> outcome_sim o o'.
Proof.
  intros [m n Hmn | s s' Hs | ]; cbn.
  - exact (list_R_Forall2 _ _ polygon_R_sim _ _ Hmn).
  - now apply panic_site_R_eq.
  - exact I.
Qed.

Lemma config_R_refl c : GB_o_Outcome_o_config_R c c.
Proof. destruct c as [[] [] [] []]; repeat constructor. Qed.
Lemma nat_R_refl n : Coq_o_Init_o_Datatypes_o_nat_R n n.
Proof. induction n; constructor; auto. Qed.
Lemma operation_R_refl o : GB_o_Event_o_operation_R o o.
Proof. destruct o; constructor. Qed.

(** C08 (translation and scaling clauses, exact arithmetic): for EVERY configuration, event
    budget, pair of operands and operation, the run on the transformed operands ends the
    same way as the run on the original ones — the same panic site, or out of fuel both,
    or two results of identical structure whose coordinates correspond under the
    similarity *)
Theorem similarity_covariant (cfg : config) (fuel : nat) (A B : list (polygon NQ)) (op : operation) :
  outcome_sim (boolean_operation cfg fuel A B op)
              (boolean_operation cfg fuel (sim_mpoly A) (sim_mpoly B) op).
Proof.
  apply outcome_R_sim.
  apply GB_o_BoolOp_o_boolean_operation_R.
  - apply config_R_refl.
  - apply nat_R_refl.
  - apply list_R_map, sim_polygon_R.
  - apply list_R_map, sim_polygon_R.
  - apply operation_R_refl.
Qed.

(** the same through the four trait impls *)
Definition sim_operand (o : operand NQ) : operand NQ :=
  match o with OpPolygon p => OpPolygon (sim_polygon p) | OpMulti m => OpMulti (sim_mpoly m) end.

Theorem similarity_covariant_boolean (cfg : config) (fuel : nat) (A B : operand NQ) (op : operation) :
  outcome_sim (boolean cfg fuel A B op) (boolean cfg fuel (sim_operand A) (sim_operand B) op).
Proof.
  unfold boolean.
  replace (as_slice (sim_operand A)) with (sim_mpoly (as_slice A)) by (destruct A; reflexivity).
  replace (as_slice (sim_operand B)) with (sim_mpoly (as_slice B)) by (destruct B; reflexivity).
  apply similarity_covariant.
Qed.

End Sim.
