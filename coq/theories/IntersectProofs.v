(** * Properties of [segment_intersection.rs] ([Intersect.v]): bounding box, clamp, and
    exactness of [intersection_impl] / [intersection] on the exact instance [NQ].

    Everything below is PROVED: no axioms, no [Admitted]; [Print Assumptions] of the 27 main
    theorems (end of file) reports "Closed under the global context".

    DEFINITIONS USED IN THE STATEMENTS
    - Part 1 (any [N : Num] with [L : NumLaws N]):
        [okpt L p := okX L (px p) /\ okY L (py p)]
        [betweenX N u v w := leX N u w && leX N w v = true \/ leX N v w && leX N w u = true]
        ([betweenY] alike), [in_seg_box a1 a2 q := betweenX (px a1) (px a2) (px q) /\ betweenY ...],
        [in_bbox bb q := bmin bb <= q <= bmax bb] componentwise.
    - Part 2 ([NQ], finite inputs [fpt x y := mkPt NQ (QF x) (QF y)], eight rationals
      [a1x a1y a2x a2y b1x b1y b2x b2y]):
        [det  := (a2x-a1x)*(b2y-b1y) - (a2y-a1y)*(b2x-b1x)]         (va x vb)
        [numT := (b1x-a1x)*(a2y-a1y) - (b1y-a1y)*(a2x-a1x)]         (e x va, e = b1 - a1)
        [common s t := a1 + s va = b1 + t vb]  (both coordinates, up to [==])
        [on_both x y := exists s t, 0<=s<=1 /\ 0<=t<=1 /\ (x,y) = a1 + s va /\ (x,y) = b1 + t vb]
        [disjoint_segments := forall s t, 0<=s<=1 -> 0<=t<=1 -> ~ common s t]
        [seg_a_at s x y := (x,y) = a1 + s va].

    (P1) [clamp_in_box]: for a box with ok corners and [bmin <= bmax], the clamp of a point
         with ok coordinates lies in the box (x and y).  Also [clamp_ok].
    (P2) [bbox_is_common_box]: if [get_intersection_bounding_box a1 a2 b1 b2 = Some bb] (8 ok
         coordinates) then the corners of [bb] are ok, [bmin <= bmax] componentwise, and every
         ok abscissa (ordinate) of the x-range (y-range) of [bb] lies between the end abscissae
         (ordinates) of segment a and of segment b.  NOTE: the probe coordinate needs [okX L x]
         ([okY L y]): [NumLaws] has no law about comparisons with non-ok values, and
         transitivity is only available on ok values.  Point form: [bbox_point_in_both_boxes].
    (P1+P2) [intersection_point_in_both_boxes], [intersection_overlap_in_both_boxes]: the
         points returned by [intersection] are ok and lie in the bounding boxes of both
         segments, provided the unclamped points of [intersection_impl] are ok (hypothesis, as
         specified).  At [NQ] the hypothesis is discharged for all finite inputs:
         [intersection_point_in_both_boxes_NQ], [intersection_overlap_in_both_boxes_NQ]
         (through [impl_finite_all]: every point returned by [intersection_impl NQ] on finite
         inputs is finite).
    (converse, generic) [clamp_identity_generic]: an ok point that lies in the boxes of both
         segments makes [get_intersection_bounding_box] succeed and is not moved by the clamp.
    (P3) crossing branch at [NQ], [~ det == 0]:
         [gt0_sq_iff]: [gt0A2 NQ (k*k) = true <-> ~ k == 0];
         (a) [impl_crossing_exact] : [intersection_impl = LPoint (x,y) -> on_both x y], with
             [on_both_unique] (the common point is unique up to [==]);
         (b) [impl_none_disjoint_crossing_case] : [intersection_impl = LNone -> disjoint_segments];
         (c) [impl_finite] : the result is [LNone] or [LPoint] of a finite point;
         [impl_crossing_complete] : (LNone and disjoint) or (LPoint of a common point).
    (P4) [exact_clamp_identity] (and [exact_clamp_identity_overlap]): a returned point that is
         on both segments is not moved by the clamp; [intersection_exact],
         [intersection_exact_point], [intersection_exact_none] (LNone <-> disjoint),
         [intersection_eq_impl_crossing] ([intersection = intersection_impl] when [~ det == 0]).
    (P3d) parallel branch, complete:
         [impl_parallel_distinct] : [det == 0], [~ numT == 0] -> [LNone], and the two LINES have
             no common point;
         [impl_collinear] / [intersection_collinear] : [det == 0], [numT == 0], [a1 <> a2]:
             there are [lo hi] such that the common part of the two closed segments is exactly
             [{a1 + s va | lo <= s <= hi}], and the result is [LNone] with [hi < lo], or
             [LPoint (a1 + lo va)] with [lo == hi], or [LOverlap (a1 + lo va) (a1 + hi va)]
             with [lo <= hi] (and [lo < hi] when [b1 <> b2]).
         [intersection_exact_all] : for every finite input with [a1 <> a2], [intersection]
             returns [LNone] only for disjoint segments, and otherwise common points.

    FINDING (why [a1 <> a2] is required in the collinear statements):
         [impl_degenerate_a_none] : if [a1 = a2] then [intersection_impl] (hence [intersection])
         returns [LNone] for EVERY [b1 b2], also when the point [a1] lies on segment [b]:
         the collinear branch computes [sa = 0/0 = NaN] and all comparisons are false.
         Concrete witness [degenerate_a_witness]: a1 = a2 = (0,0), b1 = (-1,0), b2 = (1,0):
         the result is [LNone] although (0,0) is a common point.  (A degenerate SECOND
         segment [b1 = b2] is handled exactly.)

    MISSING: nothing of (P1)-(P4),(d).  Not addressed: non-finite inputs at [NQ]. *)
From Coq Require Import Bool ZArith QArith Qreduction Lqa Lia.
From GB Require Import Num NumQ NumLaws NumLawsQ Intersect.
Set Implicit Arguments.

(** ** Part 0: one ordered carrier *)
Section Ord.
Variables (T : Type) (ok : T -> Prop) (lt le eq : T -> T -> bool) (mn mx : T -> T -> T).
Hypothesis O : OrderLaws ok lt le eq mn mx.

Definition clamp1 (p lo hi : T) : T := if lt p lo then lo else if lt hi p then hi else p.
Definition ord1 (a b : T) : T * T := if lt a b then (a, b) else (b, a).
(** [w] lies between [u] and [v] (in either order) *)
Definition between (u v w : T) : Prop :=
  le u w && le w v = true \/ le v w && le w u = true.

Lemma o_le_refl a : ok a -> le a a = true.
Proof.
  intros Ha. rewrite (ol_le_total O) by assumption. rewrite (ol_lt_irrefl O). reflexivity.
Qed.

Lemma o_lt_false_le a b : ok a -> ok b -> lt a b = false -> le b a = true.
Proof.
  intros Ha Hb H. rewrite (ol_le_total O) by assumption. rewrite H. reflexivity.
Qed.

Lemma o_le_lt_false a b : ok a -> ok b -> le a b = true -> lt b a = false.
Proof.
  intros Ha Hb H. rewrite (ol_le_total O) in H by assumption.
  destruct (lt b a); [discriminate H | reflexivity].
Qed.

Lemma clamp1_ok p lo hi : ok p -> ok lo -> ok hi -> ok (clamp1 p lo hi).
Proof.
  intros Hp Hlo Hhi. unfold clamp1. destruct (lt p lo); [assumption|].
  destruct (lt hi p); assumption.
Qed.

Lemma clamp1_in p lo hi :
  ok p -> ok lo -> ok hi -> le lo hi = true ->
  le lo (clamp1 p lo hi) = true /\ le (clamp1 p lo hi) hi = true.
Proof.
  intros Hp Hlo Hhi H. unfold clamp1.
  destruct (lt p lo) eqn:E1.
  - split; [apply o_le_refl; assumption | assumption].
  - destruct (lt hi p) eqn:E2.
    + split; [assumption | apply o_le_refl; assumption].
    + split; apply o_lt_false_le; assumption.
Qed.

Lemma clamp1_id p lo hi :
  ok p -> ok lo -> ok hi -> le lo p = true -> le p hi = true -> clamp1 p lo hi = p.
Proof.
  intros Hp Hlo Hhi H1 H2. unfold clamp1.
  rewrite (o_le_lt_false Hlo Hp H1). rewrite (o_le_lt_false Hp Hhi H2). reflexivity.
Qed.

Lemma ord1_spec a b :
  ok a -> ok b ->
  le (fst (ord1 a b)) (snd (ord1 a b)) = true /\
  ((fst (ord1 a b) = a /\ snd (ord1 a b) = b) \/ (fst (ord1 a b) = b /\ snd (ord1 a b) = a)).
Proof.
  intros Ha Hb. unfold ord1. destruct (lt a b) eqn:E; cbn [fst snd].
  - split; [apply (ol_lt_le O); assumption | left; split; reflexivity].
  - split; [apply o_lt_false_le; assumption | right; split; reflexivity].
Qed.

Lemma ord1_ok_fst a b : ok a -> ok b -> ok (fst (ord1 a b)).
Proof.
  intros Ha Hb. destruct (ord1_spec Ha Hb) as [_ [[-> _]|[-> _]]]; assumption.
Qed.

Lemma ord1_ok_snd a b : ok a -> ok b -> ok (snd (ord1 a b)).
Proof.
  intros Ha Hb. destruct (ord1_spec Ha Hb) as [_ [[_ ->]|[_ ->]]]; assumption.
Qed.

Lemma ord1_between a b w :
  ok a -> ok b ->
  le (fst (ord1 a b)) w = true -> le w (snd (ord1 a b)) = true -> between a b w.
Proof.
  intros Ha Hb H1 H2. unfold between.
  destruct (ord1_spec Ha Hb) as [_ [[E1 E2]|[E1 E2]]]; rewrite E1 in H1; rewrite E2 in H2.
  - left. rewrite H1, H2. reflexivity.
  - right. rewrite H1, H2. reflexivity.
Qed.

Lemma between_ord1 a b w :
  ok a -> ok b -> ok w -> between a b w ->
  le (fst (ord1 a b)) w = true /\ le w (snd (ord1 a b)) = true.
Proof.
  intros Ha Hb Hw Hbt.
  destruct (ord1_spec Ha Hb) as [Hle [[E1 E2]|[E1 E2]]]; rewrite E1, E2 in *.
  - destruct Hbt as [H|H]; apply andb_true_iff in H; destruct H as [H1 H2].
    + split; assumption.
    + split.
      * apply (ol_le_trans O) with b; assumption.
      * apply (ol_le_trans O) with a; assumption.
  - destruct Hbt as [H|H]; apply andb_true_iff in H; destruct H as [H1 H2].
    + split.
      * apply (ol_le_trans O) with a; assumption.
      * apply (ol_le_trans O) with b; assumption.
    + split; assumption.
Qed.

(** the common range [max of the lower ends, min of the upper ends] of two intervals *)
Lemma range_ok a1 a2 b1 b2 :
  ok a1 -> ok a2 -> ok b1 -> ok b2 ->
  ok (mx (fst (ord1 a1 a2)) (fst (ord1 b1 b2))) /\ ok (mn (snd (ord1 a1 a2)) (snd (ord1 b1 b2))).
Proof.
  intros Ha1 Ha2 Hb1 Hb2. split.
  - apply (ol_max_ok O); apply ord1_ok_fst; assumption.
  - apply (ol_min_ok O); apply ord1_ok_snd; assumption.
Qed.

Lemma range_between a1 a2 b1 b2 w :
  ok a1 -> ok a2 -> ok b1 -> ok b2 -> ok w ->
  le (mx (fst (ord1 a1 a2)) (fst (ord1 b1 b2))) w = true ->
  le w (mn (snd (ord1 a1 a2)) (snd (ord1 b1 b2))) = true ->
  between a1 a2 w /\ between b1 b2 w.
Proof.
  intros Ha1 Ha2 Hb1 Hb2 Hw H1 H2.
  assert (Hla := ord1_ok_fst Ha1 Ha2). assert (Hha := ord1_ok_snd Ha1 Ha2).
  assert (Hlb := ord1_ok_fst Hb1 Hb2). assert (Hhb := ord1_ok_snd Hb1 Hb2).
  destruct (range_ok Ha1 Ha2 Hb1 Hb2) as [Hlo Hhi].
  split; apply ord1_between; try assumption.
  - apply (ol_le_trans O) with (mx (fst (ord1 a1 a2)) (fst (ord1 b1 b2))); try assumption.
    apply (ol_max_l O); assumption.
  - apply (ol_le_trans O) with (mn (snd (ord1 a1 a2)) (snd (ord1 b1 b2))); try assumption.
    apply (ol_min_l O); assumption.
  - apply (ol_le_trans O) with (mx (fst (ord1 a1 a2)) (fst (ord1 b1 b2))); try assumption.
    apply (ol_max_r O); assumption.
  - apply (ol_le_trans O) with (mn (snd (ord1 a1 a2)) (snd (ord1 b1 b2))); try assumption.
    apply (ol_min_r O); assumption.
Qed.

Lemma between_range a1 a2 b1 b2 w :
  ok a1 -> ok a2 -> ok b1 -> ok b2 -> ok w ->
  between a1 a2 w -> between b1 b2 w ->
  le (mx (fst (ord1 a1 a2)) (fst (ord1 b1 b2))) w = true /\
  le w (mn (snd (ord1 a1 a2)) (snd (ord1 b1 b2))) = true.
Proof.
  intros Ha1 Ha2 Hb1 Hb2 Hw HA HB.
  assert (Hla := ord1_ok_fst Ha1 Ha2). assert (Hha := ord1_ok_snd Ha1 Ha2).
  assert (Hlb := ord1_ok_fst Hb1 Hb2). assert (Hhb := ord1_ok_snd Hb1 Hb2).
  destruct (between_ord1 Ha1 Ha2 Hw HA) as [A1 A2].
  destruct (between_ord1 Hb1 Hb2 Hw HB) as [B1 B2].
  split.
  - apply (ol_max_lub O); assumption.
  - apply (ol_min_glb O); assumption.
Qed.

End Ord.

(** ** Part 1: every instance with laws (P1, P2 and their combination) *)
Section Generic.
Variable N : Num.
Variable L : NumLaws N.
Notation pt := (pt N).

Definition okpt (p : pt) : Prop := okX L (px p) /\ okY L (py p).
Definition betweenX (u v w : X N) : Prop :=
  leX N u w && leX N w v = true \/ leX N v w && leX N w u = true.
Definition betweenY (u v w : Y N) : Prop :=
  leY N u w && leY N w v = true \/ leY N v w && leY N w u = true.
(** [q] is in the bounding box of the segment [a1 a2] *)
Definition in_seg_box (a1 a2 q : pt) : Prop :=
  betweenX (px a1) (px a2) (px q) /\ betweenY (py a1) (py a2) (py q).
Definition in_bbox (bb : bbox N) (q : pt) : Prop :=
  (leX N (px (bmin bb)) (px q) = true /\ leX N (px q) (px (bmax bb)) = true) /\
  (leY N (py (bmin bb)) (py q) = true /\ leY N (py q) (py (bmax bb)) = true).

Lemma constrain_px p bb :
  px (constrain_to_bounding_box p bb) = clamp1 (ltX N) (px p) (px (bmin bb)) (px (bmax bb)).
Proof. reflexivity. Qed.
Lemma constrain_py p bb :
  py (constrain_to_bounding_box p bb) = clamp1 (ltY N) (py p) (py (bmin bb)) (py (bmax bb)).
Proof. reflexivity. Qed.

(** (P1) the clamped point is in the box *)
Theorem clamp_in_box (p : pt) (bb : bbox N) :
  okpt p -> okpt (bmin bb) -> okpt (bmax bb) ->
  leX N (px (bmin bb)) (px (bmax bb)) = true ->
  leY N (py (bmin bb)) (py (bmax bb)) = true ->
  (leX N (px (bmin bb)) (px (constrain_to_bounding_box p bb)) = true /\
   leX N (px (constrain_to_bounding_box p bb)) (px (bmax bb)) = true) /\
  (leY N (py (bmin bb)) (py (constrain_to_bounding_box p bb)) = true /\
   leY N (py (constrain_to_bounding_box p bb)) (py (bmax bb)) = true).
Proof.
  intros [Hpx Hpy] [Hlx Hly] [Hhx Hhy] HX HY.
  rewrite constrain_px, constrain_py. split.
  - apply (clamp1_in (nl_X L)); assumption.
  - apply (clamp1_in (nl_Y L)); assumption.
Qed.

Lemma clamp_ok (p : pt) (bb : bbox N) :
  okpt p -> okpt (bmin bb) -> okpt (bmax bb) -> okpt (constrain_to_bounding_box p bb).
Proof.
  intros [Hpx Hpy] [Hlx Hly] [Hhx Hhy]. split.
  - rewrite constrain_px. apply clamp1_ok; assumption.
  - rewrite constrain_py. apply clamp1_ok; assumption.
Qed.

Lemma bbox_some_inv a1 a2 b1 b2 bb :
  get_intersection_bounding_box a1 a2 b1 b2 = Some bb ->
  leX N (px (bmin bb)) (px (bmax bb)) = true /\
  leY N (py (bmin bb)) (py (bmax bb)) = true /\
  bb = mkBox
         (mkPt N (maxX N (fst (ord1 (ltX N) (px a1) (px a2))) (fst (ord1 (ltX N) (px b1) (px b2))))
                 (maxY N (fst (ord1 (ltY N) (py a1) (py a2))) (fst (ord1 (ltY N) (py b1) (py b2)))))
         (mkPt N (minX N (snd (ord1 (ltX N) (px a1) (px a2))) (snd (ord1 (ltX N) (px b1) (px b2))))
                 (minY N (snd (ord1 (ltY N) (py a1) (py a2))) (snd (ord1 (ltY N) (py b1) (py b2))))).
Proof.
  unfold get_intersection_bounding_box.
  change (ordX N) with (ord1 (ltX N)). change (ordY N) with (ord1 (ltY N)).
  cbv zeta.
  destruct (leX N _ _ && leY N _ _) eqn:E; [|discriminate].
  intros H; injection H as <-. cbn [bmin bmax px py].
  apply andb_true_iff in E. destruct E as [E1 E2].
  split; [exact E1|]. split; [exact E2|]. reflexivity.
Qed.

(** (P2) the box returned by [get_intersection_bounding_box] is non-empty, has ok corners,
    and each of its coordinate ranges is inside the ranges of both segments *)
Theorem bbox_is_common_box a1 a2 b1 b2 bb :
  okpt a1 -> okpt a2 -> okpt b1 -> okpt b2 ->
  get_intersection_bounding_box a1 a2 b1 b2 = Some bb ->
  okpt (bmin bb) /\ okpt (bmax bb) /\
  leX N (px (bmin bb)) (px (bmax bb)) = true /\
  leY N (py (bmin bb)) (py (bmax bb)) = true /\
  (forall x, okX L x ->
     leX N (px (bmin bb)) x = true -> leX N x (px (bmax bb)) = true ->
     betweenX (px a1) (px a2) x /\ betweenX (px b1) (px b2) x) /\
  (forall y, okY L y ->
     leY N (py (bmin bb)) y = true -> leY N y (py (bmax bb)) = true ->
     betweenY (py a1) (py a2) y /\ betweenY (py b1) (py b2) y).
Proof.
  intros [A1x A1y] [A2x A2y] [B1x B1y] [B2x B2y] Hbb.
  destruct (bbox_some_inv _ _ _ _ Hbb) as [HX [HY E]].
  destruct (range_ok (nl_X L) _ _ _ _ A1x A2x B1x B2x) as [OX1 OX2].
  destruct (range_ok (nl_Y L) _ _ _ _ A1y A2y B1y B2y) as [OY1 OY2].
  subst bb. cbn [bmin bmax px py] in *.
  split; [split; assumption|]. split; [split; assumption|].
  split; [exact HX|]. split; [exact HY|]. split.
  - intros x Hx H1 H2. exact (range_between (nl_X L) _ _ _ _ _ A1x A2x B1x B2x Hx H1 H2).
  - intros y Hy H1 H2. exact (range_between (nl_Y L) _ _ _ _ _ A1y A2y B1y B2y Hy H1 H2).
Qed.

Corollary bbox_point_in_both_boxes a1 a2 b1 b2 bb q :
  okpt a1 -> okpt a2 -> okpt b1 -> okpt b2 ->
  get_intersection_bounding_box a1 a2 b1 b2 = Some bb ->
  okpt q -> in_bbox bb q -> in_seg_box a1 a2 q /\ in_seg_box b1 b2 q.
Proof.
  intros A1 A2 B1 B2 Hbb [Qx Qy] [[X1 X2] [Y1 Y2]].
  destruct (bbox_is_common_box A1 A2 B1 B2 Hbb) as (_ & _ & _ & _ & HX & HY).
  destruct (HX _ Qx X1 X2) as [Xa Xb]. destruct (HY _ Qy Y1 Y2) as [Ya Yb].
  split; split; assumption.
Qed.

Lemma clamp_in_both_boxes a1 a2 b1 b2 bb p :
  okpt a1 -> okpt a2 -> okpt b1 -> okpt b2 ->
  get_intersection_bounding_box a1 a2 b1 b2 = Some bb ->
  okpt p ->
  okpt (constrain_to_bounding_box p bb) /\
  in_seg_box a1 a2 (constrain_to_bounding_box p bb) /\
  in_seg_box b1 b2 (constrain_to_bounding_box p bb).
Proof.
  intros A1 A2 B1 B2 Hbb Hp.
  destruct (bbox_is_common_box A1 A2 B1 B2 Hbb) as (Hlo & Hhi & HX & HY & _).
  assert (Hq := @clamp_ok p bb Hp Hlo Hhi).
  split; [exact Hq|].
  apply (bbox_point_in_both_boxes A1 A2 B1 B2 Hbb Hq).
  exact (@clamp_in_box p bb Hp Hlo Hhi HX HY).
Qed.

(** P1 + P2: the point returned by [intersection] is in the bounding boxes of both segments *)
Theorem intersection_point_in_both_boxes a1 a2 b1 b2 q :
  okpt a1 -> okpt a2 -> okpt b1 -> okpt b2 ->
  (forall p, intersection_impl a1 a2 b1 b2 = LPoint p -> okX L (px p) /\ okY L (py p)) ->
  intersection a1 a2 b1 b2 = LPoint q ->
  okpt q /\ in_seg_box a1 a2 q /\ in_seg_box b1 b2 q.
Proof.
  intros A1 A2 B1 B2 Himpl. unfold intersection.
  destruct (get_intersection_bounding_box a1 a2 b1 b2) as [bb|] eqn:Hbb; [|discriminate].
  destruct (intersection_impl a1 a2 b1 b2) as [|p|p p'] eqn:Hi; try discriminate.
  intros H; injection H as <-.
  apply clamp_in_both_boxes; try assumption.
  apply Himpl. reflexivity.
Qed.

Theorem intersection_overlap_in_both_boxes a1 a2 b1 b2 q q' :
  okpt a1 -> okpt a2 -> okpt b1 -> okpt b2 ->
  (forall p p', intersection_impl a1 a2 b1 b2 = LOverlap p p' -> okpt p /\ okpt p') ->
  intersection a1 a2 b1 b2 = LOverlap q q' ->
  (okpt q /\ in_seg_box a1 a2 q /\ in_seg_box b1 b2 q) /\
  (okpt q' /\ in_seg_box a1 a2 q' /\ in_seg_box b1 b2 q').
Proof.
  intros A1 A2 B1 B2 Himpl. unfold intersection.
  destruct (get_intersection_bounding_box a1 a2 b1 b2) as [bb|] eqn:Hbb; [|discriminate].
  destruct (intersection_impl a1 a2 b1 b2) as [|p|p p'] eqn:Hi; try discriminate.
  intros H; injection H as <- <-.
  destruct (Himpl _ _ eq_refl) as [Hp Hp'].
  split; apply clamp_in_both_boxes; assumption.
Qed.

(** the converse direction, used for (P4): a point of both segment boxes is not moved *)
Theorem clamp_identity_generic a1 a2 b1 b2 p :
  okpt a1 -> okpt a2 -> okpt b1 -> okpt b2 -> okpt p ->
  in_seg_box a1 a2 p -> in_seg_box b1 b2 p ->
  exists bb, get_intersection_bounding_box a1 a2 b1 b2 = Some bb /\
             constrain_to_bounding_box p bb = p.
Proof.
  intros [A1x A1y] [A2x A2y] [B1x B1y] [B2x B2y] [Px Py] [HAx HAy] [HBx HBy].
  destruct (between_range (nl_X L) A1x A2x B1x B2x Px HAx HBx) as [X1 X2].
  destruct (between_range (nl_Y L) A1y A2y B1y B2y Py HAy HBy) as [Y1 Y2].
  destruct (range_ok (nl_X L) _ _ _ _ A1x A2x B1x B2x) as [OX1 OX2].
  destruct (range_ok (nl_Y L) _ _ _ _ A1y A2y B1y B2y) as [OY1 OY2].
  unfold get_intersection_bounding_box.
  change (ordX N) with (ord1 (ltX N)). change (ordY N) with (ord1 (ltY N)).
  cbv zeta.
  rewrite (ol_le_trans (nl_X L) _ _ _ OX1 Px OX2 X1 X2).
  rewrite (ol_le_trans (nl_Y L) _ _ _ OY1 Py OY2 Y1 Y2).
  cbn [andb]. eexists. split; [reflexivity|].
  destruct p as [x y]. unfold constrain_to_bounding_box. cbn [bmin bmax px py] in *.
  f_equal.
  - apply (clamp1_id (nl_X L)); assumption.
  - apply (clamp1_id (nl_Y L)); assumption.
Qed.

End Generic.

(** ** Part 2: the exact instance [NQ] on finite inputs (P3, P4) *)
Local Open Scope Q_scope.

(** a finite point *)
Definition fpt (x y : Q) : pt NQ := mkPt NQ (QF x) (QF y).

Lemma okpt_fpt x y : okpt NQ_laws (fpt x y).
Proof. split; cbn; apply qok_QF. Qed.

(** *** the operations of [NQ] on finite values *)
Definition qdiv (x y : Q) : qx :=
  match qsgn y with Eq => inf_of_sign (qsgn x) | _ => QF (Qred (x / y)) end.
Definition rsub (u v : Q) : Q := Qred (u + - v).
Definition rcross (ax ay bx by_ : Q) : Q := Qred (Qred (ax * by_) + - Qred (ay * bx)).
Definition rdot (ax ay bx by_ : Q) : Q := Qred (Qred (ax * bx) + Qred (ay * by_)).
Definition rmid (p s d : Q) : Q := Qred (p + Qred (s * d)).

Lemma qx_div_FF x y : qx_div (QF x) (QF y) = qdiv x y.
Proof. reflexivity. Qed.
Lemma qx_sub_FF x y : qx_sub (QF x) (QF y) = QF (rsub x y).
Proof. reflexivity. Qed.
Lemma cross_FF a b c d : cross NQ (QF a) (QF b) (QF c) (QF d) = QF (rcross a b c d).
Proof. reflexivity. Qed.
Lemma dot_FF a b c d : dot NQ (QF a) (QF b) (QF c) (QF d) = QF (rdot a b c d).
Proof. reflexivity. Qed.
Lemma mid_point_FF p1 p2 s dx dy :
  mid_point (fpt p1 p2) (QF s) (QF dx) (QF dy) = fpt (rmid p1 s dx) (rmid p2 s dy).
Proof. reflexivity. Qed.

Lemma rsub_eq u v : rsub u v == u - v.
Proof. unfold rsub. rewrite Qred_correct. ring. Qed.
Lemma rcross_eq a b c d : rcross a b c d == a * d - b * c.
Proof. unfold rcross. rewrite !Qred_correct. ring. Qed.
Lemma rdot_eq a b c d : rdot a b c d == a * c + b * d.
Proof. unfold rdot. rewrite !Qred_correct. ring. Qed.
Lemma rmid_eq p s d : rmid p s d == p + s * d.
Proof. unfold rmid. rewrite !Qred_correct. ring. Qed.

Lemma qsgn_Eq y : qsgn y = Eq <-> y == 0.
Proof.
  unfold qsgn. rewrite Z.compare_eq_iff. unfold Qeq. cbn [Qnum Qden]. lia.
Qed.

Lemma qdiv_nz n k : ~ k == 0 -> qdiv n k = QF (Qred (n / k)).
Proof.
  intros Hk. unfold qdiv. destruct (qsgn k) eqn:E; try reflexivity.
  exfalso. apply Hk, qsgn_Eq, E.
Qed.

Lemma qdiv_00 n k : n == 0 -> k == 0 -> qdiv n k = QNaN.
Proof.
  intros Hn Hk. unfold qdiv.
  rewrite (proj2 (qsgn_Eq k) Hk), (proj2 (qsgn_Eq n) Hn). reflexivity.
Qed.

Lemma sq_pos k : ~ k == 0 -> 0 < k * k.
Proof.
  intros Hk. destruct (Q_dec k 0) as [[H|H]|H]; [nra | nra | contradiction].
Qed.

(** [gt0A2 NQ (k*k)] is true iff [k] is not zero *)
Lemma gt0_sq_true k : ~ k == 0 -> qx_lt (QF 0) (QF (Qred (k * k))) = true.
Proof.
  intros Hk. apply qx_lt_FF. rewrite Qred_correct. apply sq_pos, Hk.
Qed.

Lemma gt0_sq_false k : k == 0 -> qx_lt (QF 0) (QF (Qred (k * k))) = false.
Proof.
  intros Hk. apply qx_lt_FF_false. rewrite Qred_correct, Hk. lra.
Qed.

Lemma gt0_sq_iff k : gt0A2 NQ (mulAA NQ (QF k) (QF k)) = true <-> ~ k == 0.
Proof.
  change (gt0A2 NQ (mulAA NQ (QF k) (QF k))) with (qx_lt (QF 0) (QF (Qred (k * k)))).
  split.
  - intros H Hk. rewrite (gt0_sq_false Hk) in H. discriminate.
  - apply gt0_sq_true.
Qed.

(** a point at parameter [s] in [0,1] of an interval lies between its ends *)
Lemma param_between s u v x :
  0 <= s <= 1 -> x == u + s * (v - u) -> betweenX NQ (QF u) (QF v) (QF x).
Proof.
  intros Hs Hx. unfold betweenX. cbn [leX NQ].
  destruct (Qlt_le_dec u v) as [H|H]; [left | right];
    apply andb_true_iff; split; apply qx_le_FF; nra.
Qed.

(** min and max of [NQ] on finite values *)
Definition qmin (x y : Q) : Q := match x ?= y with Gt => y | _ => x end.
Definition qmax (x y : Q) : Q := match x ?= y with Lt => y | _ => x end.

Lemma qx_min_FF x y : qx_min (QF x) (QF y) = QF (qmin x y).
Proof. unfold qx_min, qmin. rewrite qx_compare_FF. destruct (x ?= y); reflexivity. Qed.
Lemma qx_max_FF x y : qx_max (QF x) (QF y) = QF (qmax x y).
Proof. unfold qx_max, qmax. rewrite qx_compare_FF. destruct (x ?= y); reflexivity. Qed.
Lemma qx_add_FF x y : qx_add (QF x) (QF y) = QF (Qred (x + y)).
Proof. reflexivity. Qed.

Lemma qmin_spec x y : (x <= y /\ qmin x y = x) \/ (y < x /\ qmin x y = y).
Proof.
  unfold qmin. destruct (Qcompare_spec x y) as [H|H|H].
  - left. split; [lra | reflexivity].
  - left. split; [lra | reflexivity].
  - right. split; [lra | reflexivity].
Qed.
Lemma qmax_spec x y : (x < y /\ qmax x y = y) \/ (y <= x /\ qmax x y = x).
Proof.
  unfold qmax. destruct (Qcompare_spec x y) as [H|H|H].
  - right. split; [lra | reflexivity].
  - left. split; [lra | reflexivity].
  - right. split; [lra | reflexivity].
Qed.

(** the parameter range [max (min al be) 0 .. min (max al be) 1] *)
Lemma lohi_range al be s :
  qmax (qmin al be) 0 <= s <= qmin (qmax al be) 1 <->
  (0 <= s <= 1 /\ (al <= s <= be \/ be <= s <= al)).
Proof.
  destruct (qmin_spec al be) as [[H1 ->]|[H1 ->]];
  destruct (qmax_spec al be) as [[H2 ->]|[H2 ->]];
  match goal with |- qmax ?u 0 <= _ <= _ <-> _ => destruct (qmax_spec u 0) as [[H3 ->]|[H3 ->]] end;
  match goal with |- _ <= _ <= qmin ?u 1 <-> _ => destruct (qmin_spec u 1) as [[H4 ->]|[H4 ->]] end;
  split; intros H; lra.
Qed.

Lemma sum_sq_zero u v : u * u + v * v == 0 -> u == 0 /\ v == 0.
Proof.
  intros E.
  assert (Hu : 0 <= u * u) by nra. assert (Hv : 0 <= v * v) by nra.
  assert (Eu : u * u == 0) by lra. assert (Ev : v * v == 0) by lra.
  apply Qmult_integral in Eu. apply Qmult_integral in Ev. tauto.
Qed.

Lemma div_between u d : 0 < d -> 0 <= u <= d -> 0 <= u / d <= 1.
Proof.
  intros Hd Hu. split.
  - apply Qle_shift_div_l; [exact Hd | lra].
  - apply Qle_shift_div_r; [exact Hd | lra].
Qed.

(** a vector [e] collinear with [v <> 0] is its projection on [v] *)
Lemma proj_collinear vx vy ex ey :
  ~ vx * vx + vy * vy == 0 -> ex * vy - ey * vx == 0 ->
  ex == (vx * ex + vy * ey) / (vx * vx + vy * vy) * vx /\
  ey == (vx * ex + vy * ey) / (vx * vx + vy * vy) * vy.
Proof.
  intros Hl Hc. split.
  - apply (Qmult_inj_r _ _ _ Hl).
    assert (E : ex * (vx * vx + vy * vy) - (vx * ex + vy * ey) * vx == vy * (ex * vy - ey * vx)) by ring.
    rewrite Hc in E.
    assert (E2 : (vx * ex + vy * ey) / (vx * vx + vy * vy) * vx * (vx * vx + vy * vy)
                 == (vx * ex + vy * ey) * vx) by (field; exact Hl).
    rewrite E2. lra.
  - apply (Qmult_inj_r _ _ _ Hl).
    assert (E : ey * (vx * vx + vy * vy) - (vx * ex + vy * ey) * vy == - vx * (ex * vy - ey * vx)) by ring.
    rewrite Hc in E.
    assert (E2 : (vx * ex + vy * ey) / (vx * vx + vy * vy) * vy * (vx * vx + vy * vy)
                 == (vx * ex + vy * ey) * vy) by (field; exact Hl).
    rewrite E2. lra.
Qed.

Section Exact.
Variables a1x a1y a2x a2y b1x b1y b2x b2y : Q.
Local Notation A1 := (fpt a1x a1y).
Local Notation A2 := (fpt a2x a2y).
Local Notation B1 := (fpt b1x b1y).
Local Notation B2 := (fpt b2x b2y).

(** the exact quantities *)
Definition det : Q := (a2x - a1x) * (b2y - b1y) - (a2y - a1y) * (b2x - b1x).
(** [e x vb] and [e x va] with [e = b1 - a1] *)
Definition numS : Q := (b1x - a1x) * (b2y - b1y) - (b1y - a1y) * (b2x - b1x).
Definition numT : Q := (b1x - a1x) * (a2y - a1y) - (b1y - a1y) * (a2x - a1x).

(** [a1 + s va = b1 + t vb] *)
Definition common (s t : Q) : Prop :=
  a1x + s * (a2x - a1x) == b1x + t * (b2x - b1x) /\
  a1y + s * (a2y - a1y) == b1y + t * (b2y - b1y).
(** [(x,y)] is a common point of the two closed segments *)
Definition on_both (x y : Q) : Prop :=
  exists s t, 0 <= s <= 1 /\ 0 <= t <= 1 /\
    x == a1x + s * (a2x - a1x) /\ y == a1y + s * (a2y - a1y) /\
    x == b1x + t * (b2x - b1x) /\ y == b1y + t * (b2y - b1y).
(** the closed segments have no common point *)
Definition disjoint_segments : Prop :=
  forall s t, 0 <= s <= 1 -> 0 <= t <= 1 -> ~ common s t.

(** the values the code computes (reduced after every operation) *)
Definition rvax := rsub a2x a1x.
Definition rvay := rsub a2y a1y.
Definition rvbx := rsub b2x b1x.
Definition rvby := rsub b2y b1y.
Definition rex := rsub b1x a1x.
Definition rey := rsub b1y a1y.
Definition rk := rcross rvax rvay rvbx rvby.
Definition rns := rcross rex rey rvbx rvby.
Definition rnt := rcross rex rey rvax rvay.
Definition rlen := rdot rvax rvay rvax rvay.
Definition rs := Qred (rns / rk).
Definition rt := Qred (rnt / rk).

Lemma impl_eval :
  intersection_impl A1 A2 B1 B2 =
  if qx_lt (QF 0) (QF (Qred (rk * rk))) then
    let s := qdiv rns rk in
    if qx_lt s (QF 0) || qx_lt (QF 1) s then LNone
    else
      let t := qdiv rnt rk in
      if qx_lt t (QF 0) || qx_lt (QF 1) t then LNone
      else if qx_eq s (QF 0) || qx_eq s (QF 1) then LPoint (mid_point A1 s (QF rvax) (QF rvay))
      else if qx_eq t (QF 0) || qx_eq t (QF 1) then LPoint (mid_point B1 t (QF rvbx) (QF rvby))
      else LPoint (mid_point A1 s (QF rvax) (QF rvay))
  else
    if qx_lt (QF 0) (QF (Qred (rnt * rnt))) then LNone
    else
      let sa := qdiv (rdot rvax rvay rex rey) rlen in
      let sb := qx_add sa (qdiv (rdot rvax rvay rvbx rvby) rlen) in
      let smin := qx_min sa sb in
      let smax := qx_max sa sb in
      if qx_le smin (QF 1) && qx_le (QF 0) smax then
        if qx_eq smin (QF 1) then LPoint (mid_point A1 smin (QF rvax) (QF rvay))
        else if qx_eq smax (QF 0) then LPoint (mid_point A1 smax (QF rvax) (QF rvay))
        else LOverlap (mid_point A1 (qx_max smin (QF 0)) (QF rvax) (QF rvay))
                      (mid_point A1 (qx_min smax (QF 1)) (QF rvax) (QF rvay))
      else LNone.
Proof. reflexivity. Qed.

Lemma rk_det : rk == det.
Proof.
  unfold rk, rvax, rvay, rvbx, rvby, det. rewrite rcross_eq, !rsub_eq. ring.
Qed.
Lemma rns_eq : rns == numS.
Proof.
  unfold rns, rex, rey, rvbx, rvby, numS. rewrite rcross_eq, !rsub_eq. ring.
Qed.
Lemma rnt_eq : rnt == numT.
Proof.
  unfold rnt, rex, rey, rvax, rvay, numT. rewrite rcross_eq, !rsub_eq. ring.
Qed.
Lemma rs_eq : rs == numS / det.
Proof. unfold rs. rewrite Qred_correct, rns_eq, rk_det. reflexivity. Qed.
Lemma rt_eq : rt == numT / det.
Proof. unfold rt. rewrite Qred_correct, rnt_eq, rk_det. reflexivity. Qed.

(** Cramer: the two parametrisations meet at [(rs, rt)] *)
Lemma cramer_common : ~ det == 0 -> common rs rt.
Proof.
  intros Hdet. unfold common. rewrite rs_eq, rt_eq.
  assert (Hd : ~ (a2x - a1x) * (b2y - b1y) - (a2y - a1y) * (b2x - b1x) == 0) by exact Hdet.
  unfold numS, numT, det. split; field; exact Hd.
Qed.

(** and only there *)
Lemma common_det_s s t : common s t -> s * det == numS.
Proof.
  intros [Hx Hy].
  assert (E : s * det - numS ==
              ((a1x + s * (a2x - a1x)) - (b1x + t * (b2x - b1x))) * (b2y - b1y) -
              ((a1y + s * (a2y - a1y)) - (b1y + t * (b2y - b1y))) * (b2x - b1x))
    by (unfold det, numS; ring).
  rewrite Hx, Hy in E. lra.
Qed.

Lemma common_det_t s t : common s t -> t * det == numT.
Proof.
  intros [Hx Hy].
  assert (E : t * det - numT ==
              ((a1x + s * (a2x - a1x)) - (b1x + t * (b2x - b1x))) * (a2y - a1y) -
              ((a1y + s * (a2y - a1y)) - (b1y + t * (b2y - b1y))) * (a2x - a1x))
    by (unfold det, numT; ring).
  rewrite Hx, Hy in E. lra.
Qed.

Lemma common_params s t : ~ det == 0 -> common s t -> s == rs /\ t == rt.
Proof.
  intros Hdet Hc. rewrite rs_eq, rt_eq.
  rewrite <- (common_det_s Hc), <- (common_det_t Hc).
  split; field; exact Hdet.
Qed.

(** *** (P3) the crossing branch: [det <> 0] *)

(** the complete case analysis of the crossing branch *)
Lemma impl_crossing_cases :
  ~ det == 0 ->
  ((rs < 0 \/ 1 < rs \/ rt < 0 \/ 1 < rt) /\ intersection_impl A1 A2 B1 B2 = LNone) \/
  ((0 <= rs <= 1 /\ 0 <= rt <= 1) /\
   exists x y, intersection_impl A1 A2 B1 B2 = LPoint (fpt x y) /\
     x == a1x + rs * (a2x - a1x) /\ y == a1y + rs * (a2y - a1y) /\
     x == b1x + rt * (b2x - b1x) /\ y == b1y + rt * (b2y - b1y)).
Proof.
  intros Hdet.
  assert (Hk : ~ rk == 0) by (rewrite rk_det; exact Hdet).
  destruct (cramer_common Hdet) as [Cx Cy].
  rewrite impl_eval. cbv zeta.
  rewrite (gt0_sq_true Hk). rewrite !(qdiv_nz _ Hk).
  change (Qred (rns / rk)) with rs. change (Qred (rnt / rk)) with rt.
  destruct (qx_lt (QF rs) (QF 0)) eqn:E1.
  { left. apply qx_lt_FF in E1. split; [tauto | reflexivity]. }
  destruct (qx_lt (QF 1) (QF rs)) eqn:E2.
  { left. apply qx_lt_FF in E2. split; [tauto | reflexivity]. }
  cbn [orb].
  destruct (qx_lt (QF rt) (QF 0)) eqn:E3.
  { left. apply qx_lt_FF in E3. split; [tauto | reflexivity]. }
  destruct (qx_lt (QF 1) (QF rt)) eqn:E4.
  { left. apply qx_lt_FF in E4. split; [tauto | reflexivity]. }
  cbn [orb].
  apply qx_lt_FF_false in E1, E2, E3, E4.
  right. split; [split; split; assumption|].
  rewrite !mid_point_FF.
  assert (HA : exists x y,
             LPoint (fpt (rmid a1x rs rvax) (rmid a1y rs rvay)) = LPoint (fpt x y) /\
             x == a1x + rs * (a2x - a1x) /\ y == a1y + rs * (a2y - a1y) /\
             x == b1x + rt * (b2x - b1x) /\ y == b1y + rt * (b2y - b1y)).
  { eexists; eexists. split; [reflexivity|].
    rewrite <- Cx, <- Cy. unfold rvax, rvay. rewrite !rmid_eq, !rsub_eq.
    repeat split; reflexivity. }
  assert (HB : exists x y,
             LPoint (fpt (rmid b1x rt rvbx) (rmid b1y rt rvby)) = LPoint (fpt x y) /\
             x == a1x + rs * (a2x - a1x) /\ y == a1y + rs * (a2y - a1y) /\
             x == b1x + rt * (b2x - b1x) /\ y == b1y + rt * (b2y - b1y)).
  { eexists; eexists. split; [reflexivity|].
    rewrite Cx, Cy. unfold rvbx, rvby. rewrite !rmid_eq, !rsub_eq.
    repeat split; reflexivity. }
  destruct (qx_eq (QF rs) (QF 0) || qx_eq (QF rs) (QF 1)); [exact HA|].
  destruct (qx_eq (QF rt) (QF 0) || qx_eq (QF rt) (QF 1)); [exact HB | exact HA].
Qed.

(** (P3c) *)
Theorem impl_finite :
  ~ det == 0 ->
  intersection_impl A1 A2 B1 B2 = LNone \/
  exists x y, intersection_impl A1 A2 B1 B2 = LPoint (fpt x y).
Proof.
  intros Hdet. destruct (impl_crossing_cases Hdet) as [[_ H]|[_ (x & y & H & _)]].
  - left; exact H.
  - right; exists x, y; exact H.
Qed.

(** (P3a) *)
Theorem impl_crossing_exact x y :
  ~ det == 0 ->
  intersection_impl A1 A2 B1 B2 = LPoint (mkPt NQ (QF x) (QF y)) ->
  on_both x y.
Proof.
  intros Hdet Hi.
  destruct (impl_crossing_cases Hdet) as [[_ H]|[[Hs Ht] (x' & y' & H & Hx1 & Hy1 & Hx2 & Hy2)]].
  - rewrite H in Hi. discriminate.
  - rewrite H in Hi. injection Hi as <- <-.
    exists rs, rt. repeat split; try assumption; tauto.
Qed.

(** a common point is unique when the segments are not parallel *)
Theorem on_both_unique x y x' y' :
  ~ det == 0 -> on_both x y -> on_both x' y' -> x == x' /\ y == y'.
Proof.
  intros Hdet (s & t & _ & _ & Hx & Hy & Hx2 & Hy2) (s' & t' & _ & _ & Hx' & Hy' & Hx2' & Hy2').
  assert (C : common s t) by (split; [rewrite <- Hx | rewrite <- Hy]; assumption).
  assert (C' : common s' t') by (split; [rewrite <- Hx' | rewrite <- Hy']; assumption).
  destruct (common_params Hdet C) as [Es _]. destruct (common_params Hdet C') as [Es' _].
  rewrite Hx, Hy, Hx', Hy', Es, Es'. split; reflexivity.
Qed.

Lemma disjoint_iff_no_common_point : disjoint_segments <-> ~ exists x y, on_both x y.
Proof.
  split.
  - intros Hd (x & y & s & t & Hs & Ht & Hx & Hy & Hx2 & Hy2).
    apply (Hd s t Hs Ht). split; [rewrite <- Hx | rewrite <- Hy]; assumption.
  - intros Hn s t Hs Ht [Cx Cy]. apply Hn.
    exists (a1x + s * (a2x - a1x)), (a1y + s * (a2y - a1y)), s, t.
    repeat split; try tauto; try reflexivity; assumption.
Qed.

(** (P3b) *)
Theorem impl_none_disjoint_crossing_case :
  ~ det == 0 ->
  intersection_impl A1 A2 B1 B2 = LNone ->
  disjoint_segments.
Proof.
  intros Hdet Hi s t Hs Ht Hc.
  destruct (common_params Hdet Hc) as [Es Et].
  destruct (impl_crossing_cases Hdet) as [[Hout _]|[_ (x' & y' & H & _)]].
  - rewrite <- Es, <- Et in Hout. lra.
  - rewrite H in Hi. discriminate.
Qed.

(** converse of (P3b): the case analysis is complete *)
Theorem impl_crossing_complete :
  ~ det == 0 ->
  (intersection_impl A1 A2 B1 B2 = LNone /\ disjoint_segments) \/
  (exists x y, intersection_impl A1 A2 B1 B2 = LPoint (fpt x y) /\ on_both x y).
Proof.
  intros Hdet. destruct (impl_finite Hdet) as [H|(x & y & H)].
  - left. split; [exact H|]. exact (impl_none_disjoint_crossing_case Hdet H).
  - right. exists x, y. split; [exact H|]. exact (impl_crossing_exact Hdet H).
Qed.

(** *** (P4) the clamp does not move an exact common point *)

Lemma on_both_in_boxes x y :
  on_both x y -> in_seg_box A1 A2 (fpt x y) /\ in_seg_box B1 B2 (fpt x y).
Proof.
  intros (s & t & Hs & Ht & Hx & Hy & Hx2 & Hy2).
  split; split; cbn [px py fpt].
  - exact (param_between Hs Hx).
  - exact (param_between Hs Hy).
  - exact (param_between Ht Hx2).
  - exact (param_between Ht Hy2).
Qed.

Theorem exact_clamp_identity x y :
  on_both x y ->
  intersection_impl A1 A2 B1 B2 = LPoint (fpt x y) ->
  intersection A1 A2 B1 B2 = LPoint (fpt x y).
Proof.
  intros Hon Hi. destruct (on_both_in_boxes Hon) as [HA HB].
  destruct (clamp_identity_generic (L := NQ_laws)
              (okpt_fpt a1x a1y) (okpt_fpt a2x a2y) (okpt_fpt b1x b1y) (okpt_fpt b2x b2y)
              (okpt_fpt x y) HA HB) as [bb [Hbb Hc]].
  unfold intersection. rewrite Hbb, Hi, Hc. reflexivity.
Qed.

Lemma intersection_none_of_impl :
  intersection_impl A1 A2 B1 B2 = LNone -> intersection A1 A2 B1 B2 = LNone.
Proof.
  intros Hi. unfold intersection. rewrite Hi.
  destruct (get_intersection_bounding_box A1 A2 B1 B2); reflexivity.
Qed.

(** at [NQ], for finite non-parallel segments, [intersection] returns the exact common
    point, or [LNone] exactly when the closed segments are disjoint *)
Theorem intersection_exact :
  ~ det == 0 ->
  (intersection A1 A2 B1 B2 = LNone /\ disjoint_segments) \/
  (exists x y, intersection A1 A2 B1 B2 = LPoint (fpt x y) /\ on_both x y).
Proof.
  intros Hdet. destruct (impl_crossing_complete Hdet) as [[H Hd]|(x & y & H & Hon)].
  - left. split; [exact (intersection_none_of_impl H) | exact Hd].
  - right. exists x, y. split; [exact (exact_clamp_identity Hon H) | exact Hon].
Qed.

Corollary intersection_exact_point x y :
  ~ det == 0 -> intersection A1 A2 B1 B2 = LPoint (fpt x y) -> on_both x y.
Proof.
  intros Hdet Hi. destruct (intersection_exact Hdet) as [[H _]|(x' & y' & H & Hon)].
  - rewrite H in Hi. discriminate.
  - rewrite H in Hi. injection Hi as <- <-. exact Hon.
Qed.

Corollary intersection_exact_none :
  ~ det == 0 -> (intersection A1 A2 B1 B2 = LNone <-> disjoint_segments).
Proof.
  intros Hdet. destruct (intersection_exact Hdet) as [[H Hd]|(x' & y' & H & Hon)].
  - split; intros _; assumption.
  - split.
    + intros Hi. rewrite H in Hi. discriminate.
    + intros Hd. exfalso. apply (proj1 disjoint_iff_no_common_point Hd).
      exists x', y'. exact Hon.
Qed.

Corollary intersection_eq_impl_crossing :
  ~ det == 0 -> intersection A1 A2 B1 B2 = intersection_impl A1 A2 B1 B2.
Proof.
  intros Hdet. destruct (impl_crossing_complete Hdet) as [[H Hd]|(x & y & H & Hon)].
  - rewrite H. exact (intersection_none_of_impl H).
  - rewrite H. exact (exact_clamp_identity Hon H).
Qed.

(** *** (P3d, first half) distinct parallel lines *)
Theorem impl_parallel_distinct :
  det == 0 -> ~ numT == 0 ->
  intersection_impl A1 A2 B1 B2 = LNone /\ (forall s t, ~ common s t).
Proof.
  intros Hdet HT. split.
  - rewrite impl_eval.
    rewrite (gt0_sq_false (k := rk)) by (rewrite rk_det; exact Hdet).
    rewrite (gt0_sq_true (k := rnt)) by (rewrite rnt_eq; exact HT).
    reflexivity.
  - intros s t Hc. apply HT. rewrite <- (common_det_t Hc), Hdet. ring.
Qed.

(** *** (P3d, second half) the collinear branch *)

Definition len2 : Q := (a2x - a1x) * (a2x - a1x) + (a2y - a1y) * (a2y - a1y).
(** the point of the line through [a1 a2] at parameter [s] *)
Definition seg_a_at (s x y : Q) : Prop :=
  x == a1x + s * (a2x - a1x) /\ y == a1y + s * (a2y - a1y).

Definition rsa := Qred (rdot rvax rvay rex rey / rlen).
Definition rsb := Qred (rsa + Qred (rdot rvax rvay rvbx rvby / rlen)).
Definition rsmin := qmin rsa rsb.
Definition rsmax := qmax rsa rsb.
Definition rlo := qmax rsmin 0.
Definition rhi := qmin rsmax 1.

Lemma rlen_eq : rlen == len2.
Proof. unfold rlen, rvax, rvay, len2. rewrite rdot_eq, !rsub_eq. ring. Qed.

Lemma len2_nz : ~ (a2x == a1x /\ a2y == a1y) -> ~ len2 == 0.
Proof.
  intros H E. apply H. unfold len2 in E. apply sum_sq_zero in E. split; lra.
Qed.

Lemma rsa_eq :
  rsa == ((a2x - a1x) * (b1x - a1x) + (a2y - a1y) * (b1y - a1y)) / len2.
Proof.
  unfold rsa. rewrite Qred_correct, rlen_eq.
  unfold rvax, rvay, rex, rey. rewrite rdot_eq, !rsub_eq. reflexivity.
Qed.

Lemma rsb_eq :
  rsb == rsa + ((a2x - a1x) * (b2x - b1x) + (a2y - a1y) * (b2y - b1y)) / len2.
Proof.
  unfold rsb. rewrite !Qred_correct, rlen_eq.
  unfold rvax, rvay, rvbx, rvby. rewrite rdot_eq, !rsub_eq. reflexivity.
Qed.

(** in the collinear case [b1 = a1 + rsa va] and [b2 = a1 + rsb va] *)
Lemma collinear_b1 :
  numT == 0 -> ~ len2 == 0 -> seg_a_at rsa b1x b1y.
Proof.
  intros HT Hl.
  destruct (@proj_collinear (a2x - a1x) (a2y - a1y) (b1x - a1x) (b1y - a1y) Hl HT) as [Ex Ey].
  unfold seg_a_at. rewrite rsa_eq. unfold len2. split; lra.
Qed.

Lemma collinear_b2 :
  det == 0 -> numT == 0 -> ~ len2 == 0 -> seg_a_at rsb b2x b2y.
Proof.
  intros Hdet HT Hl.
  destruct (collinear_b1 HT Hl) as [Bx By].
  assert (Hc : (b2x - b1x) * (a2y - a1y) - (b2y - b1y) * (a2x - a1x) == 0)
    by (unfold det in Hdet; lra).
  destruct (@proj_collinear (a2x - a1x) (a2y - a1y) (b2x - b1x) (b2y - b1y) Hl Hc) as [Ex Ey].
  unfold seg_a_at. rewrite rsb_eq. unfold len2. split; lra.
Qed.

(** the common part of two collinear segments, in the parametrisation of [a] *)
Lemma collinear_common al be :
  ~ len2 == 0 -> seg_a_at al b1x b1y -> seg_a_at be b2x b2y ->
  forall x y,
    on_both x y <->
    exists s, (0 <= s <= 1 /\ (al <= s <= be \/ be <= s <= al)) /\ seg_a_at s x y.
Proof.
  intros Hl [B1x' B1y'] [B2x' B2y'] x y. split.
  - intros (s & t & Hs & Ht & Hx & Hy & Hx2 & Hy2).
    exists s. split; [|split; assumption]. split; [exact Hs|].
    assert (Es : s == al + t * (be - al)).
    { rewrite B1x', B2x' in Hx2. rewrite B1y', B2y' in Hy2.
      assert (Rx : (s - (al + t * (be - al))) * (a2x - a1x) == 0) by lra.
      assert (Ry : (s - (al + t * (be - al))) * (a2y - a1y) == 0) by lra.
      assert (R : (s - (al + t * (be - al))) * len2 == 0).
      { unfold len2.
        setoid_replace ((s - (al + t * (be - al))) *
                        ((a2x - a1x) * (a2x - a1x) + (a2y - a1y) * (a2y - a1y)))
          with ((s - (al + t * (be - al))) * (a2x - a1x) * (a2x - a1x) +
                (s - (al + t * (be - al))) * (a2y - a1y) * (a2y - a1y)) by ring.
        rewrite Rx, Ry. ring. }
      apply Qmult_integral in R. destruct R as [R|R]; [lra | contradiction]. }
    destruct (Qlt_le_dec be al) as [H|H]; [right | left]; rewrite Es; nra.
  - intros (s & (Hs & Hbt) & Hx & Hy).
    assert (Et : exists t, 0 <= t <= 1 /\ s == al + t * (be - al)).
    { destruct (Qlt_le_dec al be) as [H|H].
      - exists ((s - al) / (be - al)). split.
        + apply div_between; lra.
        + field. lra.
      - destruct (Qlt_le_dec be al) as [H'|H'].
        + exists ((al - s) / (al - be)). split.
          * apply div_between; lra.
          * field. lra.
        + exists 0. split; lra. }
    destruct Et as (t & Ht & Es).
    exists s, t. split; [exact Hs|]. split; [exact Ht|].
    split; [exact Hx|]. split; [exact Hy|].
    rewrite Hx, Hy, B1x', B2x', B1y', B2y', Es. split; ring.
Qed.

Lemma impl_eval_collinear :
  det == 0 -> numT == 0 -> ~ len2 == 0 ->
  intersection_impl A1 A2 B1 B2 =
  if qx_le (QF rsmin) (QF 1) && qx_le (QF 0) (QF rsmax) then
    if qx_eq (QF rsmin) (QF 1) then LPoint (fpt (rmid a1x rsmin rvax) (rmid a1y rsmin rvay))
    else if qx_eq (QF rsmax) (QF 0) then LPoint (fpt (rmid a1x rsmax rvax) (rmid a1y rsmax rvay))
    else LOverlap (fpt (rmid a1x rlo rvax) (rmid a1y rlo rvay))
                  (fpt (rmid a1x rhi rvax) (rmid a1y rhi rvay))
  else LNone.
Proof.
  intros Hdet HT Hl.
  assert (Hrl : ~ rlen == 0) by (rewrite rlen_eq; exact Hl).
  rewrite impl_eval.
  rewrite (gt0_sq_false (k := rk)) by (rewrite rk_det; exact Hdet).
  rewrite (gt0_sq_false (k := rnt)) by (rewrite rnt_eq; exact HT).
  cbv zeta. rewrite !(qdiv_nz _ Hrl).
  change (Qred (rdot rvax rvay rex rey / rlen)) with rsa.
  rewrite qx_add_FF.
  change (Qred (rsa + Qred (rdot rvax rvay rvbx rvby / rlen))) with rsb.
  rewrite qx_min_FF, qx_max_FF.
  change (qmin rsa rsb) with rsmin. change (qmax rsa rsb) with rsmax.
  rewrite qx_min_FF, qx_max_FF.
  change (qmax rsmin 0) with rlo. change (qmin rsmax 1) with rhi.
  rewrite !mid_point_FF. reflexivity.
Qed.

Lemma rmid_seg_a_at s s' :
  s == s' -> seg_a_at s' (rmid a1x s rvax) (rmid a1y s rvay).
Proof.
  intros E. unfold seg_a_at, rvax, rvay. rewrite !rmid_eq, !rsub_eq, E. split; reflexivity.
Qed.

Lemma rsmin_le_rsmax : rsmin <= rsmax.
Proof.
  unfold rsmin, rsmax.
  destruct (qmin_spec rsa rsb) as [[H1 ->]|[H1 ->]];
  destruct (qmax_spec rsa rsb) as [[H2 ->]|[H2 ->]]; lra.
Qed.
Lemma rsmin_lt_rsmax :
  det == 0 -> numT == 0 -> ~ len2 == 0 -> ~ (b2x == b1x /\ b2y == b1y) -> rsmin < rsmax.
Proof.
  intros Hdet HT Hl Hb.
  destruct (collinear_b1 HT Hl) as [B1x' B1y'].
  destruct (collinear_b2 Hdet HT Hl) as [B2x' B2y'].
  assert (Hne : ~ rsa == rsb).
  { intros E. apply Hb. rewrite B1x', B1y', B2x', B2y', E. split; reflexivity. }
  unfold rsmin, rsmax.
  destruct (qmin_spec rsa rsb) as [[H1 ->]|[H1 ->]];
  destruct (qmax_spec rsa rsb) as [[H2 ->]|[H2 ->]]; lra.
Qed.
Lemma rlo_spec : (rsmin < 0 /\ rlo = 0) \/ (0 <= rsmin /\ rlo = rsmin).
Proof. exact (qmax_spec rsmin 0). Qed.
Lemma rhi_spec : (rsmax <= 1 /\ rhi = rsmax) \/ (1 < rsmax /\ rhi = 1).
Proof. exact (qmin_spec rsmax 1). Qed.

(** the collinear branch returns exactly the ends of the common part *)
Theorem impl_collinear :
  det == 0 -> numT == 0 -> ~ (a2x == a1x /\ a2y == a1y) ->
  exists lo hi : Q,
    (forall x y, on_both x y <-> exists s, lo <= s <= hi /\ seg_a_at s x y) /\
    ((hi < lo /\ intersection_impl A1 A2 B1 B2 = LNone) \/
     (lo == hi /\ exists x y,
        intersection_impl A1 A2 B1 B2 = LPoint (fpt x y) /\ seg_a_at lo x y) \/
     (lo <= hi /\ (~ (b2x == b1x /\ b2y == b1y) -> lo < hi) /\ exists x y x' y',
        intersection_impl A1 A2 B1 B2 = LOverlap (fpt x y) (fpt x' y') /\
        seg_a_at lo x y /\ seg_a_at hi x' y')).
Proof.
  intros Hdet HT Hne. assert (Hl := len2_nz Hne).
  exists rlo, rhi. split.
  - intros x y.
    rewrite (collinear_common Hl (collinear_b1 HT Hl) (collinear_b2 Hdet HT Hl) x y).
    split; intros (s & Hs & Hat); exists s; (split; [|exact Hat]);
      apply (lohi_range rsa rsb s); exact Hs.
  - rewrite (impl_eval_collinear Hdet HT Hl).
    assert (Hmm := rsmin_le_rsmax).
    destruct (qx_le (QF rsmin) (QF 1)) eqn:T1;
      [apply qx_le_FF in T1 | apply qx_le_FF_false in T1].
    + destruct (qx_le (QF 0) (QF rsmax)) eqn:T2;
        [apply qx_le_FF in T2 | apply qx_le_FF_false in T2]; cbn [andb].
      * destruct (qx_eq (QF rsmin) (QF 1)) eqn:T3;
          [apply qx_eq_FF in T3 | apply qx_eq_FF_false in T3].
        { right; left. split.
          - destruct rlo_spec as [[L1 L2]|[L1 L2]], rhi_spec as [[U1 U2]|[U1 U2]];
              rewrite L2, U2; lra.
          - eexists; eexists. split; [reflexivity|]. apply rmid_seg_a_at.
            destruct rlo_spec as [[L1 L2]|[L1 L2]]; rewrite L2; lra. }
        destruct (qx_eq (QF rsmax) (QF 0)) eqn:T4;
          [apply qx_eq_FF in T4 | apply qx_eq_FF_false in T4].
        { right; left. split.
          - destruct rlo_spec as [[L1 L2]|[L1 L2]], rhi_spec as [[U1 U2]|[U1 U2]];
              rewrite L2, U2; lra.
          - eexists; eexists. split; [reflexivity|]. apply rmid_seg_a_at.
            destruct rlo_spec as [[L1 L2]|[L1 L2]]; rewrite L2; lra. }
        right; right. split.
        { destruct rlo_spec as [[L1 L2]|[L1 L2]], rhi_spec as [[U1 U2]|[U1 U2]];
            rewrite L2, U2; lra. }
        split.
        { intros Hb. assert (Hlt := rsmin_lt_rsmax Hdet HT Hl Hb).
          destruct rlo_spec as [[L1 L2]|[L1 L2]], rhi_spec as [[U1 U2]|[U1 U2]];
            rewrite L2, U2; lra. }
        do 4 eexists. split; [reflexivity|].
        split; apply rmid_seg_a_at; reflexivity.
      * left. split; [|reflexivity].
        destruct rlo_spec as [[L1 L2]|[L1 L2]], rhi_spec as [[U1 U2]|[U1 U2]];
          rewrite L2, U2; lra.
    + cbn [andb]. left. split; [|reflexivity].
      destruct rlo_spec as [[L1 L2]|[L1 L2]], rhi_spec as [[U1 U2]|[U1 U2]];
        rewrite L2, U2; lra.
Qed.


Theorem exact_clamp_identity_overlap x y x' y' :
  on_both x y -> on_both x' y' ->
  intersection_impl A1 A2 B1 B2 = LOverlap (fpt x y) (fpt x' y') ->
  intersection A1 A2 B1 B2 = LOverlap (fpt x y) (fpt x' y').
Proof.
  intros Hon Hon' Hi.
  destruct (on_both_in_boxes Hon) as [HA HB]. destruct (on_both_in_boxes Hon') as [HA' HB'].
  destruct (clamp_identity_generic (L := NQ_laws)
              (okpt_fpt a1x a1y) (okpt_fpt a2x a2y) (okpt_fpt b1x b1y) (okpt_fpt b2x b2y)
              (okpt_fpt x y) HA HB) as [bb [Hbb Hc]].
  destruct (clamp_identity_generic (L := NQ_laws)
              (okpt_fpt a1x a1y) (okpt_fpt a2x a2y) (okpt_fpt b1x b1y) (okpt_fpt b2x b2y)
              (okpt_fpt x' y') HA' HB') as [bb' [Hbb' Hc']].
  rewrite Hbb in Hbb'. injection Hbb' as <-.
  unfold intersection. rewrite Hbb, Hi, Hc, Hc'. reflexivity.
Qed.

(** the same for the clamped [intersection] *)
Theorem intersection_collinear :
  det == 0 -> numT == 0 -> ~ (a2x == a1x /\ a2y == a1y) ->
  exists lo hi : Q,
    (forall x y, on_both x y <-> exists s, lo <= s <= hi /\ seg_a_at s x y) /\
    ((hi < lo /\ intersection A1 A2 B1 B2 = LNone) \/
     (lo == hi /\ exists x y,
        intersection A1 A2 B1 B2 = LPoint (fpt x y) /\ seg_a_at lo x y) \/
     (lo <= hi /\ (~ (b2x == b1x /\ b2y == b1y) -> lo < hi) /\ exists x y x' y',
        intersection A1 A2 B1 B2 = LOverlap (fpt x y) (fpt x' y') /\
        seg_a_at lo x y /\ seg_a_at hi x' y')).
Proof.
  intros Hdet HT Hne.
  destruct (impl_collinear Hdet HT Hne) as (lo & hi & Hch & Hcases).
  exists lo, hi. split; [exact Hch|].
  destruct Hcases as [[H1 H2]|[(H1 & x & y & H2 & H3)|(H1 & Hs & x & y & x' & y' & H2 & H3 & H4)]].
  - left. split; [exact H1 | exact (intersection_none_of_impl H2)].
  - right; left. split; [exact H1|]. exists x, y. split; [|exact H3].
    apply exact_clamp_identity; [|exact H2].
    apply Hch. exists lo. split; [lra | exact H3].
  - right; right. split; [exact H1|]. split; [exact Hs|].
    exists x, y, x', y'. split; [|split; assumption].
    apply exact_clamp_identity_overlap; [| |exact H2].
    + apply Hch. exists lo. split; [lra | exact H3].
    + apply Hch. exists hi. split; [lra | exact H4].
Qed.

(** *** a degenerate first segment: the collinear branch divides 0 by 0 *)
Theorem impl_degenerate_a_none :
  a2x == a1x -> a2y == a1y -> intersection_impl A1 A2 B1 B2 = LNone.
Proof.
  intros Hx Hy.
  assert (Hdet : det == 0) by (unfold det; rewrite Hx, Hy; ring).
  assert (HT : numT == 0) by (unfold numT; rewrite Hx, Hy; ring).
  assert (Hl : rlen == 0) by (rewrite rlen_eq; unfold len2; rewrite Hx, Hy; ring).
  assert (Hn : rdot rvax rvay rex rey == 0).
  { unfold rvax, rvay, rex, rey. rewrite rdot_eq, !rsub_eq, Hx, Hy. ring. }
  rewrite impl_eval.
  rewrite (gt0_sq_false (k := rk)) by (rewrite rk_det; exact Hdet).
  rewrite (gt0_sq_false (k := rnt)) by (rewrite rnt_eq; exact HT).
  cbv zeta. rewrite (qdiv_00 Hn Hl). reflexivity.
Qed.

(** *** summary over all finite inputs *)

(** every point of the result is finite *)
Definition finite_result (r : line_intersection NQ) : Prop :=
  match r with
  | LNone => True
  | LPoint p => exists x y, p = fpt x y
  | LOverlap p q => (exists x y, p = fpt x y) /\ (exists x y, q = fpt x y)
  end.

Lemma finite_fpt x y : exists x0 y0, fpt x y = fpt x0 y0.
Proof. exists x, y. reflexivity. Qed.

Theorem impl_finite_all : finite_result (intersection_impl A1 A2 B1 B2).
Proof.
  destruct (Qeq_dec det 0) as [Hdet|Hdet].
  - destruct (Qeq_dec numT 0) as [HT|HT].
    + destruct (Qeq_dec a2x a1x) as [Hx|Hx]; [destruct (Qeq_dec a2y a1y) as [Hy|Hy]|].
      * rewrite (impl_degenerate_a_none Hx Hy). exact I.
      * assert (Hne : ~ (a2x == a1x /\ a2y == a1y)) by tauto.
        destruct (impl_collinear Hdet HT Hne)
          as (lo & hi & _ & [[_ H]|[(_ & x & y & H & _)|(_ & _ & x & y & x' & y' & H & _)]]);
          rewrite H; cbn [finite_result];
          first [exact I | apply finite_fpt | split; apply finite_fpt].
      * assert (Hne : ~ (a2x == a1x /\ a2y == a1y)) by tauto.
        destruct (impl_collinear Hdet HT Hne)
          as (lo & hi & _ & [[_ H]|[(_ & x & y & H & _)|(_ & _ & x & y & x' & y' & H & _)]]);
          rewrite H; cbn [finite_result];
          first [exact I | apply finite_fpt | split; apply finite_fpt].
    + rewrite (proj1 (impl_parallel_distinct Hdet HT)). exact I.
  - destruct (impl_finite Hdet) as [H|(x & y & H)]; rewrite H; cbn [finite_result];
      first [exact I | apply finite_fpt].
Qed.

(** hence the hypothesis of [intersection_point_in_both_boxes] holds at [NQ] *)
Theorem intersection_point_in_both_boxes_NQ q :
  intersection A1 A2 B1 B2 = LPoint q ->
  okpt NQ_laws q /\ in_seg_box A1 A2 q /\ in_seg_box B1 B2 q.
Proof.
  apply (intersection_point_in_both_boxes (L := NQ_laws));
    try apply okpt_fpt.
  intros p Hp. assert (Hf := impl_finite_all). rewrite Hp in Hf.
  destruct Hf as (x & y & ->). exact (okpt_fpt x y).
Qed.

Theorem intersection_overlap_in_both_boxes_NQ q q' :
  intersection A1 A2 B1 B2 = LOverlap q q' ->
  (okpt NQ_laws q /\ in_seg_box A1 A2 q /\ in_seg_box B1 B2 q) /\
  (okpt NQ_laws q' /\ in_seg_box A1 A2 q' /\ in_seg_box B1 B2 q').
Proof.
  apply (intersection_overlap_in_both_boxes (L := NQ_laws));
    try apply okpt_fpt.
  intros p p' Hp. assert (Hf := impl_finite_all). rewrite Hp in Hf.
  destruct Hf as [(x & y & ->) (x' & y' & ->)]. split; apply okpt_fpt.
Qed.

(** soundness and completeness of [intersection] at [NQ] for a non-degenerate first
    segment: [LNone] only for disjoint segments, otherwise common points *)
Definition exact_result (r : line_intersection NQ) : Prop :=
  match r with
  | LNone => disjoint_segments
  | LPoint p => exists x y, p = fpt x y /\ on_both x y
  | LOverlap p q =>
      exists x y x' y', p = fpt x y /\ q = fpt x' y' /\ on_both x y /\ on_both x' y'
  end.

Theorem intersection_exact_all :
  ~ (a2x == a1x /\ a2y == a1y) -> exact_result (intersection A1 A2 B1 B2).
Proof.
  intros Hne.
  destruct (Qeq_dec det 0) as [Hdet|Hdet].
  - destruct (Qeq_dec numT 0) as [HT|HT].
    + destruct (intersection_collinear Hdet HT Hne)
        as (lo & hi & Hch &
            [[H1 H]|[(H1 & x & y & H & H3)|(H1 & _ & x & y & x' & y' & H & H3 & H4)]]);
        rewrite H; cbn [exact_result].
      * apply disjoint_iff_no_common_point. intros (x & y & Hon).
        apply Hch in Hon. destruct Hon as (s & Hs & _). lra.
      * exists x, y. split; [reflexivity|]. apply Hch. exists lo. split; [lra | exact H3].
      * exists x, y, x', y'. split; [reflexivity|]. split; [reflexivity|]. split.
        -- apply Hch. exists lo. split; [lra | exact H3].
        -- apply Hch. exists hi. split; [lra | exact H4].
    + destruct (impl_parallel_distinct Hdet HT) as [H Hno].
      rewrite (intersection_none_of_impl H). cbn [exact_result].
      intros s t _ _. apply Hno.
  - destruct (intersection_exact Hdet) as [[H Hd]|(x & y & H & Hon)];
      rewrite H; cbn [exact_result].
    + exact Hd.
    + exists x, y. split; [reflexivity | exact Hon].
Qed.

End Exact.

(** the concrete witness of the finding *)
Example degenerate_a_witness :
  intersection (fpt 0 0) (fpt 0 0) (fpt (-1) 0) (fpt 1 0) = LNone /\
  on_both 0 0 0 0 (-1) 0 1 0 0 0.
Proof.
  split.
  - apply intersection_none_of_impl. apply impl_degenerate_a_none; reflexivity.
  - exists 0, (1 # 2). repeat split; try lra; reflexivity.
Qed.

(** ** Final statements and assumptions *)
Check clamp_in_box.
Check bbox_is_common_box.
Check bbox_point_in_both_boxes.
Check intersection_point_in_both_boxes.
Check intersection_overlap_in_both_boxes.
Check clamp_identity_generic.
Check gt0_sq_iff.
Check impl_crossing_exact.
Check on_both_unique.
Check impl_none_disjoint_crossing_case.
Check impl_finite.
Check impl_crossing_complete.
Check exact_clamp_identity.
Check intersection_exact.
Check intersection_exact_point.
Check intersection_exact_none.
Check intersection_eq_impl_crossing.
Check impl_parallel_distinct.
Check impl_collinear.
Check exact_clamp_identity_overlap.
Check intersection_collinear.
Check impl_degenerate_a_none.
Check impl_finite_all.
Check intersection_point_in_both_boxes_NQ.
Check intersection_overlap_in_both_boxes_NQ.
Check intersection_exact_all.
Check degenerate_a_witness.

Print Assumptions clamp_in_box.
Print Assumptions bbox_is_common_box.
Print Assumptions bbox_point_in_both_boxes.
Print Assumptions intersection_point_in_both_boxes.
Print Assumptions intersection_overlap_in_both_boxes.
Print Assumptions clamp_identity_generic.
Print Assumptions gt0_sq_iff.
Print Assumptions impl_crossing_exact.
Print Assumptions on_both_unique.
Print Assumptions impl_none_disjoint_crossing_case.
Print Assumptions impl_finite.
Print Assumptions impl_crossing_complete.
Print Assumptions exact_clamp_identity.
Print Assumptions intersection_exact.
Print Assumptions intersection_exact_point.
Print Assumptions intersection_exact_none.
Print Assumptions intersection_eq_impl_crossing.
Print Assumptions impl_parallel_distinct.
Print Assumptions impl_collinear.
Print Assumptions exact_clamp_identity_overlap.
Print Assumptions intersection_collinear.
Print Assumptions impl_degenerate_a_none.
Print Assumptions impl_finite_all.
Print Assumptions intersection_point_in_both_boxes_NQ.
Print Assumptions intersection_overlap_in_both_boxes_NQ.
Print Assumptions intersection_exact_all.
Print Assumptions degenerate_a_witness.
