(** * Properties of [segment_intersection.rs] ([Intersect.v]).  HEADER TO BE COMPLETED *)
From Coq Require Import Bool ZArith QArith Qreduction Lqa Lia.
From GB Require Import Num NumQ NumLaws NumLawsQ Intersect.
Set Implicit Arguments.

(** ** Part 0: one ordered carrier *)
Section Ord.
Variables (T : Type) (ok : T -> Prop) (lt le eq : T -> T -> bool) (mn mx : T -> T -> T).
Hypothesis O : OrderLaws ok lt le eq mn mx.

Definition clamp1 (p lo hi : T) : T := if lt p lo then lo else if lt hi p then hi else p.
Definition ord1 (a b : T) : T * T := if lt a b then (a, b) else (b, a).
(** [w] lies between [u] and [v] (in either order) *)
Definition between (u v w : T) : Prop :=
  le u w && le w v = true \/ le v w && le w u = true.

Lemma o_le_refl a : ok a -> le a a = true.
Proof.
  intros Ha. rewrite (ol_le_total O) by assumption. rewrite (ol_lt_irrefl O). reflexivity.
Qed.

Lemma o_lt_false_le a b : ok a -> ok b -> lt a b = false -> le b a = true.
Proof.
  intros Ha Hb H. rewrite (ol_le_total O) by assumption. rewrite H. reflexivity.
Qed.

Lemma o_le_lt_false a b : ok a -> ok b -> le a b = true -> lt b a = false.
Proof.
  intros Ha Hb H. rewrite (ol_le_total O) in H by assumption.
  destruct (lt b a); [discriminate H | reflexivity].
Qed.

Lemma clamp1_ok p lo hi : ok p -> ok lo -> ok hi -> ok (clamp1 p lo hi).
Proof.
  intros Hp Hlo Hhi. unfold clamp1. destruct (lt p lo); [assumption|].
  destruct (lt hi p); assumption.
Qed.

Lemma clamp1_in p lo hi :
  ok p -> ok lo -> ok hi -> le lo hi = true ->
  le lo (clamp1 p lo hi) = true /\ le (clamp1 p lo hi) hi = true.
Proof.
  intros Hp Hlo Hhi H. unfold clamp1.
  destruct (lt p lo) eqn:E1.
  - split; [apply o_le_refl; assumption | assumption].
  - destruct (lt hi p) eqn:E2.
    + split; [assumption | apply o_le_refl; assumption].
    + split; apply o_lt_false_le; assumption.
Qed.

Lemma clamp1_id p lo hi :
  ok p -> ok lo -> ok hi -> le lo p = true -> le p hi = true -> clamp1 p lo hi = p.
Proof.
  intros Hp Hlo Hhi H1 H2. unfold clamp1.
  rewrite (o_le_lt_false Hlo Hp H1). rewrite (o_le_lt_false Hp Hhi H2). reflexivity.
Qed.

Lemma ord1_spec a b :
  ok a -> ok b ->
  le (fst (ord1 a b)) (snd (ord1 a b)) = true /\
  ((fst (ord1 a b) = a /\ snd (ord1 a b) = b) \/ (fst (ord1 a b) = b /\ snd (ord1 a b) = a)).
Proof.
  intros Ha Hb. unfold ord1. destruct (lt a b) eqn:E; cbn [fst snd].
  - split; [apply (ol_lt_le O); assumption | left; split; reflexivity].
  - split; [apply o_lt_false_le; assumption | right; split; reflexivity].
Qed.

Lemma ord1_ok_fst a b : ok a -> ok b -> ok (fst (ord1 a b)).
Proof.
  intros Ha Hb. destruct (ord1_spec Ha Hb) as [_ [[-> _]|[-> _]]]; assumption.
Qed.

Lemma ord1_ok_snd a b : ok a -> ok b -> ok (snd (ord1 a b)).
Proof.
  intros Ha Hb. destruct (ord1_spec Ha Hb) as [_ [[_ ->]|[_ ->]]]; assumption.
Qed.

Lemma ord1_between a b w :
  ok a -> ok b ->
  le (fst (ord1 a b)) w = true -> le w (snd (ord1 a b)) = true -> between a b w.
Proof.
  intros Ha Hb H1 H2. unfold between.
  destruct (ord1_spec Ha Hb) as [_ [[E1 E2]|[E1 E2]]]; rewrite E1 in H1; rewrite E2 in H2.
  - left. rewrite H1, H2. reflexivity.
  - right. rewrite H1, H2. reflexivity.
Qed.

Lemma between_ord1 a b w :
  ok a -> ok b -> ok w -> between a b w ->
  le (fst (ord1 a b)) w = true /\ le w (snd (ord1 a b)) = true.
Proof.
  intros Ha Hb Hw Hbt.
  destruct (ord1_spec Ha Hb) as [Hle [[E1 E2]|[E1 E2]]]; rewrite E1, E2 in *.
  - destruct Hbt as [H|H]; apply andb_true_iff in H; destruct H as [H1 H2].
    + split; assumption.
    + split.
      * apply (ol_le_trans O) with b; assumption.
      * apply (ol_le_trans O) with a; assumption.
  - destruct Hbt as [H|H]; apply andb_true_iff in H; destruct H as [H1 H2].
    + split.
      * apply (ol_le_trans O) with a; assumption.
      * apply (ol_le_trans O) with b; assumption.
    + split; assumption.
Qed.

(** the common range [max of the lower ends, min of the upper ends] of two intervals *)
Lemma range_ok a1 a2 b1 b2 :
  ok a1 -> ok a2 -> ok b1 -> ok b2 ->
  ok (mx (fst (ord1 a1 a2)) (fst (ord1 b1 b2))) /\ ok (mn (snd (ord1 a1 a2)) (snd (ord1 b1 b2))).
Proof.
  intros Ha1 Ha2 Hb1 Hb2. split.
  - apply (ol_max_ok O); apply ord1_ok_fst; assumption.
  - apply (ol_min_ok O); apply ord1_ok_snd; assumption.
Qed.

Lemma range_between a1 a2 b1 b2 w :
  ok a1 -> ok a2 -> ok b1 -> ok b2 -> ok w ->
  le (mx (fst (ord1 a1 a2)) (fst (ord1 b1 b2))) w = true ->
  le w (mn (snd (ord1 a1 a2)) (snd (ord1 b1 b2))) = true ->
  between a1 a2 w /\ between b1 b2 w.
Proof.
  intros Ha1 Ha2 Hb1 Hb2 Hw H1 H2.
  assert (Hla := ord1_ok_fst Ha1 Ha2). assert (Hha := ord1_ok_snd Ha1 Ha2).
  assert (Hlb := ord1_ok_fst Hb1 Hb2). assert (Hhb := ord1_ok_snd Hb1 Hb2).
  destruct (range_ok Ha1 Ha2 Hb1 Hb2) as [Hlo Hhi].
  split; apply ord1_between; try assumption.
  - apply (ol_le_trans O) with (mx (fst (ord1 a1 a2)) (fst (ord1 b1 b2))); try assumption.
    apply (ol_max_l O); assumption.
  - apply (ol_le_trans O) with (mn (snd (ord1 a1 a2)) (snd (ord1 b1 b2))); try assumption.
    apply (ol_min_l O); assumption.
  - apply (ol_le_trans O) with (mx (fst (ord1 a1 a2)) (fst (ord1 b1 b2))); try assumption.
    apply (ol_max_r O); assumption.
  - apply (ol_le_trans O) with (mn (snd (ord1 a1 a2)) (snd (ord1 b1 b2))); try assumption.
    apply (ol_min_r O); assumption.
Qed.

Lemma between_range a1 a2 b1 b2 w :
  ok a1 -> ok a2 -> ok b1 -> ok b2 -> ok w ->
  between a1 a2 w -> between b1 b2 w ->
  le (mx (fst (ord1 a1 a2)) (fst (ord1 b1 b2))) w = true /\
  le w (mn (snd (ord1 a1 a2)) (snd (ord1 b1 b2))) = true.
Proof.
  intros Ha1 Ha2 Hb1 Hb2 Hw HA HB.
  assert (Hla := ord1_ok_fst Ha1 Ha2). assert (Hha := ord1_ok_snd Ha1 Ha2).
  assert (Hlb := ord1_ok_fst Hb1 Hb2). assert (Hhb := ord1_ok_snd Hb1 Hb2).
  destruct (between_ord1 Ha1 Ha2 Hw HA) as [A1 A2].
  destruct (between_ord1 Hb1 Hb2 Hw HB) as [B1 B2].
  split.
  - apply (ol_max_lub O); assumption.
  - apply (ol_min_glb O); assumption.
Qed.

End Ord.

(** ** Part 1: every instance with laws (P1, P2 and their combination) *)
Section Generic.
Variable N : Num.
Variable L : NumLaws N.
Notation pt := (pt N).

Definition okpt (p : pt) : Prop := okX L (px p) /\ okY L (py p).
Definition betweenX (u v w : X N) : Prop :=
  leX N u w && leX N w v = true \/ leX N v w && leX N w u = true.
Definition betweenY (u v w : Y N) : Prop :=
  leY N u w && leY N w v = true \/ leY N v w && leY N w u = true.
(** [q] is in the bounding box of the segment [a1 a2] *)
Definition in_seg_box (a1 a2 q : pt) : Prop :=
  betweenX (px a1) (px a2) (px q) /\ betweenY (py a1) (py a2) (py q).
Definition in_bbox (bb : bbox N) (q : pt) : Prop :=
  (leX N (px (bmin bb)) (px q) = true /\ leX N (px q) (px (bmax bb)) = true) /\
  (leY N (py (bmin bb)) (py q) = true /\ leY N (py q) (py (bmax bb)) = true).

Lemma constrain_px p bb :
  px (constrain_to_bounding_box p bb) = clamp1 (ltX N) (px p) (px (bmin bb)) (px (bmax bb)).
Proof. reflexivity. Qed.
Lemma constrain_py p bb :
  py (constrain_to_bounding_box p bb) = clamp1 (ltY N) (py p) (py (bmin bb)) (py (bmax bb)).
Proof. reflexivity. Qed.

(** (P1) the clamped point is in the box *)
Theorem clamp_in_box (p : pt) (bb : bbox N) :
  okpt p -> okpt (bmin bb) -> okpt (bmax bb) ->
  leX N (px (bmin bb)) (px (bmax bb)) = true ->
  leY N (py (bmin bb)) (py (bmax bb)) = true ->
  (leX N (px (bmin bb)) (px (constrain_to_bounding_box p bb)) = true /\
   leX N (px (constrain_to_bounding_box p bb)) (px (bmax bb)) = true) /\
  (leY N (py (bmin bb)) (py (constrain_to_bounding_box p bb)) = true /\
   leY N (py (constrain_to_bounding_box p bb)) (py (bmax bb)) = true).
Proof.
  intros [Hpx Hpy] [Hlx Hly] [Hhx Hhy] HX HY.
  rewrite constrain_px, constrain_py. split.
  - apply (clamp1_in (nl_X L)); assumption.
  - apply (clamp1_in (nl_Y L)); assumption.
Qed.

Lemma clamp_ok (p : pt) (bb : bbox N) :
  okpt p -> okpt (bmin bb) -> okpt (bmax bb) -> okpt (constrain_to_bounding_box p bb).
Proof.
  intros [Hpx Hpy] [Hlx Hly] [Hhx Hhy]. split.
  - rewrite constrain_px. apply clamp1_ok; assumption.
  - rewrite constrain_py. apply clamp1_ok; assumption.
Qed.

Lemma bbox_some_inv a1 a2 b1 b2 bb :
  get_intersection_bounding_box a1 a2 b1 b2 = Some bb ->
  leX N (px (bmin bb)) (px (bmax bb)) = true /\
  leY N (py (bmin bb)) (py (bmax bb)) = true /\
  bb = mkBox
         (mkPt N (maxX N (fst (ord1 (ltX N) (px a1) (px a2))) (fst (ord1 (ltX N) (px b1) (px b2))))
                 (maxY N (fst (ord1 (ltY N) (py a1) (py a2))) (fst (ord1 (ltY N) (py b1) (py b2)))))
         (mkPt N (minX N (snd (ord1 (ltX N) (px a1) (px a2))) (snd (ord1 (ltX N) (px b1) (px b2))))
                 (minY N (snd (ord1 (ltY N) (py a1) (py a2))) (snd (ord1 (ltY N) (py b1) (py b2))))).
Proof.
  unfold get_intersection_bounding_box.
  change (ordX N) with (ord1 (ltX N)). change (ordY N) with (ord1 (ltY N)).
  cbv zeta.
  destruct (leX N _ _ && leY N _ _) eqn:E; [|discriminate].
  intros H; injection H as <-. cbn [bmin bmax px py].
  apply andb_true_iff in E. destruct E as [E1 E2].
  split; [exact E1|]. split; [exact E2|]. reflexivity.
Qed.

(** (P2) the box returned by [get_intersection_bounding_box] is non-empty, has ok corners,
    and each of its coordinate ranges is inside the ranges of both segments *)
Theorem bbox_is_common_box a1 a2 b1 b2 bb :
  okpt a1 -> okpt a2 -> okpt b1 -> okpt b2 ->
  get_intersection_bounding_box a1 a2 b1 b2 = Some bb ->
  okpt (bmin bb) /\ okpt (bmax bb) /\
  leX N (px (bmin bb)) (px (bmax bb)) = true /\
  leY N (py (bmin bb)) (py (bmax bb)) = true /\
  (forall x, okX L x ->
     leX N (px (bmin bb)) x = true -> leX N x (px (bmax bb)) = true ->
     betweenX (px a1) (px a2) x /\ betweenX (px b1) (px b2) x) /\
  (forall y, okY L y ->
     leY N (py (bmin bb)) y = true -> leY N y (py (bmax bb)) = true ->
     betweenY (py a1) (py a2) y /\ betweenY (py b1) (py b2) y).
Proof.
  intros [A1x A1y] [A2x A2y] [B1x B1y] [B2x B2y] Hbb.
  destruct (bbox_some_inv _ _ _ _ Hbb) as [HX [HY E]].
  destruct (range_ok (nl_X L) _ _ _ _ A1x A2x B1x B2x) as [OX1 OX2].
  destruct (range_ok (nl_Y L) _ _ _ _ A1y A2y B1y B2y) as [OY1 OY2].
  subst bb. cbn [bmin bmax px py] in *.
  split; [split; assumption|]. split; [split; assumption|].
  split; [exact HX|]. split; [exact HY|]. split.
  - intros x Hx H1 H2. exact (range_between (nl_X L) _ _ _ _ _ A1x A2x B1x B2x Hx H1 H2).
  - intros y Hy H1 H2. exact (range_between (nl_Y L) _ _ _ _ _ A1y A2y B1y B2y Hy H1 H2).
Qed.

Corollary bbox_point_in_both_boxes a1 a2 b1 b2 bb q :
  okpt a1 -> okpt a2 -> okpt b1 -> okpt b2 ->
  get_intersection_bounding_box a1 a2 b1 b2 = Some bb ->
  okpt q -> in_bbox bb q -> in_seg_box a1 a2 q /\ in_seg_box b1 b2 q.
Proof.
  intros A1 A2 B1 B2 Hbb [Qx Qy] [[X1 X2] [Y1 Y2]].
  destruct (bbox_is_common_box A1 A2 B1 B2 Hbb) as (_ & _ & _ & _ & HX & HY).
  destruct (HX _ Qx X1 X2) as [Xa Xb]. destruct (HY _ Qy Y1 Y2) as [Ya Yb].
  split; split; assumption.
Qed.

Lemma clamp_in_both_boxes a1 a2 b1 b2 bb p :
  okpt a1 -> okpt a2 -> okpt b1 -> okpt b2 ->
  get_intersection_bounding_box a1 a2 b1 b2 = Some bb ->
  okpt p ->
  okpt (constrain_to_bounding_box p bb) /\
  in_seg_box a1 a2 (constrain_to_bounding_box p bb) /\
  in_seg_box b1 b2 (constrain_to_bounding_box p bb).
Proof.
  intros A1 A2 B1 B2 Hbb Hp.
  destruct (bbox_is_common_box A1 A2 B1 B2 Hbb) as (Hlo & Hhi & HX & HY & _).
  assert (Hq := @clamp_ok p bb Hp Hlo Hhi).
  split; [exact Hq|].
  apply (bbox_point_in_both_boxes A1 A2 B1 B2 Hbb Hq).
  exact (@clamp_in_box p bb Hp Hlo Hhi HX HY).
Qed.

(** P1 + P2: the point returned by [intersection] is in the bounding boxes of both segments *)
Theorem intersection_point_in_both_boxes a1 a2 b1 b2 q :
  okpt a1 -> okpt a2 -> okpt b1 -> okpt b2 ->
  (forall p, intersection_impl a1 a2 b1 b2 = LPoint p -> okX L (px p) /\ okY L (py p)) ->
  intersection a1 a2 b1 b2 = LPoint q ->
  okpt q /\ in_seg_box a1 a2 q /\ in_seg_box b1 b2 q.
Proof.
  intros A1 A2 B1 B2 Himpl. unfold intersection.
  destruct (get_intersection_bounding_box a1 a2 b1 b2) as [bb|] eqn:Hbb; [|discriminate].
  destruct (intersection_impl a1 a2 b1 b2) as [|p|p p'] eqn:Hi; try discriminate.
  intros H; injection H as <-.
  apply clamp_in_both_boxes; try assumption.
  apply Himpl. reflexivity.
Qed.

Theorem intersection_overlap_in_both_boxes a1 a2 b1 b2 q q' :
  okpt a1 -> okpt a2 -> okpt b1 -> okpt b2 ->
  (forall p p', intersection_impl a1 a2 b1 b2 = LOverlap p p' -> okpt p /\ okpt p') ->
  intersection a1 a2 b1 b2 = LOverlap q q' ->
  (okpt q /\ in_seg_box a1 a2 q /\ in_seg_box b1 b2 q) /\
  (okpt q' /\ in_seg_box a1 a2 q' /\ in_seg_box b1 b2 q').
Proof.
  intros A1 A2 B1 B2 Himpl. unfold intersection.
  destruct (get_intersection_bounding_box a1 a2 b1 b2) as [bb|] eqn:Hbb; [|discriminate].
  destruct (intersection_impl a1 a2 b1 b2) as [|p|p p'] eqn:Hi; try discriminate.
  intros H; injection H as <- <-.
  destruct (Himpl _ _ eq_refl) as [Hp Hp'].
  split; apply clamp_in_both_boxes; assumption.
Qed.

(** the converse direction, used for (P4): a point of both segment boxes is not moved *)
Theorem clamp_identity_generic a1 a2 b1 b2 p :
  okpt a1 -> okpt a2 -> okpt b1 -> okpt b2 -> okpt p ->
  in_seg_box a1 a2 p -> in_seg_box b1 b2 p ->
  exists bb, get_intersection_bounding_box a1 a2 b1 b2 = Some bb /\
             constrain_to_bounding_box p bb = p.
Proof.
  intros [A1x A1y] [A2x A2y] [B1x B1y] [B2x B2y] [Px Py] [HAx HAy] [HBx HBy].
  destruct (between_range (nl_X L) A1x A2x B1x B2x Px HAx HBx) as [X1 X2].
  destruct (between_range (nl_Y L) A1y A2y B1y B2y Py HAy HBy) as [Y1 Y2].
  destruct (range_ok (nl_X L) _ _ _ _ A1x A2x B1x B2x) as [OX1 OX2].
  destruct (range_ok (nl_Y L) _ _ _ _ A1y A2y B1y B2y) as [OY1 OY2].
  unfold get_intersection_bounding_box.
  change (ordX N) with (ord1 (ltX N)). change (ordY N) with (ord1 (ltY N)).
  cbv zeta.
  rewrite (ol_le_trans (nl_X L) _ _ _ OX1 Px OX2 X1 X2).
  rewrite (ol_le_trans (nl_Y L) _ _ _ OY1 Py OY2 Y1 Y2).
  cbn [andb]. eexists. split; [reflexivity|].
  destruct p as [x y]. unfold constrain_to_bounding_box. cbn [bmin bmax px py] in *.
  f_equal.
  - apply (clamp1_id (nl_X L)); assumption.
  - apply (clamp1_id (nl_Y L)); assumption.
Qed.

End Generic.

(** ** Part 2: the exact instance [NQ] on finite inputs (P3, P4) *)
Local Open Scope Q_scope.

(** a finite point *)
Definition fpt (x y : Q) : pt NQ := mkPt NQ (QF x) (QF y).

Lemma okpt_fpt x y : okpt NQ_laws (fpt x y).
Proof. split; cbn; apply qok_QF. Qed.

(** *** the operations of [NQ] on finite values *)
Definition qdiv (x y : Q) : qx :=
  match qsgn y with Eq => inf_of_sign (qsgn x) | _ => QF (Qred (x / y)) end.
Definition rsub (u v : Q) : Q := Qred (u + - v).
Definition rcross (ax ay bx by_ : Q) : Q := Qred (Qred (ax * by_) + - Qred (ay * bx)).
Definition rdot (ax ay bx by_ : Q) : Q := Qred (Qred (ax * bx) + Qred (ay * by_)).
Definition rmid (p s d : Q) : Q := Qred (p + Qred (s * d)).

Lemma qx_div_FF x y : qx_div (QF x) (QF y) = qdiv x y.
Proof. reflexivity. Qed.
Lemma qx_sub_FF x y : qx_sub (QF x) (QF y) = QF (rsub x y).
Proof. reflexivity. Qed.
Lemma cross_FF a b c d : cross NQ (QF a) (QF b) (QF c) (QF d) = QF (rcross a b c d).
Proof. reflexivity. Qed.
Lemma dot_FF a b c d : dot NQ (QF a) (QF b) (QF c) (QF d) = QF (rdot a b c d).
Proof. reflexivity. Qed.
Lemma mid_point_FF p1 p2 s dx dy :
  mid_point (fpt p1 p2) (QF s) (QF dx) (QF dy) = fpt (rmid p1 s dx) (rmid p2 s dy).
Proof. reflexivity. Qed.

Lemma rsub_eq u v : rsub u v == u - v.
Proof. unfold rsub. rewrite Qred_correct. ring. Qed.
Lemma rcross_eq a b c d : rcross a b c d == a * d - b * c.
Proof. unfold rcross. rewrite !Qred_correct. ring. Qed.
Lemma rdot_eq a b c d : rdot a b c d == a * c + b * d.
Proof. unfold rdot. rewrite !Qred_correct. ring. Qed.
Lemma rmid_eq p s d : rmid p s d == p + s * d.
Proof. unfold rmid. rewrite !Qred_correct. ring. Qed.

Lemma qsgn_Eq y : qsgn y = Eq <-> y == 0.
Proof.
  unfold qsgn. rewrite Z.compare_eq_iff. unfold Qeq. cbn [Qnum Qden]. lia.
Qed.

Lemma qdiv_nz n k : ~ k == 0 -> qdiv n k = QF (Qred (n / k)).
Proof.
  intros Hk. unfold qdiv. destruct (qsgn k) eqn:E; try reflexivity.
  exfalso. apply Hk, qsgn_Eq, E.
Qed.

Lemma sq_pos k : ~ k == 0 -> 0 < k * k.
Proof.
  intros Hk. destruct (Q_dec k 0) as [[H|H]|H]; [nra | nra | contradiction].
Qed.

(** [gt0A2 NQ (k*k)] is true iff [k] is not zero *)
Lemma gt0_sq_true k : ~ k == 0 -> qx_lt (QF 0) (QF (Qred (k * k))) = true.
Proof.
  intros Hk. apply qx_lt_FF. rewrite Qred_correct. apply sq_pos, Hk.
Qed.

Lemma gt0_sq_false k : k == 0 -> qx_lt (QF 0) (QF (Qred (k * k))) = false.
Proof.
  intros Hk. apply qx_lt_FF_false. rewrite Qred_correct, Hk. lra.
Qed.

Lemma gt0_sq_iff k : gt0A2 NQ (mulAA NQ (QF k) (QF k)) = true <-> ~ k == 0.
Proof.
  change (gt0A2 NQ (mulAA NQ (QF k) (QF k))) with (qx_lt (QF 0) (QF (Qred (k * k)))).
  split.
  - intros H Hk. rewrite (gt0_sq_false Hk) in H. discriminate.
  - apply gt0_sq_true.
Qed.

(** a point at parameter [s] in [0,1] of an interval lies between its ends *)
Lemma param_between s u v x :
  0 <= s <= 1 -> x == u + s * (v - u) -> betweenX NQ (QF u) (QF v) (QF x).
Proof.
  intros Hs Hx. unfold betweenX. cbn [leX NQ].
  destruct (Qlt_le_dec u v) as [H|H]; [left | right];
    apply andb_true_iff; split; apply qx_le_FF; nra.
Qed.

Section Exact.
Variables a1x a1y a2x a2y b1x b1y b2x b2y : Q.
Local Notation A1 := (fpt a1x a1y).
Local Notation A2 := (fpt a2x a2y).
Local Notation B1 := (fpt b1x b1y).
Local Notation B2 := (fpt b2x b2y).

(** the exact quantities *)
Definition det : Q := (a2x - a1x) * (b2y - b1y) - (a2y - a1y) * (b2x - b1x).
(** [e x vb] and [e x va] with [e = b1 - a1] *)
Definition numS : Q := (b1x - a1x) * (b2y - b1y) - (b1y - a1y) * (b2x - b1x).
Definition numT : Q := (b1x - a1x) * (a2y - a1y) - (b1y - a1y) * (a2x - a1x).

(** [a1 + s va = b1 + t vb] *)
Definition common (s t : Q) : Prop :=
  a1x + s * (a2x - a1x) == b1x + t * (b2x - b1x) /\
  a1y + s * (a2y - a1y) == b1y + t * (b2y - b1y).
(** [(x,y)] is a common point of the two closed segments *)
Definition on_both (x y : Q) : Prop :=
  exists s t, 0 <= s <= 1 /\ 0 <= t <= 1 /\
    x == a1x + s * (a2x - a1x) /\ y == a1y + s * (a2y - a1y) /\
    x == b1x + t * (b2x - b1x) /\ y == b1y + t * (b2y - b1y).
(** the closed segments have no common point *)
Definition disjoint_segments : Prop :=
  forall s t, 0 <= s <= 1 -> 0 <= t <= 1 -> ~ common s t.

(** the values the code computes (reduced after every operation) *)
Definition rvax := rsub a2x a1x.
Definition rvay := rsub a2y a1y.
Definition rvbx := rsub b2x b1x.
Definition rvby := rsub b2y b1y.
Definition rex := rsub b1x a1x.
Definition rey := rsub b1y a1y.
Definition rk := rcross rvax rvay rvbx rvby.
Definition rns := rcross rex rey rvbx rvby.
Definition rnt := rcross rex rey rvax rvay.
Definition rlen := rdot rvax rvay rvax rvay.
Definition rs := Qred (rns / rk).
Definition rt := Qred (rnt / rk).

Lemma impl_eval :
  intersection_impl A1 A2 B1 B2 =
  if qx_lt (QF 0) (QF (Qred (rk * rk))) then
    let s := qdiv rns rk in
    if qx_lt s (QF 0) || qx_lt (QF 1) s then LNone
    else
      let t := qdiv rnt rk in
      if qx_lt t (QF 0) || qx_lt (QF 1) t then LNone
      else if qx_eq s (QF 0) || qx_eq s (QF 1) then LPoint (mid_point A1 s (QF rvax) (QF rvay))
      else if qx_eq t (QF 0) || qx_eq t (QF 1) then LPoint (mid_point B1 t (QF rvbx) (QF rvby))
      else LPoint (mid_point A1 s (QF rvax) (QF rvay))
  else
    if qx_lt (QF 0) (QF (Qred (rnt * rnt))) then LNone
    else
      let sa := qdiv (rdot rvax rvay rex rey) rlen in
      let sb := qx_add sa (qdiv (rdot rvax rvay rvbx rvby) rlen) in
      let smin := qx_min sa sb in
      let smax := qx_max sa sb in
      if qx_le smin (QF 1) && qx_le (QF 0) smax then
        if qx_eq smin (QF 1) then LPoint (mid_point A1 smin (QF rvax) (QF rvay))
        else if qx_eq smax (QF 0) then LPoint (mid_point A1 smax (QF rvax) (QF rvay))
        else LOverlap (mid_point A1 (qx_max smin (QF 0)) (QF rvax) (QF rvay))
                      (mid_point A1 (qx_min smax (QF 1)) (QF rvax) (QF rvay))
      else LNone.
Proof. reflexivity. Qed.

Lemma rk_det : rk == det.
Proof.
  unfold rk, rvax, rvay, rvbx, rvby, det. rewrite rcross_eq, !rsub_eq. ring.
Qed.
Lemma rns_eq : rns == numS.
Proof.
  unfold rns, rex, rey, rvbx, rvby, numS. rewrite rcross_eq, !rsub_eq. ring.
Qed.
Lemma rnt_eq : rnt == numT.
Proof.
  unfold rnt, rex, rey, rvax, rvay, numT. rewrite rcross_eq, !rsub_eq. ring.
Qed.
Lemma rs_eq : rs == numS / det.
Proof. unfold rs. rewrite Qred_correct, rns_eq, rk_det. reflexivity. Qed.
Lemma rt_eq : rt == numT / det.
Proof. unfold rt. rewrite Qred_correct, rnt_eq, rk_det. reflexivity. Qed.

(** Cramer: the two parametrisations meet at [(rs, rt)] *)
Lemma cramer_common : ~ det == 0 -> common rs rt.
Proof.
  intros Hdet. unfold common. rewrite rs_eq, rt_eq.
  assert (Hd : ~ (a2x - a1x) * (b2y - b1y) - (a2y - a1y) * (b2x - b1x) == 0) by exact Hdet.
  unfold numS, numT, det. split; field; exact Hd.
Qed.

(** and only there *)
Lemma common_det_s s t : common s t -> s * det == numS.
Proof.
  intros [Hx Hy].
  assert (E : s * det - numS ==
              ((a1x + s * (a2x - a1x)) - (b1x + t * (b2x - b1x))) * (b2y - b1y) -
              ((a1y + s * (a2y - a1y)) - (b1y + t * (b2y - b1y))) * (b2x - b1x))
    by (unfold det, numS; ring).
  rewrite Hx, Hy in E. lra.
Qed.

Lemma common_det_t s t : common s t -> t * det == numT.
Proof.
  intros [Hx Hy].
  assert (E : t * det - numT ==
              ((a1x + s * (a2x - a1x)) - (b1x + t * (b2x - b1x))) * (a2y - a1y) -
              ((a1y + s * (a2y - a1y)) - (b1y + t * (b2y - b1y))) * (a2x - a1x))
    by (unfold det, numT; ring).
  rewrite Hx, Hy in E. lra.
Qed.

Lemma common_params s t : ~ det == 0 -> common s t -> s == rs /\ t == rt.
Proof.
  intros Hdet Hc. rewrite rs_eq, rt_eq.
  rewrite <- (common_det_s Hc), <- (common_det_t Hc).
  split; field; exact Hdet.
Qed.

End Exact.
