(** * On the events of a valid input the event order is antisymmetric (C15), exact instance:
    operands with finite coordinates none of whose edges overlaps another edge of the same
    operand; every pair of distinct events of the store the sweep returns. *)
From Coq Require Import Bool List PArith NArith QArith Lqa Lia.
From GB Require Import Prim Num NumQ Event Intersect Cmp Heap Outcome Divide Fields FillQueue Subdivide
  IntersectProofs SplayKeys LinkProofs SplitCover EventOrderQ OnEdge OnEdgeFull Coverage SameOperand EventOrderValid EventOrderTransValid.
From GB Require Splay.
Import ListNotations.
Local Open Scope Q_scope.

Theorem subdivide_einv2 cfg fuel (A B : list (polygon NQ)) op (st : store NQ) (sorted : list eid) (n : nat) :
  (forall P, In P A -> finite_poly P) -> (forall P, In P B -> finite_poly P) ->
  subdivide cfg fuel (fill_queue A B op) op = Ok (st, sorted, n) ->
  einv2 (ops_edges A B) st /\ linked NQ st.
Proof.
  intros HA HB. unfold subdivide. destruct (fill_queue_inv NQ A B op) as [S0 Q0].
  set (edges := ops_edges A B).
  assert (PA : forall P, In P A -> poly_ok edges true P).
  { intros P HP. apply poly_ok_of_edges; [now apply HA|]. intros e He. unfold edges, ops_edges.
    apply in_or_app. left. apply in_flat_map. exists P. auto. }
  assert (PB : forall P, In P B -> poly_ok edges false P).
  { intros P HP. apply poly_ok_of_edges; [now apply HB|]. intros e He. unfold edges, ops_edges.
    apply in_or_app. right. apply in_flat_map. exists P. auto. }
  pose proof (fill_queue_einv2 edges A B op PA PB) as P0.
  set (s0 := mkSweep _ _ _ _).
  assert (I0 : swinv NQ s0).
  { unfold swinv, s0; cbn [sw_st sw_q sw_sl sw_sorted]. repeat split; try apply S0; try exact Q0; intros i []. }
  assert (KL0 : keys_left (sw_st s0) (keys eid unit (sw_sl s0))) by (intros k []).
  pose proof (sweep_loop_inv NQ cfg fuel s0 (f_sbbox (fill_queue A B op)) (f_cbbox (fill_queue A B op))
                (minX NQ (bb_maxx (f_sbbox (fill_queue A B op))) (bb_maxx (f_cbbox (fill_queue A B op)))) op I0) as G.
  pose proof (sweep_loop_e2 edges cfg fuel s0 (f_sbbox (fill_queue A B op)) (f_cbbox (fill_queue A B op))
                (minX NQ (bb_maxx (f_sbbox (fill_queue A B op))) (bb_maxx (f_cbbox (fill_queue A B op)))) op I0 P0 KL0) as PP.
  destruct (sweep_loop _ _ _ _ _ _ _) as [s| site |]; cbn [obind]; try discriminate.
  intros H; inversion H; subst. destruct G as [((W & L) & _) _]. split; [exact PP | exact L].
Qed.

Theorem event_order_antisymmetric_on_valid_input cfg fuel (A B : list (polygon NQ)) op (st : store NQ) (sorted : list eid) (n : nat) :
  (forall P, In P A -> finite_poly P) -> (forall P, In P B -> finite_poly P) ->
  simple_edges (ops_edges A B) ->
  subdivide cfg fuel (fill_queue A B op) op = Ok (st, sorted, n) ->
  forall a b, mapped NQ st a -> mapped NQ st b -> a <> b ->
  cmp_events st b a = CompOpp (cmp_events st a b) /\ cmp_events st a b <> Eq.
Proof.
  intros HA HB Hs H a b Ma Mb Hab.
  destruct (subdivide_einv2 cfg fuel A B op st sorted n HA HB H) as [E L].
  pose proof (subdivide_same_operand_disjoint cfg fuel A B op st sorted n HA HB Hs H) as D.
  split; [exact (cmp_events_antisym_valid (ops_edges A B) st E D L a b Ma Mb Hab)|].
  unfold cmp_events, less_if.
  repeat match goal with
         | |- context [if ?c then _ else _] => destruct c
         | |- context [match ?x with Some _ => _ | None => _ end] => destruct x
         end; discriminate.
Qed.

(** transitivity needs no hypothesis on overlaps: finite operands are enough *)
Theorem event_order_transitive_on_valid_input cfg fuel (A B : list (polygon NQ)) op (st : store NQ) (sorted : list eid) (n : nat) :
  (forall P, In P A -> finite_poly P) -> (forall P, In P B -> finite_poly P) ->
  subdivide cfg fuel (fill_queue A B op) op = Ok (st, sorted, n) ->
  forall a b c, mapped NQ st a -> mapped NQ st b -> mapped NQ st c ->
  cmp_events st a b = Lt -> cmp_events st b c = Lt -> cmp_events st a c = Lt.
Proof.
  intros HA HB H a b c Ma Mb Mc.
  destruct (subdivide_einv2 cfg fuel A B op st sorted n HA HB H) as [E L].
  exact (cmp_events_trans_valid (ops_edges A B) st E L a b c Ma Mb Mc).
Qed.

(** ... and in one statement: "is processed later than" ([cmp_events = Lt]) is a strict total
    order on the events the sweep returns *)
Theorem event_order_strict_total_on_valid_input cfg fuel (A B : list (polygon NQ)) op (st : store NQ) (sorted : list eid) (n : nat) :
  (forall P, In P A -> finite_poly P) -> (forall P, In P B -> finite_poly P) ->
  simple_edges (ops_edges A B) ->
  subdivide cfg fuel (fill_queue A B op) op = Ok (st, sorted, n) ->
  let lt a b := cmp_events st a b = Lt in
  ((forall a, mapped NQ st a -> ~ lt a a) /\ (forall a b, mapped NQ st a -> mapped NQ st b -> a <> b -> (lt a b /\ ~ lt b a) \/ (lt b a /\ ~ lt a b)) /\
   (forall a b c, mapped NQ st a -> mapped NQ st b -> mapped NQ st c -> lt a b -> lt b c -> lt a c))%type.
Proof.
  intros HA HB Hs H lt. split; [|split].
  - intros a Ma K. unfold lt in K.
    destruct (subdivide_einv2 cfg fuel A B op st sorted n HA HB H) as [E L].
    destruct (partner_side (ops_edges A B) st E L a Ma) as (oa & xa & ya & oax & oay & Oa & Pa & Poa & _).
    apply (cmp_same_key st a a oa oa xa ya xa ya oax oay oax oay Pa Pa (Qeq_refl _) (Qeq_refl _) Oa Oa Poa Poa eq_refl) in K.
    assert (Z : EventOrderQ.det xa ya oax oay oax oay == 0) by (unfold EventOrderQ.det; ring).
    destruct K as [K|(_ & K1 & K2)]; [|congruence]. destruct (e_left (getE st a)); lra.
  - intros a b Ma Mb Hab.
    destruct (event_order_antisymmetric_on_valid_input cfg fuel A B op st sorted n HA HB Hs H a b Ma Mb Hab) as [An Ne].
    unfold lt. destruct (cmp_events st a b) eqn:K; cbn in An; [now elim Ne | left | right]; rewrite An; split; congruence.
  - exact (event_order_transitive_on_valid_input cfg fuel A B op st sorted n HA HB H).
Qed.

(** the segment order is antisymmetric on a valid input: C15, second half *)
From GB Require Import SegOrder.
Theorem segment_order_antisymmetric_on_valid_input cfg fuel (A B : list (polygon NQ)) op (st : store NQ) (sorted : list eid) (n : nat) :
  (forall P, In P A -> finite_poly P) -> (forall P, In P B -> finite_poly P) ->
  simple_edges (ops_edges A B) ->
  subdivide cfg fuel (fill_queue A B op) op = Ok (st, sorted, n) ->
  forall a b, mapped NQ st a -> mapped NQ st b -> a <> b ->
  compare_segments st b a = CompOpp (compare_segments st a b) /\ compare_segments st a b <> Eq.
Proof.
  intros HA HB Hs H a b Ma Mb Hab.
  destruct (event_order_antisymmetric_on_valid_input cfg fuel A B op st sorted n HA HB Hs H a b Ma Mb Hab) as [An Ne].
  split.
  - apply compare_segments_antisym; [exact Hab|]. unfold is_before, ev_gt. rewrite An.
    destruct (cmp_events st a b); cbn; try reflexivity. now elim Ne.
  - intros K. apply compare_segments_eq_iff in K. contradiction.
Qed.

(** ** the hypotheses are satisfiable: a decidable sufficient test for [simple_edges] (no two
    edges of one operand are parallel on one line) and the F2 witness *)
Definition share_b (e f : edge) : bool :=
  let '(ax, ay, (bx, by_), _) := e in let '(cx, cy, (dx, dy), _) := f in
  negb (Qeq_bool (IntersectProofs.det ax ay bx by_ cx cy dx dy) 0) || negb (Qeq_bool (IntersectProofs.numT ax ay bx by_ cx cy) 0).

Lemma share_b_sound e f : share_b e f = true -> share_e e f.
Proof.
  destruct e as [[[ax ay] [bx by_]] s1], f as [[[cx cy] [dx dy]] s2]. unfold share_b, share_e.
  intros H x y x' y' H1 H2 H3 H4.
  assert (B1 : on_both ax ay bx by_ cx cy dx dy x y) by (destruct H1 as (s & Hs & X1 & Y1), H2 as (t & Ht & X2 & Y2); exists s, t; repeat split; tauto).
  assert (B2 : on_both ax ay bx by_ cx cy dx dy x' y') by (destruct H3 as (s & Hs & X1 & Y1), H4 as (t & Ht & X2 & Y2); exists s, t; repeat split; tauto).
  destruct (Qeq_dec (IntersectProofs.det ax ay bx by_ cx cy dx dy) 0) as [Hd|Hd].
  - apply orb_true_iff in H. destruct H as [H|H]; apply negb_true_iff in H.
    + exfalso. apply Qeq_bool_neq in H. contradiction.
    + apply Qeq_bool_neq in H. exfalso.
      destruct (@impl_parallel_distinct ax ay bx by_ cx cy dx dy Hd H) as [_ No].
      destruct B1 as (s & t & _ & _ & X1 & Y1 & X2 & Y2). apply (No s t). split; [rewrite <- X1 | rewrite <- Y1]; assumption.
  - exact (@on_both_unique ax ay bx by_ cx cy dx dy x y x' y' Hd B1 B2).
Qed.

Fixpoint cross_okb (done L : list edge) : bool :=
  match L with
  | [] => true
  | e :: L' => forallb (fun d => implb (Bool.eqb (snd d) (snd e)) (share_b d e)) done && cross_okb (done ++ [e]) L'
  end.

Lemma cross_okb_sound : forall L done, cross_okb done L = true -> cross_ok done L.
Proof.
  induction L as [|e L IH]; intros done H; cbn [cross_okb cross_ok] in *; [exact I|].
  apply andb_prop in H. destruct H as [H1 H2]. split; [|apply IH; exact H2].
  intros d Hd Hs. rewrite forallb_forall in H1. specialize (H1 d Hd). unfold same_op in Hs.
  rewrite Hs, eqb_reflx in H1. cbn [implb] in H1. apply share_b_sound. exact H1.
Qed.

From GB Require Import Cert ExactSweep.
Example valid_input_example :
  (forall P, In P F2_A -> finite_poly P) /\ (forall P, In P F2_B -> finite_poly P) /\
  simple_edges (ops_edges F2_A F2_B) /\
  (match subdivide release 3000 (fill_queue F2_A F2_B Union) Union with Ok (_, sorted, _) => Nat.ltb 0 (length sorted) | _ => false end) = true.
Proof.
  split; [apply exact_example_finite|]. split; [apply exact_example_finite|]. split.
  - apply cross_okb_sound. vm_compute. reflexivity.
  - pose proof exact_example as K. unfold exact_example_check in K. apply andb_prop in K. exact (proj2 K).
Qed.
