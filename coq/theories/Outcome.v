(** * Outcomes and configuration of model runs *)
Set Implicit Arguments.

Inductive panic_site :=
| PUnwrapPossibleIntersection     (* possible_intersection.rs: events[3].0.get_other_event().unwrap() *)
| PIndexContours                  (* connect_edges.rs: contours[lower_contour_id as usize] *)
| PIndexResultEvents              (* connect_edges.rs: result_events[pos as usize] / iteration_map[pos] *)
| PIndexHoleIds                   (* mod.rs: contours[*hole_id as usize] *)
| PDebugSweepLineMisses           (* subdivide_segments.rs debug_assert *)
| PDebugDivideNotLeft             (* divide_segment.rs debug_assert!(se_l.is_left()) *)
| PDebugDivideNotBefore           (* divide_segment.rs debug_assert!(se_l.is_before(&r)) *)
| PDebugIterationOrder            (* connect_edges.rs debug_assert!(is_left(&data[i])) *)
| PDebugLowerContour              (* connect_edges.rs debug_assert!(false, "Invalid lower_contour_id ...") *)
| PEventBudget.                   (* the verification hook's budget *)

Inductive outcome (T : Type) :=
| Ok (x : T)
| Panic (s : panic_site)
| OutOfFuel.
Arguments Panic {T}.
Arguments OutOfFuel {T}.

Definition obind {T U} (o : outcome T) (f : T -> outcome U) : outcome U :=
  match o with Ok x => f x | Panic s => Panic s | OutOfFuel => OutOfFuel end.

(** [c_debug]: debug assertions on (the dev profile).  [c_f1], [c_f2]: the two repairs of
    [compute_fields.rs] (true = repaired code = the tree's HEAD; false = the pinned code,
    kept only for the refutation lemmas).  [c_noshort]: disable the bounding-box shortcut
    and the early break (used to state that the shortcuts do not change the answer). *)
Record config := mkCfg { c_debug : bool; c_f1 : bool; c_f2 : bool; c_noshort : bool }.
Definition release : config := mkCfg false true true false.
Definition debug : config := mkCfg true true true false.
Definition pinned : config := mkCfg false false false false.
