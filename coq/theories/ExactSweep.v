(** * The exact-instance theorems about the sweep, stated for operands: every polygon with
    finite rational coordinates, the edges being those [fill_queue] walks ([ops_edges]). *)
From Coq Require Import Bool List PArith NArith QArith Lqa Lia.
From GB Require Import Prim Num NumQ Event Intersect Cmp Heap Outcome Divide Fields FillQueue Subdivide Connect BoolOp
  IntersectProofs LinkProofs SplitCover OnEdge OnEdgeFull SweepClosure ContourEdges ResultEdges EventBound Coverage.
Import ListNotations.
Local Open Scope Q_scope.

Section Exact.
Variables A B : list (polygon NQ).
Hypothesis HA : forall P, In P A -> finite_poly P.
Hypothesis HB : forall P, In P B -> finite_poly P.

Let edges := ops_edges A B.

Lemma ops_poly_ok_A : forall P, In P A -> poly_ok edges true P.
Proof.
  intros P HP. apply poly_ok_of_edges; [now apply HA|]. intros e He. unfold edges, ops_edges.
  apply in_or_app. left. apply in_flat_map. exists P. auto.
Qed.
Lemma ops_poly_ok_B : forall P, In P B -> poly_ok edges false P.
Proof.
  intros P HP. apply poly_ok_of_edges; [now apply HB|]. intros e He. unfold edges, ops_edges.
  apply in_or_app. right. apply in_flat_map. exists P. auto.
Qed.

(** C13: every returned pair is left-first, of non-zero length, on one edge of its operand *)
Theorem exact_subsegments cfg fuel op st sorted n :
  subdivide cfg fuel (fill_queue A B op) op = Ok (st, sorted, n) ->
  forall i, In i sorted -> exists o, e_other (getE st i) = Some o /\ pair_ok2 (ops_edges A B) st i o.
Proof. exact (subdivide_on_edges_full edges cfg fuel A B op st sorted n ops_poly_ok_A ops_poly_ok_B). Qed.

(** C13: and the pairs cover the edges *)
Theorem exact_coverage cfg fuel op st sorted n :
  subdivide cfg fuel (fill_queue A B op) op = Ok (st, sorted, n) -> cov (op_target A B) st.
Proof. exact (subdivide_covers cfg fuel A B op st sorted n HA HB). Qed.

(** C03: the sweep terminates within an explicit budget *)
Theorem exact_sweep_terminates cfg fuel op :
  (nids (f_st (fill_queue A B op)) * (1 + 2 * length (cand_of (ops_edges A B))) <= fuel)%nat ->
  subdivide cfg fuel (fill_queue A B op) op <> Panic PEventBudget.
Proof. exact (sweep_terminates edges cfg fuel A B op ops_poly_ok_A ops_poly_ok_B). Qed.

Theorem exact_sweep_returns cfg fuel op :
  c_debug cfg = false ->
  (nids (f_st (fill_queue A B op)) * (1 + 2 * length (cand_of (ops_edges A B))) <= fuel)%nat ->
  exists st sorted n, subdivide cfg fuel (fill_queue A B op) op = Ok (st, sorted, n).
Proof. intros Hd. exact (sweep_returns edges cfg fuel A B op Hd ops_poly_ok_A ops_poly_ok_B). Qed.

(** C04: result edges lie on operand edges (complete sweeps) *)
Theorem exact_result_edges cfg fuel op R :
  complete_sweep cfg op ->
  boolean_operation cfg fuel A B op = Ok R ->
  R = trivial_result A B op \/
  forall P ring, In P R -> In ring (exterior P :: interiors P) ->
    exists pts, ring = close_ring pts /\
      forall l1 p q l2, pts = l1 ++ p :: q :: l2 -> on_input_edge (ops_edges A B) p q.
Proof. exact (result_rings_on_input_edges edges cfg fuel A B op R ops_poly_ok_A ops_poly_ok_B). Qed.

(** C03: no access outside the result-event vector (complete sweeps) *)
Theorem exact_index_safe cfg fuel op :
  complete_sweep cfg op -> boolean_operation cfg fuel A B op <> Panic PIndexResultEvents.
Proof. exact (exact_complete_run_index_safe edges cfg fuel A B op ops_poly_ok_A ops_poly_ok_B). Qed.

End Exact.

(** non-vacuity on the pinned witness operands of finding F2 (two overlapping unit squares sharing
    boundary pieces): finite, the sweep returns within the computed budget, and the union runs
    to completion *)
From GB Require Import Cert.
Definition exact_example_check : bool :=
  let A := F2_A in let B := F2_B in
  let bound := (nids (f_st (fill_queue A B Union)) * (1 + 2 * length (cand_of (ops_edges A B))))%nat in
  Nat.leb bound 3000 &&
  match subdivide release 3000 (fill_queue A B Union) Union with
  | Ok (_, sorted, _) => Nat.ltb 0 (length sorted)
  | _ => false
  end.
Example exact_example : exact_example_check = true.
Proof. vm_compute. reflexivity. Qed.
Example exact_example_finite : (forall P, In P F2_A -> finite_poly P) /\ (forall P, In P F2_B -> finite_poly P).
Proof.
  split; intros P HP; cbn in HP;
    repeat (destruct HP as [<-|HP]; [split; [intros p Hp; cbn in Hp; repeat (destruct Hp as [<-|Hp]; [eexists; eexists; reflexivity|]); destruct Hp | intros r []]|]);
    destruct HP.
Qed.
