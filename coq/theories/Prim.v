(** * Replacements for the few standard-library functions whose definitions the Paramcoq
    translation cannot digest in this build ([Nat.sub] mentions its own scrutinee in a
    branch, [PositiveMap.find] lives in a functor instance): same functions, definitions in
    the style the translation accepts, with the equations that identify them. *)
From Coq Require Import Arith PArith FMapPositive.
Set Implicit Arguments.

Fixpoint psub (n m : nat) {struct n} : nat :=
  match n with
  | O => O
  | S k => match m with O => S k | S l => psub k l end
  end.
Lemma psub_eq n m : psub n m = n - m.
Proof. revert m; induction n as [|n IH]; intros [|m]; cbn; auto. Qed.

Fixpoint pfind (A : Type) (i : positive) (m : PositiveMap.t A) {struct m} : option A :=
  match m with
  | PositiveMap.Leaf _ => None
  | PositiveMap.Node l o r =>
      match i with
      | xH => o
      | xO ii => pfind ii l
      | xI ii => pfind ii r
      end
  end.
Lemma pfind_eq (A : Type) (m : PositiveMap.t A) : forall i, pfind i m = PositiveMap.find i m.
Proof. induction m as [|l IHl o r IHr]; intros [i|i|]; cbn; auto. Qed.
