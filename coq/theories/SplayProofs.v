(** * Refinement of the splay map model ([Splay], [SplayOps]) to the strictly sorted
      association list, for every strict total order and every operation history.

    Layout: a single section.  Its first part (up to the [Hypothesis] declarations)
    uses no property of the comparator at all: [go_inorder], [splay_inorder], the
    iterator lemmas and [lookups_keep_elements] live there.  The second part assumes
    that [cmp] is a strict total order.  [height_chain] is in a separate section at
    the end.

    Notes on the statements (nothing is weakened):
    - [splay_split] does not need the "non-empty" hypothesis (on [Leaf] the result of
      [splay] is [Leaf], never a [Node]), so it is not stated.
    - [step_refines] is stated with [fst]/[snd]; [step_refines_let] is the
      destructuring-let form.
    - After the section closes every result is generalised over exactly the
      hypotheses its proof uses.  Hence [go_inorder], [splay_inorder], [nxt_spec],
      [nxt_back_spec], [lookups_keep_elements], [lookups_keep_elements_many],
      [Inv_empty], [drain_refines] and [iteration_sorted] take only [K V cmp] (or
      [K V]); [splay_split], [step_Inv], [step_refines], [history_refines],
      [history_refines_empty], [insert_keeps_others], [remove_keeps_others] take
      [K V cmp cmp_eq cmp_antisym cmp_trans].
    - [Inv] is defined through [Inv_list]/[ids_ok]/[sorted]; [Inv_unfold] shows it is
      (definitionally) the four-part conjunction: keys [StronglySorted], [size] =
      length, [NoDup] of the [eid]s, every [eid] below [next_id]. *)
From Coq Require Import List PArith Arith Lia Sorted Permutation.
From GB Require Import Splay SplayOps.
Import ListNotations.

(** ** Generic list facts *)

Lemma SS_app {A} (R : A -> A -> Prop) (l1 l2 : list A) :
  StronglySorted R (l1 ++ l2) <->
  StronglySorted R l1 /\ StronglySorted R l2 /\ Forall (fun a => Forall (R a) l2) l1.
Proof.
  induction l1 as [|a l1 IH]; cbn [app].
  - split.
    + intros H. repeat split; [constructor | exact H | constructor].
    + intros (_ & H & _). exact H.
  - split.
    + intros H. apply StronglySorted_inv in H. destruct H as [Hs Hf].
      apply IH in Hs. destruct Hs as (H1 & H2 & H12).
      apply Forall_app in Hf. destruct Hf as [Hf1 Hf2].
      repeat split; [constructor; assumption | assumption | constructor; assumption].
    + intros (H1 & H2 & H12).
      apply StronglySorted_inv in H1. destruct H1 as [H1 Hf1].
      apply Forall_cons_iff in H12. destruct H12 as [Hf2 H12].
      constructor.
      * apply IH. repeat split; assumption.
      * apply Forall_app. split; assumption.
Qed.

Lemma last_cons {A} (r : list A) : forall x d, last (x :: r) d = last r x.
Proof.
  induction r as [|b r IHr]; intros x d; [reflexivity|].
  change (last (x :: b :: r) d) with (last (b :: r) d).
  rewrite (IHr b d), (IHr b x). reflexivity.
Qed.

Lemma last_app_cons {A} (l : list A) x r d : last (l ++ x :: r) d = last r x.
Proof.
  induction l as [|a l IH]; cbn [app].
  - apply last_cons.
  - destruct (l ++ x :: r) eqn:E; [destruct l; discriminate E|].
    cbn [last]. exact IH.
Qed.

Lemma last_map_eq {A B} (f : A -> B) (l : list A) d : last (map f l) (f d) = f (last l d).
Proof.
  induction l as [|a l IH]; [reflexivity|].
  cbn [map]. destruct l as [|b l]; [reflexivity|].
  exact IH.
Qed.

Section Main.
Variables K V : Type.
Variable cmp : K -> K -> comparison.

Notation tree := (Splay.tree K V).
Notation elt := (Splay.elt K V).
Notation pend := (Splay.pend K V).

(** ** 1. [go] preserves the in-order sequence (no comparator hypothesis) *)

Fixpoint io_sm (sm : list (tree * elt)) : list elt :=
  match sm with [] => [] | (l, x) :: rest => io_sm rest ++ inorder l ++ [x] end.
Fixpoint io_bg (bg : list (elt * tree)) : list elt :=
  match bg with [] => [] | (x, r) :: rest => x :: inorder r ++ io_bg rest end.

Lemma asm_sm_io sm f : inorder (asm_sm sm f) = io_sm sm ++ inorder f.
Proof.
  revert f; induction sm as [|[l x] rest IH]; intros f; cbn [asm_sm io_sm]; [reflexivity|].
  rewrite IH. cbn [inorder]. rewrite <- !app_assoc. reflexivity.
Qed.

Lemma asm_bg_io bg f : inorder (asm_bg bg f) = inorder f ++ io_bg bg.
Proof.
  revert f; induction bg as [|[x r] rest IH]; intros f; cbn [asm_bg io_bg];
    [now rewrite app_nil_r|].
  rewrite IH. cbn [inorder]. rewrite <- !app_assoc. reflexivity.
Qed.

Lemma finish_io l x r sm bg :
  inorder (finish l x r sm bg) = io_sm sm ++ inorder l ++ x :: inorder r ++ io_bg bg.
Proof.
  unfold finish; cbn [inorder]. rewrite asm_sm_io, asm_bg_io.
  rewrite <- !app_assoc. reflexivity.
Qed.

(** content of a state: the current subtree placed w.r.t. the pending node *)
Definition io_mid (t : tree) (p : pend) : list elt :=
  match p with
  | PNone => inorder t
  | PLess px pr => inorder t ++ px :: inorder pr
  | PGreater pl px => inorder pl ++ px :: inorder t
  | PRotR x n => inorder t ++ x :: inorder n
  | PRotL n x => inorder n ++ x :: inorder t
  end.

Definition nonempty_state (t : tree) (p : pend) : Prop := t = Leaf -> p <> PNone.

Theorem go_inorder key (t : tree) : forall p sm bg, nonempty_state t p ->
  inorder (go cmp key t p sm bg) = io_sm sm ++ io_mid t p ++ io_bg bg.
Proof.
  induction t as [|l IHl x r IHr]; intros p sm bg NE.
  - destruct p as [|px pr|pl px|px n|n px]; [exfalso; now apply (NE eq_refl)| | | |];
      cbn [go io_mid inorder]; rewrite ?finish_io; cbn [inorder app];
      rewrite <- ?app_assoc; reflexivity.
  - clear NE. cbn [go].
    destruct p as [|px pr|pl px|px n|n px]; destruct (cmp key (ekey x));
      cbn [link fst snd];
      rewrite ?IHl, ?IHr by (intros _; discriminate); rewrite ?finish_io;
      cbn [io_mid inorder io_sm io_bg]; rewrite <- ?app_assoc; cbn [app];
      rewrite <- ?app_assoc; cbn [app]; reflexivity.
Qed.

Corollary splay_inorder key (l : tree) x r :
  inorder (splay cmp key (Node l x r)) = inorder (Node l x r).
Proof.
  unfold splay. rewrite go_inorder by (intros H; discriminate H).
  cbn [io_sm io_bg io_mid app]. now rewrite app_nil_r.
Qed.

Lemma inorder_nil (t : tree) : inorder t = [] -> t = Leaf.
Proof.
  destruct t as [|l x r]; [reflexivity|]. cbn [inorder]. intros H.
  destruct (inorder l); discriminate H.
Qed.

Lemma splay_node key (l : tree) x r :
  exists L y R, splay cmp key (Node l x r) = Node L y R.
Proof.
  destruct (splay cmp key (Node l x r)) as [|L y R] eqn:E.
  - pose proof (splay_inorder key l x r) as H. rewrite E in H. cbn [inorder] in H.
    destruct (inorder l); discriminate H.
  - eauto.
Qed.

(** ** Iterator and min/max walks (no comparator hypothesis) *)

Lemma nxt_spec (l : tree) : forall x r,
  inorder (Node l x r) = fst (nxt l x r) :: inorder (snd (nxt l x r)).
Proof.
  induction l as [|ll IHll y lr IHlr]; intros x r; cbn [nxt fst snd inorder app];
    [reflexivity|].
  rewrite <- IHll. cbn [inorder]. rewrite <- app_assoc. reflexivity.
Qed.

Lemma nxt_back_spec (r : tree) : forall l x,
  inorder (Node l x r) = inorder (snd (nxt_back l x r)) ++ [fst (nxt_back l x r)].
Proof.
  induction r as [|rl IHrl y rr IHrr]; intros l x; cbn [nxt_back fst snd inorder];
    [reflexivity|].
  rewrite <- IHrr. cbn [inorder]. rewrite <- app_assoc. reflexivity.
Qed.

Lemma min_node_spec (t : tree) : forall best,
  min_node t best = match inorder t with [] => best | e :: _ => Some e end.
Proof.
  induction t as [|l IHl x r IHr]; intros best; cbn [min_node inorder]; [reflexivity|].
  rewrite IHl. destruct (inorder l); reflexivity.
Qed.

Lemma max_node_spec (t : tree) : forall best,
  max_node t best = match inorder t with [] => best | e :: _ => Some (last (inorder t) e) end.
Proof.
  induction t as [|l IHl x r IHr]; intros best; cbn [max_node inorder]; [reflexivity|].
  rewrite IHr.
  destruct (inorder l ++ x :: inorder r) as [|e rest] eqn:E;
    [destruct (inorder l); discriminate E|].
  rewrite <- E. rewrite last_app_cons.
  destruct (inorder r) as [|y r']; [reflexivity|].
  rewrite !last_cons. reflexivity.
Qed.

(** ** 6a. Lookups keep every element (no [Inv], no comparator hypothesis) *)

Definition is_lookup (o : op K V) : bool :=
  match o with
  | @OGet _ _ _ | @OFindKey _ _ _ | @OContains _ _ _ | @ONext _ _ _ | @OPrev _ _ _
  | @OMin _ _ | @OMax _ _ | @OLen _ _ | @OIsEmpty _ _ => true
  | _ => false
  end.

(** same element sequence (identity, key and value of each node), same counters *)
Definition same_state (s s' : Splay.t K V) : Prop :=
  inorder (root s') = inorder (root s) /\ size s' = size s /\ next_id s' = next_id s.

Lemma same_state_refl s : same_state s s.
Proof. repeat split. Qed.

Lemma lookup_same s k : same_state s (fst (lookup cmp s k)).
Proof.
  unfold lookup. destruct (root s) as [|l x r] eqn:E; cbn [fst]; [apply same_state_refl|].
  destruct (splay_node k l x r) as (L & y & R & Hs). rewrite Hs. cbn [fst].
  unfold same_state, set_root; cbn [root size next_id].
  rewrite <- Hs, E, splay_inorder. repeat split.
Qed.

Lemma next_same s k : same_state s (fst (next cmp s k)).
Proof.
  unfold next. destruct (root s) as [|l x r] eqn:E; cbn [fst]; [apply same_state_refl|].
  unfold same_state, set_root; cbn [root size next_id].
  rewrite E, splay_inorder. repeat split.
Qed.

Lemma prev_same s k : same_state s (fst (prev cmp s k)).
Proof.
  unfold prev. destruct (root s) as [|l x r] eqn:E; cbn [fst]; [apply same_state_refl|].
  unfold same_state, set_root; cbn [root size next_id].
  rewrite E, splay_inorder. repeat split.
Qed.

Lemma fst_let {A B C} (p : A * B) (f : B -> C) :
  fst (let '(a, b) := p in (a, f b)) = fst p.
Proof. destruct p; reflexivity. Qed.

Lemma snd_let {A B C} (p : A * B) (f : B -> C) :
  snd (let '(a, b) := p in (a, f b)) = f (snd p).
Proof. destruct p; reflexivity. Qed.

Lemma lookup_step_same s o : is_lookup o = true -> same_state s (fst (step cmp s o)).
Proof.
  destruct o; cbn [is_lookup]; intros H; try discriminate H; cbn [step];
    rewrite ?fst_let; cbn [fst];
    first [apply lookup_same | apply next_same | apply prev_same | apply same_state_refl].
Qed.

Theorem lookups_keep_elements s o :
  is_lookup o = true -> inorder (root (fst (step cmp s o))) = inorder (root s).
Proof. intros H. apply (lookup_step_same s o H). Qed.

Theorem lookups_keep_elements_many ops : forall s,
  forallb is_lookup ops = true ->
  inorder (root (fold_left (fun acc o => fst (step cmp acc o)) ops s)) = inorder (root s).
Proof.
  induction ops as [|o ops IH]; intros s H; cbn [fold_left]; [reflexivity|].
  cbn [forallb] in H. apply andb_prop in H. destruct H as [Ho Hops].
  rewrite (IH _ Hops). apply lookups_keep_elements, Ho.
Qed.

(** ** From here on the comparator is a strict total order *)

Hypothesis cmp_eq : forall a b, cmp a b = Eq <-> a = b.
Hypothesis cmp_antisym : forall a b, cmp b a = CompOpp (cmp a b).
Hypothesis cmp_trans : forall a b c, cmp a b = Lt -> cmp b c = Lt -> cmp a c = Lt.

Lemma cmp_refl a : cmp a a = Eq.
Proof. now apply cmp_eq. Qed.

Lemma cmp_gt_lt a b : cmp a b = Gt <-> cmp b a = Lt.
Proof.
  rewrite (cmp_antisym a b). destruct (cmp a b); cbn [CompOpp]; split; intros H;
    first [reflexivity | discriminate H].
Qed.

Lemma cmp_lt_gt a b : cmp a b = Lt <-> cmp b a = Gt.
Proof.
  rewrite (cmp_antisym a b). destruct (cmp a b); cbn [CompOpp]; split; intros H;
    first [reflexivity | discriminate H].
Qed.

Definition ltk (a b : elt) : Prop := cmp (ekey a) (ekey b) = Lt.
Definition sorted (l : list elt) : Prop := StronglySorted ltk l.
(** every element of [l] is smaller (resp. greater) than [key] *)
Definition lt_all (key : K) (l : list elt) : Prop := Forall (fun y => cmp key (ekey y) = Gt) l.
Definition gt_all (key : K) (l : list elt) : Prop := Forall (fun y => cmp key (ekey y) = Lt) l.

Lemma sorted_mid L x R :
  sorted (L ++ x :: R) <->
  sorted L /\ sorted R /\ Forall (fun a => ltk a x) L /\ Forall (ltk x) R.
Proof.
  unfold sorted. rewrite SS_app. split.
  - intros (HL & HxR & HLR). apply StronglySorted_inv in HxR. destruct HxR as [HR HxR].
    repeat split; try assumption.
    eapply Forall_impl; [|exact HLR]. cbn beta. intros a Ha. apply Forall_inv in Ha. exact Ha.
  - intros (HL & HR & HLx & HxR). repeat split; try assumption.
    + constructor; assumption.
    + eapply Forall_impl; [|exact HLx]. cbn beta. intros a Ha. constructor; [exact Ha|].
      eapply Forall_impl; [|exact HxR]. cbn beta. intros b Hb. exact (cmp_trans _ _ _ Ha Hb).
Qed.

Lemma sorted_app L R : sorted (L ++ R) -> sorted L /\ sorted R.
Proof. unfold sorted. rewrite SS_app. intros (HL & HR & _). split; assumption. Qed.

(** [key >= x] and [L < x] give [L < key]; [key <= x] and [x < R] give [key < R] *)
Lemma below key x L :
  cmp key (ekey x) <> Lt -> Forall (fun a => ltk a x) L -> lt_all key L.
Proof.
  intros C H. eapply Forall_impl; [|exact H]. cbn beta. unfold ltk. intros a Ha.
  apply cmp_gt_lt.
  destruct (cmp key (ekey x)) eqn:E.
  - apply cmp_eq in E. subst key. exact Ha.
  - now elim C.
  - apply cmp_gt_lt in E. exact (cmp_trans _ _ _ Ha E).
Qed.

Lemma above key x R :
  cmp key (ekey x) <> Gt -> Forall (ltk x) R -> gt_all key R.
Proof.
  intros C H. eapply Forall_impl; [|exact H]. cbn beta. unfold ltk. intros b Hb.
  destruct (cmp key (ekey x)) eqn:E.
  - apply cmp_eq in E. subst key. exact Hb.
  - exact (cmp_trans _ _ _ E Hb).
  - now elim C.
Qed.

Lemma lt_gt_absurd key (y : elt) : cmp key (ekey y) = Gt -> cmp key (ekey y) = Lt -> False.
Proof. intros H1 H2. rewrite H1 in H2. discriminate H2. Qed.

Lemma lt_all_gt_all_nil key l : lt_all key l -> gt_all key l -> l = [].
Proof.
  destruct l as [|y l]; [reflexivity|]. intros H1 H2.
  apply Forall_inv in H1. apply Forall_inv in H2. destruct (lt_gt_absurd key y H1 H2).
Qed.

(** ** 3. Splitting lemma *)

Definition pend_ok (key : K) (p : pend) : Prop :=
  match p with
  | PNone => True
  | PLess px pr => cmp key (ekey px) = Lt /\ gt_all key (inorder pr)
  | PGreater pl px => cmp key (ekey px) = Gt /\ lt_all key (inorder pl)
  | PRotR x n => cmp key (ekey x) = Lt /\ gt_all key (inorder n)
  | PRotL n x => cmp key (ekey x) = Gt /\ lt_all key (inorder n)
  end.

Lemma link_ok key p sm bg :
  pend_ok key p -> lt_all key (io_sm sm) -> gt_all key (io_bg bg) ->
  lt_all key (io_sm (fst (link p sm bg))) /\ gt_all key (io_bg (snd (link p sm bg))).
Proof.
  intros Hp Hsm Hbg.
  destruct p as [|px pr|pl px|px n|n px]; cbn [link fst snd io_sm io_bg pend_ok] in *.
  - split; assumption.
  - destruct Hp as [Hc Hn]. split; [assumption|]. unfold gt_all in *.
    constructor; [exact Hc|]. apply Forall_app. split; assumption.
  - destruct Hp as [Hc Hn]. split; [|assumption]. unfold lt_all in *.
    apply Forall_app. split; [assumption|]. apply Forall_app. split; [assumption|].
    constructor; [exact Hc|constructor].
  - destruct Hp as [Hc Hn]. split; [assumption|]. unfold gt_all in *.
    constructor; [exact Hc|]. apply Forall_app. split; assumption.
  - destruct Hp as [Hc Hn]. split; [|assumption]. unfold lt_all in *.
    apply Forall_app. split; [assumption|]. apply Forall_app. split; [assumption|].
    constructor; [exact Hc|constructor].
Qed.

Lemma go_node_eq key (l : tree) x r p sm bg : cmp key (ekey x) = Eq ->
  go cmp key (Node l x r) p sm bg = finish l x r (fst (link p sm bg)) (snd (link p sm bg)).
Proof. intros C. cbn [go]. rewrite C. destruct p; reflexivity. Qed.

Lemma go_node_lt key (l : tree) x r p sm bg : cmp key (ekey x) = Lt ->
  go cmp key (Node l x r) p sm bg =
  match p with
  | PLess px pr => go cmp key l (PRotR x (Node r px pr)) sm bg
  | _ => go cmp key l (PLess x r) (fst (link p sm bg)) (snd (link p sm bg))
  end.
Proof. intros C. cbn [go]. rewrite C. destruct p; reflexivity. Qed.

Lemma go_node_gt key (l : tree) x r p sm bg : cmp key (ekey x) = Gt ->
  go cmp key (Node l x r) p sm bg =
  match p with
  | PGreater pl px => go cmp key r (PRotL (Node pl px l) x) sm bg
  | _ => go cmp key r (PGreater l x) (fst (link p sm bg)) (snd (link p sm bg))
  end.
Proof. intros C. cbn [go]. rewrite C. destruct p; reflexivity. Qed.

Lemma fin_split key (l : tree) y r sm bg L x R :
  lt_all key (io_sm sm) -> gt_all key (io_bg bg) ->
  lt_all key (inorder l) -> gt_all key (inorder r) ->
  finish l y r sm bg = Node L x R ->
  lt_all key (inorder L) /\ gt_all key (inorder R).
Proof.
  intros Hsm Hbg Hl Hr Hf. unfold finish in Hf. injection Hf as <- _ <-.
  rewrite asm_sm_io, asm_bg_io. unfold lt_all, gt_all in *.
  split; apply Forall_app; split; assumption.
Qed.

Lemma go_split key (t : tree) : forall p sm bg L x R,
  sorted (inorder t) -> pend_ok key p -> lt_all key (io_sm sm) -> gt_all key (io_bg bg) ->
  go cmp key t p sm bg = Node L x R ->
  lt_all key (inorder L) /\ gt_all key (inorder R).
Proof.
  induction t as [|l IHl y r IHr]; intros p sm bg L x R Hs Hp Hsm Hbg Hgo.
  - destruct p as [|px pr|pl px|px n|n px]; cbn [go] in Hgo; [discriminate Hgo| | | |];
      cbn [pend_ok] in Hp; destruct Hp as [Hc Hn];
      (eapply fin_split; [.. | exact Hgo]); first [assumption | constructor].
  - cbn [inorder] in Hs. apply sorted_mid in Hs. destruct Hs as (Sl & Sr & Ll & Lr).
    destruct (link_ok key p sm bg Hp Hsm Hbg) as [Hsm' Hbg'].
    destruct (cmp key (ekey y)) eqn:C.
    + rewrite (go_node_eq key l y r p sm bg C) in Hgo.
      (eapply fin_split; [.. | exact Hgo]); try assumption.
      * apply (below key y); [congruence | exact Ll].
      * apply (above key y); [congruence | exact Lr].
    + rewrite (go_node_lt key l y r p sm bg C) in Hgo.
      assert (Hr : gt_all key (inorder r)) by (apply (above key y); [congruence | exact Lr]).
      destruct p as [|px pr|pl px|px n|n px];
        try (eapply IHl; [exact Sl | | exact Hsm' | exact Hbg' | exact Hgo];
             cbn [pend_ok]; split; assumption).
      eapply IHl; [exact Sl | | exact Hsm | exact Hbg | exact Hgo].
      cbn [pend_ok inorder] in *. destruct Hp as [Hpx Hpr].
      split; [exact C|]. unfold gt_all in *. apply Forall_app. split; [exact Hr|].
      constructor; assumption.
    + rewrite (go_node_gt key l y r p sm bg C) in Hgo.
      assert (Hl : lt_all key (inorder l)) by (apply (below key y); [congruence | exact Ll]).
      destruct p as [|px pr|pl px|px n|n px];
        try (eapply IHr; [exact Sr | | exact Hsm' | exact Hbg' | exact Hgo];
             cbn [pend_ok]; split; assumption).
      eapply IHr; [exact Sr | | exact Hsm | exact Hbg | exact Hgo].
      cbn [pend_ok inorder] in *. destruct Hp as [Hpx Hpl].
      split; [exact C|]. unfold lt_all in *. apply Forall_app. split; [exact Hpl|].
      constructor; assumption.
Qed.

Lemma splay_split_all key (t : tree) L x R :
  sorted (inorder t) -> splay cmp key t = Node L x R ->
  lt_all key (inorder L) /\ gt_all key (inorder R).
Proof.
  intros Hs Hsp. unfold splay in Hsp.
  exact (go_split key t PNone [] [] L x R Hs I (Forall_nil _) (Forall_nil _) Hsp).
Qed.

Theorem splay_split key (t : tree) L x R :
  sorted (inorder t) -> splay cmp key t = Node L x R ->
  (forall y, In y (inorder L) -> cmp key (ekey y) = Gt) /\
  (forall y, In y (inorder R) -> cmp key (ekey y) = Lt).
Proof.
  intros Hs Hsp. destruct (splay_split_all key t L x R Hs Hsp) as [HL HR].
  split; intros y Hy.
  - exact (proj1 (Forall_forall _ _) HL y Hy).
  - exact (proj1 (Forall_forall _ _) HR y Hy).
Qed.

(** the shape every operation works with: the splayed tree and the split of the sequence *)
Lemma splay_view key (l0 : tree) x0 r0 :
  sorted (inorder (Node l0 x0 r0)) ->
  exists L x R,
    splay cmp key (Node l0 x0 r0) = Node L x R /\
    inorder (Node l0 x0 r0) = inorder L ++ x :: inorder R /\
    lt_all key (inorder L) /\ gt_all key (inorder R).
Proof.
  intros Hs. destruct (splay_node key l0 x0 r0) as (L & x & R & Hsp).
  exists L, x, R. split; [exact Hsp|]. split.
  - rewrite <- (splay_inorder key), Hsp. reflexivity.
  - exact (splay_split_all key _ L x R Hs Hsp).
Qed.

(** ** Reference-side lemmas: the sorted association list seen through a split *)

Definition kv (e : elt) : K * V := (ekey e, eval e).

Lemma abs_eq s : abs s = map kv (inorder (root s)).
Proof. reflexivity. Qed.

Lemma same_state_abs s s' : same_state s s' -> abs s' = abs s.
Proof. intros (H & _ & _). rewrite !abs_eq, H. reflexivity. Qed.

Lemma sp_find_cons a m key :
  sp_find cmp (kv a :: m) key =
  match cmp key (ekey a) with Eq => Some (kv a) | _ => sp_find cmp m key end.
Proof. reflexivity. Qed.

Lemma sp_insert_cons a m key v :
  sp_insert cmp (kv a :: m) key v =
  match cmp key (ekey a) with
  | Eq => (ekey a, v) :: m
  | Lt => (key, v) :: kv a :: m
  | Gt => kv a :: sp_insert cmp m key v
  end.
Proof. reflexivity. Qed.

Lemma sp_remove_cons a m key :
  sp_remove cmp (kv a :: m) key =
  match cmp key (ekey a) with Eq => m | _ => kv a :: sp_remove cmp m key end.
Proof. reflexivity. Qed.

Lemma sp_next_cons a m key :
  sp_next cmp (kv a :: m) key =
  match cmp key (ekey a) with Lt => Some (kv a) | _ => sp_next cmp m key end.
Proof. reflexivity. Qed.

Lemma sp_prev_cons a m key best :
  sp_prev cmp (kv a :: m) key best =
  match cmp key (ekey a) with Gt => sp_prev cmp m key (Some (kv a)) | _ => best end.
Proof. reflexivity. Qed.

Lemma sp_find_lt key L m :
  lt_all key L -> sp_find cmp (map kv L ++ m) key = sp_find cmp m key.
Proof.
  induction L as [|a L IH]; intros H; [reflexivity|].
  apply Forall_cons_iff in H. destruct H as [Ha HL].
  cbn [map app]. rewrite sp_find_cons, Ha. exact (IH HL).
Qed.

Lemma sp_find_gt key R : gt_all key R -> sp_find cmp (map kv R) key = None.
Proof.
  induction R as [|a R IH]; intros H; [reflexivity|].
  apply Forall_cons_iff in H. destruct H as [Ha HR].
  cbn [map]. rewrite sp_find_cons, Ha. exact (IH HR).
Qed.

Lemma find_view key L x R : lt_all key L -> gt_all key R ->
  sp_find cmp (map kv (L ++ x :: R)) key =
  match cmp key (ekey x) with Eq => Some (kv x) | _ => None end.
Proof.
  intros HL HR. rewrite map_app, (sp_find_lt key L _ HL). cbn [map].
  rewrite sp_find_cons, (sp_find_gt key R HR). destruct (cmp key (ekey x)); reflexivity.
Qed.

Lemma sp_insert_lt key v L m :
  lt_all key L -> sp_insert cmp (map kv L ++ m) key v = map kv L ++ sp_insert cmp m key v.
Proof.
  induction L as [|a L IH]; intros H; [reflexivity|].
  apply Forall_cons_iff in H. destruct H as [Ha HL].
  cbn [map app]. rewrite sp_insert_cons, Ha, (IH HL). reflexivity.
Qed.

Lemma sp_insert_gt key v R :
  gt_all key R -> sp_insert cmp (map kv R) key v = (key, v) :: map kv R.
Proof.
  destruct R as [|a R]; intros H; [reflexivity|].
  apply Forall_inv in H. cbn [map]. rewrite sp_insert_cons, H. reflexivity.
Qed.

Lemma insert_view key v L x R : lt_all key L -> gt_all key R ->
  sp_insert cmp (map kv (L ++ x :: R)) key v =
  map kv L ++
  match cmp key (ekey x) with
  | Eq => (ekey x, v) :: map kv R
  | Lt => (key, v) :: kv x :: map kv R
  | Gt => kv x :: (key, v) :: map kv R
  end.
Proof.
  intros HL HR. rewrite map_app, (sp_insert_lt key v L _ HL). cbn [map].
  rewrite sp_insert_cons, (sp_insert_gt key v R HR). reflexivity.
Qed.

Lemma sp_remove_lt key L m :
  lt_all key L -> sp_remove cmp (map kv L ++ m) key = map kv L ++ sp_remove cmp m key.
Proof.
  induction L as [|a L IH]; intros H; [reflexivity|].
  apply Forall_cons_iff in H. destruct H as [Ha HL].
  cbn [map app]. rewrite sp_remove_cons, Ha, (IH HL). reflexivity.
Qed.

Lemma sp_remove_gt key R : gt_all key R -> sp_remove cmp (map kv R) key = map kv R.
Proof.
  induction R as [|a R IH]; intros H; [reflexivity|].
  apply Forall_cons_iff in H. destruct H as [Ha HR].
  cbn [map]. rewrite sp_remove_cons, Ha, (IH HR). reflexivity.
Qed.

Lemma remove_view key L x R : lt_all key L -> gt_all key R ->
  sp_remove cmp (map kv (L ++ x :: R)) key =
  map kv L ++ match cmp key (ekey x) with Eq => map kv R | _ => kv x :: map kv R end.
Proof.
  intros HL HR. rewrite map_app, (sp_remove_lt key L _ HL). cbn [map].
  rewrite sp_remove_cons, (sp_remove_gt key R HR). reflexivity.
Qed.

(** successor / predecessor walks *)

Definition gtb (key : K) (e : elt) : bool :=
  match cmp key (ekey e) with Lt => true | _ => false end.

Lemma find_app_or {A} (f : A -> bool) l1 l2 :
  find f (l1 ++ l2) = match find f l1 with Some e => Some e | None => find f l2 end.
Proof.
  induction l1 as [|a l1 IH]; [reflexivity|]. cbn [app find].
  destruct (f a); [reflexivity | exact IH].
Qed.

Lemma find_gtb_lt key L : lt_all key L -> find (gtb key) L = None.
Proof.
  induction L as [|a L IH]; intros H; [reflexivity|].
  apply Forall_cons_iff in H. destruct H as [Ha HL].
  cbn [find]. unfold gtb at 1. rewrite Ha. exact (IH HL).
Qed.

Lemma sp_next_find key l : sp_next cmp (map kv l) key = option_map kv (find (gtb key) l).
Proof.
  induction l as [|a l IH]; [reflexivity|].
  cbn [map find]. rewrite sp_next_cons. unfold gtb at 1.
  destruct (cmp key (ekey a)); first [exact IH | reflexivity].
Qed.

Lemma succ_walk_spec key (t : tree) : forall best, sorted (inorder t) ->
  succ_walk cmp key t best =
  match find (gtb key) (inorder t) with Some e => Some e | None => best end.
Proof.
  induction t as [|l IHl x r IHr]; intros best Hs; [reflexivity|].
  cbn [inorder] in *. apply sorted_mid in Hs. destruct Hs as (Sl & Sr & Ll & Lr).
  cbn [succ_walk]. rewrite find_app_or. cbn [find]. unfold gtb at 2.
  destruct (cmp key (ekey x)) eqn:C.
  - rewrite (IHr best Sr), (find_gtb_lt key (inorder l)); [reflexivity|].
    apply (below key x); [congruence | exact Ll].
  - rewrite (IHl (Some x) Sl). destruct (find (gtb key) (inorder l)); reflexivity.
  - rewrite (IHr best Sr), (find_gtb_lt key (inorder l)); [reflexivity|].
    apply (below key x); [congruence | exact Ll].
Qed.

Fixpoint l_prev (key : K) (l : list elt) (best : option elt) : option elt :=
  match l with
  | [] => best
  | e :: rest => match cmp key (ekey e) with Gt => l_prev key rest (Some e) | _ => best end
  end.

Lemma sp_prev_l key l : forall best,
  sp_prev cmp (map kv l) key (option_map kv best) = option_map kv (l_prev key l best).
Proof.
  induction l as [|a l IH]; intros best; [reflexivity|].
  cbn [map l_prev]. rewrite sp_prev_cons.
  destruct (cmp key (ekey a)); first [exact (IH (Some a)) | reflexivity].
Qed.

Lemma l_prev_skip key L x R : forall best,
  lt_all key L -> cmp key (ekey x) = Gt ->
  l_prev key (L ++ x :: R) best = l_prev key R (Some x).
Proof.
  induction L as [|a L IH]; intros best H C.
  - cbn [app l_prev]. rewrite C. reflexivity.
  - apply Forall_cons_iff in H. destruct H as [Ha HL].
    cbn [app l_prev]. rewrite Ha. exact (IH (Some a) HL C).
Qed.

Lemma l_prev_stop key L x R : forall best,
  cmp key (ekey x) <> Gt -> l_prev key (L ++ x :: R) best = l_prev key L best.
Proof.
  induction L as [|a L IH]; intros best C.
  - cbn [app l_prev]. destruct (cmp key (ekey x)); [reflexivity | reflexivity | now elim C].
  - cbn [app l_prev]. destruct (cmp key (ekey a)); first [exact (IH (Some a) C) | reflexivity].
Qed.

Lemma pred_walk_spec key (t : tree) : forall best, sorted (inorder t) ->
  pred_walk cmp key t best = l_prev key (inorder t) best.
Proof.
  induction t as [|l IHl x r IHr]; intros best Hs; [reflexivity|].
  cbn [inorder] in *. apply sorted_mid in Hs. destruct Hs as (Sl & Sr & Ll & Lr).
  cbn [pred_walk].
  destruct (cmp key (ekey x)) eqn:C.
  - rewrite l_prev_stop by congruence. exact (IHl best Sl).
  - rewrite l_prev_stop by congruence. exact (IHl best Sl).
  - rewrite l_prev_skip; [exact (IHr (Some x) Sr) | | exact C].
    apply (below key x); [congruence | exact Ll].
Qed.

(** ** 2. The invariant *)

Definition ids_ok (nid : positive) (l : list elt) : Prop :=
  NoDup (map (@eid K V) l) /\ Forall (fun e => Pos.lt (eid e) nid) l.

Definition Inv_list (l : list elt) (sz : nat) (nid : positive) : Prop :=
  sorted l /\ sz = length l /\ ids_ok nid l.

Definition Inv (s : Splay.t K V) : Prop :=
  Inv_list (inorder (root s)) (size s) (next_id s).

Lemma Inv_unfold s :
  Inv s <->
  StronglySorted (fun a b => cmp (ekey a) (ekey b) = Lt) (inorder (root s)) /\
  size s = length (inorder (root s)) /\
  NoDup (map (@eid K V) (inorder (root s))) /\
  Forall (fun e => Pos.lt (eid e) (next_id s)) (inorder (root s)).
Proof. reflexivity. Qed.

Lemma Inv_list_nil nid : Inv_list [] 0 nid.
Proof. repeat split; constructor. Qed.

Theorem Inv_empty : Inv empty.
Proof. apply Inv_list_nil. Qed.

Lemma same_state_Inv s s' : same_state s s' -> Inv s -> Inv s'.
Proof. intros (H1 & H2 & H3). unfold Inv. rewrite H1, H2, H3. exact (fun H => H). Qed.

Lemma ids_ok_new nid k v l l' :
  ids_ok nid l -> Permutation (mkElt nid k v :: l) l' -> ids_ok (Pos.succ nid) l'.
Proof.
  intros [Hnd Hlt] Hp. split.
  - eapply Permutation_NoDup; [apply Permutation_map; exact Hp|].
    cbn [map eid]. constructor; [|exact Hnd].
    intros Hin. apply in_map_iff in Hin. destruct Hin as (e & He & Hin).
    pose proof (proj1 (Forall_forall _ _) Hlt e Hin) as Hlt'. cbn beta in Hlt'.
    rewrite He in Hlt'. exact (Pos.lt_irrefl _ Hlt').
  - eapply Permutation_Forall; [exact Hp|].
    constructor; [cbn [eid]; apply Pos.lt_succ_diag_r|].
    eapply Forall_impl; [|exact Hlt]. cbn beta. intros e He. apply Pos.lt_lt_succ. exact He.
Qed.

Lemma ids_ok_repl nid L (x x' : elt) R :
  eid x' = eid x -> ids_ok nid (L ++ x :: R) -> ids_ok nid (L ++ x' :: R).
Proof.
  intros He [Hnd Hlt]. split.
  - rewrite map_app in *. cbn [map] in *. rewrite He. exact Hnd.
  - apply Forall_app in Hlt. destruct Hlt as [H1 H2].
    apply Forall_cons_iff in H2. destruct H2 as [Hx H2].
    apply Forall_app. split; [exact H1|]. constructor; [rewrite He; exact Hx | exact H2].
Qed.

Lemma ids_ok_remove nid L (x : elt) R : ids_ok nid (L ++ x :: R) -> ids_ok nid (L ++ R).
Proof.
  intros [Hnd Hlt]. split.
  - rewrite map_app in *. cbn [map] in Hnd. exact (NoDup_remove_1 _ _ _ Hnd).
  - apply Forall_app in Hlt. destruct Hlt as [H1 H2].
    apply Forall_cons_iff in H2. destruct H2 as [_ H2].
    apply Forall_app. split; assumption.
Qed.

Lemma sorted_repl L (x x' : elt) R :
  ekey x' = ekey x -> sorted (L ++ x :: R) -> sorted (L ++ x' :: R).
Proof.
  intros He Hs. apply sorted_mid in Hs. destruct Hs as (SL & SR & LL & LR).
  apply sorted_mid. unfold ltk in *. rewrite He. repeat split; assumption.
Qed.

Lemma sorted_remove L (x : elt) R : sorted (L ++ x :: R) -> sorted (L ++ R).
Proof.
  unfold sorted. rewrite !SS_app. intros (HL & HxR & HLR).
  apply StronglySorted_inv in HxR. destruct HxR as [HR _].
  repeat split; try assumption.
  eapply Forall_impl; [|exact HLR]. cbn beta. intros a Ha. exact (Forall_inv_tail Ha).
Qed.

Lemma lt_all_ltk k (e : elt) L : ekey e = k -> lt_all k L -> Forall (fun a => ltk a e) L.
Proof.
  intros He H. eapply Forall_impl; [|exact H]. cbn beta. unfold ltk. intros a Ha.
  rewrite He. apply cmp_gt_lt. exact Ha.
Qed.

Lemma gt_all_ltk k (e : elt) R : ekey e = k -> gt_all k R -> Forall (ltk e) R.
Proof.
  intros He H. eapply Forall_impl; [|exact H]. cbn beta. unfold ltk. intros a Ha.
  rewrite He. exact Ha.
Qed.

Lemma sorted_ins_lt k L (x e : elt) R :
  ekey e = k -> sorted (L ++ x :: R) -> lt_all k L -> gt_all k R ->
  cmp k (ekey x) = Lt -> sorted (L ++ e :: x :: R).
Proof.
  intros He Hs HL HR C. apply sorted_mid in Hs. destruct Hs as (SL & SR & LL & LR).
  apply sorted_mid. split; [exact SL|]. split; [constructor; assumption|].
  split; [exact (lt_all_ltk k e L He HL)|].
  constructor; [unfold ltk; rewrite He; exact C | exact (gt_all_ltk k e R He HR)].
Qed.

Lemma sorted_ins_gt k L (x e : elt) R :
  ekey e = k -> sorted (L ++ x :: R) -> lt_all k L -> gt_all k R ->
  cmp k (ekey x) = Gt -> sorted (L ++ x :: e :: R).
Proof.
  intros He Hs HL HR C. apply sorted_mid in Hs. destruct Hs as (SL & SR & LL & LR).
  apply sorted_mid. split; [exact SL|].
  split; [constructor; [exact SR | exact (gt_all_ltk k e R He HR)]|].
  split; [exact LL|].
  constructor; [unfold ltk; rewrite He; apply cmp_gt_lt; exact C | exact LR].
Qed.

(** ** Insert *)

Definition ins_res (s : Splay.t K V) (k : K) (v : V) (L : list elt) (x : elt) (R : list elt)
    (res : Splay.t K V * option V) : Prop :=
  match cmp k (ekey x) with
  | Eq => inorder (root (fst res)) = L ++ mkElt (eid x) (ekey x) v :: R /\
          size (fst res) = size s /\ next_id (fst res) = next_id s /\
          snd res = Some (eval x)
  | Lt => inorder (root (fst res)) = L ++ mkElt (next_id s) k v :: x :: R /\
          size (fst res) = S (size s) /\ next_id (fst res) = Pos.succ (next_id s) /\
          snd res = None
  | Gt => inorder (root (fst res)) = L ++ x :: mkElt (next_id s) k v :: R /\
          size (fst res) = S (size s) /\ next_id (fst res) = Pos.succ (next_id s) /\
          snd res = None
  end.

Lemma insert_char s k v : sorted (inorder (root s)) ->
  (root s = Leaf /\
   insert cmp s k v =
   (mkT (Node Leaf (mkElt (next_id s) k v) Leaf) (S (size s)) (Pos.succ (next_id s)), None))
  \/ (exists L x R, inorder (root s) = L ++ x :: R /\ lt_all k L /\ gt_all k R /\
                    ins_res s k v L x R (insert cmp s k v)).
Proof.
  intros Hs. unfold insert. destruct (root s) as [|l0 x0 r0] eqn:E.
  - left. split; reflexivity.
  - right. destruct (splay_view k l0 x0 r0 Hs) as (L & x & R & Hsp & Hio & HL & HR).
    exists (inorder L), x, (inorder R). rewrite Hsp.
    split; [exact Hio|]. split; [exact HL|]. split; [exact HR|].
    unfold ins_res. destruct (cmp k (ekey x)); cbn [fst snd root size next_id inorder app].
    + repeat split.
    + repeat split.
    + split; [rewrite <- app_assoc; reflexivity | repeat split].
Qed.

Lemma insert_Inv s k v : Inv s -> Inv (fst (insert cmp s k v)).
Proof.
  intros (Hs & Hsz & Hids).
  destruct (insert_char s k v Hs) as [[E Hi] | (L & x & R & Hio & HL & HR & Hres)].
  - rewrite Hi. cbn [fst]. unfold Inv, Inv_list; cbn [root size next_id inorder app].
    rewrite E in *. cbn [inorder length] in *.
    split; [repeat constructor|]. split; [rewrite Hsz; reflexivity|].
    apply (ids_ok_new (next_id s) k v []); [exact Hids | apply Permutation_refl].
  - unfold ins_res in Hres. unfold Inv, Inv_list. rewrite Hio in *.
    destruct (cmp k (ekey x)) eqn:C; destruct Hres as (Hio' & Hsz' & Hid' & _);
      rewrite Hio', Hsz', Hid'.
    + split; [apply (sorted_repl L x); [reflexivity | exact Hs]|].
      split; [rewrite Hsz, !app_length; reflexivity|].
      apply (ids_ok_repl _ L x); [reflexivity | exact Hids].
    + split; [apply (sorted_ins_lt k); [reflexivity | assumption ..]|].
      split; [rewrite Hsz, !app_length; cbn [length]; lia|].
      apply (ids_ok_new (next_id s) k v (L ++ x :: R)); [exact Hids|].
      apply Permutation_middle.
    + split; [apply (sorted_ins_gt k); [reflexivity | assumption ..]|].
      split; [rewrite Hsz, !app_length; cbn [length]; lia|].
      apply (ids_ok_new (next_id s) k v (L ++ x :: R)); [exact Hids|].
      change (L ++ x :: mkElt (next_id s) k v :: R)
        with (L ++ [x] ++ mkElt (next_id s) k v :: R).
      rewrite app_assoc.
      change (L ++ x :: R) with (L ++ [x] ++ R). rewrite (app_assoc L [x] R).
      apply Permutation_middle.
Qed.

Lemma insert_refines s k v : Inv s ->
  abs (fst (insert cmp s k v)) = sp_insert cmp (abs s) k v /\
  oval K (snd (insert cmp s k v)) = sp_val (sp_find cmp (abs s) k).
Proof.
  intros (Hs & _ & _).
  destruct (insert_char s k v Hs) as [[E Hi] | (L & x & R & Hio & HL & HR & Hres)].
  - rewrite Hi, !abs_eq, E. split; reflexivity.
  - rewrite !abs_eq, Hio, (insert_view k v L x R HL HR), (find_view k L x R HL HR).
    unfold ins_res in Hres.
    destruct (cmp k (ekey x)) eqn:C; destruct Hres as (Hio' & _ & _ & Hr);
      rewrite Hio', Hr, map_app; split; reflexivity.
Qed.

Theorem insert_keeps_others s k v e :
  Inv s -> In e (inorder (root s)) -> ekey e <> k ->
  In e (inorder (root (fst (step cmp s (OInsert k v))))).
Proof.
  intros (Hs & _ & _) Hin Hne. cbn [step]. rewrite fst_let.
  destruct (insert_char s k v Hs) as [[E Hi] | (L & x & R & Hio & HL & HR & Hres)].
  - rewrite E in Hin. destruct Hin.
  - unfold ins_res in Hres. rewrite Hio in Hin.
    apply in_app_or in Hin. destruct Hin as [Hin | [Hin | Hin]].
    + destruct (cmp k (ekey x)); destruct Hres as (Hio' & _); rewrite Hio';
        apply in_or_app; left; exact Hin.
    + subst e.
      destruct (cmp k (ekey x)) eqn:C; destruct Hres as (Hio' & _); rewrite Hio'.
      * apply cmp_eq in C. now elim Hne.
      * apply in_or_app; right; right; left; reflexivity.
      * apply in_or_app; right; left; reflexivity.
    + destruct (cmp k (ekey x)); destruct Hres as (Hio' & _); rewrite Hio';
        apply in_or_app; right; cbn [In]; tauto.
Qed.

(** ** Remove *)

Definition rem_res (s : Splay.t K V) (k : K) (L : list elt) (x : elt) (R : list elt)
    (res : Splay.t K V * option V) : Prop :=
  next_id (fst res) = next_id s /\
  match cmp k (ekey x) with
  | Eq => inorder (root (fst res)) = L ++ R /\ size (fst res) = pred (size s) /\
          snd res = Some (eval x)
  | _ => inorder (root (fst res)) = L ++ x :: R /\ size (fst res) = size s /\
         snd res = None
  end.

Lemma remove_char s k : sorted (inorder (root s)) ->
  (root s = Leaf /\ remove cmp s k = (s, None))
  \/ (exists L x R, inorder (root s) = L ++ x :: R /\ lt_all k L /\ gt_all k R /\
                    rem_res s k L x R (remove cmp s k)).
Proof.
  intros Hs. unfold remove. destruct (root s) as [|l0 x0 r0] eqn:E.
  - left. split; reflexivity.
  - right. destruct (splay_view k l0 x0 r0 Hs) as (L & x & R & Hsp & Hio & HL & HR).
    exists (inorder L), x, (inorder R). rewrite Hsp.
    split; [exact Hio|]. split; [exact HL|]. split; [exact HR|].
    unfold rem_res. destruct (cmp k (ekey x)) eqn:C;
      cbv zeta; cbn [fst snd root size next_id set_root]; (split; [reflexivity|]).
    + split; [|split; reflexivity].
      destruct L as [|ll lx lr]; [reflexivity|].
      rewrite Hio in Hs. apply sorted_mid in Hs. destruct Hs as (SL & _).
      destruct (splay_view k ll lx lr SL) as (L2 & x2 & R2 & Hsp2 & Hio2 & HL2 & HR2).
      rewrite Hsp2, Hio2. rewrite Hio2 in HL.
      unfold lt_all in HL. apply Forall_app in HL. destruct HL as [_ HL].
      apply Forall_cons_iff in HL. destruct HL as [_ HL].
      rewrite (lt_all_gt_all_nil k (inorder R2) HL HR2).
      cbn [inorder]. rewrite <- app_assoc. reflexivity.
    + repeat split.
    + repeat split.
Qed.

Lemma remove_Inv s k : Inv s -> Inv (fst (remove cmp s k)).
Proof.
  intros (Hs & Hsz & Hids).
  destruct (remove_char s k Hs) as [[E Hi] | (L & x & R & Hio & HL & HR & Hid' & Hres)].
  - rewrite Hi. exact (conj Hs (conj Hsz Hids)).
  - unfold Inv, Inv_list. rewrite Hio in *. rewrite Hid'.
    destruct (cmp k (ekey x)) eqn:C; destruct Hres as (Hio' & Hsz' & _); rewrite Hio', Hsz'.
    + split; [exact (sorted_remove L x R Hs)|].
      split; [rewrite Hsz, !app_length; cbn [length]; lia|].
      exact (ids_ok_remove _ L x R Hids).
    + exact (conj Hs (conj Hsz Hids)).
    + exact (conj Hs (conj Hsz Hids)).
Qed.

Lemma remove_refines s k : Inv s ->
  abs (fst (remove cmp s k)) = sp_remove cmp (abs s) k /\
  oval K (snd (remove cmp s k)) = sp_val (sp_find cmp (abs s) k).
Proof.
  intros (Hs & _ & _).
  destruct (remove_char s k Hs) as [[E Hi] | (L & x & R & Hio & HL & HR & _ & Hres)].
  - rewrite Hi. cbn [fst snd]. rewrite !abs_eq, E. split; reflexivity.
  - rewrite !abs_eq, Hio, (remove_view k L x R HL HR), (find_view k L x R HL HR).
    destruct (cmp k (ekey x)) eqn:C; destruct Hres as (Hio' & _ & Hr);
      rewrite Hio', Hr, map_app; split; reflexivity.
Qed.

Theorem remove_keeps_others s k e :
  Inv s -> In e (inorder (root s)) -> ekey e <> k ->
  In e (inorder (root (fst (step cmp s (@ORemove K V k))))).
Proof.
  intros (Hs & _ & _) Hin Hne. cbn [step]. rewrite fst_let.
  destruct (remove_char s k Hs) as [[E Hi] | (L & x & R & Hio & HL & HR & _ & Hres)].
  - rewrite Hi. exact Hin.
  - rewrite Hio in Hin.
    destruct (cmp k (ekey x)) eqn:C; destruct Hres as (Hio' & _); rewrite Hio';
      try exact Hin.
    apply cmp_eq in C.
    apply in_app_or in Hin. destruct Hin as [Hin | [Hin | Hin]].
    + apply in_or_app; left; exact Hin.
    + subst e. now elim Hne.
    + apply in_or_app; right; exact Hin.
Qed.

(** ** Lookups, successor/predecessor, min/max *)

Lemma lookup_res s key : sorted (inorder (root s)) ->
  option_map kv (snd (lookup cmp s key)) = sp_find cmp (abs s) key.
Proof.
  intros Hs. unfold lookup. rewrite abs_eq.
  destruct (root s) as [|l0 x0 r0] eqn:E; [reflexivity|].
  destruct (splay_view key l0 x0 r0 Hs) as (L & x & R & Hsp & Hio & HL & HR).
  rewrite Hsp, Hio, (find_view key _ x _ HL HR). cbn [snd].
  destruct (cmp key (ekey x)); reflexivity.
Qed.

Lemma next_res s key : sorted (inorder (root s)) ->
  option_map kv (snd (next cmp s key)) = sp_next cmp (abs s) key.
Proof.
  intros Hs. unfold next. rewrite abs_eq, sp_next_find.
  destruct (root s) as [|l0 x0 r0] eqn:E; [reflexivity|].
  cbn [snd]. rewrite succ_walk_spec by (rewrite splay_inorder; exact Hs).
  rewrite splay_inorder. destruct (find (gtb key) (inorder (Node l0 x0 r0))); reflexivity.
Qed.

Lemma prev_res s key : sorted (inorder (root s)) ->
  option_map kv (snd (prev cmp s key)) = sp_prev cmp (abs s) key None.
Proof.
  intros Hs. unfold prev. rewrite abs_eq.
  pose proof (sp_prev_l key (inorder (root s)) None) as Hp. change (option_map kv None) with (@None (K * V)) in Hp.
  rewrite Hp. clear Hp.
  destruct (root s) as [|l0 x0 r0] eqn:E; [reflexivity|].
  cbn [snd]. rewrite pred_walk_spec by (rewrite splay_inorder; exact Hs).
  rewrite splay_inorder. reflexivity.
Qed.

Lemma min_res (s : Splay.t K V) : okey (Splay.min s) = sp_key (hd_error (abs s)).
Proof.
  unfold Splay.min. rewrite min_node_spec, abs_eq.
  destruct (inorder (root s)); reflexivity.
Qed.

Lemma max_res (s : Splay.t K V) :
  okey (Splay.max s) =
  sp_key (match abs s with [] => None | x :: _ => Some (last (abs s) x) end).
Proof.
  unfold Splay.max. rewrite max_node_spec, abs_eq.
  destruct (inorder (root s)) as [|e l]; [reflexivity|].
  change (map kv (e :: l)) with (kv e :: map kv l). cbv iota.
  change (kv e :: map kv l) with (map kv (e :: l)). rewrite last_map_eq. reflexivity.
Qed.

(** ** Extend *)

Lemma extend_Inv kvs : forall s, Inv s -> Inv (extend cmp s kvs).
Proof.
  unfold extend. induction kvs as [|[k v] kvs IH]; intros s HI; cbn [fold_left fst snd];
    [exact HI|].
  apply IH, insert_Inv, HI.
Qed.

Lemma extend_refines kvs : forall s, Inv s ->
  abs (extend cmp s kvs) =
  fold_left (fun acc kv => sp_insert cmp acc (fst kv) (snd kv)) kvs (abs s).
Proof.
  unfold extend. induction kvs as [|[k v] kvs IH]; intros s HI; cbn [fold_left fst snd];
    [reflexivity|].
  rewrite (IH _ (insert_Inv s k v HI)), (proj1 (insert_refines s k v HI)). reflexivity.
Qed.

(** ** Consuming iterator *)

Definition it_ok (it : iter K V) : Prop := remaining it = length (inorder (cur it)).

Lemma sp_drain_back (m : list (K * V)) y ds :
  sp_drain (m ++ [y]) (false :: ds) = (Some y, length m) :: sp_drain m ds.
Proof.
  destruct (m ++ [y]) as [|x rest] eqn:E; [destruct m; discriminate E|].
  cbn [sp_drain]. rewrite <- E. rewrite last_last, removelast_last.
  apply (f_equal (@length _)) in E. rewrite app_length in E. cbn [length] in E.
  replace (length rest) with (length m) by lia. reflexivity.
Qed.

Lemma drain_refines dirs : forall it, it_ok it ->
  drain it dirs = sp_drain (map kv (inorder (cur it))) dirs.
Proof.
  induction dirs as [|d ds IH]; intros it Hok; [reflexivity|].
  destruct it as [c n]. unfold it_ok in Hok. cbn [cur remaining] in *.
  destruct c as [|l x r].
  - cbn [inorder length] in Hok. subst n.
    assert (Hd : (if d then iter_next (mkIter (@Leaf K V) 0)
                  else iter_next_back (mkIter (@Leaf K V) 0)) = (mkIter Leaf 0, None))
      by (destruct d; reflexivity).
    cbn [drain]. rewrite Hd. cbn [remaining inorder map sp_drain]. f_equal.
    apply (IH (mkIter Leaf 0)). reflexivity.
  - destruct d.
    + cbn [drain]. unfold iter_next. cbn [cur remaining].
      pose proof (nxt_spec l x r) as Hn. destruct (nxt l x r) as [y rest].
      cbn [fst snd] in Hn. rewrite Hn in *. cbn [map sp_drain remaining].
      rewrite Hok. cbn [length pred]. rewrite map_length. f_equal.
      apply (IH (mkIter rest (length (inorder rest)))). reflexivity.
    + cbn [drain]. unfold iter_next_back. cbn [cur remaining].
      pose proof (nxt_back_spec r l x) as Hn. destruct (nxt_back l x r) as [y rest].
      cbn [fst snd] in Hn. rewrite Hn in *. rewrite map_app. cbn [map].
      rewrite sp_drain_back. cbn [remaining].
      rewrite Hok, app_length. cbn [length]. rewrite Nat.add_1_r. cbn [pred].
      rewrite map_length. f_equal.
      apply (IH (mkIter rest (length (inorder rest)))). reflexivity.
Qed.

Lemma into_iter_ok s : Inv s -> it_ok (into_iter s).
Proof. intros (_ & Hsz & _). exact Hsz. Qed.

(** ** 2/4. Every step preserves the invariant and refines the reference *)

Theorem step_Inv s o : Inv s -> Inv (fst (step cmp s o)).
Proof.
  intros HI.
  destruct o as [k v|k|k|k|k|k|k| | | | | |kvs|dirs];
    try (apply (same_state_Inv s); [apply lookup_step_same; reflexivity | exact HI]);
    cbn [step]; rewrite ?fst_let; cbn [fst].
  - apply insert_Inv, HI.
  - apply remove_Inv, HI.
  - apply Inv_list_nil.
  - apply extend_Inv, HI.
  - apply Inv_list_nil.
Qed.

Theorem step_refines s o : Inv s ->
  abs (fst (step cmp s o)) = fst (sp_step cmp (abs s) o) /\
  snd (step cmp s o) = snd (sp_step cmp (abs s) o).
Proof.
  intros HI. pose proof HI as (Hs & Hsz & _).
  destruct o as [k v|k|k|k|k|k|k| | | | | |kvs|dirs];
    (split; cbn [sp_step fst snd];
     [try (apply same_state_abs, lookup_step_same; reflexivity)|]);
    cbn [step]; rewrite ?fst_let, ?snd_let; cbn [fst snd].
  - apply insert_refines, HI.
  - apply insert_refines, HI.
  - apply remove_refines, HI.
  - apply remove_refines, HI.
  - rewrite <- (lookup_res s k Hs). destruct (snd (lookup cmp s k)); reflexivity.
  - rewrite <- (lookup_res s k Hs). destruct (snd (lookup cmp s k)); reflexivity.
  - rewrite <- (lookup_res s k Hs). destruct (snd (lookup cmp s k)); reflexivity.
  - rewrite <- (next_res s k Hs). destruct (snd (next cmp s k)); reflexivity.
  - rewrite <- (prev_res s k Hs). destruct (snd (prev cmp s k)); reflexivity.
  - apply min_res.
  - apply max_res.
  - unfold len. rewrite Hsz, abs_eq, map_length. reflexivity.
  - unfold is_empty. rewrite Hsz, abs_eq. destruct (inorder (root s)); reflexivity.
  - reflexivity.
  - reflexivity.
  - apply extend_refines, HI.
  - reflexivity.
  - reflexivity.
  - rewrite (drain_refines dirs (into_iter s) (into_iter_ok s HI)). reflexivity.
Qed.

Corollary step_refines_let s o : Inv s ->
  let '(s', r) := step cmp s o in
  let '(m', r') := sp_step cmp (abs s) o in
  abs s' = m' /\ r = r'.
Proof.
  intros HI. pose proof (step_refines s o HI) as H.
  destruct (step cmp s o) as [s' r]. destruct (sp_step cmp (abs s) o) as [m' r']. exact H.
Qed.

(** ** 5. Histories *)

Theorem history_refines ops : forall s, Inv s -> run cmp s ops = sp_run cmp (abs s) ops.
Proof.
  induction ops as [|o rest IH]; intros s HI; [reflexivity|].
  cbn [run sp_run].
  destruct (step_refines s o HI) as [Ha Hr]. pose proof (step_Inv s o HI) as HI'.
  destruct (step cmp s o) as [s' r]. destruct (sp_step cmp (abs s) o) as [m' r'].
  cbn [fst snd] in *. subst m' r'. f_equal. exact (IH s' HI').
Qed.

Corollary history_refines_empty (ops : list (op K V)) : run cmp empty ops = sp_run cmp [] ops.
Proof. exact (history_refines ops empty Inv_empty). Qed.

(** ** 7. In-order iteration *)

Lemma sp_drain_all (m : list (K * V)) :
  map fst (sp_drain m (repeat true (length m))) = map Some m.
Proof.
  induction m as [|x m IH]; [reflexivity|].
  cbn [length repeat sp_drain map fst]. rewrite IH. reflexivity.
Qed.

Lemma SS_map {A B} (f : A -> B) (R : B -> B -> Prop) l :
  StronglySorted (fun a b => R (f a) (f b)) l -> StronglySorted R (map f l).
Proof.
  induction 1 as [|a l Hs IH Hf]; cbn [map]; constructor; [exact IH|].
  apply Forall_map. exact Hf.
Qed.

Theorem iteration_sorted s : Inv s ->
  map fst (drain (into_iter s) (repeat true (size s))) = map Some (abs s) /\
  StronglySorted (fun a b => cmp a b = Lt) (map fst (abs s)).
Proof.
  intros HI. pose proof HI as (Hs & Hsz & _). split.
  - rewrite (drain_refines _ (into_iter s) (into_iter_ok s HI)).
    cbn [into_iter cur]. rewrite Hsz, <- (map_length kv). apply sp_drain_all.
  - rewrite abs_eq, map_map. cbn [kv fst]. apply SS_map. exact Hs.
Qed.

End Main.

(** ** 8. Shapes of unbounded height are reachable *)

Section Chain.

Definition chain (n : nat) : Splay.t nat unit :=
  fold_left (fun acc k => fst (insert Nat.compare acc k tt)) (seq 1 n) empty.

(** left-leaning chain with keys [1..n], the maximum at the root *)
Fixpoint lch (n : nat) : Splay.tree nat unit :=
  match n with
  | 0 => Leaf
  | S m => Node (lch m) (mkElt (Pos.of_succ_nat m) (S m) tt) Leaf
  end.

Lemma chain_S n : chain (S n) = fst (insert Nat.compare (chain n) (S n) tt).
Proof. unfold chain. rewrite seq_S, fold_left_app. reflexivity. Qed.

Lemma chain_shape n : chain n = mkT (lch n) n (Pos.of_succ_nat n).
Proof.
  induction n as [|m IH]; [reflexivity|].
  rewrite chain_S, IH. destruct m as [|m']; [reflexivity|].
  assert (C : Nat.compare (S (S m')) (S m') = Gt) by (apply Nat.compare_gt_iff; lia).
  cbn [lch]. unfold insert; cbn [root size next_id]. unfold splay. cbn [go ekey].
  rewrite C. cbn [link fst snd go finish asm_sm asm_bg ekey]. rewrite C. reflexivity.
Qed.

Lemma height_lch n : height (lch n) = n.
Proof.
  induction n as [|m IH]; [reflexivity|].
  cbn [lch height]. rewrite IH, Nat.max_0_r. reflexivity.
Qed.

Theorem height_chain n : height (root (chain n)) = n.
Proof. rewrite chain_shape. apply height_lch. Qed.

End Chain.

Print Assumptions splay_split.
Print Assumptions step_refines.
Print Assumptions history_refines_empty.
Print Assumptions lookups_keep_elements_many.
Print Assumptions insert_keeps_others.
Print Assumptions remove_keeps_others.
Print Assumptions iteration_sorted.

Print Assumptions history_refines.
Print Assumptions step_Inv.
Print Assumptions lookups_keep_elements.
Print Assumptions height_chain.
