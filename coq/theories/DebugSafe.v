(** * The debug assertions of [divide_segment] cannot fire at the exact instance (C03: "with and
    without debug assertions"): dividing a left event at a point that comes lexicographically after
    it always returns — the divided event IS a left event, and the new right event DOES come after
    it in the event order.  In the sweep every division is of this kind ([OnEdgeFull]: the
    division point is strictly inside a left-first sub-segment). *)
From Coq Require Import Bool List PArith NArith QArith Lqa Lia.
From GB Require Import Prim Num NumQ NumLaws NumLawsQ Event Intersect Cmp Heap Outcome Divide
  IntersectProofs FieldsProofs LinkProofs PiProofs SplitCover OnEdge OnEdgeFull.
Local Open Scope Q_scope.

Theorem divide_segment_returns cfg (s : sq NQ) (se_l se_r : eid) (lx ly ix iy : Q) :
  wf NQ (sq_st s) -> mapped NQ (sq_st s) se_l ->
  e_other (getE (sq_st s) se_l) = Some se_r ->
  e_left (getE (sq_st s) se_l) = true ->
  e_point (getE (sq_st s) se_l) = fpt lx ly -> lexlt lx ly ix iy ->
  exists s', divide_segment cfg s se_l (fpt ix iy) = Ok s'.
Proof.
  intros W Ml Or Ll Pl Hlex. unfold divide_segment.
  rewrite Ll. cbn [negb]. rewrite andb_false_r. rewrite Or. rewrite bump_dead_exact.
  set (el := getE (sq_st s) se_l).
  destruct (alloc (sq_st s) (new_event (e_contour_id el) (fpt ix iy) false (Some se_l) (e_is_subject el) true)) as [st1 r0] eqn:E1.
  destruct (alloc st1 (new_event (e_contour_id el) (fpt ix iy) true (Some se_r) (e_is_subject el) true)) as [st2 l0] eqn:E2.
  assert (Hst1 : st1 = fst (alloc (sq_st s) (new_event (e_contour_id el) (fpt ix iy) false (Some se_l) (e_is_subject el) true))) by (rewrite E1; reflexivity).
  assert (Hr : r0 = st_next (sq_st s)) by (unfold alloc in E1; now inversion E1).
  assert (Hst2 : st2 = fst (alloc st1 (new_event (e_contour_id el) (fpt ix iy) true (Some se_r) (e_is_subject el) true))) by (rewrite E2; reflexivity).
  assert (Hl : l0 = st_next st1) by (unfold alloc in E2; now inversion E2).
  assert (Hl' : l0 = Pos.succ r0) by (rewrite Hl, Hst1, next_alloc, Hr; reflexivity).
  assert (Nr : ~ mapped NQ (sq_st s) r0) by (rewrite Hr; apply fresh_unmapped; exact W).
  assert (Nl : ~ mapped NQ (sq_st s) l0).
  { intros M. pose proof (W _ M). rewrite Hl', Hr in H. lia. }
  assert (Hrl : r0 <> l0) by (rewrite Hl'; lia).
  assert (G2r : getE st2 r0 = new_event (e_contour_id el) (fpt ix iy) false (Some se_l) (e_is_subject el) true).
  { rewrite Hst2, getE_alloc_old by (rewrite <- Hl; exact Hrl). rewrite Hst1, Hr. apply getE_alloc_new. }
  assert (G2old : forall k, mapped NQ (sq_st s) k -> getE st2 k = getE (sq_st s) k).
  { intros k Mk. assert (K1 : k <> r0) by (intros ->; contradiction). assert (K2 : k <> l0) by (intros ->; contradiction).
    rewrite Hst2, getE_alloc_old by (rewrite <- Hl; exact K2). rewrite Hst1, getE_alloc_old by (rewrite <- Hr; exact K1). reflexivity. }
  assert (Before : is_before st2 se_l r0 = true).
  { apply (is_before_lex' st2 se_l r0 lx ly ix iy); [rewrite (G2old se_l Ml); exact Pl | rewrite G2r; reflexivity | exact Hlex]. }
  rewrite Before. cbn [negb]. rewrite andb_false_r. eexists. reflexivity.
Qed.
