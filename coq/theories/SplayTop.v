(** * Top-level statement of C17 and its proof from the lemmas of [SplayProofs]. *)
From Coq Require Import List Sorted PArith.
From GB Require Import Splay SplayOps SplayProofs.
Import ListNotations.

Definition strict_total_order {K : Type} (cmp : K -> K -> comparison) : Prop :=
  (forall a b, cmp a b = Eq <-> a = b) /\
  (forall a b, cmp b a = CompOpp (cmp a b)) /\
  (forall a b c, cmp a b = Lt -> cmp b c = Lt -> cmp a c = Lt).

Section Top.
Variables K V : Type.
Variable cmp : K -> K -> comparison.

(** the container reached from the empty one by a history *)
Definition reach (ops : list (op K V)) : Splay.t K V :=
  fold_left (fun acc o => fst (step cmp acc o)) ops empty.

(** Full statement of C17 for one comparator. *)
Definition C17_for : Prop :=
  (* every history returns exactly what the reference sorted map returns *)
  (forall ops : list (op K V), run cmp empty ops = sp_run cmp [] ops)
  (* in every reachable state: length = number of stored keys, which are strictly increasing,
     and complete forward iteration yields exactly them, in that order *)
  /\ (forall ops, let s := reach ops in
        len s = length (abs s)
        /\ StronglySorted (fun a b => cmp a b = Lt) (map fst (abs s))
        /\ map fst (drain (into_iter s) (repeat true (size s))) = map Some (abs s))
  (* lookups never change which key and value a node identity denotes *)
  /\ (forall ops lookups, forallb (is_lookup K V) lookups = true ->
        inorder (root (fold_left (fun acc o => fst (step cmp acc o)) lookups (reach ops)))
        = inorder (root (reach ops))).

Hypothesis Hord : strict_total_order cmp.

Lemma reach_Inv ops : Inv K V cmp (reach ops).
Proof.
  destruct Hord as (H1 & H2 & H3).
  unfold reach. generalize (Inv_empty K V cmp). generalize (@empty K V).
  induction ops as [|o ops IH]; intros s Hs; cbn [fold_left]; [exact Hs|].
  apply IH. apply step_Inv; assumption.
Qed.

Lemma C17_for_holds : C17_for.
Proof.
  destruct Hord as (H1 & H2 & H3).
  split; [|split].
  - intros ops. apply history_refines_empty; assumption.
  - intros ops s. subst s. pose proof (reach_Inv ops) as HI.
    destruct (iteration_sorted K V cmp _ HI) as [Hit Hs].
    split; [|split; assumption].
    apply Inv_unfold in HI. destruct HI as (_ & Hsz & _).
    unfold len, abs. rewrite map_length. exact Hsz.
  - intros ops lookups Hl. apply lookups_keep_elements_many. exact Hl.
Qed.
End Top.

Definition C17_statement : Prop :=
  forall (K V : Type) (cmp : K -> K -> comparison), strict_total_order cmp -> C17_for K V cmp.

Lemma C17_holds : C17_statement.
Proof. intros K V cmp H. apply C17_for_holds. exact H. Qed.

(** Non-vacuity: the standard comparison on [nat] is a strict total order, and a concrete
    history exercises insertion with replacement, removal of a node with two children,
    queries for absent keys and mixed-direction iteration. *)
Lemma nat_compare_sto : strict_total_order Nat.compare.
Proof.
  split; [|split].
  - intros a b. apply PeanoNat.Nat.compare_eq_iff.
  - intros a b. apply PeanoNat.Nat.compare_antisym.
  - intros a b c H1 H2. apply PeanoNat.Nat.compare_lt_iff in H1, H2.
    apply PeanoNat.Nat.compare_lt_iff. eapply PeanoNat.Nat.lt_trans; eassumption.
Qed.

Definition example_history : list (op nat nat) :=
  [OInsert 5 50; OInsert 2 20; OInsert 8 80; OInsert 5 55; OInsert 3 30; @ONext nat nat 4;
   @OPrev nat nat 4; ORemove nat 5; @OGet nat nat 5; @OGet nat nat 8; OLen nat nat;
   OIntoIter nat nat [true; false; false; true; true]].

Example example_history_runs :
  run Nat.compare empty example_history =
  [RNone nat nat; RNone nat nat; RNone nat nat; RVal nat 50; RNone nat nat; RKV 5 55; RKV 3 30;
   RVal nat 55; RNone nat nat; RVal nat 80; RNat nat nat 3;
   RIter [(Some (2, 20), 2); (Some (8, 80), 1); (Some (3, 30), 0); (None, 0); (None, 0)]].
Proof. vm_compute. reflexivity. Qed.
