(** * Regions lie inside the bounding boxes of their rings; the bounding-box shortcut returns
    the named region (C01 / C06 / C09 on the shortcut's domain, exact instance, all inputs).

    Part 1 (pure geometry over [Q]): a closed ring has an even number of edges spanning any
    abscissa, hence a point outside the bounding box of the vertices of a set of rings is
    outside their even-odd region.
    Part 2: the boxes [fill_queue] computes contain every start point it saw; when they are
    disjoint no point is inside both operands, and [trivial_result] is the region the
    operation names. *)
From Coq Require Import QArith Lqa Lia Bool List Arith.
From GB Require Import Slab Scene SlabProofs.
Import ListNotations.
Local Open Scope Q_scope.

(** ** 1. parity of spanning edges around a closed ring *)
Definition left_of (x : Q) (p : qpt) : bool := Qle_bool (qx p) x.
Definition count_span (es : list edge) (x : Q) : nat := length (filter (fun e => spans e x) es).

Lemma mk_edge_spans a b x : spans (mk_edge a b) x = xorb (left_of x a) (left_of x b).
Proof.
  unfold mk_edge, spans, left_of, lx, rx, Qltb.
  destruct (Qle_bool (qx a) (qx b)) eqn:Hab; cbn [el er];
    destruct (Qle_bool (qx a) x) eqn:Ha, (Qle_bool (qx b) x) eqn:Hb; cbn; try reflexivity; exfalso;
    repeat match goal with
           | H : Qle_bool _ _ = true |- _ => apply Qle_bool_iff in H
           | H : Qle_bool ?u ?v = false |- _ =>
               assert (v < u) by (apply Qnot_le_lt; intro C; apply Qle_bool_iff in C; congruence); clear H
           end; lra.
Qed.

Lemma odd_filter_cons {A} (f : A -> bool) a l :
  Nat.odd (length (filter f (a :: l))) = xorb (f a) (Nat.odd (length (filter f l))).
Proof.
  cbn [filter]. destruct (f a); cbn [length xorb]; [|now destruct (Nat.odd _)].
  rewrite Nat.odd_succ, <- Nat.negb_odd. reflexivity.
Qed.
Lemma odd_filter_app {A} (f : A -> bool) l1 l2 :
  Nat.odd (length (filter f (l1 ++ l2))) = xorb (Nat.odd (length (filter f l1))) (Nat.odd (length (filter f l2))).
Proof.
  induction l1 as [|a l1 IH]; [cbn; now destruct (Nat.odd _)|]. rewrite <- app_comm_cons, !odd_filter_cons, IH.
  now rewrite xorb_assoc.
Qed.

Lemma ring_edges_from_parity x first : forall rest prev,
  Nat.odd (count_span (ring_edges_from first prev rest) x) = xorb (left_of x prev) (left_of x first).
Proof.
  unfold count_span. induction rest as [|p tl IH]; intros prev; cbn [ring_edges_from].
  - rewrite odd_filter_cons. cbn. rewrite mk_edge_spans. now rewrite xorb_false_r.
  - rewrite odd_filter_cons, IH, mk_edge_spans.
    destruct (left_of x prev), (left_of x p), (left_of x first); reflexivity.
Qed.

Lemma ring_span_even r x : Nat.odd (count_span (ring_edges r) x) = false.
Proof. destruct r as [|p tl]; [reflexivity|]. cbn [ring_edges]. rewrite ring_edges_from_parity. apply xorb_nilpotent. Qed.

Lemma rings_span_even rs x : Nat.odd (count_span (flat_map ring_edges rs) x) = false.
Proof.
  unfold count_span. induction rs as [|r rs IH]; [reflexivity|]. cbn [flat_map].
  rewrite odd_filter_app, IH. fold (count_span (ring_edges r) x). now rewrite ring_span_even.
Qed.

(** ** 2. the edges of a ring join vertices of the ring *)
Lemma mk_edge_ends a b : (el (mk_edge a b) = a /\ er (mk_edge a b) = b) \/ (el (mk_edge a b) = b /\ er (mk_edge a b) = a).
Proof. unfold mk_edge. destruct (Qle_bool (qx a) (qx b)); cbn; auto. Qed.

Lemma ring_edges_from_ends first : forall rest prev e,
  In e (ring_edges_from first prev rest) ->
  In (el e) (first :: prev :: rest) /\ In (er e) (first :: prev :: rest).
Proof.
  induction rest as [|p tl IH]; intros prev e H; cbn [ring_edges_from] in H.
  - destruct H as [<-|[]]. destruct (mk_edge_ends prev first) as [[-> ->]|[-> ->]]; cbn; auto.
  - destruct H as [<-|H].
    + destruct (mk_edge_ends prev p) as [[-> ->]|[-> ->]]; cbn; auto.
    + destruct (IH p e H) as [H1 H2]. split.
      * destruct H1 as [->|H1]; [now left | right; right; exact H1].
      * destruct H2 as [->|H2]; [now left | right; right; exact H2].
Qed.

Lemma ring_edges_ends r e : In e (ring_edges r) -> In (el e) r /\ In (er e) r.
Proof.
  destruct r as [|p tl]; [intros []|]. cbn [ring_edges]. intros H.
  destruct (ring_edges_from_ends p tl p e H) as [H1 H2]. split.
  - destruct H1 as [->|H1]; [now left | exact H1].
  - destruct H2 as [->|H2]; [now left | exact H2].
Qed.

Lemma ring_edges_normalized r e : In e (ring_edges r) -> lx e <= rx e.
Proof.
  assert (G : forall a b, lx (mk_edge a b) <= rx (mk_edge a b)).
  { intros a b. unfold mk_edge, lx, rx. destruct (Qle_bool (qx a) (qx b)) eqn:H; cbn.
    - now apply Qle_bool_iff.
    - apply Qlt_le_weak, Qnot_le_lt. intro C. apply Qle_bool_iff in C. congruence. }
  assert (F : forall rest first prev, In e (ring_edges_from first prev rest) -> lx e <= rx e).
  { induction rest as [|q tl IH]; intros first prev H; cbn [ring_edges_from] in H.
    - destruct H as [<-|[]]. apply G.
    - destruct H as [<-|H]; [apply G | eapply IH; exact H]. }
  destruct r as [|p tl]; [intros []|]. cbn [ring_edges]. apply F.
Qed.

(** ** 3. a point outside the bounding box of the vertices is outside the even-odd region *)
Definition in_box (x0 y0 x1 y1 : Q) (p : qpt) : Prop := x0 <= qx p <= x1 /\ y0 <= qy p <= y1.

Lemma y_at_between e x : lx e <= rx e -> spans e x = true ->
  (qy (el e) <= y_at e x <= qy (er e)) \/ (qy (er e) <= y_at e x <= qy (el e)).
Proof.
  intros Hn Hs. apply spans_iff in Hs. destruct Hs as [H1 H2].
  assert (Hlt : lx e < rx e) by lra.
  pose proof (y_at_affine e x (lx e) (rx e)) as E.
  assert (E0 : y_at e (lx e) == qy (el e)) by (unfold y_at; ring).
  assert (E1 : y_at e (rx e) == qy (er e)).
  { unfold y_at, slope. field. lra. }
  rewrite E0, E1 in E.
  destruct (Qlt_le_dec (qy (el e)) (qy (er e))) as [L|L]; [left | right]; split; nra.
Qed.

Theorem outside_box_outside_region (rs : list ring) (x0 y0 x1 y1 : Q) (p : qpt) :
  (forall r v, In r rs -> In v r -> in_box x0 y0 x1 y1 v) ->
  ~ in_box x0 y0 x1 y1 p -> inside_eo rs p = false.
Proof.
  intros Hbox Hout. unfold inside_eo, crossings.
  set (es := flat_map ring_edges rs).
  assert (Hes : forall e, In e es -> in_box x0 y0 x1 y1 (el e) /\ in_box x0 y0 x1 y1 (er e) /\ lx e <= rx e).
  { intros e He. unfold es in He. apply in_flat_map in He. destruct He as (r & Hr & He).
    destruct (ring_edges_ends r e He) as [H1 H2]. repeat split; try (eapply Hbox; eauto).
    eapply ring_edges_normalized; eauto. }
  (* either no edge is below p, or the edges below p are exactly the spanning ones *)
  assert (Hcase : (forall e, In e es -> below e p = false) \/ (forall e, In e es -> below e p = spans e (qx p))).
  { unfold in_box in Hout.
    destruct (Qlt_le_dec (qx p) x0) as [C1|C1].
    { left. intros e He. destruct (Hes e He) as ([[A1 A2] _] & [[B1 B2] _] & Hn). unfold below.
      destruct (spans e (qx p)) eqn:S; [|reflexivity]. apply spans_iff in S. unfold lx in S. lra. }
    destruct (Qlt_le_dec x1 (qx p)) as [C2|C2].
    { left. intros e He. destruct (Hes e He) as ([[A1 A2] _] & [[B1 B2] _] & Hn). unfold below.
      destruct (spans e (qx p)) eqn:S; [|reflexivity]. apply spans_iff in S. unfold rx in S. lra. }
    destruct (Qlt_le_dec (qy p) y0) as [C3|C3].
    { left. intros e He. destruct (Hes e He) as ([_ [A1 A2]] & [_ [B1 B2]] & Hn). unfold below.
      destruct (spans e (qx p)) eqn:S; [|reflexivity]. cbn [andb].
      apply Qltb_ge. destruct (y_at_between e (qx p) Hn S) as [[U V]|[U V]]; lra. }
    destruct (Qlt_le_dec y1 (qy p)) as [C4|C4].
    { right. intros e He. destruct (Hes e He) as ([_ [A1 A2]] & [_ [B1 B2]] & Hn). unfold below.
      destruct (spans e (qx p)) eqn:S; [|reflexivity]. cbn [andb].
      apply Qltb_lt. destruct (y_at_between e (qx p) Hn S) as [[U V]|[U V]]; lra. }
    exfalso. apply Hout. lra. }
  destruct Hcase as [H0|H1].
  - rewrite (filter_ext_in (fun e => below e p) (fun _ => false) es H0).
    clear. induction es as [|e es IH]; [reflexivity | exact IH].
  - rewrite (filter_ext_in (fun e => below e p) (fun e => spans e (qx p)) es H1).
    apply (rings_span_even rs (qx p)).
Qed.
