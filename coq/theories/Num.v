(** * Numeric interface of the model (the [Float] trait of [helper.rs]), dimension-typed.

    Carriers: [X], [Y] abscissae / ordinates, [D] coordinate differences, [A] products of
    two differences, [A2] products of two [A], [S] dimensionless ratios.  The operations
    are exactly those the Rust code performs.  For every concrete instance all carriers
    are the same type; keeping them apart in the interface makes translations and
    power-of-two scalings logical relations preserved by every operation. *)
From Coq Require Import Bool.
Set Implicit Arguments.

Record Num := mkNum {
  X : Type; Y : Type; D : Type; A : Type; A2 : Type; Sc : Type;
  ltX : X -> X -> bool; leX : X -> X -> bool; eqX : X -> X -> bool;
  ltY : Y -> Y -> bool; leY : Y -> Y -> bool; eqY : Y -> Y -> bool;
  minX : X -> X -> X; maxX : X -> X -> X;
  minY : Y -> Y -> Y; maxY : Y -> Y -> Y;
  pinfX : X; ninfX : X; pinfY : Y; ninfY : Y;
  subX : X -> X -> D; subY : Y -> Y -> D;
  addX : X -> D -> X; addY : Y -> D -> Y;
  mulDD : D -> D -> A;
  subAA : A -> A -> A; addAA : A -> A -> A;
  mulAA : A -> A -> A2;
  gt0A2 : A2 -> bool;
  divAA : A -> A -> Sc;
  mulSD : Sc -> D -> D;
  addSS : Sc -> Sc -> Sc;
  minS : Sc -> Sc -> Sc; maxS : Sc -> Sc -> Sc;
  ltS : Sc -> Sc -> bool; leS : Sc -> Sc -> bool; eqS : Sc -> Sc -> bool;
  zeroS : Sc; oneS : Sc;
  next_upX : X -> X;
  (** sign of [signed_area p0 p1 p2] = [robust::orient2d]: [Gt] = counter-clockwise *)
  orient : X -> Y -> X -> Y -> X -> Y -> comparison
}.

Section Pt.
Variable N : Num.
Record pt := mkPt { px : X N; py : Y N }.
Definition pt_eq (p q : pt) : bool := eqX N (px p) (px q) && eqY N (py p) (py q).
Definition gtX (a b : X N) := ltX N b a.
Definition gtY (a b : Y N) := ltY N b a.
Definition gtS (a b : Sc N) := ltS N b a.
Definition geS (a b : Sc N) := leS N b a.
Definition sarea (p0 p1 p2 : pt) : comparison :=
  orient N (px p0) (py p0) (px p1) (py p1) (px p2) (py p2).
Definition sa_pos (c : comparison) : bool := match c with Gt => true | _ => false end.
Definition sa_zero (c : comparison) : bool := match c with Eq => true | _ => false end.
End Pt.
