(** * C11: the composition step of chained operations, and C10's transitivity link.

    [chain_law]: if the first call returned the named region (C01 at (A,B,op)), its result
    reads the same polygon-wise and by the even-odd rule (C02, which is how the next call
    reads it), and the second call on that result returned its named region (C01 at
    (R,C,op')), then the final result is the pointwise combination
    [op' (op a b) c] at every point clear of all edges involved. *)
From Coq Require Import Bool List QArith.
From GB Require Import Num Event Outcome FillQueue BoolOp Slab Scene SlabProofs Cert.
Import ListNotations.

Section Chain.
Variable N : Num.
Variable conv : pt N -> option qpt.

Lemma omap_app {A B : Type} (f : A -> option B) (l1 l2 : list A) r1 r2 :
  omap f l1 = Some r1 -> omap f l2 = Some r2 -> omap f (l1 ++ l2) = Some (r1 ++ r2).
Proof.
  revert r1; induction l1 as [|x l1 IH]; intros r1 H1 H2; cbn in *.
  - inversion H1; subst. exact H2.
  - destruct (f x) as [y|]; [|discriminate]. destruct (omap f l1) as [ys|]; [|discriminate].
    inversion H1; subst. now rewrite (IH ys eq_refl H2).
Qed.

(** the rings the next call reads are exactly the rings of the result *)
Lemma polygon_rings_of_polygon (P : FillQueue.polygon N) (q : qpolygon) :
  polygon_q N conv P = Some q -> polygon_rings_q N conv P = Some (q_ext q :: q_holes q).
Proof.
  unfold polygon_q, polygon_rings_q. cbn [omap].
  destruct (ring_q N conv (exterior P)) as [e|]; [|discriminate].
  destruct (omap (ring_q N conv) (interiors P)) as [hs|]; [|discriminate].
  intros H; inversion H; subst. reflexivity.
Qed.

Lemma operand_rings_of_result (R : list (FillQueue.polygon N)) (r : list qpolygon) :
  mpoly_q N conv R = Some r -> operand_rings_q N conv R = Some (rings_of r).
Proof.
  unfold operand_rings_q, mpoly_q. revert r.
  induction R as [|P R IH]; intros r H; cbn [omap] in *.
  - inversion H; subst. reflexivity.
  - destruct (polygon_q N conv P) as [q|] eqn:Hq; [|discriminate].
    destruct (omap (polygon_q N conv) R) as [r'|]; [|discriminate].
    inversion H; subst. rewrite (polygon_rings_of_polygon _ _ Hq).
    specialize (IH r' eq_refl).
    destruct (omap (polygon_rings_q N conv) R) as [l|]; [|discriminate].
    inversion IH as [Hl]. cbn. now rewrite Hl.
Qed.

Theorem chain_law cfg fuel (A B C : list (FillQueue.polygon N)) (op op' : operation) :
  C01_at N conv cfg fuel A B op ->
  (forall R, boolean_operation cfg fuel A B op = Ok R ->
     C02_reading_at N conv cfg fuel A B op /\ C01_at N conv cfg fuel R C op') ->
  exists R R2 a b c r r2,
    boolean_operation cfg fuel A B op = Ok R /\ boolean_operation cfg fuel R C op' = Ok R2 /\
    operand_rings_q N conv A = Some a /\ operand_rings_q N conv B = Some b /\
    operand_rings_q N conv C = Some c /\ mpoly_q N conv R = Some r /\ mpoly_q N conv R2 = Some r2 /\
    forall p, clear01 a b r p -> scene_clear (scene02 r) p -> clear01 (rings_of r) c r2 p ->
      inside_mpoly r2 p
      = sem_op (bop_of op') (sem_op (bop_of op) (inside_eo a p) (inside_eo b p)) (inside_eo c p).
Proof.
  intros (R & a & b & r & HR & Ha & Hb & Hr & H1) H2.
  destruct (H2 R HR) as [(R' & r' & HR' & Hr' & Hread) (R2 & a2 & c & r2 & HR2 & Ha2 & Hc & Hr2 & H3)].
  rewrite HR in HR'. inversion HR'; subst R'. rewrite Hr in Hr'. inversion Hr'; subst r'.
  rewrite (operand_rings_of_result R r Hr) in Ha2. inversion Ha2; subst a2.
  exists R, R2, a, b, c, r, r2. repeat (split; [assumption|]).
  intros p P1 P2 P3. rewrite (H3 p P3), <- (Hread p P2), (H1 p P1). reflexivity.
Qed.

End Chain.

(** non-vacuity + the two laws quoted in the property, on a concrete exact run:
    (A ∪ B) \ B and A \ (A \ B) through the model *)
Definition chain_example_check : bool :=
  match boolean_operation release 1000 F1_A F1_B Union with
  | Ok R =>
      Nat.eqb (length R) 2 &&
      cert01_run NumQ.NQ conv_Q release 1000 F1_A F1_B Union &&
      cert02_run NumQ.NQ conv_Q release 1000 F1_A F1_B Union &&
      cert01_run NumQ.NQ conv_Q release 1000 R F1_B Difference
  | _ => false
  end.
Example chain_example : chain_example_check = true.
Proof. vm_compute. reflexivity. Qed.
