(** * The pairwise intersection step at the exact instance (C16).

    [possible_intersection] on two segments with rational endpoints (first one
    non-degenerate): disjoint closed segments are left untouched with code 0; segments that
    meet in a point and share their left or their right endpoint are left untouched; and every
    event the step creates lies at ONE point, which is a common point of both segments (the
    one-ulp bump of [divide_segment] is the identity at this instance: finding N2 cannot
    occur over exact arithmetic). *)
From Coq Require Import Bool List PArith QArith Lqa Lia.
From GB Require Import Prim Num NumQ NumLaws NumLawsQ Event Intersect Cmp Heap Outcome Divide
  IntersectProofs FieldsProofs LinkProofs.
Import ListNotations.
Local Open Scope Q_scope.

Section Pi.
Variable cfg : config.
Variable s : sq NQ.
Variables se1 se2 other1 other2 : eid.
Variables p1x p1y o1x o1y p2x p2y o2x o2y : Q.
Notation st := (sq_st s).
Hypothesis O1 : e_other (getE st se1) = Some other1.
Hypothesis O2 : e_other (getE st se2) = Some other2.
Hypothesis P1 : e_point (getE st se1) = fpt p1x p1y.
Hypothesis Q1 : e_point (getE st other1) = fpt o1x o1y.
Hypothesis P2 : e_point (getE st se2) = fpt p2x p2y.
Hypothesis Q2 : e_point (getE st other2) = fpt o2x o2y.
Hypothesis Hne : ~ (o1x == p1x /\ o1y == p1y).

Notation inter := (intersection (fpt p1x p1y) (fpt o1x o1y) (fpt p2x p2y) (fpt o2x o2y)).

Lemma inter_exact : exact_result p1x p1y o1x o1y p2x p2y o2x o2y inter.
Proof. now apply intersection_exact_all. Qed.

Ltac open_pi :=
  unfold possible_intersection; rewrite O1, O2; unfold point_of; rewrite P1, P2, Q1, Q2.

(** disjoint closed segments: nothing happens, code 0 *)
Theorem pi_disjoint :
  disjoint_segments p1x p1y o1x o1y p2x p2y o2x o2y -> possible_intersection cfg s se1 se2 = Ok (s, 0%nat).
Proof.
  intros Hd. open_pi. pose proof inter_exact as E. destruct inter as [|i|i j]; [reflexivity| |]; exfalso.
  - destruct E as (x & y & _ & (u & t & Hu & Ht & A1 & A2 & A3 & A4)).
    apply (Hd u t Hu Ht). split; [rewrite <- A1; exact A3 | rewrite <- A2; exact A4].
  - destruct E as (x & y & x' & y' & _ & _ & (u & t & Hu & Ht & A1 & A2 & A3 & A4) & _).
    apply (Hd u t Hu Ht). split; [rewrite <- A1; exact A3 | rewrite <- A2; exact A4].
Qed.

(** a single meeting point with a shared left or right endpoint: nothing happens, code 0 *)
Theorem pi_common_endpoint i :
  inter = LPoint i ->
  pt_eq (fpt p1x p1y) (fpt p2x p2y) || pt_eq (fpt o1x o1y) (fpt o2x o2y) = true ->
  possible_intersection cfg s se1 se2 = Ok (s, 0%nat).
Proof. intros Ei Hc. open_pi. rewrite Ei, Hc. reflexivity. Qed.

(** a meeting point that is an endpoint of each segment (left of one, right of the other):
    neither is divided, the state is unchanged *)
Theorem pi_endpoint_of_both i :
  inter = LPoint i ->
  pt_eq (fpt p1x p1y) i || pt_eq (fpt o1x o1y) i = true ->
  pt_eq (fpt p2x p2y) i || pt_eq (fpt o2x o2y) i = true ->
  exists code, possible_intersection cfg s se1 se2 = Ok (s, code).
Proof.
  intros Ei H1 H2. open_pi. rewrite Ei.
  destruct (pt_eq (fpt p1x p1y) (fpt p2x p2y) || pt_eq (fpt o1x o1y) (fpt o2x o2y)); [eexists; reflexivity|].
  apply orb_true_iff in H1. apply orb_true_iff in H2.
  replace (negb (pt_eq (fpt p1x p1y) i) && negb (pt_eq (fpt o1x o1y) i)) with false
    by (destruct H1 as [->| ->]; cbn; [reflexivity | now rewrite andb_false_r]).
  replace (negb (pt_eq (fpt p2x p2y) i) && negb (pt_eq (fpt o2x o2y) i)) with false
    by (destruct H2 as [->| ->]; cbn; [reflexivity | now rewrite andb_false_r]).
  cbn. eexists; reflexivity.
Qed.

(** whatever point the step divides at is a common point of both closed segments *)
Theorem pi_point_is_common i :
  inter = LPoint i -> exists x y, i = fpt x y /\ on_both p1x p1y o1x o1y p2x p2y o2x o2y x y.
Proof. intros Ei. pose proof inter_exact as E. rewrite Ei in E. exact E. Qed.

End Pi.

(** ** the bump of [divide_segment] is the identity over exact arithmetic, and every event a
    division creates lies at the division point *)
Lemma bump_dead_exact (p : pt NQ) (c : bool) :
  (if c then mkPt NQ (next_upX NQ (px p)) (py p) else p) = p.
Proof. destruct c; [destruct p; reflexivity | reflexivity]. Qed.

Theorem divide_segment_new_events_at_point cfg (s s' : sq NQ) (se_l : eid) (i : pt NQ) :
  linked NQ (sq_st s) -> mapped NQ (sq_st s) se_l ->
  divide_segment cfg s se_l i = Ok s' ->
  forall k, mapped NQ (sq_st s') k -> ~ mapped NQ (sq_st s) k -> e_point (getE (sq_st s') k) = i.
Proof.
  intros Lk Ml. unfold divide_segment.
  destruct (c_debug cfg && negb (e_left (getE (sq_st s) se_l))); [discriminate|].
  destruct (e_other (getE (sq_st s) se_l)) as [se_r|] eqn:Or.
  2: { intros H; inversion H; subst. intros k Mk Nk. contradiction. }
  rewrite bump_dead_exact.
  set (el := getE (sq_st s) se_l).
  destruct (alloc (sq_st s) (new_event (e_contour_id el) i false (Some se_l) (e_is_subject el) true)) as [st1 r] eqn:E1.
  destruct (alloc st1 (new_event (e_contour_id el) i true (Some se_r) (e_is_subject el) true)) as [st2 l] eqn:E2.
  assert (Hst1 : st1 = fst (alloc (sq_st s) (new_event (e_contour_id el) i false (Some se_l) (e_is_subject el) true))) by (rewrite E1; reflexivity).
  assert (Hr : r = st_next (sq_st s)) by (unfold alloc in E1; now inversion E1).
  assert (Hst2 : st2 = fst (alloc st1 (new_event (e_contour_id el) i true (Some se_r) (e_is_subject el) true))) by (rewrite E2; reflexivity).
  assert (Hl : l = st_next st1) by (unfold alloc in E2; now inversion E2).
  destruct (c_debug cfg && negb (is_before st2 se_l r)); [discriminate|].
  intros H; inversion H; subst s'; clear H. cbn [sq_st].
  intros k Mk Nk.
  (* k is mapped in the final store but not in the original one: k is r or l, or one of the updated old ids (mapped before) *)
  assert (Mk2 : mapped NQ st2 k \/ k = se_l \/ k = se_r \/ k = l).
  { revert Mk. destruct (negb (is_before st2 l se_r)); rewrite !mapped_upd; tauto. }
  assert (Kcases : k = r \/ k = l \/ k = se_l \/ k = se_r).
  { destruct Mk2 as [M | [-> | [-> | ->]]]; auto.
    rewrite Hst2 in M. apply mapped_alloc in M. destruct M as [->|M]; [right; left; symmetry; exact Hl|].
    rewrite Hst1 in M. apply mapped_alloc in M. destruct M as [->|M]; [left; symmetry; exact Hr | contradiction]. }
  assert (Pr : e_point (getE st2 r) = i).
  { rewrite Hst2. destruct (Pos.eq_dec r (st_next st1)) as [E|E].
    - rewrite E, getE_alloc_new. reflexivity.
    - rewrite getE_alloc_old by exact E. rewrite Hst1, Hr, getE_alloc_new. reflexivity. }
  assert (Pl : e_point (getE st2 l) = i).
  { rewrite Hst2, Hl, getE_alloc_new. reflexivity. }
  (* none of the updates changes a point *)
  assert (Keep : forall (sto : store NQ) j f q, (forall e, e_point (f e) = e_point e) ->
            e_point (getE (upd sto j f) q) = e_point (getE sto q)).
  { intros sto j f q Hf. destruct (Pos.eq_dec j q) as [->|Hn].
    - rewrite getE_upd_same. apply Hf.
    - now rewrite getE_upd_other. }
  assert (Pfinal : forall q, e_point (getE
            (upd (upd (if negb (is_before st2 l se_r)
                       then upd (upd st2 se_r (fun e => set_left e true)) l (fun e => set_left e false) else st2)
                      se_l (fun e => set_other e (Some r))) se_r (fun e => set_other e (Some l))) q)
          = e_point (getE st2 q)).
  { intros q. rewrite !Keep by (intros; reflexivity).
    destruct (negb (is_before st2 l se_r)); [rewrite !Keep by (intros; reflexivity)|]; reflexivity. }
  rewrite Pfinal.
  destruct Kcases as [-> | [-> | [-> | ->]]]; [exact Pr | exact Pl | contradiction |].
  exfalso. apply Nk. destruct (Lk se_l Ml) as (o & Ho & _ & Mo & _).
  assert (Eo : Some o = Some se_r) by (rewrite <- Ho; exact Or).
  inversion Eo; subst. exact Mo.
Qed.

Theorem divide_segment_keeps_points cfg (s s' : sq NQ) (se_l : eid) (i : pt NQ) :
  wf NQ (sq_st s) ->
  divide_segment cfg s se_l i = Ok s' ->
  forall k, mapped NQ (sq_st s) k -> e_point (getE (sq_st s') k) = e_point (getE (sq_st s) k).
Proof.
  intros W. unfold divide_segment.
  destruct (c_debug cfg && negb (e_left (getE (sq_st s) se_l))); [discriminate|].
  destruct (e_other (getE (sq_st s) se_l)) as [se_r|] eqn:Or.
  2: { intros H; inversion H; subst. reflexivity. }
  rewrite bump_dead_exact.
  set (el := getE (sq_st s) se_l).
  destruct (alloc (sq_st s) (new_event (e_contour_id el) i false (Some se_l) (e_is_subject el) true)) as [st1 r] eqn:E1.
  destruct (alloc st1 (new_event (e_contour_id el) i true (Some se_r) (e_is_subject el) true)) as [st2 l] eqn:E2.
  assert (Hst1 : st1 = fst (alloc (sq_st s) (new_event (e_contour_id el) i false (Some se_l) (e_is_subject el) true))) by (rewrite E1; reflexivity).
  assert (Hst2 : st2 = fst (alloc st1 (new_event (e_contour_id el) i true (Some se_r) (e_is_subject el) true))) by (rewrite E2; reflexivity).
  destruct (c_debug cfg && negb (is_before st2 se_l r)); [discriminate|].
  intros H; inversion H; subst s'; clear H. cbn [sq_st]. intros k Mk.
  assert (Keep : forall (sto : store NQ) j f q, (forall e, e_point (f e) = e_point e) ->
            e_point (getE (upd sto j f) q) = e_point (getE sto q)).
  { intros sto j f q Hf. destruct (Pos.eq_dec j q) as [->|Hn].
    - rewrite getE_upd_same. apply Hf.
    - now rewrite getE_upd_other. }
  assert (N1 : k <> st_next (sq_st s)) by (intros ->; apply (fresh_unmapped NQ _ W); exact Mk).
  assert (N2 : k <> st_next st1).
  { rewrite Hst1, next_alloc. pose proof (W _ Mk). intros ->. lia. }
  rewrite !Keep by (intros; reflexivity).
  destruct (negb (is_before st2 l se_r)); [rewrite !Keep by (intros; reflexivity)|];
    rewrite Hst2, (getE_alloc_old NQ st1 _ k N2), Hst1, (getE_alloc_old NQ (sq_st s) _ k N1); reflexivity.
Qed.

(** C16: whatever [possible_intersection] does in the single-point case, every event it creates
    lies at the one intersection point, which is a common point of both segments *)
Theorem pi_new_events_at_common_point cfg (s s' : sq NQ) (se1 se2 : eid) (code : nat) (i : pt NQ) :
  sqinv NQ s -> mapped NQ (sq_st s) se1 -> mapped NQ (sq_st s) se2 ->
  (forall other1 other2, e_other (getE (sq_st s) se1) = Some other1 -> e_other (getE (sq_st s) se2) = Some other2 ->
     intersection (e_point (getE (sq_st s) se1)) (point_of (sq_st s) other1)
                  (e_point (getE (sq_st s) se2)) (point_of (sq_st s) other2) = LPoint i) ->
  possible_intersection cfg s se1 se2 = Ok (s', code) ->
  forall k, mapped NQ (sq_st s') k -> ~ mapped NQ (sq_st s) k -> e_point (getE (sq_st s') k) = i.
Proof.
  intros S M1 M2 Hi. pose proof S as [[W Lk] Q].
  destruct (Lk se1 M1) as (other1 & O1 & _). destruct (Lk se2 M2) as (other2 & O2 & _).
  specialize (Hi other1 other2 O1 O2).
  unfold possible_intersection. rewrite O1, O2, Hi.
  destruct (pt_eq _ _ || pt_eq _ _); [intros H; inversion H; subst; intros k Mk Nk; contradiction|].
  destruct (negb (pt_eq (e_point (getE (sq_st s) se1)) i) && negb (pt_eq (point_of (sq_st s) other1) i)).
  - pose proof (divide_segment_inv NQ cfg s se1 i S M1) as D1.
    destruct (divide_segment cfg s se1 i) as [s1| |] eqn:E1; cbn [obind]; try discriminate.
    destruct D1 as [S1 G1]. pose proof S1 as [[W1 Lk1] Q1].
    destruct (negb (pt_eq (e_point (getE (sq_st s) se2)) i) && negb (pt_eq (point_of (sq_st s) other2) i)).
    + destruct (divide_segment cfg s1 se2 i) as [s2| |] eqn:E2; cbn [obind]; try discriminate.
      intros H; inversion H; subst s2 code. intros k Mk Nk.
      destruct (mapped_dec NQ (sq_st s1) k) as [Mk1|Nk1].
      * rewrite (divide_segment_keeps_points cfg s1 s' se2 i W1 E2 k Mk1).
        exact (divide_segment_new_events_at_point cfg s s1 se1 i Lk M1 E1 k Mk1 Nk).
      * exact (divide_segment_new_events_at_point cfg s1 s' se2 i Lk1 (G1 _ M2) E2 k Mk Nk1).
    + intros H; inversion H; subst s1 code. intros k Mk Nk.
      exact (divide_segment_new_events_at_point cfg s s' se1 i Lk M1 E1 k Mk Nk).
  - cbn [obind].
    destruct (negb (pt_eq (e_point (getE (sq_st s) se2)) i) && negb (pt_eq (point_of (sq_st s) other2) i)).
    + destruct (divide_segment cfg s se2 i) as [s2| |] eqn:E2; cbn [obind]; try discriminate.
      intros H; inversion H; subst s2 code. intros k Mk Nk.
      exact (divide_segment_new_events_at_point cfg s s' se2 i Lk M2 E2 k Mk Nk).
    + intros H; inversion H; subst. intros k Mk Nk. contradiction.
Qed.
