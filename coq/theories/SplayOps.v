(** * Operation histories on the splay map (model side of the C17 correspondence)
    and the reference: a strictly sorted association list.  No proofs here. *)
From Coq Require Import List PArith.
From GB Require Import Splay.
Import ListNotations.
Set Implicit Arguments.

Section Ops.
Variables K V : Type.
Variable cmp : K -> K -> comparison.

Inductive op :=
| OInsert (k : K) (v : V)
| ORemove (k : K)
| OGet (k : K)
| OFindKey (k : K)
| OContains (k : K)
| ONext (k : K)
| OPrev (k : K)
| OMin
| OMax
| OLen
| OIsEmpty
| OClear
| OExtend (kvs : list (K * V))
| OIntoIter (dirs : list bool).   (* consume the map: true = next, false = next_back; a fresh empty map follows *)

Inductive out :=
| RNone
| RVal (v : V)
| RKey (k : K)
| RKV (k : K) (v : V)
| RBool (b : bool)
| RNat (n : nat)
| RIter (items : list (option (K * V) * nat)).  (* item returned and size_hint after it *)

Definition okv (o : option (elt K V)) : out :=
  match o with None => RNone | Some e => RKV (ekey e) (eval e) end.
Definition okey (o : option (elt K V)) : out :=
  match o with None => RNone | Some e => RKey (ekey e) end.
Definition oval (o : option V) : out :=
  match o with None => RNone | Some v => RVal v end.

Fixpoint drain (it : iter K V) (dirs : list bool) : list (option (K * V) * nat) :=
  match dirs with
  | [] => []
  | d :: ds =>
      let '(it', r) := if d then iter_next it else iter_next_back it in
      (match r with None => None | Some e => Some (ekey e, eval e) end, remaining it') :: drain it' ds
  end.

Definition step (s : Splay.t K V) (o : op) : Splay.t K V * out :=
  match o with
  | OInsert k v => let '(s', r) := insert cmp s k v in (s', oval r)
  | ORemove k => let '(s', r) := remove cmp s k in (s', oval r)
  | OGet k => let '(s', r) := lookup cmp s k in (s', match r with None => RNone | Some e => RVal (eval e) end)
  | OFindKey k => let '(s', r) := lookup cmp s k in (s', okey r)
  | OContains k => let '(s', r) := lookup cmp s k in (s', RBool (match r with None => false | Some _ => true end))
  | ONext k => let '(s', r) := next cmp s k in (s', okv r)
  | OPrev k => let '(s', r) := prev cmp s k in (s', okv r)
  | OMin => (s, okey (min s))
  | OMax => (s, okey (max s))
  | OLen => (s, RNat (len s))
  | OIsEmpty => (s, RBool (is_empty s))
  | OClear => (clear s, RNone)
  | OExtend kvs => (extend cmp s kvs, RNone)
  | OIntoIter dirs => (mkT Leaf 0 (next_id s), RIter (drain (into_iter s) dirs))
  end.

Fixpoint run (s : Splay.t K V) (ops : list op) : list out :=
  match ops with
  | [] => []
  | o :: rest => let '(s', r) := step s o in r :: run s' rest
  end.

(** ** Reference: strictly sorted association list *)
Definition spec := list (K * V).

Fixpoint sp_find (m : spec) (k : K) : option (K * V) :=
  match m with
  | [] => None
  | (k', v') :: rest => match cmp k k' with Eq => Some (k', v') | _ => sp_find rest k end
  end.

Fixpoint sp_insert (m : spec) (k : K) (v : V) : spec :=
  match m with
  | [] => [(k, v)]
  | (k', v') :: rest =>
      match cmp k k' with
      | Eq => (k', v) :: rest
      | Lt => (k, v) :: (k', v') :: rest
      | Gt => (k', v') :: sp_insert rest k v
      end
  end.

Fixpoint sp_remove (m : spec) (k : K) : spec :=
  match m with
  | [] => []
  | (k', v') :: rest => match cmp k k' with Eq => rest | _ => (k', v') :: sp_remove rest k end
  end.

(** first entry with key greater than [k] *)
Fixpoint sp_next (m : spec) (k : K) : option (K * V) :=
  match m with
  | [] => None
  | (k', v') :: rest => match cmp k k' with Lt => Some (k', v') | _ => sp_next rest k end
  end.

(** last entry with key smaller than [k] *)
Fixpoint sp_prev (m : spec) (k : K) (best : option (K * V)) : option (K * V) :=
  match m with
  | [] => best
  | (k', v') :: rest => match cmp k k' with Gt => sp_prev rest k (Some (k', v')) | _ => best end
  end.

Definition sp_kv (o : option (K * V)) : out := match o with None => RNone | Some (k, v) => RKV k v end.
Definition sp_key (o : option (K * V)) : out := match o with None => RNone | Some (k, _) => RKey k end.
Definition sp_val (o : option (K * V)) : out := match o with None => RNone | Some (_, v) => RVal v end.

(** double-ended consumption of a list *)
Fixpoint sp_drain (m : spec) (dirs : list bool) : list (option (K * V) * nat) :=
  match dirs with
  | [] => []
  | d :: ds =>
      match m with
      | [] => (None, 0) :: sp_drain [] ds
      | x :: rest =>
          if d then (Some x, length rest) :: sp_drain rest ds
          else (Some (last m x), length rest) :: sp_drain (removelast m) ds
      end
  end.

Definition sp_step (m : spec) (o : op) : spec * out :=
  match o with
  | OInsert k v => (sp_insert m k v, sp_val (sp_find m k))
  | ORemove k => (sp_remove m k, sp_val (sp_find m k))
  | OGet k => (m, sp_val (sp_find m k))
  | OFindKey k => (m, sp_key (sp_find m k))
  | OContains k => (m, RBool (match sp_find m k with None => false | Some _ => true end))
  | ONext k => (m, sp_kv (sp_next m k))
  | OPrev k => (m, sp_kv (sp_prev m k None))
  | OMin => (m, sp_key (hd_error m))
  | OMax => (m, sp_key (match m with [] => None | x :: _ => Some (last m x) end))
  | OLen => (m, RNat (length m))
  | OIsEmpty => (m, RBool (match m with [] => true | _ => false end))
  | OClear => ([], RNone)
  | OExtend kvs => (fold_left (fun acc kv => sp_insert acc (fst kv) (snd kv)) kvs m, RNone)
  | OIntoIter dirs => ([], RIter (sp_drain m dirs))
  end.

Fixpoint sp_run (m : spec) (ops : list op) : list out :=
  match ops with
  | [] => []
  | o :: rest => let '(m', r) := sp_step m o in r :: sp_run m' rest
  end.

Definition abs (s : Splay.t K V) : spec := map (fun e => (ekey e, eval e)) (inorder (root s)).

End Ops.
