(** * The bounding-box shortcut returns the region the operation names (exact instance).

    For operands with rational coordinates whose vertices all are start points of
    non-collapsed edges (closed rings without repeated consecutive vertices are of that
    kind) and whose polygon reading equals their even-odd reading: when the boxes
    [fill_queue] computes are disjoint, [boolean_operation] returns — for every event
    budget — a multipolygon whose polygon reading is, at EVERY point of the plane, the
    operation applied to the even-odd readings of the operands. *)
From Coq Require Import QArith Lqa Lia Bool List Arith.
From GB Require Import Num NumQ NumLawsQ IntersectProofs Event Outcome FillQueue BoolOp TrivialProofs
  Slab Scene SlabProofs Cert BoxRegion ChainProofs.
Import ListNotations.
Local Open Scope Q_scope.

Definition fin_pt (p : pt NQ) : Prop := exists x y, p = mkPt NQ (QF x) (QF y).

Lemma conv_Q_fin p q : conv_Q p = Some q -> p = mkPt NQ (QF (Slab.qx q)) (QF (qy q)).
Proof.
  destruct p as [[x| | |] [y| | |]]; cbn; intros H; inversion H; reflexivity.
Qed.

(** ** the box of a non-empty list of finite points is finite and contains them *)
Definition fbox (x0 y0 x1 y1 : Q) : bounding_box NQ := mkBB NQ (QF x0) (QF y0) (QF x1) (QF y1).

Lemma bb_add_fbox x0 y0 x1 y1 x y :
  bb_add (fbox x0 y0 x1 y1) (mkPt NQ (QF x) (QF y)) = fbox (qmin x0 x) (qmin y0 y) (qmax x1 x) (qmax y1 y).
Proof. unfold bb_add, fbox; cbn -[qx_min qx_max]. now rewrite !qx_min_FF, !qx_max_FF. Qed.

Lemma bb_add_empty x y : bb_add (empty_bb NQ) (mkPt NQ (QF x) (QF y)) = fbox x y x y.
Proof. reflexivity. Qed.

Lemma fold_fbox : forall (l : list (pt NQ)) x0 y0 x1 y1, Forall fin_pt l -> x0 <= x1 -> y0 <= y1 ->
  exists u0 v0 u1 v1, fold_left (bb_add (N:=NQ)) l (fbox x0 y0 x1 y1) = fbox u0 v0 u1 v1 /\
    u0 <= x0 /\ v0 <= y0 /\ x1 <= u1 /\ y1 <= v1 /\
    forall x y, In (mkPt NQ (QF x) (QF y)) l -> u0 <= x <= u1 /\ v0 <= y <= v1.
Proof.
  induction l as [|p l IH]; intros x0 y0 x1 y1 HF Hx Hy; cbn [fold_left].
  - exists x0, y0, x1, y1. split; [reflexivity|]. repeat (split; [lra|]). intros x2 y2 [] .
  - inversion HF as [|p' l' Hp HF']; subst. destruct Hp as (x & y & ->). rewrite bb_add_fbox.
    destruct (qmin_spec x0 x) as [[A1 ->]|[A1 ->]], (qmin_spec y0 y) as [[A2 ->]|[A2 ->]],
             (qmax_spec x1 x) as [[A3 ->]|[A3 ->]], (qmax_spec y1 y) as [[A4 ->]|[A4 ->]];
      match goal with
      | |- context [fold_left _ l (fbox ?a ?b ?c ?d)] =>
          destruct (IH a b c d HF' ltac:(lra) ltac:(lra)) as (u0 & v0 & u1 & v1 & E & B1 & B2 & B3 & B4 & C)
      end; exists u0, v0, u1, v1; (split; [exact E|]); repeat split; try lra;
      match goal with K : In _ (_ :: l) |- _ => destruct K as [K|K]; [inversion K; subst; lra | destruct (C _ _ K); lra] end.
Qed.

Lemma fold_box_nonempty (l : list (pt NQ)) : l <> [] -> Forall fin_pt l ->
  exists u0 v0 u1 v1, fold_left (bb_add (N:=NQ)) l (empty_bb NQ) = fbox u0 v0 u1 v1 /\
    forall x y, In (mkPt NQ (QF x) (QF y)) l -> u0 <= x <= u1 /\ v0 <= y <= v1.
Proof.
  destruct l as [|p l]; [congruence|]. intros _ HF. inversion HF as [|p' l' Hp HF']; subst. destruct Hp as (x & y & ->).
  cbn [fold_left]. rewrite bb_add_empty.
  destruct (fold_fbox l x y x y HF' ltac:(lra) ltac:(lra)) as (u0 & v0 & u1 & v1 & E & B1 & B2 & B3 & B4 & C).
  exists u0, v0, u1, v1. split; [exact E|]. intros x' y' [K|K]; [inversion K; subst; lra | now apply C].
Qed.

Lemma boxes_disjoint_fbox a0 b0 a1 b1 c0 d0 c1 d1 :
  boxes_disjoint (fbox a0 b0 a1 b1) (fbox c0 d0 c1 d1) = true ->
  c1 < a0 \/ a1 < c0 \/ d1 < b0 \/ b1 < d0.
Proof.
  unfold boxes_disjoint, fbox, gtX, gtY; cbn -[qx_lt]. rewrite !orb_true_iff, !qx_lt_FF. tauto.
Qed.

(** ** two sets of rings inside disjoint boxes have disjoint even-odd regions *)
Theorem disjoint_boxes_disjoint_regions (a b : list Slab.ring) a0 b0 a1 b1 c0 d0 c1 d1 :
  (forall r v, In r a -> In v r -> in_box a0 b0 a1 b1 v) ->
  (forall r v, In r b -> In v r -> in_box c0 d0 c1 d1 v) ->
  c1 < a0 \/ a1 < c0 \/ d1 < b0 \/ b1 < d0 ->
  forall p, inside_eo a p && inside_eo b p = false.
Proof.
  intros Ha Hb Hd p.
  destruct (inside_eo a p) eqn:Ea; [|reflexivity]. destruct (inside_eo b p) eqn:Eb; [|reflexivity]. exfalso.
  assert (Pa : in_box a0 b0 a1 b1 p).
  { destruct (Qlt_le_dec (Slab.qx p) a0); [|destruct (Qlt_le_dec a1 (Slab.qx p)); [|destruct (Qlt_le_dec (qy p) b0);
      [|destruct (Qlt_le_dec b1 (qy p)); [|unfold in_box; lra]]]];
      rewrite (outside_box_outside_region a a0 b0 a1 b1 p Ha) in Ea; try discriminate; unfold in_box; lra. }
  assert (Pb : in_box c0 d0 c1 d1 p).
  { destruct (Qlt_le_dec (Slab.qx p) c0); [|destruct (Qlt_le_dec c1 (Slab.qx p)); [|destruct (Qlt_le_dec (qy p) d0);
      [|destruct (Qlt_le_dec d1 (qy p)); [|unfold in_box; lra]]]];
      rewrite (outside_box_outside_region b c0 d0 c1 d1 p Hb) in Eb; try discriminate; unfold in_box; lra. }
  unfold in_box in Pa, Pb. lra.
Qed.

(** ** the operands of the model and their rational images *)
Definition ring_vertices (P : FillQueue.polygon NQ) : list (pt NQ) := exterior P ++ concat (interiors P).
Definition all_vertices (A : list (FillQueue.polygon NQ)) : list (pt NQ) := flat_map ring_vertices A.

(** every vertex is the start point of a non-collapsed edge (true of closed rings without
    repeated consecutive vertices, see [closed_ring_vertices_are_starts]) *)
Definition vertices_are_starts (A : list (FillQueue.polygon NQ)) : Prop :=
  forall v, In v (all_vertices A) -> In v (starts_of A).

Lemma omap_In {T U : Type} (f : T -> option U) : forall l l' y,
  omap f l = Some l' -> In y l' -> exists x, In x l /\ f x = Some y.
Proof.
  induction l as [|x l IH]; intros l' y H Hy; cbn in H.
  - inversion H; subst. destruct Hy.
  - destruct (f x) as [z|] eqn:Fx; [|discriminate]. destruct (omap f l) as [zs|] eqn:Fl; [|discriminate].
    inversion H; subst. destruct Hy as [<-|Hy].
    + exists x. split; [now left | exact Fx].
    + destruct (IH zs y eq_refl Hy) as (x' & Hx' & E). exists x'. split; [now right | exact E].
Qed.

Lemma starts_from_In : forall (rest : FillQueue.ring NQ) prev s, In s (starts_from prev rest) -> In s (prev :: rest).
Proof.
  induction rest as [|p rest IH]; intros prev s H; cbn [starts_from] in H; [destruct H|].
  destruct (pt_eq prev p).
  - right. apply IH, H.
  - destruct H as [<-|H]; [now left | right; apply IH, H].
Qed.
Lemma starts_of_ring_In (r : FillQueue.ring NQ) s : In s (starts_of_ring r) -> In s r.
Proof. destruct r as [|p rest]; [intros []|]. apply starts_from_In. Qed.
Lemma starts_of_In (A : list (FillQueue.polygon NQ)) s : In s (starts_of A) -> In s (all_vertices A).
Proof.
  unfold starts_of, all_vertices. intros H. apply in_flat_map in H. destruct H as (P & HP & H).
  apply in_flat_map. exists P. split; [exact HP|]. unfold starts_of_polygon in H. unfold ring_vertices.
  apply in_app_or in H. apply in_or_app. destruct H as [H|H].
  - left. now apply starts_of_ring_In.
  - right. apply in_flat_map in H. destruct H as (r & Hr & H). apply in_concat. exists r. split; [exact Hr|].
    now apply starts_of_ring_In.
Qed.

(** the vertices of the rational image come from vertices of the operand *)
Lemma image_vertices (A : list (FillQueue.polygon NQ)) (ra : list qpolygon) :
  mpoly_q NQ conv_Q A = Some ra ->
  forall r' v', In r' (rings_of ra) -> In v' r' -> exists v, In v (all_vertices A) /\ conv_Q v = Some v'.
Proof.
  unfold mpoly_q. intros H r' v' Hr Hv. unfold rings_of in Hr. apply in_flat_map in Hr.
  destruct Hr as (Pq & HPq & Hr).
  destruct (omap_In _ _ _ _ H HPq) as (P & HP & EP). unfold polygon_q in EP.
  destruct (ring_q NQ conv_Q (exterior P)) as [e|] eqn:Ee; [|discriminate].
  destruct (omap (ring_q NQ conv_Q) (interiors P)) as [hs|] eqn:Eh; [|discriminate].
  inversion EP; subst Pq. cbn [q_ext q_holes] in Hr.
  assert (G : exists v, In v (ring_vertices P) /\ conv_Q v = Some v').
  { unfold ring_vertices. destruct Hr as [<-|Hr].
    - destruct (omap_In _ _ _ _ Ee Hv) as (v & Hin & E). exists v. split; [apply in_or_app; now left | exact E].
    - destruct (omap_In _ _ _ _ Eh Hr) as (r & Hin & Er). unfold ring_q in Er.
      destruct (omap_In _ _ _ _ Er Hv) as (v & Hin' & E). exists v. split; [|exact E].
      apply in_or_app. right. apply in_concat. exists r. split; assumption. }
  destruct G as (v & Hin & E). exists v. split; [|exact E]. unfold all_vertices. apply in_flat_map. exists P. split; assumption.
Qed.

Lemma image_fin (A : list (FillQueue.polygon NQ)) (ra : list qpolygon) :
  mpoly_q NQ conv_Q A = Some ra -> Forall fin_pt (all_vertices A).
Proof.
  unfold mpoly_q, all_vertices. revert ra. induction A as [|P A IH]; intros ra H; cbn [flat_map]; [constructor|].
  cbn [omap] in H. destruct (polygon_q NQ conv_Q P) as [Pq|] eqn:EP; [|discriminate].
  destruct (omap (polygon_q NQ conv_Q) A) as [ra'|] eqn:EA; [|discriminate].
  apply Forall_app. split; [|eapply IH; reflexivity].
  unfold polygon_q in EP.
  destruct (ring_q NQ conv_Q (exterior P)) as [e|] eqn:Ee; [|discriminate].
  destruct (omap (ring_q NQ conv_Q) (interiors P)) as [hs|] eqn:Eh; [|discriminate].
  assert (R : forall (r : FillQueue.ring NQ) r', ring_q NQ conv_Q r = Some r' -> Forall fin_pt r).
  { unfold ring_q. induction r as [|v r IHr]; intros r' Hr; [constructor|]. cbn [omap] in Hr.
    destruct (conv_Q v) as [q|] eqn:Ev; [|discriminate]. destruct (omap conv_Q r) as [rr|] eqn:Er; [|discriminate].
    constructor; [|eapply IHr; reflexivity]. rewrite (conv_Q_fin _ _ Ev). now eexists; eexists. }
  unfold ring_vertices. apply Forall_app. split; [eapply R; exact Ee|].
  clear Ee EP. revert hs Eh. induction (interiors P) as [|r rs IHrs]; intros hs Eh; cbn [concat]; [constructor|].
  cbn [omap] in Eh. destruct (ring_q NQ conv_Q r) as [r'|] eqn:Er; [|discriminate].
  destruct (omap (ring_q NQ conv_Q) rs) as [hs'|] eqn:Ers; [|discriminate].
  apply Forall_app. split; [eapply R; exact Er | eapply IHrs; reflexivity].
Qed.

(** the rational image of an operand lies in the box [fill_queue] computes for it — or the
    operand has no vertex at all *)
Lemma image_in_box (A : list (FillQueue.polygon NQ)) (ra : list qpolygon) :
  mpoly_q NQ conv_Q A = Some ra -> vertices_are_starts A ->
  (forall r' v', In r' (rings_of ra) -> ~ In v' r') \/
  exists x0 y0 x1 y1, fold_left (bb_add (N:=NQ)) (starts_of A) (empty_bb NQ) = fbox x0 y0 x1 y1 /\
     forall r' v', In r' (rings_of ra) -> In v' r' -> in_box x0 y0 x1 y1 v'.
Proof.
  intros Hra Hvs. destruct (starts_of A) as [|s0 ss] eqn:Est.
  - left. intros r' v' Hr Hv. destruct (image_vertices A ra Hra r' v' Hr Hv) as (v & Hin & _).
    specialize (Hvs v Hin). rewrite Est in Hvs. destruct Hvs.
  - right.
    assert (HF : Forall fin_pt (s0 :: ss)).
    { rewrite <- Est. apply Forall_forall. intros s Hs.
      pose proof (image_fin A ra Hra) as F. rewrite Forall_forall in F. apply F, starts_of_In, Hs. }
    destruct (fold_box_nonempty (s0 :: ss) ltac:(discriminate) HF) as (x0 & y0 & x1 & y1 & E & C).
    exists x0, y0, x1, y1. split; [exact E|]. intros r' v' Hr Hv.
    destruct (image_vertices A ra Hra r' v' Hr Hv) as (v & Hin & Ev).
    specialize (Hvs v Hin). rewrite Est in Hvs. rewrite (conv_Q_fin _ _ Ev) in Hvs.
    unfold in_box. apply C. exact Hvs.
Qed.

Lemma no_vertices_outside (rs : list Slab.ring) p : (forall r v, In r rs -> ~ In v r) -> inside_eo rs p = false.
Proof.
  intros H. unfold inside_eo, crossings.
  replace (flat_map ring_edges rs) with (@nil edge); [reflexivity|].
  symmetry. induction rs as [|r rs IH]; [reflexivity|]. cbn [flat_map].
  destruct r as [|v r]; [cbn; apply IH; intros r' v' Hr'; apply H; now right|].
  exfalso. apply (H (v :: r) v); now left.
Qed.

Lemma inside_mpoly_app R1 R2 p : inside_mpoly (R1 ++ R2) p = inside_mpoly R1 p || inside_mpoly R2 p.
Proof. unfold inside_mpoly. apply existsb_app. Qed.

(** C01 / C06 / C09 on the domain of the bounding-box shortcut, for EVERY point of the plane *)
Theorem shortcut_returns_named_region cfg fuel (A B : list (FillQueue.polygon NQ)) (op : operation)
        (ra rb : list qpolygon) :
  c_noshort cfg = false ->
  mpoly_q NQ conv_Q A = Some ra -> mpoly_q NQ conv_Q B = Some rb ->
  vertices_are_starts A -> vertices_are_starts B ->
  boxes_disjoint (f_sbbox (fill_queue A B op)) (f_cbbox (fill_queue A B op)) = true ->
  exists R r,
    boolean_operation cfg fuel A B op = Ok R /\ mpoly_q NQ conv_Q R = Some r /\
    forall p,
      inside_mpoly ra p = inside_eo (rings_of ra) p -> inside_mpoly rb p = inside_eo (rings_of rb) p ->
      inside_mpoly r p = sem_op (bop_of op) (inside_eo (rings_of ra) p) (inside_eo (rings_of rb) p).
Proof.
  intros Hs Hra Hrb VA VB Hdis.
  assert (Disj : forall p, inside_eo (rings_of ra) p && inside_eo (rings_of rb) p = false).
  { rewrite fill_queue_sbbox, fill_queue_cbbox in Hdis.
    destruct (image_in_box A ra Hra VA) as [NA|(a0 & b0 & a1 & b1 & EA & CA)].
    { intros p. now rewrite (no_vertices_outside _ p NA). }
    destruct (image_in_box B rb Hrb VB) as [NB|(c0 & d0 & c1 & d1 & EB & CB)].
    { intros p. rewrite (no_vertices_outside _ p NB). apply andb_false_r. }
    rewrite EA, EB in Hdis. apply boxes_disjoint_fbox in Hdis.
    exact (disjoint_boxes_disjoint_regions _ _ _ _ _ _ _ _ _ _ CA CB Hdis). }
  exists (trivial_result A B op).
  assert (Hres : exists r, mpoly_q NQ conv_Q (trivial_result A B op) = Some r /\
            forall p, inside_mpoly r p =
              match op with
              | Intersection => false
              | Difference => inside_mpoly ra p
              | _ => inside_mpoly ra p || inside_mpoly rb p
              end).
  { destruct op; cbn [trivial_result].
    - exists []. split; [reflexivity|]. reflexivity.
    - exists ra. split; [exact Hra|]. reflexivity.
    - exists (ra ++ rb). split; [unfold mpoly_q in *; now apply ChainProofs.omap_app | apply inside_mpoly_app].
    - exists (ra ++ rb). split; [unfold mpoly_q in *; now apply ChainProofs.omap_app | apply inside_mpoly_app]. }
  destruct Hres as (r & Hr & Hin). exists r. split; [now apply disjoint_boxes_trivial|]. split; [exact Hr|].
  intros p HA HB. rewrite Hin, HA, HB. specialize (Disj p).
  destruct op, (inside_eo (rings_of ra) p), (inside_eo (rings_of rb) p); cbn in *; congruence.
Qed.

(** ** closed rings without repeated consecutive vertices: every vertex is a start point *)
Fixpoint no_rep (prev : pt NQ) (rest : FillQueue.ring NQ) : Prop :=
  match rest with
  | [] => True
  | p :: rest' => pt_eq prev p = false /\ no_rep p rest'
  end.

Definition ring_ok (r : FillQueue.ring NQ) : Prop :=
  match r with
  | [] => True
  | p0 :: rest => rest <> [] /\ last rest p0 = p0 /\ no_rep p0 rest
  end.

Lemma starts_from_no_rep : forall rest prev, no_rep prev rest -> starts_from prev rest = removelast (prev :: rest).
Proof.
  induction rest as [|p rest IH]; intros prev H; [reflexivity|].
  destruct H as [H1 H2]. cbn [starts_from]. rewrite H1, (IH p H2). reflexivity.
Qed.

Lemma in_removelast_or_last {T} (l : list T) d v : In v l -> In v (removelast l) \/ v = last l d.
Proof.
  induction l as [|a l IH]; [intros []|]. intros [<-|H].
  - destruct l; [right; reflexivity | left; now left].
  - destruct l as [|b l]; [destruct H|]. destruct (IH H) as [K|K].
    + left. cbn [removelast]. right. exact K.
    + right. exact K.
Qed.

Lemma ring_ok_vertices_are_starts (r : FillQueue.ring NQ) v : ring_ok r -> In v r -> In v (starts_of_ring r).
Proof.
  destruct r as [|p0 rest]; [intros _ []|]. intros (Hne & Hlast & Hnr) Hv. cbn [starts_of_ring].
  rewrite (starts_from_no_rep rest p0 Hnr).
  destruct (in_removelast_or_last (p0 :: rest) p0 v Hv) as [K|K]; [exact K|].
  assert (E : last (p0 :: rest) p0 = p0).
  { destruct rest as [|q rest']; [congruence|]. exact Hlast. }
  rewrite E in K. subst v. destruct rest as [|q rest']; [congruence|]. now left.
Qed.

Definition polygon_ok (P : FillQueue.polygon NQ) : Prop := ring_ok (exterior P) /\ Forall ring_ok (interiors P).

Theorem closed_rings_vertices_are_starts (A : list (FillQueue.polygon NQ)) :
  Forall polygon_ok A -> vertices_are_starts A.
Proof.
  intros HA v Hv. unfold all_vertices in Hv. apply in_flat_map in Hv. destruct Hv as (P & HP & Hv).
  rewrite Forall_forall in HA. destruct (HA P HP) as [He Hi].
  unfold starts_of. apply in_flat_map. exists P. split; [exact HP|].
  unfold ring_vertices in Hv. unfold starts_of_polygon. apply in_app_or in Hv. apply in_or_app.
  destruct Hv as [Hv|Hv].
  - left. now apply ring_ok_vertices_are_starts.
  - right. apply in_concat in Hv. destruct Hv as (r & Hr & Hv). apply in_flat_map. exists r. split; [exact Hr|].
    rewrite Forall_forall in Hi. apply ring_ok_vertices_are_starts; auto.
Qed.

(** non-vacuity: two unit squares with disjoint boxes (closed, no repeated vertices) *)
Example shortcut_example :
  Forall polygon_ok [sqA] /\ Forall polygon_ok [sqB] /\
  boxes_disjoint (f_sbbox (fill_queue [sqA] [sqB] Union)) (f_cbbox (fill_queue [sqA] [sqB] Union)) = true /\
  exists ra rb, mpoly_q NQ conv_Q [sqA] = Some ra /\ mpoly_q NQ conv_Q [sqB] = Some rb.
Proof.
  split; [|split; [|split]].
  - repeat constructor; cbn; try congruence; reflexivity.
  - repeat constructor; cbn; try congruence; reflexivity.
  - vm_compute. reflexivity.
  - eexists; eexists; split; vm_compute; reflexivity.
Qed.

(** ** the early termination of the sweep (C09): right of the bound nothing belongs to the result *)
Theorem nothing_right_of_bound_intersection (a b : list Slab.ring) a0 b0 a1 b1 c0 d0 c1 d1 p :
  (forall r v, In r a -> In v r -> in_box a0 b0 a1 b1 v) ->
  (forall r v, In r b -> In v r -> in_box c0 d0 c1 d1 v) ->
  (a1 < Slab.qx p \/ c1 < Slab.qx p) ->
  inside_eo a p && inside_eo b p = false.
Proof.
  intros Ha Hb [H|H].
  - rewrite (outside_box_outside_region a a0 b0 a1 b1 p Ha); [reflexivity | unfold in_box; lra].
  - rewrite (outside_box_outside_region b c0 d0 c1 d1 p Hb); [apply andb_false_r | unfold in_box; lra].
Qed.

Theorem nothing_right_of_bound_difference (a b : list Slab.ring) a0 b0 a1 b1 p :
  (forall r v, In r a -> In v r -> in_box a0 b0 a1 b1 v) ->
  a1 < Slab.qx p -> inside_eo a p && negb (inside_eo b p) = false.
Proof.
  intros Ha H. rewrite (outside_box_outside_region a a0 b0 a1 b1 p Ha); [reflexivity | unfold in_box; lra].
Qed.
