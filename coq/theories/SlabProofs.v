(** * Soundness of the slab checker ([Slab.v]) and of the scene checker ([Scene.v]).

    Main results (all closed under the global context):
    - [slab_check_sound]
    - [check_scene_sound]
    - [cert01_sound], [cert02_reading_sound]
    - [clear_edges_of], [scene01_edges], [scene02_edges] (readable form of clearness) *)
From Coq Require Import QArith Lqa Lia Bool List Arith Permutation.
From GB Require Import Slab Scene.
Import ListNotations.
Local Open Scope Q_scope.

(** ** Boolean comparisons over [Q] *)
Lemma Qltb_lt a b : Qltb a b = true <-> a < b.
Proof.
  unfold Qltb. rewrite negb_true_iff. split; intro H.
  - apply Qnot_le_lt. intro H1. apply Qle_bool_iff in H1. congruence.
  - destruct (Qle_bool b a) eqn:E; auto.
    apply Qle_bool_iff in E. apply Qlt_not_le in H. contradiction.
Qed.

Lemma Qltb_ge a b : Qltb a b = false <-> b <= a.
Proof.
  unfold Qltb. rewrite negb_false_iff. apply Qle_bool_iff.
Qed.

Lemma spans_iff e x : spans e x = true <-> lx e <= x /\ x < rx e.
Proof.
  unfold spans. rewrite andb_true_iff, Qle_bool_iff, Qltb_lt. tauto.
Qed.

Lemma vertical_no_span e x : vertical e = true -> spans e x = false.
Proof.
  unfold vertical. intro H. apply Qeq_bool_iff in H.
  destruct (spans e x) eqn:E; auto.
  apply spans_iff in E. destruct E as [E1 E2]. lra.
Qed.

(** ** [y_at] is affine *)
Lemma y_at_affine e x u v :
  y_at e x * (v - u) == y_at e u * (v - x) + y_at e v * (x - u).
Proof.
  unfold y_at. generalize (slope e) (qy (el e)) (lx e). intros m y0 x0. ring.
Qed.

Lemma order_inside a b u v x :
  u <= x -> x <= v -> u < v ->
  y_at a u <= y_at b u -> y_at a v <= y_at b v -> y_at a x <= y_at b x.
Proof.
  intros Hu Hv Huv Ou Ov.
  pose proof (y_at_affine a x u v) as Ea. pose proof (y_at_affine b x u v) as Eb.
  revert Ou Ov Ea Eb.
  generalize (y_at a u) (y_at a v) (y_at a x) (y_at b u) (y_at b v) (y_at b x).
  intros au av ax bu bv bx Ou Ov Ea Eb.
  assert (H : 0 <= (bx - ax) * (v - u)) by nra.
  nra.
Qed.

Lemma gap_strict a b u v x :
  u < v -> y_at a u <= y_at b u -> y_at a v <= y_at b v -> y_at a x < y_at b x ->
  y_at a u < y_at b u \/ y_at a v < y_at b v.
Proof.
  intros Huv Ou Ov Hx.
  destruct (Qlt_le_dec (y_at a u) (y_at b u)) as [H|H]; [left; exact H|].
  destruct (Qlt_le_dec (y_at a v) (y_at b v)) as [H'|H']; [right; exact H'|].
  exfalso.
  pose proof (y_at_affine a x u v) as Ea. pose proof (y_at_affine b x u v) as Eb.
  revert Ou Ov Hx H H' Ea Eb.
  generalize (y_at a u) (y_at a v) (y_at a x) (y_at b u) (y_at b v) (y_at b x).
  intros au av ax bu bv bx Ou Ov Hx H H' Ea Eb.
  assert (Eu : bu == au) by lra. assert (Ev : bv == av) by lra.
  assert (E : (bx - ax) * (v - u) == 0).
  { setoid_replace ((bx - ax) * (v - u)) with (bx * (v - u) - ax * (v - u)) by ring.
    rewrite Ea, Eb, Eu, Ev. ring. }
  nra.
Qed.

(** ** generic list facts *)
Lemma filter_filter_sub {A} (f g : A -> bool) l :
  (forall x, In x l -> f x = true -> g x = true) -> filter f (filter g l) = filter f l.
Proof.
  induction l as [|a tl IH]; intro H; [reflexivity|].
  cbn [filter]. destruct (g a) eqn:G.
  - cbn [filter]. rewrite IH; [reflexivity|]. intros x Hx. apply H. right; exact Hx.
  - destruct (f a) eqn:F.
    + rewrite (H a (or_introl eq_refl) F) in G. discriminate.
    + apply IH. intros x Hx. apply H. right; exact Hx.
Qed.

Lemma perm_filter_length {A} (f : A -> bool) l l' :
  Permutation l l' -> length (filter f l) = length (filter f l').
Proof.
  induction 1 as [|x l l' _ IH|x y l|l l' l'' _ IH1 _ IH2].
  - reflexivity.
  - cbn [filter]. destruct (f x); cbn [length]; congruence.
  - cbn [filter]. destruct (f x), (f y); reflexivity.
  - congruence.
Qed.

Lemma last_default {A} (l : list A) a d d' : last (a :: l) d = last (a :: l) d'.
Proof.
  revert a. induction l as [|b tl IH]; intro a; [reflexivity|].
  change (last (b :: tl) d = last (b :: tl) d'). apply IH.
Qed.

(** ** counting *)
Lemma count_below_none es p t :
  (forall te, In te es -> below (snd te) p = false) -> count_below es p t = 0%nat.
Proof.
  unfold count_below. induction es as [|a tl IH]; intro H; [reflexivity|].
  cbn [filter]. rewrite (H a (or_introl eq_refl)), andb_false_r.
  apply IH. intros te Hte. apply H. right; exact Hte.
Qed.

Lemma no_span_par es p :
  (forall te, In te es -> spans (snd te) (qx p) = false) -> forall t, par es p t = false.
Proof.
  intros H t. unfold par. rewrite count_below_none; [reflexivity|].
  intros te Hte. unfold below. rewrite (H te Hte). reflexivity.
Qed.

(** ** insertion sort is a permutation *)
Lemma insert_at_perm x a l : Permutation (insert_at x a l) (a :: l).
Proof.
  induction l as [|b tl IH]; cbn [insert_at]; [reflexivity|].
  destruct (Qle_bool (y_at (snd a) x) (y_at (snd b) x)); [reflexivity|].
  rewrite IH. apply perm_swap.
Qed.

Lemma sort_at_perm x l : Permutation (sort_at x l) l.
Proof.
  unfold sort_at. induction l as [|a tl IH]; cbn [fold_right]; [constructor|].
  rewrite insert_at_perm. constructor. exact IH.
Qed.

(** ** neighbour order at both ends gives order at every abscissa of the slab *)
Lemma sorted_at_cons2 x a b tl :
  sorted_at x (a :: b :: tl) = Qle_bool (y_at (snd a) x) (y_at (snd b) x) && sorted_at x (b :: tl).
Proof. reflexivity. Qed.

Lemma sorted_at_tail x a l : sorted_at x (a :: l) = true -> sorted_at x l = true.
Proof.
  destruct l as [|b tl]; [reflexivity|].
  rewrite sorted_at_cons2. intro H. apply andb_true_iff in H. tauto.
Qed.

Lemma sorted_at_head x a b tl :
  sorted_at x (a :: b :: tl) = true -> y_at (snd a) x <= y_at (snd b) x.
Proof.
  rewrite sorted_at_cons2. intro H. apply andb_true_iff in H. apply Qle_bool_iff. tauto.
Qed.

Lemma sorted_head_le u v x :
  u <= x -> x <= v -> u < v ->
  forall l a, sorted_at u (a :: l) = true -> sorted_at v (a :: l) = true ->
  forall te, In te l -> y_at (snd a) x <= y_at (snd te) x.
Proof.
  intros Hu Hv Huv. induction l as [|b tl IH]; intros a Su Sv te Hin; [destruct Hin|].
  assert (Hab : y_at (snd a) x <= y_at (snd b) x).
  { apply (order_inside (snd a) (snd b) u v x Hu Hv Huv).
    - exact (sorted_at_head _ _ _ _ Su).
    - exact (sorted_at_head _ _ _ _ Sv). }
  destruct Hin as [<-|Hin]; [exact Hab|].
  apply Qle_trans with (y_at (snd b) x); [exact Hab|].
  apply IH; auto; eapply sorted_at_tail; eassumption.
Qed.

(** ** the invariant of [check_gaps] *)
Lemma gaps_inv u v (pred : (nat -> bool) -> bool) p :
  u <= qx p -> qx p < v ->
  forall l acc prev,
  sorted_at u l = true -> sorted_at v l = true ->
  (forall b, prev = Some b ->
     y_at b (qx p) < qy p /\
     match l with
     | a :: _ => y_at b u <= y_at (snd a) u /\ y_at b v <= y_at (snd a) v
     | [] => True
     end) ->
  (forall te, In te l -> spans (snd te) (qx p) = true /\ ~ y_at (snd te) (qx p) == qy p) ->
  check_gaps u v pred acc prev l = true ->
  exists L, pred (parity_of L) = true /\
    forall t, count_occ Nat.eq_dec L t = (count_occ Nat.eq_dec acc t + count_below l p t)%nat.
Proof.
  intros Hu Hv. assert (Huv : u < v) by lra. assert (Hv' : qx p <= v) by lra.
  induction l as [|a tl IH]; intros acc prev Su Sv Hprev Hall Hc.
  - cbn [check_gaps] in Hc. exists acc. split; [exact Hc|].
    intro t. unfold count_below. cbn [filter length]. lia.
  - cbn [check_gaps] in Hc. apply andb_true_iff in Hc. destruct Hc as [Hc1 Hc2].
    destruct (Hall a (or_introl eq_refl)) as [Hsp Hne].
    destruct (Qlt_le_dec (y_at (snd a) (qx p)) (qy p)) as [Hlt|Hge].
    + (* [a] is below [p] *)
      destruct (IH (fst a :: acc) (Some (snd a))) as [L [HL1 HL2]].
      * eapply sorted_at_tail; eassumption.
      * eapply sorted_at_tail; eassumption.
      * intros b Hb. injection Hb as <-. split; [exact Hlt|].
        destruct tl as [|b' tl']; [exact I|]. split.
        -- exact (sorted_at_head _ _ _ _ Su).
        -- exact (sorted_at_head _ _ _ _ Sv).
      * intros te Hte. apply Hall. right; exact Hte.
      * exact Hc2.
      * exists L. split; [exact HL1|]. intro t. rewrite HL2.
        unfold count_below. cbn [filter].
        assert (Hb : below (snd a) p = true).
        { unfold below. rewrite Hsp. apply Qltb_lt in Hlt. rewrite Hlt. reflexivity. }
        rewrite Hb, andb_true_r. cbn [count_occ].
        destruct (Nat.eq_dec (fst a) t) as [E|E].
        -- rewrite (proj2 (Nat.eqb_eq _ _) E). cbn [length]. lia.
        -- rewrite (proj2 (Nat.eqb_neq _ _) E). lia.
    + (* [a] is above [p], and so is everything after it *)
      assert (Hgt : qy p < y_at (snd a) (qx p)).
      { destruct (Qle_lt_or_eq _ _ Hge) as [H|H]; [exact H|]. exfalso. apply Hne. symmetry. exact H. }
      exists acc. split.
      * destruct prev as [b|]; [|exact Hc1].
        destruct (Hprev b eq_refl) as [Hb [Hbu Hbv]].
        assert (Hba : y_at b (qx p) < y_at (snd a) (qx p)) by lra.
        destruct (gap_strict b (snd a) u v (qx p) Huv Hbu Hbv Hba) as [G|G];
          apply Qltb_lt in G; rewrite G in Hc1.
        -- exact Hc1.
        -- rewrite orb_true_r in Hc1. exact Hc1.
      * intro t. rewrite count_below_none; [lia|].
        intros te Hte. unfold below.
        assert (Hy : qy p <= y_at (snd te) (qx p)).
        { destruct Hte as [<-|Hte]; [lra|].
          pose proof (sorted_head_le u v (qx p) Hu Hv' Huv tl a Su Sv te Hte). lra. }
        apply Qltb_ge in Hy. rewrite Hy. apply andb_false_r.
Qed.

(** ** one slab *)
Lemma slab_ok_sound es pred u v :
  (forall f g, (forall t, f t = g t) -> pred f = pred g) ->
  slab_ok es pred u v = true ->
  forall p, u <= qx p -> qx p < v -> clear es p -> pred (par es p) = true.
Proof.
  intros Hext Hok p Hu Hv Hclear.
  unfold slab_ok in Hok. apply andb_true_iff in Hok. destruct Hok as [Hnei Hok].
  cbv zeta in Hok.
  set (srt := sort_at ((u + v) / 2) (spanning es u v)) in *.
  apply andb_true_iff in Hok. destruct Hok as [Hok Hgaps].
  apply andb_true_iff in Hok. destruct Hok as [Su Sv].
  assert (Hperm : Permutation srt (spanning es u v)) by apply sort_at_perm.
  destruct (gaps_inv u v pred p Hu Hv srt [] None Su Sv) as [L [HL1 HL2]].
  - intros b Hb. discriminate.
  - intros te Hin.
    apply (Permutation_in _ Hperm) in Hin. unfold spanning in Hin.
    apply filter_In in Hin. destruct Hin as [Hin Hsp].
    apply andb_true_iff in Hsp. destruct Hsp as [Hl Hr].
    apply Qle_bool_iff in Hl. apply Qle_bool_iff in Hr.
    assert (Hspan : spans (snd te) (qx p) = true) by (apply spans_iff; lra).
    split; [exact Hspan|].
    pose proof (Hclear te Hin) as Hon. unfold on_edge in Hon. rewrite Hspan in Hon.
    cbn [andb] in Hon. intro E. apply Qeq_bool_iff in E. congruence.
  - exact Hgaps.
  - rewrite (Hext (par es p) (parity_of L)); [exact HL1|].
    intro t. unfold par, parity_of. f_equal. rewrite HL2. cbn [count_occ plus].
    unfold count_below. rewrite (perm_filter_length _ _ _ Hperm). unfold spanning.
    rewrite filter_filter_sub; [reflexivity|].
    intros te Hin Hf. apply andb_true_iff in Hf. destruct Hf as [_ Hb].
    unfold below in Hb. apply andb_true_iff in Hb. destruct Hb as [Hsp _].
    apply spans_iff in Hsp. destruct Hsp as [Hl Hr].
    unfold no_endpoint_inside in Hnei. rewrite forallb_forall in Hnei.
    pose proof (Hnei te Hin) as Hte.
    apply andb_true_iff in Hte. destruct Hte as [H1 H2].
    apply orb_true_iff in H1. apply orb_true_iff in H2.
    rewrite !Qle_bool_iff in H1. rewrite !Qle_bool_iff in H2.
    apply andb_true_iff. rewrite !Qle_bool_iff.
    split.
    + destruct H1 as [H1|H1]; [exact H1|lra].
    + destruct H2 as [H2|H2]; [lra|exact H2].
Qed.

(** ** locating the slab of an abscissa *)
Lemma locate es pred :
  forall xs x0 x, slabs_ok es pred (x0 :: xs) = true ->
  x0 <= x -> x < last (x0 :: xs) x0 ->
  exists u v, u <= x /\ x < v /\ slab_ok es pred u v = true.
Proof.
  induction xs as [|v tl IH]; intros x0 x H H0 H1.
  - cbn [last] in H1. lra.
  - change (slabs_ok es pred (x0 :: v :: tl))
      with (Qltb x0 v && slab_ok es pred x0 v && slabs_ok es pred (v :: tl)) in H.
    apply andb_true_iff in H. destruct H as [H Hs].
    apply andb_true_iff in H. destruct H as [_ Hok].
    destruct (Qlt_le_dec x v) as [Hxv|Hxv].
    + exists x0, v. auto.
    + apply (IH v x Hs Hxv).
      change (last (x0 :: v :: tl) x0) with (last (v :: tl) x0) in H1.
      rewrite (last_default tl v v x0). exact H1.
Qed.

(** ** (1) soundness of [slab_check] *)
Theorem slab_check_sound (es : list tedge) (xs : list Q) (pred : (nat -> bool) -> bool) :
  (forall f g, (forall t, f t = g t) -> pred f = pred g) ->
  slab_check es xs pred = true ->
  forall p, clear es p -> pred (par es p) = true.
Proof.
  intros Hext Hc p Hclear. unfold slab_check in Hc.
  apply andb_true_iff in Hc. destruct Hc as [Hc Hslabs].
  apply andb_true_iff in Hc. destruct Hc as [Hc Hwithin].
  apply andb_true_iff in Hc. destruct Hc as [_ Hfalse].
  assert (Hout : (forall te, In te es -> spans (snd te) (qx p) = false) -> pred (par es p) = true).
  { intro H. rewrite (Hext (par es p) (fun _ => false)); [exact Hfalse|].
    apply no_span_par. exact H. }
  destruct xs as [|x0 xs'].
  - apply Hout. intros te Hin. cbn [within] in Hwithin. rewrite forallb_forall in Hwithin.
    apply vertical_no_span. apply Hwithin. exact Hin.
  - assert (Hw : forall te, In te es ->
                 vertical (snd te) = true \/ (x0 <= lx (snd te) /\ rx (snd te) <= last (x0 :: xs') x0)).
    { intros te Hin. cbn [within] in Hwithin. rewrite forallb_forall in Hwithin.
      pose proof (Hwithin te Hin) as H. apply orb_true_iff in H.
      destruct H as [H|H]; [left; exact H|right].
      apply andb_true_iff in H. rewrite !Qle_bool_iff in H. exact H. }
    destruct (Qlt_le_dec (qx p) x0) as [Hlo|Hlo].
    + apply Hout. intros te Hin. destruct (Hw te Hin) as [H|[H1 H2]].
      * apply vertical_no_span. exact H.
      * destruct (spans (snd te) (qx p)) eqn:E; [|reflexivity].
        apply spans_iff in E. lra.
    + destruct (Qlt_le_dec (qx p) (last (x0 :: xs') x0)) as [Hhi|Hhi].
      * destruct (locate es pred xs' x0 (qx p) Hslabs Hlo Hhi) as [u [v [Hu [Hv Hok]]]].
        exact (slab_ok_sound es pred u v Hext Hok p Hu Hv Hclear).
      * apply Hout. intros te Hin. destruct (Hw te Hin) as [H|[H1 H2]].
        -- apply vertical_no_span. exact H.
        -- destruct (spans (snd te) (qx p)) eqn:E; [|reflexivity].
           apply spans_iff in E. lra.
Qed.

Print Assumptions slab_check_sound.
