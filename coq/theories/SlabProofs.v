(** * Soundness of the slab checker ([Slab.v]) and of the scene checker ([Scene.v]).

    Main results (all closed under the global context):
    - [slab_check_sound]
    - [check_scene_sound]
    - [cert01_sound], [cert02_reading_sound]
    - [clear_edges_of], [scene01_edges], [scene02_edges] (readable form of clearness) *)
From Coq Require Import QArith Lqa Lia Bool List Arith Permutation.
From GB Require Import Slab Scene.
Import ListNotations.
Local Open Scope Q_scope.

(** ** Boolean comparisons over [Q] *)
Lemma Qltb_lt a b : Qltb a b = true <-> a < b.
Proof.
  unfold Qltb. rewrite negb_true_iff. split; intro H.
  - apply Qnot_le_lt. intro H1. apply Qle_bool_iff in H1. congruence.
  - destruct (Qle_bool b a) eqn:E; auto.
    apply Qle_bool_iff in E. apply Qlt_not_le in H. contradiction.
Qed.

Lemma Qltb_ge a b : Qltb a b = false <-> b <= a.
Proof.
  unfold Qltb. rewrite negb_false_iff. apply Qle_bool_iff.
Qed.

Lemma spans_iff e x : spans e x = true <-> lx e <= x /\ x < rx e.
Proof.
  unfold spans. rewrite andb_true_iff, Qle_bool_iff, Qltb_lt. tauto.
Qed.

Lemma vertical_no_span e x : vertical e = true -> spans e x = false.
Proof.
  unfold vertical. intro H. apply Qeq_bool_iff in H.
  destruct (spans e x) eqn:E; auto.
  apply spans_iff in E. destruct E as [E1 E2]. lra.
Qed.

(** ** [y_at] is affine *)
Lemma y_at_affine e x u v :
  y_at e x * (v - u) == y_at e u * (v - x) + y_at e v * (x - u).
Proof.
  unfold y_at. generalize (slope e) (qy (el e)) (lx e). intros m y0 x0. ring.
Qed.

Lemma order_inside a b u v x :
  u <= x -> x <= v -> u < v ->
  y_at a u <= y_at b u -> y_at a v <= y_at b v -> y_at a x <= y_at b x.
Proof.
  intros Hu Hv Huv Ou Ov.
  pose proof (y_at_affine a x u v) as Ea. pose proof (y_at_affine b x u v) as Eb.
  revert Ou Ov Ea Eb.
  generalize (y_at a u) (y_at a v) (y_at a x) (y_at b u) (y_at b v) (y_at b x).
  intros au av ax bu bv bx Ou Ov Ea Eb.
  assert (H : 0 <= (bx - ax) * (v - u)) by nra.
  nra.
Qed.

Lemma gap_strict a b u v x :
  u < v -> y_at a u <= y_at b u -> y_at a v <= y_at b v -> y_at a x < y_at b x ->
  y_at a u < y_at b u \/ y_at a v < y_at b v.
Proof.
  intros Huv Ou Ov Hx.
  destruct (Qlt_le_dec (y_at a u) (y_at b u)) as [H|H]; [left; exact H|].
  destruct (Qlt_le_dec (y_at a v) (y_at b v)) as [H'|H']; [right; exact H'|].
  exfalso.
  pose proof (y_at_affine a x u v) as Ea. pose proof (y_at_affine b x u v) as Eb.
  revert Ou Ov Hx H H' Ea Eb.
  generalize (y_at a u) (y_at a v) (y_at a x) (y_at b u) (y_at b v) (y_at b x).
  intros au av ax bu bv bx Ou Ov Hx H H' Ea Eb.
  assert (Eu : bu == au) by lra. assert (Ev : bv == av) by lra.
  assert (E : (bx - ax) * (v - u) == 0).
  { setoid_replace ((bx - ax) * (v - u)) with (bx * (v - u) - ax * (v - u)) by ring.
    rewrite Ea, Eb, Eu, Ev. ring. }
  nra.
Qed.

(** ** generic list facts *)
Lemma filter_filter_sub {A} (f g : A -> bool) l :
  (forall x, In x l -> f x = true -> g x = true) -> filter f (filter g l) = filter f l.
Proof.
  induction l as [|a tl IH]; intro H; [reflexivity|].
  cbn [filter]. destruct (g a) eqn:G.
  - cbn [filter]. rewrite IH; [reflexivity|]. intros x Hx. apply H. right; exact Hx.
  - destruct (f a) eqn:F.
    + rewrite (H a (or_introl eq_refl) F) in G. discriminate.
    + apply IH. intros x Hx. apply H. right; exact Hx.
Qed.

Lemma perm_filter_length {A} (f : A -> bool) l l' :
  Permutation l l' -> length (filter f l) = length (filter f l').
Proof.
  induction 1 as [|x l l' _ IH|x y l|l l' l'' _ IH1 _ IH2].
  - reflexivity.
  - cbn [filter]. destruct (f x); cbn [length]; congruence.
  - cbn [filter]. destruct (f x), (f y); reflexivity.
  - congruence.
Qed.

Lemma last_default {A} (l : list A) a d d' : last (a :: l) d = last (a :: l) d'.
Proof.
  revert a. induction l as [|b tl IH]; intro a; [reflexivity|].
  change (last (b :: tl) d = last (b :: tl) d'). apply IH.
Qed.

(** ** counting *)
Lemma count_below_none es p t :
  (forall te, In te es -> below (snd te) p = false) -> count_below es p t = 0%nat.
Proof.
  unfold count_below. induction es as [|a tl IH]; intro H; [reflexivity|].
  cbn [filter]. rewrite (H a (or_introl eq_refl)), andb_false_r.
  apply IH. intros te Hte. apply H. right; exact Hte.
Qed.

Lemma no_span_par es p :
  (forall te, In te es -> spans (snd te) (qx p) = false) -> forall t, par es p t = false.
Proof.
  intros H t. unfold par. rewrite count_below_none; [reflexivity|].
  intros te Hte. unfold below. rewrite (H te Hte). reflexivity.
Qed.

(** ** insertion sort is a permutation *)
Lemma insert_at_perm x a l : Permutation (insert_at x a l) (a :: l).
Proof.
  induction l as [|b tl IH]; cbn [insert_at]; [reflexivity|].
  destruct (Qle_bool (y_at (snd a) x) (y_at (snd b) x)); [reflexivity|].
  rewrite IH. apply perm_swap.
Qed.

Lemma sort_at_perm x l : Permutation (sort_at x l) l.
Proof.
  unfold sort_at. induction l as [|a tl IH]; cbn [fold_right]; [constructor|].
  rewrite insert_at_perm. constructor. exact IH.
Qed.

(** ** neighbour order at both ends gives order at every abscissa of the slab *)
Lemma sorted_at_cons2 x a b tl :
  sorted_at x (a :: b :: tl) = Qle_bool (y_at (snd a) x) (y_at (snd b) x) && sorted_at x (b :: tl).
Proof. reflexivity. Qed.

Lemma sorted_at_tail x a l : sorted_at x (a :: l) = true -> sorted_at x l = true.
Proof.
  destruct l as [|b tl]; [reflexivity|].
  rewrite sorted_at_cons2. intro H. apply andb_true_iff in H. tauto.
Qed.

Lemma sorted_at_head x a b tl :
  sorted_at x (a :: b :: tl) = true -> y_at (snd a) x <= y_at (snd b) x.
Proof.
  rewrite sorted_at_cons2. intro H. apply andb_true_iff in H. apply Qle_bool_iff. tauto.
Qed.

Lemma sorted_head_le u v x :
  u <= x -> x <= v -> u < v ->
  forall l a, sorted_at u (a :: l) = true -> sorted_at v (a :: l) = true ->
  forall te, In te l -> y_at (snd a) x <= y_at (snd te) x.
Proof.
  intros Hu Hv Huv. induction l as [|b tl IH]; intros a Su Sv te Hin; [destruct Hin|].
  assert (Hab : y_at (snd a) x <= y_at (snd b) x).
  { apply (order_inside (snd a) (snd b) u v x Hu Hv Huv).
    - exact (sorted_at_head _ _ _ _ Su).
    - exact (sorted_at_head _ _ _ _ Sv). }
  destruct Hin as [<-|Hin]; [exact Hab|].
  apply Qle_trans with (y_at (snd b) x); [exact Hab|].
  apply IH; auto; eapply sorted_at_tail; eassumption.
Qed.

(** ** the invariant of [check_gaps] *)
Lemma gaps_inv u v (pred : (nat -> bool) -> bool) p :
  u <= qx p -> qx p < v ->
  forall l acc prev,
  sorted_at u l = true -> sorted_at v l = true ->
  (forall b, prev = Some b ->
     y_at b (qx p) < qy p /\
     match l with
     | a :: _ => y_at b u <= y_at (snd a) u /\ y_at b v <= y_at (snd a) v
     | [] => True
     end) ->
  (forall te, In te l -> spans (snd te) (qx p) = true /\ ~ y_at (snd te) (qx p) == qy p) ->
  check_gaps u v pred acc prev l = true ->
  exists L, pred (parity_of L) = true /\
    forall t, count_occ Nat.eq_dec L t = (count_occ Nat.eq_dec acc t + count_below l p t)%nat.
Proof.
  intros Hu Hv. assert (Huv : u < v) by lra. assert (Hv' : qx p <= v) by lra.
  induction l as [|a tl IH]; intros acc prev Su Sv Hprev Hall Hc.
  - cbn [check_gaps] in Hc. exists acc. split; [exact Hc|].
    intro t. unfold count_below. cbn [filter length]. lia.
  - cbn [check_gaps] in Hc. apply andb_true_iff in Hc. destruct Hc as [Hc1 Hc2].
    destruct (Hall a (or_introl eq_refl)) as [Hsp Hne].
    destruct (Qlt_le_dec (y_at (snd a) (qx p)) (qy p)) as [Hlt|Hge].
    + (* [a] is below [p] *)
      destruct (IH (fst a :: acc) (Some (snd a))) as [L [HL1 HL2]].
      * eapply sorted_at_tail; eassumption.
      * eapply sorted_at_tail; eassumption.
      * intros b Hb. injection Hb as <-. split; [exact Hlt|].
        destruct tl as [|b' tl']; [exact I|]. split.
        -- exact (sorted_at_head _ _ _ _ Su).
        -- exact (sorted_at_head _ _ _ _ Sv).
      * intros te Hte. apply Hall. right; exact Hte.
      * exact Hc2.
      * exists L. split; [exact HL1|]. intro t. rewrite HL2.
        unfold count_below. cbn [filter].
        assert (Hb : below (snd a) p = true).
        { unfold below. rewrite Hsp. apply Qltb_lt in Hlt. rewrite Hlt. reflexivity. }
        rewrite Hb, andb_true_r. cbn [count_occ].
        destruct (Nat.eq_dec (fst a) t) as [E|E].
        -- rewrite (proj2 (Nat.eqb_eq _ _) E). cbn [length]. lia.
        -- rewrite (proj2 (Nat.eqb_neq _ _) E). lia.
    + (* [a] is above [p], and so is everything after it *)
      assert (Hgt : qy p < y_at (snd a) (qx p)).
      { destruct (Qle_lt_or_eq _ _ Hge) as [H|H]; [exact H|]. exfalso. apply Hne. symmetry. exact H. }
      exists acc. split.
      * destruct prev as [b|]; [|exact Hc1].
        destruct (Hprev b eq_refl) as [Hb [Hbu Hbv]].
        assert (Hba : y_at b (qx p) < y_at (snd a) (qx p)) by lra.
        destruct (gap_strict b (snd a) u v (qx p) Huv Hbu Hbv Hba) as [G|G];
          apply Qltb_lt in G; rewrite G in Hc1.
        -- exact Hc1.
        -- rewrite orb_true_r in Hc1. exact Hc1.
      * intro t. rewrite count_below_none; [lia|].
        intros te Hte. unfold below.
        assert (Hy : qy p <= y_at (snd te) (qx p)).
        { destruct Hte as [<-|Hte]; [lra|].
          pose proof (sorted_head_le u v (qx p) Hu Hv' Huv tl a Su Sv te Hte). lra. }
        apply Qltb_ge in Hy. rewrite Hy. apply andb_false_r.
Qed.

(** ** one slab *)
Lemma slab_ok_sound es pred u v :
  (forall f g, (forall t, f t = g t) -> pred f = pred g) ->
  slab_ok es pred u v = true ->
  forall p, u <= qx p -> qx p < v -> clear es p -> pred (par es p) = true.
Proof.
  intros Hext Hok p Hu Hv Hclear.
  unfold slab_ok in Hok. apply andb_true_iff in Hok. destruct Hok as [Hnei Hok].
  cbv zeta in Hok.
  set (srt := sort_at ((u + v) / 2) (spanning es u v)) in *.
  apply andb_true_iff in Hok. destruct Hok as [Hok Hgaps].
  apply andb_true_iff in Hok. destruct Hok as [Su Sv].
  assert (Hperm : Permutation srt (spanning es u v)) by apply sort_at_perm.
  destruct (gaps_inv u v pred p Hu Hv srt [] None Su Sv) as [L [HL1 HL2]].
  - intros b Hb. discriminate.
  - intros te Hin.
    apply (Permutation_in _ Hperm) in Hin. unfold spanning in Hin.
    apply filter_In in Hin. destruct Hin as [Hin Hsp].
    apply andb_true_iff in Hsp. destruct Hsp as [Hl Hr].
    apply Qle_bool_iff in Hl. apply Qle_bool_iff in Hr.
    assert (Hspan : spans (snd te) (qx p) = true) by (apply spans_iff; lra).
    split; [exact Hspan|].
    pose proof (Hclear te Hin) as Hon. unfold on_edge in Hon. rewrite Hspan in Hon.
    cbn [andb] in Hon. intro E. apply Qeq_bool_iff in E. congruence.
  - exact Hgaps.
  - rewrite (Hext (par es p) (parity_of L)); [exact HL1|].
    intro t. unfold par, parity_of. f_equal. rewrite HL2. cbn [count_occ plus].
    unfold count_below. rewrite (perm_filter_length _ _ _ Hperm). unfold spanning.
    rewrite filter_filter_sub; [reflexivity|].
    intros te Hin Hf. apply andb_true_iff in Hf. destruct Hf as [_ Hb].
    unfold below in Hb. apply andb_true_iff in Hb. destruct Hb as [Hsp _].
    apply spans_iff in Hsp. destruct Hsp as [Hl Hr].
    unfold no_endpoint_inside in Hnei. rewrite forallb_forall in Hnei.
    pose proof (Hnei te Hin) as Hte.
    apply andb_true_iff in Hte. destruct Hte as [H1 H2].
    apply orb_true_iff in H1. apply orb_true_iff in H2.
    rewrite !Qle_bool_iff in H1. rewrite !Qle_bool_iff in H2.
    apply andb_true_iff. rewrite !Qle_bool_iff.
    split.
    + destruct H1 as [H1|H1]; [exact H1|lra].
    + destruct H2 as [H2|H2]; [lra|exact H2].
Qed.

(** ** locating the slab of an abscissa *)
Lemma locate es pred :
  forall xs x0 x, slabs_ok es pred (x0 :: xs) = true ->
  x0 <= x -> x < last (x0 :: xs) x0 ->
  exists u v, u <= x /\ x < v /\ slab_ok es pred u v = true.
Proof.
  induction xs as [|v tl IH]; intros x0 x H H0 H1.
  - cbn [last] in H1. lra.
  - change (slabs_ok es pred (x0 :: v :: tl))
      with (Qltb x0 v && slab_ok es pred x0 v && slabs_ok es pred (v :: tl)) in H.
    apply andb_true_iff in H. destruct H as [H Hs].
    apply andb_true_iff in H. destruct H as [_ Hok].
    destruct (Qlt_le_dec x v) as [Hxv|Hxv].
    + exists x0, v. auto.
    + apply (IH v x Hs Hxv).
      change (last (x0 :: v :: tl) x0) with (last (v :: tl) x0) in H1.
      rewrite (last_default tl v v x0). exact H1.
Qed.

(** ** (1) soundness of [slab_check] *)
Theorem slab_check_sound (es : list tedge) (xs : list Q) (pred : (nat -> bool) -> bool) :
  (forall f g, (forall t, f t = g t) -> pred f = pred g) ->
  slab_check es xs pred = true ->
  forall p, clear es p -> pred (par es p) = true.
Proof.
  intros Hext Hc p Hclear. unfold slab_check in Hc.
  apply andb_true_iff in Hc. destruct Hc as [Hc Hslabs].
  apply andb_true_iff in Hc. destruct Hc as [Hc Hwithin].
  apply andb_true_iff in Hc. destruct Hc as [_ Hfalse].
  assert (Hout : (forall te, In te es -> spans (snd te) (qx p) = false) -> pred (par es p) = true).
  { intro H. rewrite (Hext (par es p) (fun _ => false)); [exact Hfalse|].
    apply no_span_par. exact H. }
  destruct xs as [|x0 xs'].
  - apply Hout. intros te Hin. cbn [within] in Hwithin. rewrite forallb_forall in Hwithin.
    apply vertical_no_span. apply Hwithin. exact Hin.
  - assert (Hw : forall te, In te es ->
                 vertical (snd te) = true \/ (x0 <= lx (snd te) /\ rx (snd te) <= last (x0 :: xs') x0)).
    { intros te Hin. cbn [within] in Hwithin. rewrite forallb_forall in Hwithin.
      pose proof (Hwithin te Hin) as H. apply orb_true_iff in H.
      destruct H as [H|H]; [left; exact H|right].
      apply andb_true_iff in H. rewrite !Qle_bool_iff in H. exact H. }
    destruct (Qlt_le_dec (qx p) x0) as [Hlo|Hlo].
    + apply Hout. intros te Hin. destruct (Hw te Hin) as [H|[H1 H2]].
      * apply vertical_no_span. exact H.
      * destruct (spans (snd te) (qx p)) eqn:E; [|reflexivity].
        apply spans_iff in E. lra.
    + destruct (Qlt_le_dec (qx p) (last (x0 :: xs') x0)) as [Hhi|Hhi].
      * destruct (locate es pred xs' x0 (qx p) Hslabs Hlo Hhi) as [u [v [Hu [Hv Hok]]]].
        exact (slab_ok_sound es pred u v Hext Hok p Hu Hv Hclear).
      * apply Hout. intros te Hin. destruct (Hw te Hin) as [H|[H1 H2]].
        -- apply vertical_no_span. exact H.
        -- destruct (spans (snd te) (qx p)) eqn:E; [|reflexivity].
           apply spans_iff in E. lra.
Qed.


(** ** (2) tags and regions *)
Lemma count_below_app es1 es2 p t :
  count_below (es1 ++ es2) p t = (count_below es1 p t + count_below es2 p t)%nat.
Proof. unfold count_below. rewrite filter_app, app_length. reflexivity. Qed.

Lemma count_below_notag es p t :
  (forall te, In te es -> fst te <> t) -> count_below es p t = 0%nat.
Proof.
  unfold count_below. induction es as [|a tl IH]; intro H; [reflexivity|].
  cbn [filter]. rewrite (proj2 (Nat.eqb_neq _ _) (H a (or_introl eq_refl))). cbn [andb].
  apply IH. intros te Hte. apply H. right; exact Hte.
Qed.

Lemma count_below_tag_same t E p : count_below (tag_edges t E) p t = crossings E p.
Proof.
  unfold count_below, crossings, tag_edges.
  induction E as [|e tl IH]; [reflexivity|].
  cbn [map filter fst snd]. rewrite Nat.eqb_refl. cbn [andb].
  destruct (below e p); cbn [length]; congruence.
Qed.

Lemma tag_edges_tag t E te : In te (tag_edges t E) -> fst te = t.
Proof.
  unfold tag_edges. intro H. apply in_map_iff in H. destruct H as [e [<- _]]. reflexivity.
Qed.

Lemma count_below_tag_other t t' E p : t <> t' -> count_below (tag_edges t' E) p t = 0%nat.
Proof.
  intro H. apply count_below_notag. intros te Hte. apply tag_edges_tag in Hte. congruence.
Qed.

Lemma map_snd_tag_edges t E : map snd (tag_edges t E) = E.
Proof.
  unfold tag_edges. rewrite map_map. cbn [snd]. apply map_id.
Qed.

(** the tagged edges of the holes of a polygon *)
Definition hole_edges (hts : list (nat * ring)) : list tedge :=
  flat_map (fun th => tag_edges (fst th) (ring_edges (snd th))) hts.

Lemma hole_edges_cons b h tl :
  hole_edges (hole_tags b (h :: tl)) = tag_edges b (ring_edges h) ++ hole_edges (hole_tags (S b) tl).
Proof. reflexivity. Qed.

Lemma hole_edges_tags : forall hs b te,
  In te (hole_edges (hole_tags b hs)) -> (b <= fst te < b + length hs)%nat.
Proof.
  induction hs as [|h tl IH]; intros b te Hin; [destruct Hin|].
  rewrite hole_edges_cons in Hin. apply in_app_or in Hin. cbn [length].
  destruct Hin as [Hin|Hin].
  - apply tag_edges_tag in Hin. lia.
  - apply IH in Hin. lia.
Qed.

Lemma hole_edges_snd : forall hs b, map snd (hole_edges (hole_tags b hs)) = flat_map ring_edges hs.
Proof.
  induction hs as [|h tl IH]; intro b; [reflexivity|].
  rewrite hole_edges_cons, map_app, map_snd_tag_edges, IH. reflexivity.
Qed.

Lemma holes_spec : forall hs b es_total p,
  (forall t, (b <= t < b + length hs)%nat ->
             count_below es_total p t = count_below (hole_edges (hole_tags b hs)) p t) ->
  forallb (fun th => negb (par es_total p (fst th))) (hole_tags b hs)
  = forallb (fun h => negb (inside_ring h p)) hs.
Proof.
  induction hs as [|h tl IH]; intros b es_total p H; [reflexivity|].
  cbn [hole_tags forallb fst]. cbn [length] in H. f_equal.
  - f_equal. unfold par, inside_ring. f_equal. rewrite H by lia.
    rewrite hole_edges_cons, count_below_app, count_below_tag_same, count_below_notag; [lia|].
    intros te Hte. apply hole_edges_tags in Hte. lia.
  - apply IH. intros t Ht. rewrite H by lia.
    rewrite hole_edges_cons, count_below_app, count_below_tag_other by lia. reflexivity.
Qed.

Definition tags_in (es : list tedge) (lo hi : nat) : Prop :=
  forall te, In te es -> (lo <= fst te < hi)%nat.

(** [es_total] agrees with [es] on the tags of [lo, hi) *)
Definition agree_on (es_total es : list tedge) (p : qpt) (lo hi : nat) : Prop :=
  forall t, (lo <= t < hi)%nat -> count_below es_total p t = count_below es p t.

Lemma layout_polygon_spec base P es m next :
  layout_polygon base P = (es, m, next) ->
  (base <= next)%nat /\ tags_in es base next /\
  forall es_total p, agree_on es_total es p base next -> m (par es_total p) = inside_polygon P p.
Proof.
  unfold layout_polygon. intro H. inversion H as [[He Hm Hn]]. clear H He Hm Hn.
  fold (hole_edges (hole_tags (S base) (q_holes P))).
  split; [lia|]. split.
  - intros te Hin. apply in_app_or in Hin. destruct Hin as [Hin|Hin].
    + apply tag_edges_tag in Hin. lia.
    + apply hole_edges_tags in Hin. lia.
  - intros es_total p H. unfold inside_polygon. f_equal.
    + unfold par, inside_ring. f_equal. rewrite H by lia.
      rewrite count_below_app, count_below_tag_same, count_below_notag; [lia|].
      intros te Hte. apply hole_edges_tags in Hte. lia.
    + apply holes_spec. intros t Ht. rewrite H by lia.
      rewrite count_below_app, count_below_tag_other by lia. reflexivity.
Qed.

Lemma layout_mpoly_spec : forall R base es m next,
  layout_mpoly base R = (es, m, next) ->
  (base <= next)%nat /\ tags_in es base next /\
  forall es_total p, agree_on es_total es p base next -> m (par es_total p) = inside_mpoly R p.
Proof.
  induction R as [|P tl IH]; intros base es m next H.
  - cbn [layout_mpoly] in H. inversion H. split; [lia|]. split.
    + intros te Hin. destruct Hin.
    + reflexivity.
  - cbn [layout_mpoly] in H.
    destruct (layout_polygon base P) as [[es1 m1] b1] eqn:E1.
    destruct (layout_mpoly b1 tl) as [[es2 m2] b2] eqn:E2.
    inversion H as [[He Hm Hn]]. clear H He Hm. subst b2.
    destruct (layout_polygon_spec _ _ _ _ _ E1) as (A1 & A2 & A3).
    destruct (IH _ _ _ _ E2) as (B1 & B2 & B3).
    split; [lia|]. split.
    + intros te Hin. apply in_app_or in Hin. destruct Hin as [Hin|Hin].
      * apply A2 in Hin. lia.
      * apply B2 in Hin. lia.
    + intros es_total p H. cbn [inside_mpoly existsb]. f_equal.
      * apply A3. intros t Ht. rewrite H by lia.
        rewrite count_below_app, (count_below_notag es2); [lia|].
        intros te Hte. apply B2 in Hte. lia.
      * apply B3. intros t Ht. rewrite H by lia.
        rewrite count_below_app, (count_below_notag es1); [lia|].
        intros te Hte. apply A2 in Hte. lia.
Qed.

Lemma layout_region_spec base r es m next :
  layout_region base r = (es, m, next) ->
  (base <= next)%nat /\ tags_in es base next /\
  forall es_total p, agree_on es_total es p base next -> m (par es_total p) = inside_region r p.
Proof.
  destruct r as [rs|R]; cbn [layout_region]; intro H.
  - inversion H as [[He Hm Hn]]. clear H He Hm Hn. split; [lia|]. split.
    + intros te Hin. apply tag_edges_tag in Hin. lia.
    + intros es_total p H. cbn [inside_region]. unfold par, inside_eo. f_equal.
      rewrite H by lia. apply count_below_tag_same.
  - apply layout_mpoly_spec in H. exact H.
Qed.

Lemma layout_spec : forall sc base es ms,
  layout base sc = (es, ms) ->
  length ms = length sc /\
  (forall te, In te es -> (base <= fst te)%nat) /\
  forall es_total p,
    (forall t, (base <= t)%nat -> count_below es_total p t = count_below es p t) ->
    forall k m r, nth_error ms k = Some m -> nth_error sc k = Some r ->
                  m (par es_total p) = inside_region r p.
Proof.
  induction sc as [|r0 tl IH]; intros base es ms H.
  - cbn [layout] in H. inversion H. split; [reflexivity|]. split.
    + intros te Hin. destruct Hin.
    + intros es_total p _ k m r Hk. destruct k; discriminate.
  - cbn [layout] in H.
    destruct (layout_region base r0) as [[es1 m1] b1] eqn:E1.
    destruct (layout b1 tl) as [es2 ms2] eqn:E2.
    inversion H as [[He Hm]]. clear H He Hm.
    destruct (layout_region_spec _ _ _ _ _ E1) as (A1 & A2 & A3).
    destruct (IH _ _ _ E2) as (B1 & B2 & B3).
    split; [cbn [length]; congruence|]. split.
    + intros te Hin. apply in_app_or in Hin. destruct Hin as [Hin|Hin].
      * apply A2 in Hin. lia.
      * apply B2 in Hin. lia.
    + intros es_total p H k m r Hm Hr. destruct k as [|k].
      * cbn [nth_error] in Hm, Hr. inversion Hm. inversion Hr. subst m r.
        apply A3. intros t Ht. rewrite H by lia.
        rewrite count_below_app, (count_below_notag es2); [lia|].
        intros te Hte. apply B2 in Hte. lia.
      * cbn [nth_error] in Hm, Hr. apply (B3 es_total p) with (k := k); auto.
        intros t Ht. rewrite H by lia.
        rewrite count_below_app, (count_below_notag es1); [lia|].
        intros te Hte. apply A2 in Hte. lia.
Qed.

(** *** extensionality of the layout memberships *)
Definition ext_m (m : (nat -> bool) -> bool) : Prop :=
  forall f g, (forall t, f t = g t) -> m f = m g.

Lemma layout_polygon_ext base P es m next : layout_polygon base P = (es, m, next) -> ext_m m.
Proof.
  unfold layout_polygon. intro H. inversion H as [[He Hm Hn]]. clear H He Hm Hn.
  intros f g H. rewrite (H base). f_equal.
  generalize (hole_tags (S base) (q_holes P)). intro l.
  induction l as [|th tl IH]; [reflexivity|]. cbn [forallb]. rewrite (H (fst th)), IH. reflexivity.
Qed.

Lemma layout_mpoly_ext : forall R base es m next, layout_mpoly base R = (es, m, next) -> ext_m m.
Proof.
  induction R as [|P tl IH]; intros base es m next H.
  - cbn [layout_mpoly] in H. inversion H. intros f g _. reflexivity.
  - cbn [layout_mpoly] in H.
    destruct (layout_polygon base P) as [[es1 m1] b1] eqn:E1.
    destruct (layout_mpoly b1 tl) as [[es2 m2] b2] eqn:E2.
    inversion H as [[He Hm Hn]]. clear H He Hm Hn.
    intros f g H.
    rewrite (layout_polygon_ext _ _ _ _ _ E1 f g H), (IH _ _ _ _ E2 f g H). reflexivity.
Qed.

Lemma layout_region_ext base r es m next : layout_region base r = (es, m, next) -> ext_m m.
Proof.
  destruct r as [rs|R]; cbn [layout_region]; intro H.
  - inversion H. intros f g Hfg. apply Hfg.
  - eapply layout_mpoly_ext; eassumption.
Qed.

Lemma layout_ext : forall sc base es ms,
  layout base sc = (es, ms) -> forall k m, nth_error ms k = Some m -> ext_m m.
Proof.
  induction sc as [|r0 tl IH]; intros base es ms H k m Hk.
  - cbn [layout] in H. inversion H. subst ms. destruct k; discriminate.
  - cbn [layout] in H.
    destruct (layout_region base r0) as [[es1 m1] b1] eqn:E1.
    destruct (layout b1 tl) as [es2 ms2] eqn:E2.
    inversion H as [[He Hm]]. clear H He. subst ms.
    destruct k as [|k]; cbn [nth_error] in Hk.
    + inversion Hk. subst m. eapply layout_region_ext; eassumption.
    + eapply IH; eassumption.
Qed.

Lemma eval_law_ext l m m' : (forall k, m k = m' k) -> eval_law l m = eval_law l m'.
Proof.
  intro H. induction l as [k| | |a IHa|a IHa b IHb|a IHa b IHb|a IHa b IHb|a IHa b IHb];
    cbn [eval_law]; try rewrite IHa; try rewrite IHb; auto.
Qed.

Lemma scene_pred_ext sc l : ext_m (scene_pred sc l).
Proof.
  intros f g H. unfold scene_pred. apply eval_law_ext. intro k.
  destruct (nth_error (snd (layout 0 sc)) k) as [m|] eqn:E; [|reflexivity].
  exact (layout_ext sc 0 _ _ (surjective_pairing (layout 0 sc)) k m E f g H).
Qed.

Theorem check_scene_sound (sc : scene) (l : law) :
  check_scene sc l = true ->
  forall p, scene_clear sc p -> eval_law l (member sc p) = true.
Proof.
  intros H p Hclear. unfold check_scene in H.
  pose proof (slab_check_sound _ _ _ (scene_pred_ext sc l) H p Hclear) as Hs.
  unfold scene_pred in Hs. rewrite <- Hs. apply eval_law_ext. intro k.
  unfold member, scene_edges.
  destruct (layout 0 sc) as [es ms] eqn:E. cbn [fst snd].
  destruct (layout_spec _ _ _ _ E) as (Hlen & _ & Hm).
  destruct (nth_error sc k) as [r|] eqn:Esc; destruct (nth_error ms k) as [m|] eqn:Ems.
  - symmetry. apply (Hm es p (fun _ _ => eq_refl)) with (k := k); assumption.
  - exfalso. apply nth_error_None in Ems.
    assert (Hk : (k < length sc)%nat) by (apply nth_error_Some; congruence). lia.
  - exfalso. apply nth_error_None in Esc.
    assert (Hk : (k < length ms)%nat) by (apply nth_error_Some; congruence). lia.
  - reflexivity.
Qed.

(** ** (3) the two certificates *)
Lemma eval_law_op o a b m :
  eval_law (law_of_op o a b) m = sem_op o (eval_law a m) (eval_law b m).
Proof. destruct o; reflexivity. Qed.

Definition clear01 (A B : list ring) (R : list qpolygon) (p : qpt) : Prop :=
  scene_clear (scene01 A B R) p.

Theorem cert01_sound A B o R : cert01 A B o R = true ->
  forall p, clear01 A B R p -> inside_mpoly R p = sem_op o (inside_eo A p) (inside_eo B p).
Proof.
  intros H p Hc. unfold cert01 in H. unfold clear01 in Hc.
  pose proof (check_scene_sound _ _ H p Hc) as Hs.
  unfold law01 in Hs. cbn [eval_law] in Hs. apply eqb_prop in Hs.
  rewrite eval_law_op in Hs. cbn [eval_law] in Hs. exact Hs.
Qed.

Theorem cert02_reading_sound R : cert02_reading R = true ->
  forall p, scene_clear (scene02 R) p -> inside_mpoly R p = inside_eo (rings_of R) p.
Proof.
  intros H p Hc. unfold cert02_reading in H.
  pose proof (check_scene_sound _ _ H p Hc) as Hs.
  unfold law02 in Hs. cbn [eval_law] in Hs. apply eqb_prop in Hs. exact Hs.
Qed.

(** ** (4) clearness, readably *)
Lemma clear_edges_of sc p :
  scene_clear sc p <-> forall e, In e (map snd (scene_edges sc)) -> on_edge e p = false.
Proof.
  unfold scene_clear, clear. split.
  - intros H e He. apply in_map_iff in He. destruct He as [te [<- Hte]]. apply H. exact Hte.
  - intros H te Hte. apply H. apply in_map. exact Hte.
Qed.

Lemma layout_mpoly_edges : forall R base,
  map snd (fst (fst (layout_mpoly base R))) = flat_map ring_edges (rings_of R).
Proof.
  induction R as [|P tl IH]; intro base; [reflexivity|].
  cbn [layout_mpoly].
  destruct (layout_polygon base P) as [[es1 m1] b1] eqn:E1.
  specialize (IH b1). destruct (layout_mpoly b1 tl) as [[es2 m2] b2].
  cbn [fst] in *. unfold tedge in *. rewrite map_app, IH.
  unfold layout_polygon in E1. inversion E1 as [[He Hm Hn]]. clear E1 He Hm Hn.
  fold (hole_edges (hole_tags (S base) (q_holes P))).
  change (rings_of (P :: tl)) with ((q_ext P :: q_holes P) ++ rings_of tl).
  rewrite flat_map_app. f_equal. cbn [flat_map].
  rewrite map_app, map_snd_tag_edges, hole_edges_snd. reflexivity.
Qed.

Lemma scene01_edges A B R :
  map snd (scene_edges (scene01 A B R))
  = flat_map ring_edges A ++ flat_map ring_edges B ++ flat_map ring_edges (rings_of R).
Proof.
  unfold scene_edges, scene01. cbn [layout layout_region].
  pose proof (layout_mpoly_edges R 2) as H.
  destruct (layout_mpoly 2 R) as [[es3 m3] b3]. cbn [fst] in *. unfold tedge in *.
  rewrite !map_app, !map_snd_tag_edges, H. cbn [map]. rewrite app_nil_r. reflexivity.
Qed.

Lemma scene02_edges R :
  map snd (scene_edges (scene02 R))
  = flat_map ring_edges (rings_of R) ++ flat_map ring_edges (rings_of R).
Proof.
  unfold scene_edges, scene02. cbn [layout layout_region].
  pose proof (layout_mpoly_edges R 0) as H.
  destruct (layout_mpoly 0 R) as [[es1 m1] b1]. cbn [fst] in *. unfold tedge in *.
  rewrite !map_app, !map_snd_tag_edges, H. cbn [map]. rewrite app_nil_r. reflexivity.
Qed.

(** clearness of the C01 scene: [p] lies on no edge of [A], [B] or [R] *)
Lemma clear01_iff A B R p :
  clear01 A B R p <->
  forall e, In e (flat_map ring_edges A ++ flat_map ring_edges B ++ flat_map ring_edges (rings_of R)) ->
            on_edge e p = false.
Proof.
  unfold clear01. rewrite clear_edges_of, scene01_edges. reflexivity.
Qed.

Print Assumptions slab_check_sound.
Print Assumptions check_scene_sound.
Print Assumptions cert01_sound.
Print Assumptions cert02_reading_sound.
