(** * The intersection kernel does not depend on the order of its two segments (C16, last
    clause), exact instance, non-parallel segments: [LNone] for one order iff for the other,
    and the reported points of the two orders are equal rationals.  (Parallel and collinear
    segments: [IntersectSymCol] — the two orders report the same two ends of the common part,
    possibly in the other order.) *)
From Coq Require Import QArith Lqa.
From GB Require Import Num NumQ Intersect IntersectProofs.
Local Open Scope Q_scope.

Lemma on_both_swap_gen (p1x p1y p2x p2y q1x q1y q2x q2y x y : Q) :
  on_both p1x p1y p2x p2y q1x q1y q2x q2y x y -> on_both q1x q1y q2x q2y p1x p1y p2x p2y x y.
Proof. intros (s & t & Hs & Ht & H1 & H2 & H3 & H4). exists t, s. tauto. Qed.

Section Sym.
Variables a1x a1y a2x a2y b1x b1y b2x b2y : Q.
Local Notation A1 := (fpt a1x a1y).
Local Notation A2 := (fpt a2x a2y).
Local Notation B1 := (fpt b1x b1y).
Local Notation B2 := (fpt b2x b2y).
Local Notation dAB := (det a1x a1y a2x a2y b1x b1y b2x b2y).
Local Notation dBA := (det b1x b1y b2x b2y a1x a1y a2x a2y).

Lemma det_swap : dBA == - dAB.
Proof. unfold det. ring. Qed.

Lemma on_both_swap x y :
  on_both a1x a1y a2x a2y b1x b1y b2x b2y x y -> on_both b1x b1y b2x b2y a1x a1y a2x a2y x y.
Proof. apply on_both_swap_gen. Qed.
Lemma on_both_swap' x y :
  on_both b1x b1y b2x b2y a1x a1y a2x a2y x y -> on_both a1x a1y a2x a2y b1x b1y b2x b2y x y.
Proof. apply on_both_swap_gen. Qed.

Hypothesis Hdet : ~ dAB == 0.

Lemma det_swap_nz : ~ dBA == 0.
Proof. rewrite det_swap. intros E. apply Hdet. lra. Qed.

Theorem intersection_none_sym :
  intersection A1 A2 B1 B2 = LNone <-> intersection B1 B2 A1 A2 = LNone.
Proof.
  rewrite (intersection_exact_none Hdet), (intersection_exact_none det_swap_nz).
  rewrite !disjoint_iff_no_common_point.
  split; intros H (x & y & Hb); apply H; exists x, y; [now apply on_both_swap' | now apply on_both_swap].
Qed.

Theorem intersection_point_sym x y :
  intersection A1 A2 B1 B2 = LPoint (fpt x y) ->
  exists x' y', intersection B1 B2 A1 A2 = LPoint (fpt x' y') /\ x' == x /\ y' == y.
Proof.
  intros H. pose proof (intersection_exact_point Hdet H) as Hon.
  destruct (intersection_exact det_swap_nz) as [[Hn _]|(x' & y' & Hp & Hon')].
  - apply intersection_none_sym in Hn. rewrite Hn in H. discriminate.
  - exists x', y'. split; [exact Hp|].
    apply (on_both_unique det_swap_nz Hon' (on_both_swap x y Hon)).
Qed.

End Sym.
