(** * Repeated consecutive vertices do not matter (C07, one clause in full), every instance.

    [process_edge] returns its state unchanged on an edge whose end points are equal; so a ring
    in which a vertex [p] with [pt_eq p p = true] (any non-NaN point) is written down twice in a
    row is processed exactly like the ring without the repetition ([process_ring_repeat]), and
    operands that differ only by such repetitions give the SAME queue, store and boxes
    ([fill_queue_same]) — hence the same run of the sweep and of the contour stage
    ([boolean_operation_same]: identical results, except that the bounding-box shortcut hands
    back each operand as it was written down). *)
From Coq Require Import Bool List PArith NArith.
From GB Require Import Num Event Intersect Cmp Heap Outcome Divide Fields FillQueue Subdivide Connect BoolOp.
Import ListNotations.

Section Repeats.
Variable N : Num.
Notation pt := (pt N).

Lemma process_edge_same_point (s : fq N) subj cid ext (p : pt) :
  pt_eq p p = true -> process_edge s subj cid ext p p = s.
Proof. intros H. unfold process_edge. now rewrite H. Qed.

Lemma process_ring_from_repeat subj cid ext : forall (l1 : list pt) (s : fq N) (prev p : pt) (l2 : list pt),
  pt_eq p p = true ->
  process_ring_from s subj cid ext prev (l1 ++ p :: p :: l2) = process_ring_from s subj cid ext prev (l1 ++ p :: l2).
Proof.
  induction l1 as [|a l1 IH]; intros s prev p l2 H; cbn [app process_ring_from].
  - now rewrite (process_edge_same_point _ subj cid ext p H).
  - now apply IH.
Qed.

(** [r'] is [r] with one vertex written twice in a row *)
Inductive repeat1 : ring N -> ring N -> Prop :=
| rep_at l1 p l2 : pt_eq p p = true -> repeat1 (l1 ++ p :: l2) (l1 ++ p :: p :: l2).

(** the two rings are processed alike, from every state *)
Definition ring_same (r r' : ring N) : Prop :=
  forall (s : fq N) subj cid ext, process_ring s r' subj cid ext = process_ring s r subj cid ext.

Lemma ring_same_refl r : ring_same r r. Proof. intros s subj cid ext; reflexivity. Qed.
Lemma ring_same_trans a b c : ring_same a b -> ring_same b c -> ring_same a c.
Proof. intros H1 H2 s subj cid ext. now rewrite H2, H1. Qed.

Theorem process_ring_repeat r r' : repeat1 r r' -> ring_same r r'.
Proof.
  intros [l1 p l2 H] s subj cid ext. destruct l1 as [|a l1]; cbn [app process_ring].
  - cbn [process_ring_from]. now rewrite (process_edge_same_point _ subj cid ext p H).
  - now apply process_ring_from_repeat.
Qed.

(** polygons ring by ring *)
Definition poly_same (P P' : polygon N) : Prop :=
  ring_same (exterior P) (exterior P') /\ Forall2 ring_same (interiors P) (interiors P').

Lemma process_interiors_same : forall ints ints' (s : fq N) subj cid,
  Forall2 ring_same ints ints' -> process_interiors s ints' subj cid = process_interiors s ints subj cid.
Proof.
  unfold process_interiors. intros ints ints' s subj cid H. revert s.
  induction H as [|r r' l l' Hr _ IH]; intros s; cbn [fold_left]; [reflexivity|]. now rewrite Hr, IH.
Qed.

Lemma fill_subject_same : forall ps ps' (s : fq N) cid,
  Forall2 poly_same ps ps' -> fill_subject s cid ps' = fill_subject s cid ps.
Proof.
  intros ps ps' s cid H. revert s cid.
  induction H as [|P P' l l' [He Hi] _ IH]; intros s cid; cbn [fill_subject]; [reflexivity|].
  now rewrite He, (process_interiors_same _ _ _ _ _ Hi), IH.
Qed.
Lemma fill_clipping_same : forall ps ps' (s : fq N) cid op,
  Forall2 poly_same ps ps' -> fill_clipping s cid op ps' = fill_clipping s cid op ps.
Proof.
  intros ps ps' s cid op H. revert s cid.
  induction H as [|P P' l l' [He Hi] _ IH]; intros s cid; cbn [fill_clipping]; [reflexivity|].
  now rewrite He, (process_interiors_same _ _ _ _ _ Hi), IH.
Qed.

Theorem fill_queue_same (A A' B B' : list (polygon N)) op :
  Forall2 poly_same A A' -> Forall2 poly_same B B' -> fill_queue A' B' op = fill_queue A B op.
Proof.
  intros HA HB. unfold fill_queue. rewrite (fill_subject_same _ _ _ _ HA).
  destruct (fill_subject _ 0 A) as [s1 cid]. now rewrite (fill_clipping_same _ _ _ _ _ HB).
Qed.

(** C07: the whole operation *)
Theorem boolean_operation_same cfg fuel (A A' B B' : list (polygon N)) op :
  Forall2 poly_same A A' -> Forall2 poly_same B B' ->
  (boolean_operation cfg fuel A' B' op = boolean_operation cfg fuel A B op)
  \/ (boolean_operation cfg fuel A B op = Ok (trivial_result A B op) /\
      boolean_operation cfg fuel A' B' op = Ok (trivial_result A' B' op)).
Proof.
  intros HA HB. unfold boolean_operation. rewrite (fill_queue_same A A' B B' op HA HB).
  destruct (negb (c_noshort cfg) && _); [right; split; reflexivity | left; reflexivity].
Qed.

End Repeats.
