(** * Extraction of the executable model to OCaml.
    [ExtrOcamlBasic] only: bool, option, unit, prod, list, sumbool are mapped to OCaml's own;
    [Z], [positive], [N], [nat], [Q], [comparison] stay the extracted inductives.  No [Extract Constant]. *)
From Coq Require Import Extraction ExtrOcamlBasic.
From Coq Require Import ZArith List.
From GB Require Import Num NumB NumQ Event Intersect Cmp Heap Outcome Divide Fields FillQueue Subdivide Connect BoolOp.
From GB Require Splay SplayOps Slab Scene Convert Cert13 Cert13Cover Cert04 Cert14 Cert02Edges.

Extraction Blacklist List String Int.

Separate Extraction
  NumQ.NQ NumB.NB64 NumB.NB32 NumB.to_bits NumB.of_bits
  Outcome.release Outcome.debug Outcome.pinned Outcome.mkCfg
  Event.getE Event.empty_store Event.alloc Event.upd Event.new_event
  Event.set_left Event.set_other Event.set_in_out Event.set_edge_type Event.set_prev_in_result
  Event.set_result_transition
  Intersect.intersection
  Cmp.cmp_events Cmp.compare_segments Cmp.is_vertical
  Divide.possible_intersection Divide.divide_segment Divide.qpop Divide.qpush
  Fields.compute_fields
  FillQueue.fill_queue FillQueue.polygon_new
  Subdivide.subdivide
  Connect.connect_edges
  BoolOp.boolean BoolOp.boolean_operation
  Splay.empty SplayOps.run SplayOps.step Splay.inorder Splay.root Splay.height
  Cert13.planar_q Cert13.planar_64 Cert13.planar_32 Cert13.planar_check
  Cert13Cover.cover_q Cert13Cover.cover_64 Cert13Cover.cover_32 Cert13Cover.cover_check
  Cert04.cert04 Cert02Edges.no_shared_boundary
  Cert14.cert14_q Cert14.cert14_64 Cert14.cert14_32
  Convert.sf2q Convert.sfpt Scene.check_scene Scene.cert01 Scene.cert02_reading Slab.mkQpt
  Z.of_nat Z.to_nat N.of_nat N.to_nat Pos.of_nat Pos.to_nat.
