(** * The exact-class link between the instances of the model (C10, and the transfer of the
    theorems proved at [NQ] to floating-point runs).

    A run of a floating-point instance is in the exact class when its result, converted
    exactly to rationals, coincides (coordinates up to [Qeq], identical structure) with the
    result of the exact instance on the same — exactly converted — operands.  The class is
    decided by computation for each explored input.  [exact_agree]: two instantiations that
    are both exact on an input agree with each other coordinate for coordinate. *)
From Coq Require Import Bool List ZArith QArith Floats.SpecFloat.
From GB Require Import Num NumQ NumB Event Outcome FillQueue BoolOp Slab Scene Convert Cert.
Import ListNotations.

Definition qpt_eqv (p q : qpt) : Prop := qx p == qx q /\ qy p == qy q.
Definition ring_eqv (r s : Slab.ring) : Prop := Forall2 qpt_eqv r s.
Definition qpolygon_eqv (P Q : qpolygon) : Prop :=
  ring_eqv (q_ext P) (q_ext Q) /\ Forall2 ring_eqv (q_holes P) (q_holes Q).
Definition mp_eqv (R R' : list qpolygon) : Prop := Forall2 qpolygon_eqv R R'.
Definition res_eqv (a b : option (list qpolygon)) : Prop :=
  match a, b with Some R, Some R' => mp_eqv R R' | _, _ => False end.

Lemma Forall2_sym {T} (P : T -> T -> Prop) : (forall a b, P a b -> P b a) ->
  forall l l', Forall2 P l l' -> Forall2 P l' l.
Proof. intros H l l' F; induction F; constructor; auto. Qed.
Lemma Forall2_trans {T} (P : T -> T -> Prop) : (forall a b c, P a b -> P b c -> P a c) ->
  forall l1 l2 l3, Forall2 P l1 l2 -> Forall2 P l2 l3 -> Forall2 P l1 l3.
Proof.
  intros H l1 l2 l3 F; revert l3; induction F; intros l3 G; inversion G; subst; constructor; eauto.
Qed.

Lemma qpt_eqv_sym a b : qpt_eqv a b -> qpt_eqv b a.
Proof. intros [H1 H2]; split; now symmetry. Qed.
Lemma qpt_eqv_trans a b c : qpt_eqv a b -> qpt_eqv b c -> qpt_eqv a c.
Proof. intros [H1 H2] [H3 H4]; split; etransitivity; eauto. Qed.
Lemma qpolygon_eqv_sym a b : qpolygon_eqv a b -> qpolygon_eqv b a.
Proof.
  intros [H1 H2]; split.
  - apply Forall2_sym; [apply qpt_eqv_sym | exact H1].
  - apply Forall2_sym; [|exact H2]. intros r s. apply Forall2_sym, qpt_eqv_sym.
Qed.
Lemma qpolygon_eqv_trans a b c : qpolygon_eqv a b -> qpolygon_eqv b c -> qpolygon_eqv a c.
Proof.
  intros [H1 H2] [H3 H4]; split.
  - eapply Forall2_trans; [apply qpt_eqv_trans | exact H1 | exact H3].
  - eapply Forall2_trans; [|exact H2|exact H4]. intros r s t. apply Forall2_trans, qpt_eqv_trans.
Qed.
Lemma res_eqv_sym a b : res_eqv a b -> res_eqv b a.
Proof. destruct a, b; cbn; auto. apply Forall2_sym, qpolygon_eqv_sym. Qed.
Lemma res_eqv_trans a b c : res_eqv a b -> res_eqv b c -> res_eqv a c.
Proof. destruct a, b, c; cbn; try tauto. apply Forall2_trans, qpolygon_eqv_trans. Qed.

(** the result of a run, converted exactly to rationals ([None] unless the run returned
    normally with finite coordinates) *)
Definition qres (N : Num) (conv : pt N -> option qpt) cfg fuel (A B : list (FillQueue.polygon N)) op
  : option (list qpolygon) :=
  match boolean_operation cfg fuel A B op with Ok R => mpoly_q N conv R | _ => None end.

(** [AQ], [BQ]: the same operands at the exact instance *)
Definition exact_run (N : Num) (conv : pt N -> option qpt) cfg fuel
           (A B : list (FillQueue.polygon N)) (AQ BQ : list (FillQueue.polygon NQ)) op : Prop :=
  res_eqv (qres N conv cfg fuel A B op) (qres NQ conv_Q cfg fuel AQ BQ op).

(** C10: instantiations that are both exact on an input agree coordinate for coordinate *)
Theorem exact_agree cfg fuel op
        (A32 B32 : list (FillQueue.polygon NB32)) (A64 B64 : list (FillQueue.polygon NB64))
        (AQ BQ : list (FillQueue.polygon NQ)) :
  exact_run NB32 (conv_B 24 128) cfg fuel A32 B32 AQ BQ op ->
  exact_run NB64 (conv_B 53 1024) cfg fuel A64 B64 AQ BQ op ->
  res_eqv (qres NB32 (conv_B 24 128) cfg fuel A32 B32 op) (qres NB64 (conv_B 53 1024) cfg fuel A64 B64 op).
Proof. intros H1 H2. eapply res_eqv_trans; [exact H1 | apply res_eqv_sym, H2]. Qed.

(** a run in the exact class inherits the per-run certificate of the exact run: same
    normal return *)
Lemma exact_run_returns N conv cfg fuel A B AQ BQ op :
  exact_run N conv cfg fuel A B AQ BQ op ->
  (exists R, boolean_operation (N:=N) cfg fuel A B op = Ok R) /\
  (exists R, boolean_operation (N:=NQ) cfg fuel AQ BQ op = Ok R).
Proof.
  unfold exact_run, qres. intros H.
  destruct (boolean_operation cfg fuel A B op) as [R| |]; cbn in H; try contradiction.
  destruct (boolean_operation cfg fuel AQ BQ op) as [R'| |]; cbn in H.
  - split; eexists; reflexivity.
  - destruct (mpoly_q N conv R); contradiction.
  - destruct (mpoly_q N conv R); contradiction.
Qed.

(** ** non-vacuity: the F2 witness (a T-junction on a vertical edge, through the sweep) is in
    the exact class of both floating-point instances *)
Definition fz (prec emax : Z) (z : Z) : spec_float := binary_normalize prec emax z 0 false.
Definition fp (prec emax : Z) (x y : Z) : pt (NB prec emax) := mkPt (NB prec emax) (fz prec emax x) (fz prec emax y).
Definition ftri (prec emax : Z) (a b c : Z * Z) : FillQueue.polygon (NB prec emax) :=
  polygon_new (N:=NB prec emax)
    [fp prec emax (fst a) (snd a); fp prec emax (fst b) (snd b); fp prec emax (fst c) (snd c)] [].
Definition F2_Af prec emax := [ftri prec emax (0,2) (2,0) (2,4); ftri prec emax (2,2) (3,1) (4,2)]%Z.
Definition F2_Bf prec emax := [ftri prec emax (2,2) (3,3) (2,4)]%Z.

Fixpoint mp_eqvb (R R2 : list qpolygon) : bool :=
  let pt_b (p q : qpt) := Qeq_bool (qx p) (qx q) && Qeq_bool (qy p) (qy q) in
  let fix ring_b (r s : Slab.ring) : bool :=
    match r, s with
    | [], [] => true
    | p :: r', q :: s' => pt_b p q && ring_b r' s'
    | _, _ => false
    end in
  let fix rings_b (r s : list Slab.ring) : bool :=
    match r, s with
    | [], [] => true
    | p :: r', q :: s' => ring_b p q && rings_b r' s'
    | _, _ => false
    end in
  match R, R2 with
  | [], [] => true
  | P :: R', Q :: S' => ring_b (q_ext P) (q_ext Q) && rings_b (q_holes P) (q_holes Q) && mp_eqvb R' S'
  | _, _ => false
  end.

Example F2_union_exact_class_computed :
  match qres NB64 (conv_B 53 1024) release 1000 (F2_Af 53 1024) (F2_Bf 53 1024) Union,
        qres NB32 (conv_B 24 128) release 1000 (F2_Af 24 128) (F2_Bf 24 128) Union,
        qres NQ conv_Q release 1000 F2_A F2_B Union with
  | Some r64, Some r32, Some rq => mp_eqvb r64 rq && mp_eqvb r32 rq && Nat.eqb (length rq) 2
  | _, _, _ => false
  end = true.
Proof. vm_compute. reflexivity. Qed.
