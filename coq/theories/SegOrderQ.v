(** * The segment order is the vertical order (C15, third clause) at the exact instance.

    [compare_segments] fixes the roles [old] (the segment whose left event comes first in the
    event order) and [new] and answers through [seg_body].  Here, for rational coordinates,
    a non-vertical [old = ol -> or] and any [new = nl -> nr] that starts at or after [ol] in
    the sweep order and is not collinear with [old]:

      [seg_body_side]            the answer [Lt] ("old is below new") means that every point
                                 of [new] over the x-extent of [old] lies on or above the line
                                 through [old], the answer [Gt] that it lies on or below it;
      [seg_body_vertical_order]  hence for a point [P] of [old] and a point [Q] of [new] with
                                 the same abscissa: [Lt -> P.y <= Q.y], [Gt -> Q.y <= P.y] —
                                 the order agrees with the vertical order wherever the two
                                 segments are vertically separated;
      [compare_segments_vertical_order] / [.._swapped]  the same for the public function, for
                                 both orders of its arguments.

    The hypothesis on the pair is exactly "non-crossing": no point in the relative interior of
    BOTH segments is common ([NC]; T-junctions and common endpoints are allowed), and, when
    [new] is vertical, the right endpoint of [old] is not in its relative interior ([HV]: there
    a vertical order does not exist). *)
From Coq Require Import Bool List PArith QArith Lqa Lia.
From GB Require Import Num NumQ NumLaws NumLawsQ Event Intersect Cmp IntersectProofs EventOrderQ SegOrder.
Local Open Scope Q_scope.

(** ** Pure rational facts *)

(** an affine function with values [a] at 0 and [b] at 1 that has strictly opposite signs at 0
    and at [t] vanishes strictly in between *)
Lemma affine_root (a b t : Q) :
  0 <= t <= 1 -> a * ((1 - t) * a + t * b) < 0 ->
  exists t0, 0 < t0 /\ t0 < t /\ (1 - t0) * a + t0 * b == 0.
Proof.
  intros Ht H.
  assert (Hab : ~ a - b == 0).
  { intros E. assert (E' : b == a) by lra. rewrite E' in H.
    assert (E2 : (1 - t) * a + t * a == a) by ring. rewrite E2 in H. nra. }
  exists (a / (a - b)).
  assert (Hz : (1 - a / (a - b)) * a + a / (a - b) * b == 0) by (field; exact Hab).
  set (t0 := a / (a - b)) in *.
  assert (Ea : a == t0 * (a - b)) by (unfold t0; field; exact Hab).
  destruct (Qlt_le_dec 0 a) as [Ha|Ha].
  - assert (Hf : (1 - t) * a + t * b < 0) by nra.
    assert (Hd : 0 < a - b) by nra.
    repeat split; [nra | nra | exact Hz].
  - assert (Ha' : a < 0) by (destruct (Qeq_dec a 0) as [E|E]; [rewrite E in H; lra | lra]).
    assert (Hf : 0 < (1 - t) * a + t * b) by nra.
    assert (Hd : a - b < 0) by nra.
    repeat split; [nra | nra | exact Hz].
Qed.

Section SegQ.
Local Notation seg_body := (SegOrder.seg_body NQ).
Variable st : store NQ.
Variables old new oldr newr : eid.
Variables olx oly orx ory nlx nly nrx nry : Q.
Hypothesis Oo : e_other (getE st old) = Some oldr.
Hypothesis On : e_other (getE st new) = Some newr.
Hypothesis Lo : e_left (getE st old) = true.
Hypothesis Pol : e_point (getE st old) = fpt olx oly.
Hypothesis Por : e_point (getE st oldr) = fpt orx ory.
Hypothesis Pnl : e_point (getE st new) = fpt nlx nly.
Hypothesis Pnr : e_point (getE st newr) = fpt nrx nry.
(** [old] is not vertical, [new] is a left-to-right (or upward vertical) segment *)
Hypothesis Hold : olx < orx.
Hypothesis Hnew : nlx < nrx \/ (nlx == nrx /\ nly < nry).

(** twice the signed area of (ol, or, Z): positive iff Z is above the line through [old] *)
Definition side (x y : Q) : Q := EventOrderQ.det olx oly orx ory x y.
Definition sa : Q := side nlx nly.
Definition sb : Q := side nrx nry.
Definition nx (t : Q) : Q := nlx + t * (nrx - nlx).
Definition ny (t : Q) : Q := nly + t * (nry - nly).

(** non-crossing *)
Definition NC : Prop :=
  forall v, 0 < v < 1 -> side (nx v) (ny v) == 0 -> olx < nx v < orx -> False.
Definition HV : Prop :=
  nlx == nrx -> forall v, 0 < v < 1 -> ~ (nx v == orx /\ ny v == ory).

Lemma side_affine t : side (nx t) (ny t) == (1 - t) * sa + t * sb.
Proof. unfold side, sa, sb, side, nx, ny, EventOrderQ.det. ring. Qed.

Lemma side_grad x y : side x y == (orx - olx) * (y - oly) - (ory - oly) * (x - olx).
Proof. unfold side, EventOrderQ.det. ring. Qed.

(** a point of the line through [old] in terms of the parameter along [old] *)
Lemma on_line_param x y :
  side x y == 0 ->
  let u := (x - olx) / (orx - olx) in
  x == olx + u * (orx - olx) /\ y == oly + u * (ory - oly) /\
  (olx <= x <= orx -> 0 <= u <= 1).
Proof.
  intros H u. assert (Hd : ~ orx - olx == 0) by lra.
  rewrite side_grad in H.
  assert (Ex : x == olx + u * (orx - olx)) by (unfold u; field; exact Hd).
  split; [exact Ex|]. split.
  - assert (E : (orx - olx) * (y - oly) == (ory - oly) * (u * (orx - olx))).
    { assert (E1 : x - olx == u * (orx - olx)) by lra. rewrite <- E1. lra. }
    assert (E2 : (orx - olx) * (y - (oly + u * (ory - oly))) == 0).
    { assert (E3 : (orx - olx) * (y - (oly + u * (ory - oly)))
                   == (orx - olx) * (y - oly) - (ory - oly) * (u * (orx - olx))) by ring.
      rewrite E3, E. ring. }
    destruct (Qmult_integral _ _ E2) as [E4|E4]; [now elim Hd | lra].
  - intros [H1 H2]. assert (Hp : 0 < orx - olx) by lra.
    assert (E1 : x - olx == u * (orx - olx)) by lra.
    split.
    + destruct (Qlt_le_dec u 0) as [K|K]; [exfalso; nra | exact K].
    + destruct (Qlt_le_dec 1 u) as [K|K]; [exfalso; nra | exact K].
Qed.

Lemma sb_vertical : nlx == nrx -> sb == sa + (orx - olx) * (nry - nly).
Proof. intros E. unfold sb, sa. rewrite !side_grad. rewrite <- E. ring. Qed.

(** the crossing argument: if [new] is on one strict side of the line of [old] at its left
    end and on the other strict side at parameter [t], over the x-extent of [old], it meets
    the closed segment [old] strictly before [t] *)
Lemma crossing t :
  (olx < nlx \/ (olx == nlx /\ oly <= nly)) ->
  0 <= t <= 1 -> olx <= nx t <= orx -> sa * side (nx t) (ny t) < 0 ->
  exists t0, 0 < t0 /\ t0 < t /\ side (nx t0) (ny t0) == 0 /\ olx <= nx t0 <= orx /\
             (nx t0 == olx -> olx == nlx) /\ (nx t0 == orx -> nlx == nrx).
Proof.
  intros Hon Ht Hx H. rewrite side_affine in H.
  destruct (affine_root sa sb t Ht H) as (t0 & H0 & H1 & Hz).
  exists t0. rewrite side_affine. repeat split; try assumption.
  - unfold nx. destruct Hnew as [K|[K _]]; destruct Hon as [K2|[K2 _]]; nra.
  - unfold nx in *. destruct Hnew as [K|[K _]]; nra.
  - unfold nx. intros E. destruct Hnew as [K|[K _]]; destruct Hon as [K2|[K2 _]]; nra.
  - unfold nx in *. intros E. destruct Hnew as [K|[K _]]; [exfalso; nra | exact K].
Qed.

Definition verdict (c : comparison) (v : Q) : Prop :=
  match c with Lt => 0 <= v | Gt => v <= 0 | Eq => False end.

Lemma verdict_eqv c v w : v == w -> verdict c w -> verdict c v.
Proof. intros E. destruct c; cbn; intros H; try (rewrite E; exact H); exact H. Qed.

Lemma less_if_verdict (c : bool) v : (c = true -> 0 <= v) -> (c = false -> v <= 0) -> verdict (less_if c) v.
Proof. destruct c; cbn; auto. Qed.

Lemma sa_pos_cmp d : sa_pos (d ?= 0) = true <-> 0 < d.
Proof. destruct (Qcompare_spec d 0); cbn; split; intros; try discriminate; try reflexivity; lra. Qed.
Lemma sa_pos_cmp_false d : sa_pos (d ?= 0) = false <-> d <= 0.
Proof. destruct (Qcompare_spec d 0); cbn; split; intros; try discriminate; try reflexivity; lra. Qed.
Lemma sa_zero_cmp d : sa_zero (d ?= 0) = true <-> d == 0.
Proof. destruct (Qcompare_spec d 0); cbn; split; intros; try discriminate; try reflexivity; lra. Qed.
Lemma sa_zero_cmp_false d : sa_zero (d ?= 0) = false <-> ~ d == 0.
Proof. destruct (Qcompare_spec d 0); cbn; split; intros; try discriminate; try reflexivity; lra. Qed.

(** the contradiction every "wrong side" case ends in *)
Lemma wrong_side_absurd t :
  (olx < nlx \/ (olx == nlx /\ oly <= nly)) -> ~ olx == nlx \/ nlx == nrx ->
  NC -> HV -> 0 <= t <= 1 -> olx <= nx t <= orx -> sa * side (nx t) (ny t) < 0 -> False.
Proof.
  intros Hon Hbr Hnc Hv Ht Hx H.
  destruct (crossing t Hon Ht Hx H) as (t0 & H0 & H1 & Hz & Hx0 & Hl & Hr).
  assert (Hv0 : 0 < t0 < 1) by lra.
  destruct (Qeq_dec (nx t0) olx) as [El|El].
  - (* the crossing is at the abscissa of ol: new starts on the vertical through ol *)
    assert (E := Hl El).
    destruct Hbr as [K|K]; [now elim K|].
    (* new vertical: sb = sa + d * (nry - nly), and side at t is sa + t d (nry-nly): same sign as sa *)
    rewrite side_affine, (sb_vertical K) in H.
    assert (Ea : sa == (orx - olx) * (nly - oly)).
    { unfold sa. rewrite side_grad. rewrite <- E. ring. }
    destruct Hon as [K2|[_ K2]]; [lra|]. destruct Hnew as [K3|[_ K3]]; [lra|].
    assert (P1 : 0 <= sa) by nra.
    assert (P2 : 0 <= t * ((orx - olx) * (nry - nly))) by (apply Qmult_le_0_compat; [lra | nra]).
    assert (P3 : (1 - t) * sa + t * (sa + (orx - olx) * (nry - nly)) == sa + t * ((orx - olx) * (nry - nly))) by ring.
    rewrite P3 in H. nra.
  - destruct (Qeq_dec (nx t0) orx) as [Er|Er].
    + assert (K := Hr Er). apply (Hv K t0 Hv0). split; [exact Er|].
      rewrite side_grad in Hz. rewrite Er in Hz. nra.
    + apply (Hnc t0 Hv0 Hz). lra.
Qed.

(** ** The answer of [seg_body] names the side of [old] on which [new] runs *)
Theorem seg_body_side t :
  (olx < nlx \/ (olx == nlx /\ oly <= nly)) ->
  ~ (sa == 0 /\ sb == 0) -> NC -> HV ->
  0 <= t <= 1 -> olx <= nx t <= orx ->
  verdict (seg_body st old new less_if) (side (nx t) (ny t)).
Proof.
  intros Hon Hncol Hnc Hv Ht Hx.
  unfold SegOrder.seg_body, is_below, point_of, sarea, pt_eq. rewrite Oo, On, Lo, Pol, Pnl, Por, Pnr.
  cbn [px py fpt orient NQ eqX eqY ltY pt_eq].
  rewrite !orient_det. fold (side nlx nly) (side nrx nry). fold sa sb.
  assert (Hany : negb (sa_zero (sa ?= 0)) || negb (sa_zero (sb ?= 0)) = true).
  { destruct (sa_zero (sa ?= 0)) eqn:Za; [|reflexivity].
    destruct (sa_zero (sb ?= 0)) eqn:Zb; [|reflexivity].
    exfalso. apply Hncol. split; now apply sa_zero_cmp. }
  rewrite Hany. clear Hany.
  assert (Haff := side_affine t).
  destruct (qx_eq (QF olx) (QF nlx)) eqn:Ex.
  - apply qx_eq_FF in Ex.
    destruct (qx_eq (QF oly) (QF nly)) eqn:Ey; cbn [andb].
    + (* common left endpoint: decided by the right end of new *)
      apply qx_eq_FF in Ey.
      assert (Ea : sa == 0) by (unfold sa; rewrite side_grad, <- Ex, <- Ey; ring).
      apply (verdict_eqv _ _ _ Haff). apply less_if_verdict; intros K.
      * apply sa_pos_cmp in K. nra.
      * apply sa_pos_cmp_false in K. nra.
    + (* new starts straight above ol *)
      apply qx_eq_FF_false in Ey.
      assert (Hy : oly < nly) by (destruct Hon as [K|[_ K]]; [lra | lra]).
      assert (Ea : sa == (orx - olx) * (nly - oly)) by (unfold sa; rewrite side_grad, <- Ex; ring).
      assert (K : qx_lt (QF oly) (QF nly) = true) by now apply qx_lt_FF.
      rewrite K. cbn.
      assert (Hsa : 0 < sa) by (rewrite Ea; apply Qmult_lt_0_compat; lra).
      destruct (Qlt_le_dec (side (nx t) (ny t)) 0) as [Hneg|Hpos]; [exfalso|exact Hpos].
      assert (Hm : sa * side (nx t) (ny t) < 0).
      { assert (P : 0 < sa * - side (nx t) (ny t)) by (apply Qmult_lt_0_compat; lra).
        assert (P2 : sa * - side (nx t) (ny t) == - (sa * side (nx t) (ny t))) by ring. lra. }
      apply (wrong_side_absurd t Hon); try assumption.
      * destruct Hnew as [K2|[K2 _]]; [|right; exact K2].
        (* new not vertical but starts on the vertical through ol: the crossing is right of ol *)
        exfalso.
        destruct (crossing t Hon Ht Hx Hm) as (t0 & H0 & H1 & Hz & Hx0 & Hl & Hr).
        assert (Hv0 : 0 < t0 < 1) by lra.
        destruct (Qeq_dec (nx t0) orx) as [Er|Er]; [assert (K3 := Hr Er); lra|].
        apply (Hnc t0 Hv0 Hz). split; [unfold nx; nra | lra].
  - apply qx_eq_FF_false in Ex.
    destruct (eqb (sa_pos (sa ?= 0)) (sa_pos (sb ?= 0))) eqn:Esame.
    + (* both ends of new on one side *)
      apply eqb_prop in Esame. apply (verdict_eqv _ _ _ Haff). apply less_if_verdict; intros K.
      * assert (K2 := K). rewrite Esame in K2. apply sa_pos_cmp in K, K2. nra.
      * assert (K2 := K). rewrite Esame in K2. apply sa_pos_cmp_false in K, K2. nra.
    + apply eqb_false_iff in Esame.
      destruct (sa_zero (sa ?= 0)) eqn:Za.
      * (* T-junction: nl on the line of old *)
        apply sa_zero_cmp in Za. apply (verdict_eqv _ _ _ Haff). apply less_if_verdict; intros K.
        -- apply sa_pos_cmp in K. nra.
        -- apply sa_pos_cmp_false in K. nra.
      * apply sa_zero_cmp_false in Za.
        assert (Hfin : verdict (less_if (sa_pos (sa ?= 0))) (side (nx t) (ny t))).
        { apply less_if_verdict; intros K.
          - apply sa_pos_cmp in K.
            destruct (Qlt_le_dec (side (nx t) (ny t)) 0) as [Hneg|Hpos]; [exfalso|exact Hpos].
            apply (wrong_side_absurd t Hon); try assumption; [left; exact Ex | nra].
          - apply sa_pos_cmp_false in K.
            destruct (Qlt_le_dec 0 (side (nx t) (ny t))) as [Hpos|Hneg]; [exfalso|exact Hneg].
            apply (wrong_side_absurd t Hon); try assumption; [left; exact Ex | nra]. }
        assert (Hdet : ~ IntersectProofs.det olx oly orx ory nlx nly nrx nry == 0).
        { intros E. assert (E2 : sb - sa == IntersectProofs.det olx oly orx ory nlx nly nrx nry).
          { unfold sb, sa, side, EventOrderQ.det, IntersectProofs.det. ring. }
          assert (E3 : sb == sa) by lra.
          apply Esame. now rewrite E3. }
        destruct (intersection_exact Hdet) as [[Hi _]|(x & y & Hi & Hb)];
          rewrite Hi; cbn [andb px py fpt].
        -- exact Hfin.
        -- destruct (qx_eq (QF x) (QF nlx) && qx_eq (QF y) (QF nly)) eqn:Ep; [exfalso|exact Hfin].
           apply andb_prop in Ep. destruct Ep as [E1 E2].
           apply qx_eq_FF in E1, E2.
           destruct Hb as (s & t' & Hs & Ht' & Hx1 & Hy1 & _).
           apply Za. unfold sa. rewrite side_grad. rewrite <- E1, <- E2, Hx1, Hy1. ring.
Qed.

(** ** ... which is the vertical order *)
Theorem seg_body_vertical_order s t :
  (olx < nlx \/ (olx == nlx /\ oly <= nly)) ->
  ~ (sa == 0 /\ sb == 0) -> NC -> HV ->
  0 <= s <= 1 -> 0 <= t <= 1 -> olx + s * (orx - olx) == nx t ->
  match seg_body st old new less_if with
  | Lt => oly + s * (ory - oly) <= ny t
  | Gt => ny t <= oly + s * (ory - oly)
  | Eq => False
  end.
Proof.
  intros Hon Hncol Hnc Hv Hs Ht Hx.
  assert (Hr : olx <= nx t <= orx) by (rewrite <- Hx; nra).
  assert (H := seg_body_side t Hon Hncol Hnc Hv Ht Hr).
  assert (E : side (nx t) (ny t) == (orx - olx) * (ny t - (oly + s * (ory - oly)))).
  { rewrite side_grad, <- Hx. ring. }
  destruct (seg_body st old new less_if); cbn [verdict] in H; [exact H| |]; rewrite E in H.
  - destruct (Qlt_le_dec (ny t) (oly + s * (ory - oly))) as [K|K]; [exfalso; nra | exact K].
  - destruct (Qlt_le_dec (oly + s * (ory - oly)) (ny t)) as [K|K]; [exfalso; nra | exact K].
Qed.

(** the event order supplies the first hypothesis *)
Lemma is_before_lex : is_before st old new = true -> olx < nlx \/ (olx == nlx /\ oly <= nly).
Proof.
  unfold is_before, ev_gt, cmp_events, gtX, gtY. rewrite Pol, Pnl. cbn [px py fpt NQ ltX ltY].
  destruct (qx_lt (QF nlx) (QF olx)) eqn:E1; [discriminate|].
  apply qx_lt_FF_false in E1.
  destruct (qx_lt (QF olx) (QF nlx)) eqn:E2; [apply qx_lt_FF in E2; left; exact E2|].
  apply qx_lt_FF_false in E2.
  destruct (qx_lt (QF nly) (QF oly)) eqn:E3; [discriminate|].
  apply qx_lt_FF_false in E3. intros _. right. split; [lra | exact E3].
Qed.

(** ** The public function, both argument orders *)
Theorem compare_segments_vertical_order s t :
  old <> new -> is_before st old new = true ->
  ~ (sa == 0 /\ sb == 0) -> NC -> HV ->
  0 <= s <= 1 -> 0 <= t <= 1 -> olx + s * (orx - olx) == nx t ->
  match compare_segments st old new with
  | Lt => oly + s * (ory - oly) <= ny t
  | Gt => ny t <= oly + s * (ory - oly)
  | Eq => False
  end.
Proof.
  intros Hne Hb. rewrite (compare_segments_body NQ st old new Hne), Hb.
  apply seg_body_vertical_order. now apply is_before_lex.
Qed.

Theorem compare_segments_vertical_order_swapped s t :
  old <> new -> is_before st new old = false -> is_before st old new = true ->
  ~ (sa == 0 /\ sb == 0) -> NC -> HV ->
  0 <= s <= 1 -> 0 <= t <= 1 -> olx + s * (orx - olx) == nx t ->
  match compare_segments st new old with
  | Gt => oly + s * (ory - oly) <= ny t
  | Lt => ny t <= oly + s * (ory - oly)
  | Eq => False
  end.
Proof.
  intros Hne Hb1 Hb2 Hncol Hnc Hv Hs Ht Hx.
  rewrite (compare_segments_body NQ st new old (not_eq_sym Hne)), Hb1, seg_body_opp.
  assert (H := seg_body_vertical_order s t (is_before_lex Hb2) Hncol Hnc Hv Hs Ht Hx).
  destruct (seg_body st old new less_if); cbn [CompOpp]; exact H.
Qed.

End SegQ.

(** non-vacuity: old = (0,0)->(4,0), new = (1,1)->(3,2); every hypothesis of
    [compare_segments_vertical_order] holds and the answer is [Lt] *)
Definition ex_store : store NQ :=
  let e (x y : Q) (l : bool) (o : positive) (s : bool) := new_event (N := NQ) 0%N (fpt x y) l (Some o) s true in
  let '(s1, _) := alloc (empty_store NQ) (e 0 0 true 2%positive true) in
  let '(s2, _) := alloc s1 (e 4 0 false 1%positive true) in
  let '(s3, _) := alloc s2 (e 1 1 true 4%positive false) in
  let '(s4, _) := alloc s3 (e 3 2 false 3%positive false) in s4.

Example vertical_order_example :
  compare_segments ex_store 1%positive 3%positive = Lt /\
  is_before ex_store 1%positive 3%positive = true /\
  ~ (sa 0 0 4 0 1 1 == 0 /\ sb 0 0 4 0 3 2 == 0) /\
  NC 0 0 4 0 1 1 3 2 /\ HV 4 0 1 1 3 2.
Proof.
  split; [vm_compute; reflexivity|]. split; [vm_compute; reflexivity|]. split; [|split].
  - intros [H _]. vm_compute in H. discriminate.
  - intros v Hv Hz _. unfold side, nx, ny, EventOrderQ.det in Hz. lra.
  - intros E. exfalso. vm_compute in E. discriminate.
Qed.
