(** * What an accepted planarity certificate says about the store (C13): any two distinct
    left events of the returned vector, with their partners, are sub-segments that meet in end
    points of both only, or coincide completely and belong to different operands. *)
From Coq Require Import Bool List PArith NArith QArith Lia.
From GB Require Import Prim Num NumQ Event SplitCover OnEdge Cert13.
Import ListNotations.

Section Store.
Variable N : Num.
Variable cv : pt N -> option (Q * Q).

Lemma seg_rel_sym e f : seg_rel e f -> seg_rel f e.
Proof.
  destruct e as [[[ax ay] [bx by_]] sa], f as [[[cx cy] [dx dy]] sb]. unfold seg_rel.
  intros [H|(Hs & [[H1 H2]|[H1 H2]])].
  - left. intros x y H1 H2. destruct (H x y H2 H1) as [A B]. split; assumption.
  - right. split; [intros K; apply Hs; now symmetry|]. left. split; apply qeqp_sym; assumption.
  - right. split; [intros K; apply Hs; now symmetry|]. right. split; apply qeqp_sym; assumption.
Qed.

(** the segment read off for a left event *)
Definition seg_at (st : store N) (i : eid) (s : edge) : Prop := seg_of N cv st i = Some (Some s).

Lemma segments_of_in (st : store N) : forall evs l i s,
  segments_of N cv st evs = Some l -> In i evs -> seg_at st i s -> In s l.
Proof.
  induction evs as [|j r IH]; intros l i s H Hi Hs; [destruct Hi|].
  cbn [segments_of] in H. destruct (seg_of N cv st j) as [[sj|]|] eqn:Ej; try discriminate;
    destruct (segments_of N cv st r) as [lr|] eqn:Er; try discriminate; inversion H; subst l.
  - destruct Hi as [<-|Hi]; [unfold seg_at in Hs; rewrite Ej in Hs; inversion Hs; now left | right; eapply IH; eauto].
  - destruct Hi as [<-|Hi]; [unfold seg_at in Hs; rewrite Ej in Hs; discriminate | eapply IH; eauto].
Qed.

Lemma segments_of_pairs (st : store N) : forall evs l,
  segments_of N cv st evs = Some l -> NoDup evs -> ForallOrdPairs seg_rel l ->
  forall i j si sj, In i evs -> In j evs -> i <> j -> seg_at st i si -> seg_at st j sj -> seg_rel si sj.
Proof.
  induction evs as [|k r IH]; intros l H ND F i j si sj Hi Hj Hij Si Sj; [destruct Hi|].
  inversion ND as [|k' r' Nk NDr]; subst.
  cbn [segments_of] in H. destruct (seg_of N cv st k) as [[sk|]|] eqn:Ek; try discriminate;
    destruct (segments_of N cv st r) as [lr|] eqn:Er; try discriminate; inversion H; subst l.
  - inversion F as [|a l' Fa Fl]; subst.
    destruct Hi as [<-|Hi], Hj as [<-|Hj].
    + now elim Hij.
    + unfold seg_at in Si. rewrite Ek in Si. inversion Si; subst si.
      rewrite Forall_forall in Fa. apply Fa. eapply segments_of_in; eauto.
    + unfold seg_at in Sj. rewrite Ek in Sj. inversion Sj; subst sj.
      apply seg_rel_sym. rewrite Forall_forall in Fa. apply Fa. eapply segments_of_in; eauto.
    + eapply (IH lr eq_refl NDr Fl i j); eauto.
  - destruct Hi as [<-|Hi]; [unfold seg_at in Si; rewrite Ek in Si; discriminate|].
    destruct Hj as [<-|Hj]; [unfold seg_at in Sj; rewrite Ek in Sj; discriminate|].
    eapply (IH lr eq_refl NDr F i j); eauto.
Qed.

Theorem planar_run_store (st : store N) (evs : list eid) :
  planar_run N cv st evs = true -> NoDup evs ->
  forall i j si sj, In i evs -> In j evs -> i <> j -> seg_at st i si -> seg_at st j sj -> seg_rel si sj.
Proof.
  intros H ND. destruct (planar_run_sound N cv st evs H) as (l & Hl & F).
  exact (segments_of_pairs st evs l Hl ND F).
Qed.

(** [seg_at] unfolded: a left event, its partner, both points finite *)
Lemma seg_at_spec (st : store N) (i : eid) ax ay bx by_ sb :
  seg_at st i (ax, ay, (bx, by_), sb) <->
  e_left (getE st i) = true /\ exists o, e_other (getE st i) = Some o /\
    cv (e_point (getE st i)) = Some (ax, ay) /\ cv (e_point (getE st o)) = Some (bx, by_) /\ sb = e_is_subject (getE st i).
Proof.
  unfold seg_at, seg_of. split.
  - destruct (e_left (getE st i)); [|discriminate].
    destruct (e_other (getE st i)) as [o|]; [|discriminate].
    destruct (cv (e_point (getE st i))) as [[px py]|] eqn:E1; [|discriminate].
    destruct (cv (e_point (getE st o))) as [[qx qy]|] eqn:E2; [|discriminate].
    intros K. inversion K; subst. split; [reflexivity|]. exists o. auto.
  - intros (Hl & o & Ho & K1 & K2 & ->). rewrite Hl, Ho, K1, K2. reflexivity.
Qed.

End Store.
