(** * A per-run certificate for C14 in Coq: the recorded facts of every sub-segment against the
    geometry of the operands, decided with the crossing-number membership of [Slab] (the one
    the verified region checker of C01 uses: half-open rule, edges strictly below the point).

    For every non-vertical sub-segment [s] of the returned vector whose partner was returned
    too, with [m] its midpoint: [in_out] = the own operand is inside just below [s];
    [other_in_out] = the other operand is outside there (for the non-contributing twin: with
    the carrier counted as below it); the edge type is [Normal] exactly when [s] has no
    coincident twin of the other operand, a twin pair is typed {NonContributing,
    Same/DifferentTransition} with Same iff both operands lie on the same side; the result
    transition is what the operation's table gives for below / above; the recorded lower result
    edge is a result edge and does not pass above [m].  The certificate is the formal statement
    of C14 for one run; that every run of a valid input passes is not proved. *)
From Coq Require Import Bool List PArith NArith ZArith QArith Lia.
From GB Require Import Prim Num NumQ NumB Event FillQueue Slab Convert Cert13.
Import ListNotations.
Local Open Scope Q_scope.

Record sub := mkSub {
  s_a : qpt; s_b : qpt; s_subj : bool; s_io : bool; s_oio : bool;
  s_ty : edge_type; s_rt : result_transition;
  s_pir : option (result_transition * option (qpt * qpt))
}.

Definition qpt_eqb (p q : qpt) : bool := Qeq_bool (qx p) (qx q) && Qeq_bool (qy p) (qy q).
Definition mid (s : sub) : qpt := mkQpt ((qx (s_a s) + qx (s_b s)) / 2) ((qy (s_a s) + qy (s_b s)) / 2).
Definition vertical_s (s : sub) : bool := Qeq_bool (qx (s_a s)) (qx (s_b s)).
Definition same_seg (s t : sub) : bool := qpt_eqb (s_a s) (s_a t) && qpt_eqb (s_b s) (s_b t).

Definition res (op : operation) (subj own oth : bool) : bool :=
  let a := if subj then own else oth in
  let b := if subj then oth else own in
  match op with
  | Intersection => a && b
  | Union => a || b
  | Difference => a && negb b
  | Xor => xorb a b
  end.

Definition want_rt (op : operation) (s : sub) (own_b oth_b : bool) : result_transition :=
  match s_ty s with
  | NonContributing => RTNone
  | Normal =>
      let below := res op (s_subj s) own_b oth_b in
      let above := res op (s_subj s) (negb own_b) oth_b in
      if eqb below above then RTNone else if above then OutIn else InOut
  | ty =>
      let ob := match ty with SameTransition => own_b | _ => negb own_b end in
      let below := res op (s_subj s) own_b ob in
      let above := res op (s_subj s) (negb own_b) (negb ob) in
      if eqb below above then RTNone else if above then OutIn else InOut
  end.

Definition pir_ok (m : qpt) (s : sub) : bool :=
  match s_pir s with
  | None => true
  | Some (prt, seg) =>
      negb (rt_eqb prt RTNone) &&
      match seg with
      | Some (p, q) =>
          if Qeq_bool (qx p) (qx q) then true
          else if Qle_bool (qx p) (qx m) && Qle_bool (qx m) (qx q)
               then Qle_bool (qy p + (qx m - qx p) * ((qy q - qy p) / (qx q - qx p))) (qy m)
               else true
      | None => true
      end
  end.

Definition twin_types_ok (a b : edge_type) : bool :=
  match a, b with
  | NonContributing, SameTransition | SameTransition, NonContributing
  | NonContributing, DifferentTransition | DifferentTransition, NonContributing => true
  | _, _ => false
  end.

Definition sub_ok (op : operation) (RA RB : list ring) (all : list sub) (s : sub) : bool :=
  if vertical_s s then true
  else
    let m := mid s in
    let own := if s_subj s then RA else RB in
    let oth := if s_subj s then RB else RA in
    let own_b := inside_eo own m in
    let oth_geo := inside_eo oth m in
    let oth_b := match s_ty s with NonContributing => negb oth_geo | _ => oth_geo end in
    let twin := find (fun t => same_seg s t && negb (eqb (s_subj t) (s_subj s))) all in
    eqb (s_io s) own_b &&
    (match s_ty s with Normal | NonContributing => eqb (s_oio s) (negb oth_b) | _ => true end) &&
    Nat.leb (length (filter (same_seg s) all)) 2 &&
    (match twin with
     | Some t =>
         twin_types_ok (s_ty s) (s_ty t) &&
         (match s_ty s with
          | SameTransition => eqb oth_geo own_b
          | DifferentTransition => negb (eqb oth_geo own_b)
          | _ => true
          end)
     | None => edge_type_eqb (s_ty s) Normal
     end) &&
    rt_eqb (s_rt s) (want_rt op s own_b oth_b) &&
    pir_ok m s.

Definition cert14 (op : operation) (RA RB : list ring) (subs : list sub) : bool :=
  forallb (sub_ok op RA RB subs) subs.

Theorem cert14_sound op RA RB subs :
  cert14 op RA RB subs = true -> forall s, In s subs -> sub_ok op RA RB subs s = true.
Proof. unfold cert14. rewrite forallb_forall. auto. Qed.

(** the two membership clauses in words *)
Theorem sub_ok_flags op RA RB subs s :
  sub_ok op RA RB subs s = true -> vertical_s s = false ->
  s_io s = inside_eo (if s_subj s then RA else RB) (mid s) /\
  (s_ty s = Normal -> s_oio s = negb (inside_eo (if s_subj s then RB else RA) (mid s))) /\
  (s_ty s = NonContributing -> s_oio s = inside_eo (if s_subj s then RB else RA) (mid s)) /\
  s_rt s = want_rt op s (inside_eo (if s_subj s then RA else RB) (mid s))
             (match s_ty s with NonContributing => negb (inside_eo (if s_subj s then RB else RA) (mid s))
                              | _ => inside_eo (if s_subj s then RB else RA) (mid s) end).
Proof.
  unfold sub_ok. intros H Hv. rewrite Hv in H.
  repeat (apply andb_prop in H; destruct H as [H ?]).
  apply eqb_prop in H.
  split; [exact H|]. split; [|split].
  - intros T. rewrite T in *. now apply eqb_prop.
  - intros T. rewrite T in *. match goal with K : eqb (s_oio s) _ = true |- _ => apply eqb_prop in K; rewrite K end. now rewrite negb_involutive.
  - match goal with K : rt_eqb _ _ = true |- _ => revert K end.
    generalize (want_rt op s (inside_eo (if s_subj s then RA else RB) (mid s))
       match s_ty s with NonContributing => negb (inside_eo (if s_subj s then RB else RA) (mid s)) | _ => inside_eo (if s_subj s then RB else RA) (mid s) end).
    intros w K. destruct (s_rt s), w; cbn in K; try discriminate; reflexivity.
Qed.

(** ** reading the data off a run *)
Section Run.
Variable N : Num.
Variable cv : pt N -> option (Q * Q).

Definition qpt_of (p : pt N) : option qpt := match cv p with Some (x, y) => Some (mkQpt x y) | None => None end.

Definition seg_q (st : store N) (i : eid) : option (qpt * qpt) :=
  let e := getE st i in
  match e_other e with
  | Some o => match qpt_of (e_point e), qpt_of (e_point (getE st o)) with
              | Some a, Some b => Some (a, b)
              | _, _ => None
              end
  | None => None
  end.

Definition sub_of (st : store N) (evs : list eid) (i : eid) : option (option sub) :=
  let e := getE st i in
  if e_left e then
    match e_other e with
    | Some o =>
        if existsb (Pos.eqb o) evs then
          match seg_q st i with
          | Some (a, b) =>
              let pir := match e_prev_in_result e with
                         | None => None
                         | Some k => Some (e_result_transition (getE st k),
                                           if e_left (getE st k) then seg_q st k else None)
                         end in
              Some (Some (mkSub a b (e_is_subject e) (e_in_out e) (e_other_in_out e) (e_edge_type e)
                                (e_result_transition e) pir))
          | None => None
          end
        else Some None
    | None => None
    end
  else Some None.

Fixpoint subs_of (st : store N) (all evs : list eid) : option (list sub) :=
  match evs with
  | [] => Some []
  | i :: r =>
      match sub_of st all i, subs_of st all r with
      | Some (Some s), Some l => Some (s :: l)
      | Some None, Some l => Some l
      | _, _ => None
      end
  end.

Fixpoint ring_q (r : list (pt N)) : option ring :=
  match r with
  | [] => Some []
  | p :: t => match qpt_of p, ring_q t with Some a, Some l => Some (a :: l) | _, _ => None end
  end.
Fixpoint rings_q (rs : list (list (pt N))) : option (list ring) :=
  match rs with
  | [] => Some []
  | r :: t => match ring_q r, rings_q t with Some a, Some l => Some (a :: l) | _, _ => None end
  end.
Definition operand_rings (A : list (polygon N)) : option (list ring) :=
  rings_q (flat_map (fun P => exterior P :: interiors P) A).

Definition cert14_run (op : operation) (A B : list (polygon N)) (st : store N) (evs : list eid) : bool :=
  match operand_rings A, operand_rings B, subs_of st evs evs with
  | Some RA, Some RB, Some subs => cert14 op RA RB subs
  | _, _, _ => false
  end.

Theorem cert14_run_sound op A B st evs :
  cert14_run op A B st evs = true ->
  exists RA RB subs, operand_rings A = Some RA /\ operand_rings B = Some RB /\ subs_of st evs evs = Some subs /\
    forall s, In s subs -> sub_ok op RA RB subs s = true.
Proof.
  unfold cert14_run. destruct (operand_rings A) as [RA|]; [|discriminate]. destruct (operand_rings B) as [RB|]; [|discriminate].
  destruct (subs_of st evs evs) as [subs|]; [|discriminate]. intros H. exists RA, RB, subs. repeat split; auto.
  now apply cert14_sound.
Qed.
End Run.

Definition cert14_q := cert14_run NQ cvQ.
Definition cert14_64 := cert14_run NB64 (cvB 53 1024).
Definition cert14_32 := cert14_run NB32 (cvB 24 128).
