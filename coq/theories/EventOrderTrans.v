(** * Transitivity of the event order at the exact instance (C15).

    Events with rational points.  The order is lexicographic in the key (x, y, right before
    left); among events with equal keys (one point, equal left flags) it is the angular order
    of the partners.  Transitivity is proved (i) whenever one of the two steps is decided by
    the key, and (ii) for three events at one point whose partners lie in the open half-plane
    of later points (left events; that is C13's "left event first") and are pairwise not
    collinear with the point: [Lt] = processed later. *)
From Coq Require Import Bool List PArith QArith Lqa Lia.
From GB Require Import Num NumQ NumLaws NumLawsQ Event Cmp EventOrder EventOrderQ.
Local Open Scope Q_scope.

Section Trans.
Variable st : store NQ.

(** events with rational points *)
Definition has_pt (a : eid) (x y : Q) : Prop := e_point (getE st a) = mkPt NQ (QF x) (QF y).

(** the key comparison: [Lt] when [a]'s key is greater (a is processed later) *)
Definition kcmp (xa ya : Q) (la : bool) (xb yb : Q) (lb : bool) : comparison :=
  match xa ?= xb with
  | Gt => Lt | Lt => Gt
  | Eq => match ya ?= yb with
          | Gt => Lt | Lt => Gt
          | Eq => if negb (eqb la lb) then (if la then Lt else Gt) else Eq
          end
  end.

Lemma qx_lt_cmp x y : qx_lt (QF x) (QF y) = match x ?= y with Lt => true | _ => false end.
Proof. unfold qx_lt. now rewrite qx_compare_FF. Qed.

(** whenever the keys differ the order is the key order *)
Lemma cmp_events_key a b xa ya xb yb :
  has_pt a xa ya -> has_pt b xb yb ->
  kcmp xa ya (e_left (getE st a)) xb yb (e_left (getE st b)) <> Eq ->
  cmp_events st a b = kcmp xa ya (e_left (getE st a)) xb yb (e_left (getE st b)).
Proof.
  intros Pa Pb. unfold cmp_events, kcmp, gtX, gtY. rewrite Pa, Pb. cbn [px py ltX ltY NQ].
  rewrite !qx_lt_cmp, <- (Qcompare_antisym xa xb), <- (Qcompare_antisym ya yb).
  destruct (xa ?= xb); cbn [CompOpp]; try reflexivity.
  destruct (ya ?= yb); cbn [CompOpp]; try reflexivity.
  destruct (negb (eqb (e_left (getE st a)) (e_left (getE st b)))); [reflexivity | intros H; now elim H].
Qed.

(** equal keys: same point, same flag *)
Lemma kcmp_Eq xa ya la xb yb lb : kcmp xa ya la xb yb lb = Eq -> xa == xb /\ ya == yb /\ la = lb.
Proof.
  unfold kcmp. destruct (Qcompare_spec xa xb); try discriminate. destruct (Qcompare_spec ya yb); try discriminate.
  destruct la, lb; cbn; try discriminate; auto.
Qed.

(** the key order is transitive, also through equal keys *)
Lemma kcmp_trans xa ya la xb yb lb xc yc lc :
  kcmp xa ya la xb yb lb <> Gt -> kcmp xb yb lb xc yc lc <> Gt ->
  (kcmp xa ya la xb yb lb = Lt \/ kcmp xb yb lb xc yc lc = Lt) ->
  kcmp xa ya la xc yc lc = Lt.
Proof.
  unfold kcmp.
  destruct (Qcompare_spec xa xb), (Qcompare_spec xb xc), (Qcompare_spec xa xc);
    try (intros; exfalso; lra); try (intros; reflexivity); try (intros K1 K2 [K|K]; congruence);
  destruct (Qcompare_spec ya yb), (Qcompare_spec yb yc), (Qcompare_spec ya yc);
    try (intros; exfalso; lra); try (intros; reflexivity); try (intros K1 K2 [K|K]; congruence);
  destruct la, lb, lc; cbn; intros K1 K2 [K|K]; congruence.
Qed.

(** C15 (i): a chain of two "later than" steps one of which is decided by the key *)
Theorem cmp_events_trans_key a b c xa ya xb yb xc yc :
  has_pt a xa ya -> has_pt b xb yb -> has_pt c xc yc ->
  cmp_events st a b = Lt -> cmp_events st b c = Lt ->
  (kcmp xa ya (e_left (getE st a)) xb yb (e_left (getE st b)) <> Eq
   \/ kcmp xb yb (e_left (getE st b)) xc yc (e_left (getE st c)) <> Eq) ->
  cmp_events st a c = Lt.
Proof.
  intros Pa Pb Pc Hab Hbc Hk.
  set (kab := kcmp xa ya (e_left (getE st a)) xb yb (e_left (getE st b))) in *.
  set (kbc := kcmp xb yb (e_left (getE st b)) xc yc (e_left (getE st c))) in *.
  assert (Nab : kab <> Gt).
  { intros E. assert (kab <> Eq) by congruence.
    rewrite (cmp_events_key a b xa ya xb yb Pa Pb) in Hab by assumption. fold kab in Hab. congruence. }
  assert (Nbc : kbc <> Gt).
  { intros E. assert (kbc <> Eq) by congruence.
    rewrite (cmp_events_key b c xb yb xc yc Pb Pc) in Hbc by assumption. fold kbc in Hbc. congruence. }
  assert (Lt1 : kab = Lt \/ kbc = Lt).
  { destruct Hk as [H|H]; [left; destruct kab | right; destruct kbc]; congruence. }
  pose proof (kcmp_trans _ _ _ _ _ _ _ _ _ Nab Nbc Lt1) as Kac.
  rewrite (cmp_events_key a c xa ya xc yc Pa Pc); [exact Kac | congruence].
Qed.

End Trans.

(** ** the angular part: orientation is transitive inside a half-plane *)
Definition later (px py x y : Q) : Prop := px < x \/ (px == x /\ py < y).

Lemma angular_trans px py ax ay bx by_ cx cy :
  later px py ax ay -> later px py bx by_ -> later px py cx cy ->
  det px py ax ay bx by_ < 0 -> det px py bx by_ cx cy < 0 -> det px py ax ay cx cy < 0.
Proof.
  unfold later, det. intros Ha Hb Hc H1 H2.
  (* in terms of u = a - p, v = b - p, w = c - p the three determinants are u x v, v x w, u x w *)
  assert (E1 : (px - bx) * (ay - by_) - (py - by_) * (ax - bx) == (ax - px) * (by_ - py) - (ay - py) * (bx - px)) by ring.
  assert (E2 : (px - cx) * (by_ - cy) - (py - cy) * (bx - cx) == (bx - px) * (cy - py) - (by_ - py) * (cx - px)) by ring.
  assert (E3 : (px - cx) * (ay - cy) - (py - cy) * (ax - cx) == (ax - px) * (cy - py) - (ay - py) * (cx - px)) by ring.
  rewrite E1 in H1. rewrite E2 in H2. rewrite E3. clear E1 E2 E3.
  assert (Hu : 0 < ax - px \/ (ax - px == 0 /\ 0 < ay - py)) by (destruct Ha as [?|[? ?]]; [left | right; split]; lra).
  assert (Hv : 0 < bx - px \/ (bx - px == 0 /\ 0 < by_ - py)) by (destruct Hb as [?|[? ?]]; [left | right; split]; lra).
  assert (Hw : 0 < cx - px \/ (cx - px == 0 /\ 0 < cy - py)) by (destruct Hc as [?|[? ?]]; [left | right; split]; lra).
  revert H1 H2 Hu Hv Hw.
  generalize (ax - px) (ay - py) (bx - px) (by_ - py) (cx - px) (cy - py). clear.
  intros ux uy vx vy wx wy H1 H2 Hu Hv Hw.
  destruct Hu as [Hu|[Hu Hu']], Hv as [Hv|[Hv Hv']], Hw as [Hw|[Hw Hw']];
    try rewrite Hu in *; try rewrite Hv in *; try rewrite Hw in *; try nra.
Qed.

(** C15 (ii): three left events at one point whose partners are later points, pairwise not
    collinear with the point: "processed later than" is transitive *)
Section Angular3.
Variable st : store NQ.
Variables a b c oa ob oc : eid.
Variables xa ya xb yb xc yc oax oay obx oby ocx ocy : Q.
Hypothesis Pa : e_point (getE st a) = mkPt NQ (QF xa) (QF ya).
Hypothesis Pb : e_point (getE st b) = mkPt NQ (QF xb) (QF yb).
Hypothesis Pc : e_point (getE st c) = mkPt NQ (QF xc) (QF yc).
Hypothesis Hxab : xa == xb.  Hypothesis Hyab : ya == yb.
Hypothesis Hxbc : xb == xc.  Hypothesis Hybc : yb == yc.
Hypothesis Oa : e_other (getE st a) = Some oa.
Hypothesis Ob : e_other (getE st b) = Some ob.
Hypothesis Oc : e_other (getE st c) = Some oc.
Hypothesis Poa : e_point (getE st oa) = mkPt NQ (QF oax) (QF oay).
Hypothesis Pob : e_point (getE st ob) = mkPt NQ (QF obx) (QF oby).
Hypothesis Poc : e_point (getE st oc) = mkPt NQ (QF ocx) (QF ocy).
Hypothesis La : e_left (getE st a) = true.
Hypothesis Lb : e_left (getE st b) = true.
Hypothesis Lc : e_left (getE st c) = true.
(** the partners of left events are later points (C13: left event first) *)
Hypothesis Ha : later xa ya oax oay.
Hypothesis Hb : later xb yb obx oby.
Hypothesis Hc : later xc yc ocx ocy.

Lemma left_cmp_lt (u v ou ov : eid) (xu yu xv yv oux ouy ovx ovy : Q) :
  e_point (getE st u) = mkPt NQ (QF xu) (QF yu) -> e_point (getE st v) = mkPt NQ (QF xv) (QF yv) ->
  xu == xv -> yu == yv ->
  e_other (getE st u) = Some ou -> e_other (getE st v) = Some ov ->
  e_point (getE st ou) = mkPt NQ (QF oux) (QF ouy) -> e_point (getE st ov) = mkPt NQ (QF ovx) (QF ovy) ->
  e_left (getE st u) = true -> e_left (getE st v) = true ->
  det xu yu oux ouy ovx ovy < 0 -> cmp_events st u v = Lt.
Proof.
  intros Pu Pv Hx Hy Ou Ov Pou Pov Lu Lv Hd.
  rewrite (cmp_ab st u v ou ov xu yu xv yv oux ouy ovx ovy Pu Pv Hx Hy Ou Ov Pou Pov) by congruence.
  assert (E : qx_orient (QF xu) (QF yu) (QF oux) (QF ouy) (QF ovx) (QF ovy) = Lt).
  { rewrite orient_det. now apply Qlt_alt. }
  rewrite E. cbn [sa_zero negb].
  unfold is_below, point_of, sarea. rewrite Ou, Pu, Pou, Lu. cbn [px py orient NQ]. rewrite E. reflexivity.
Qed.

Lemma left_cmp_lt_inv (u v ou ov : eid) (xu yu xv yv oux ouy ovx ovy : Q) :
  e_point (getE st u) = mkPt NQ (QF xu) (QF yu) -> e_point (getE st v) = mkPt NQ (QF xv) (QF yv) ->
  xu == xv -> yu == yv ->
  e_other (getE st u) = Some ou -> e_other (getE st v) = Some ov ->
  e_point (getE st ou) = mkPt NQ (QF oux) (QF ouy) -> e_point (getE st ov) = mkPt NQ (QF ovx) (QF ovy) ->
  e_left (getE st u) = true -> e_left (getE st v) = true ->
  ~ det xu yu oux ouy ovx ovy == 0 ->
  cmp_events st u v = Lt -> det xu yu oux ouy ovx ovy < 0.
Proof.
  intros Pu Pv Hx Hy Ou Ov Pou Pov Lu Lv Hnz.
  rewrite (cmp_ab st u v ou ov xu yu xv yv oux ouy ovx ovy Pu Pv Hx Hy Ou Ov Pou Pov) by congruence.
  rewrite orient_det.
  unfold is_below, point_of, sarea. rewrite Ou, Pu, Pou, Lu. cbn [px py orient NQ]. rewrite orient_det.
  destruct (Qcompare_spec (det xu yu oux ouy ovx ovy) 0) as [E|E|E]; cbn; [contradiction | intros _; exact E | discriminate].
Qed.

Theorem cmp_events_trans_angular :
  ~ det xa ya oax oay obx oby == 0 -> ~ det xb yb obx oby ocx ocy == 0 ->
  cmp_events st a b = Lt -> cmp_events st b c = Lt -> cmp_events st a c = Lt.
Proof.
  intros N1 N2 Hab Hbc.
  pose proof (left_cmp_lt_inv a b oa ob xa ya xb yb oax oay obx oby Pa Pb Hxab Hyab Oa Ob Poa Pob La Lb N1 Hab) as D1.
  pose proof (left_cmp_lt_inv b c ob oc xb yb xc yc obx oby ocx ocy Pb Pc Hxbc Hybc Ob Oc Pob Poc Lb Lc N2 Hbc) as D2.
  apply (left_cmp_lt a c oa oc xa ya xc yc oax oay ocx ocy Pa Pc); try assumption;
    try (rewrite Hxab; exact Hxbc); try (rewrite Hyab; exact Hybc).
  (* bring the three determinants to the common point (xa, ya) *)
  assert (D2' : det xa ya obx oby ocx ocy < 0).
  { assert (E : det xa ya obx oby ocx ocy == det xb yb obx oby ocx ocy) by (unfold det; rewrite Hxab, Hyab; ring).
    rewrite E. exact D2. }
  assert (Hb' : later xa ya obx oby) by (unfold later in *; rewrite Hxab, Hyab; exact Hb).
  assert (Hc' : later xa ya ocx ocy) by (unfold later in *; rewrite Hxab, Hyab, Hxbc, Hybc; exact Hc).
  exact (angular_trans xa ya oax oay obx oby ocx ocy Ha Hb' Hc' D1 D2').
Qed.

End Angular3.
