(** * [divide_segment.rs] and [possible_intersection.rs] *)
From Coq Require Import Bool List PArith.
From GB Require Import Num Event Intersect Cmp Heap Outcome.
Import ListNotations.
Set Implicit Arguments.

Section Divide.
Variable N : Num.
Variable cfg : config.
Notation store := (store N).
Notation pt := (pt N).

(** the event queue: a binary max-heap of ids ordered by [cmp_events] on the current store *)
Definition queue := list eid.
Definition qpush (st : store) (q : queue) (i : eid) : queue := push (ev_le st) xH q i.
Definition qpop (st : store) (q : queue) : option (eid * queue) := pop (ev_le st) xH q.

Record sq := mkSQ { sq_st : store; sq_q : queue }.

Definition divide_segment (s : sq) (se_l : eid) (inter : pt) : outcome sq :=
  let st := sq_st s in
  let el := getE st se_l in
  if c_debug cfg && negb (e_left el) then Panic PDebugDivideNotLeft
  else
    match e_other el with
    | None => Ok s
    | Some se_r =>
        let inter' :=
          if eqX N (px inter) (px (e_point el)) && ltY N (py inter) (py (e_point el))
          then mkPt N (next_upX N (px inter)) (py inter) else inter in
        let '(st1, r) := alloc st (new_event (e_contour_id el) inter' false (Some se_l) (e_is_subject el) true) in
        let '(st2, l) := alloc st1 (new_event (e_contour_id el) inter' true (Some se_r) (e_is_subject el) true) in
        if c_debug cfg && negb (is_before st2 se_l r) then Panic PDebugDivideNotBefore
        else
          let st3 :=
            if negb (is_before st2 l se_r)
            then upd (upd st2 se_r (fun e => set_left e true)) l (fun e => set_left e false)
            else st2 in
          let st4 := upd st3 se_l (fun e => set_other e (Some r)) in
          let st5 := upd st4 se_r (fun e => set_other e (Some l)) in
          let q1 := qpush st5 (sq_q s) l in
          let q2 := qpush st5 q1 r in
          Ok (mkSQ st5 q2)
    end.

Definition nth_ev (l : list (eid * eid)) (n : nat) : eid * eid := nth n l (xH, xH).

Definition possible_intersection (s : sq) (se1 se2 : eid) : outcome (sq * nat) :=
  let st := sq_st s in
  let e1 := getE st se1 in
  let e2 := getE st se2 in
  match e_other e1, e_other e2 with
  | Some other1, Some other2 =>
      let p1 := e_point e1 in
      let p2 := e_point e2 in
      let o1 := point_of st other1 in
      let o2 := point_of st other2 in
      match intersection p1 o1 p2 o2 with
      | LNone => Ok (s, 0)
      | LPoint inter =>
          if pt_eq p1 p2 || pt_eq o1 o2 then Ok (s, 0)
          else
            obind (if negb (pt_eq p1 inter) && negb (pt_eq o1 inter)
                   then divide_segment s se1 inter else Ok s) (fun s1 =>
            obind (if negb (pt_eq p2 inter) && negb (pt_eq o2 inter)
                   then divide_segment s1 se2 inter else Ok s1) (fun s2 =>
            Ok (s2, 1)))
      | LOverlap _ _ =>
          if eqb (e_is_subject e1) (e_is_subject e2) then Ok (s, 0)
          else
            let left_coincide := pt_eq p1 p2 in
            let right_coincide := pt_eq o1 o2 in
            let evs_l :=
              if left_coincide then []
              else if ev_lt st se1 se2 then [(se2, other2); (se1, other1)]
              else [(se1, other1); (se2, other2)] in
            let evs_r :=
              if right_coincide then []
              else if ev_lt st other1 other2 then [(other2, se2); (other1, se1)]
              else [(other1, se1); (other2, se2)] in
            let events := evs_l ++ evs_r in
            if left_coincide then
              let st1 := upd st se2 (fun e => set_edge_type e NonContributing) in
              let ty := if eqb (e_in_out e1) (e_in_out e2) then SameTransition else DifferentTransition in
              let st2 := upd st1 se1 (fun e => set_edge_type e ty) in
              let s2 := mkSQ st2 (sq_q s) in
              obind (if negb right_coincide
                     then divide_segment s2 (snd (nth_ev events 1)) (point_of st2 (fst (nth_ev events 0)))
                     else Ok s2) (fun s3 => Ok (s3, 2))
            else if right_coincide then
              obind (divide_segment s (fst (nth_ev events 0)) (point_of st (fst (nth_ev events 1))))
                    (fun s1 => Ok (s1, 3))
            else if negb (Pos.eqb (fst (nth_ev events 0)) (snd (nth_ev events 3))) then
              obind (divide_segment s (fst (nth_ev events 0)) (point_of st (fst (nth_ev events 1)))) (fun s1 =>
              obind (divide_segment s1 (fst (nth_ev events 1)) (point_of (sq_st s1) (fst (nth_ev events 2)))) (fun s2 =>
              Ok (s2, 3)))
            else
              obind (divide_segment s (fst (nth_ev events 0)) (point_of st (fst (nth_ev events 1)))) (fun s1 =>
              match other_of (sq_st s1) (fst (nth_ev events 3)) with
              | None => Panic PUnwrapPossibleIntersection
              | Some o3 =>
                  obind (divide_segment s1 o3 (point_of (sq_st s1) (fst (nth_ev events 2)))) (fun s2 =>
                  Ok (s2, 3))
              end)
      end
  | _, _ => Ok (s, 0)
  end.

End Divide.
