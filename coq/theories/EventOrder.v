(** * The lexicographic structure of the event order (C15), for every numeric instance whose
    comparisons satisfy the order laws on the coordinates involved: by x, then by y, then
    right events before left events at one point.  [Gt] = [Ordering::Greater] = processed
    earlier (the queue is a max-heap). *)
From Coq Require Import Bool List PArith.
From GB Require Import Num NumLaws Event Cmp.

Section EventOrder.
Variable N : Num.
Variable L : NumLaws N.
Notation store := (store N).

Definition okev (st : store) (a : eid) : Prop :=
  okX L (px (e_point (getE st a))) /\ okY L (py (e_point (getE st a))).

Lemma ltX_asym a b : okX L a -> okX L b -> ltX N a b = true -> ltX N b a = false.
Proof.
  intros Ha Hb H. pose proof (ol_lt_le (nl_X L) _ _ H) as Hle.
  rewrite (ol_le_total (nl_X L) _ _ Ha Hb) in Hle. now destruct (ltX N b a).
Qed.
Lemma ltY_asym a b : okY L a -> okY L b -> ltY N a b = true -> ltY N b a = false.
Proof.
  intros Ha Hb H. pose proof (ol_lt_le (nl_Y L) _ _ H) as Hle.
  rewrite (ol_le_total (nl_Y L) _ _ Ha Hb) in Hle. now destruct (ltY N b a).
Qed.

(** an event with the smaller abscissa is processed first *)
Theorem cmp_events_by_x (st : store) (a b : eid) :
  okev st a -> okev st b ->
  ltX N (px (e_point (getE st a))) (px (e_point (getE st b))) = true ->
  cmp_events st a b = Gt /\ cmp_events st b a = Lt.
Proof.
  intros [Ha _] [Hb _] H. unfold cmp_events, gtX. rewrite H, (ltX_asym _ _ Ha Hb H). split; reflexivity.
Qed.

(** at equal abscissae (neither smaller), the event with the smaller ordinate is processed first *)
Theorem cmp_events_by_y (st : store) (a b : eid) :
  okev st a -> okev st b ->
  ltX N (px (e_point (getE st a))) (px (e_point (getE st b))) = false ->
  ltX N (px (e_point (getE st b))) (px (e_point (getE st a))) = false ->
  ltY N (py (e_point (getE st a))) (py (e_point (getE st b))) = true ->
  cmp_events st a b = Gt /\ cmp_events st b a = Lt.
Proof.
  intros [_ Ha] [_ Hb] H1 H2 H. unfold cmp_events, gtX, gtY. rewrite H1, H2, H, (ltY_asym _ _ Ha Hb H).
  split; reflexivity.
Qed.

(** at one point, a right event is processed before a left event *)
Theorem cmp_events_right_before_left (st : store) (a b : eid) :
  ltX N (px (e_point (getE st a))) (px (e_point (getE st b))) = false ->
  ltX N (px (e_point (getE st b))) (px (e_point (getE st a))) = false ->
  ltY N (py (e_point (getE st a))) (py (e_point (getE st b))) = false ->
  ltY N (py (e_point (getE st b))) (py (e_point (getE st a))) = false ->
  e_left (getE st a) = false -> e_left (getE st b) = true ->
  cmp_events st a b = Gt /\ cmp_events st b a = Lt.
Proof.
  intros H1 H2 H3 H4 Ha Hb. unfold cmp_events, gtX, gtY. rewrite H1, H2, H3, H4, Ha, Hb. split; reflexivity.
Qed.

(** consequently the order is antisymmetric whenever it is decided by one of these three keys *)
Corollary cmp_events_lex_antisym (st : store) (a b : eid) :
  okev st a -> okev st b ->
  (ltX N (px (e_point (getE st a))) (px (e_point (getE st b))) = true
   \/ ltX N (px (e_point (getE st b))) (px (e_point (getE st a))) = true
   \/ (ltX N (px (e_point (getE st a))) (px (e_point (getE st b))) = false
       /\ ltX N (px (e_point (getE st b))) (px (e_point (getE st a))) = false
       /\ (ltY N (py (e_point (getE st a))) (py (e_point (getE st b))) = true
           \/ ltY N (py (e_point (getE st b))) (py (e_point (getE st a))) = true))) ->
  cmp_events st b a = CompOpp (cmp_events st a b).
Proof.
  intros Ha Hb [H|[H|(H1 & H2 & [H|H])]].
  - destruct (cmp_events_by_x st a b Ha Hb H) as [-> ->]. reflexivity.
  - destruct (cmp_events_by_x st b a Hb Ha H) as [-> ->]. reflexivity.
  - destruct (cmp_events_by_y st a b Ha Hb H1 H2 H) as [-> ->]. reflexivity.
  - destruct (cmp_events_by_y st b a Hb Ha H2 H1 H) as [-> ->]. reflexivity.
Qed.

End EventOrder.
