(** * A verified per-run certificate for the clause "no boundary segment is shared by two rings
    or traversed twice" of C02: no two edges of the result rings (of one ring or of two) have
    more than one point in common.  Decided with the exact kernel on the implementation's own
    result; [no_shared_boundary_sound]: any two distinct edge positions share at most one point. *)
From Coq Require Import Bool List PArith NArith QArith Lqa Lia.
From GB Require Import Prim Num NumQ NumLaws NumLawsQ Intersect IntersectProofs SplitCover OnEdge PairResolve Cert13 Cert04.
Import ListNotations.
Local Open Scope Q_scope.

Definition qseg := (qp * qp)%type.

(** all non-degenerate edges of a ring given closed (first = last) or open (the closing edge is added) *)
Fixpoint ring_segs_from (first prev : qp) (rest : list qp) : list qseg :=
  match rest with
  | [] => if peqb prev first then [] else [(prev, first)]
  | p :: r => (if peqb prev p then [] else [(prev, p)]) ++ ring_segs_from first p r
  end.
Definition ring_segs (r : list qp) : list qseg := match r with [] => [] | p :: rest => ring_segs_from p p rest end.
Definition result_segs (R : list (list (list qp))) : list qseg := flat_map (fun poly => flat_map ring_segs poly) R.

Definition share_le1_b (s t : qseg) : bool :=
  let '((ax, ay), (bx, by_)) := s in
  let '((cx, cy), (dx, dy)) := t in
  negb (qeqpb ax ay bx by_) &&
  match intersection (fpt ax ay) (fpt bx by_) (fpt cx cy) (fpt dx dy) with
  | LOverlap _ _ => false
  | _ => true
  end.

Definition share_le1_q (s t : qseg) : Prop :=
  let '((ax, ay), (bx, by_)) := s in
  let '((cx, cy), (dx, dy)) := t in
  forall x y x' y', on_seg ax ay bx by_ x y -> on_seg cx cy dx dy x y ->
                    on_seg ax ay bx by_ x' y' -> on_seg cx cy dx dy x' y' -> qeqp x y x' y'.

Lemma share_le1_b_sound s t : share_le1_b s t = true -> share_le1_q s t.
Proof.
  destruct s as [[ax ay] [bx by_]], t as [[cx cy] [dx dy]]. unfold share_le1_b, share_le1_q. intros H.
  apply andb_prop in H. destruct H as [Hd H]. apply negb_true_iff in Hd.
  assert (Hne : ~ (bx == ax /\ by_ == ay)).
  { intros [K1 K2]. assert (qeqpb ax ay bx by_ = true) by (apply qeqpb_spec; split; symmetry; assumption). congruence. }
  pose proof (@intersection_exact_all ax ay bx by_ cx cy dx dy Hne) as EX.
  intros x y x' y' H1 H2 H3 H4.
  destruct (intersection (fpt ax ay) (fpt bx by_) (fpt cx cy) (fpt dx dy)) as [|p|p q] eqn:EI; [| |discriminate].
  - exfalso. cbn [exact_result] in EX. apply (proj1 (@disjoint_iff_no_common_point ax ay bx by_ cx cy dx dy)) in EX.
    apply EX. exists x, y. now apply seg_both.
  - cbn [exact_result] in EX. destruct EX as (ix & iy & -> & _).
    pose proof (intersection_point_unique ax ay bx by_ cx cy dx dy ix iy Hne EI) as U.
    destruct (U x y (seg_both _ _ _ _ _ _ _ _ _ _ H1 H2)) as [E1 E2].
    destruct (U x' y' (seg_both _ _ _ _ _ _ _ _ _ _ H3 H4)) as [E3 E4]. split; lra.
Qed.

Fixpoint all_pairs_b (l : list qseg) : bool :=
  match l with
  | [] => true
  | s :: r => forallb (share_le1_b s) r && all_pairs_b r
  end.

Definition no_shared_boundary (R : list (list (list qp))) : bool := all_pairs_b (result_segs R).

Theorem no_shared_boundary_sound R :
  no_shared_boundary R = true -> ForallOrdPairs share_le1_q (result_segs R).
Proof.
  unfold no_shared_boundary. generalize (result_segs R). induction l as [|s r IH]; intros H; [constructor|].
  cbn [all_pairs_b] in H. apply andb_prop in H. destruct H as [H1 H2]. constructor; [|now apply IH].
  rewrite forallb_forall in H1. apply Forall_forall. intros t Ht. apply share_le1_b_sound, H1, Ht.
Qed.

Example no_shared_boundary_example :
  no_shared_boundary [[[(0, 0); (2, 0); (2, 2); (0, 2); (0, 0)]]; [[(2, 2); (4, 2); (4, 4); (2, 4); (2, 2)]]] = true /\
  no_shared_boundary [[[(0, 0); (2, 0); (2, 2); (0, 2); (0, 0)]]; [[(2, 1); (4, 1); (4, 3); (2, 3); (2, 1)]]] = false /\
  no_shared_boundary [[[(0, 0); (2, 0); (2, 2); (0, 0); (2, 0); (0, 0)]]] = false.
Proof. vm_compute. repeat split. Qed.
