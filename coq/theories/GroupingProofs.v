(** * The bookkeeping that groups contours into polygons (C02), every instance, every input.

    [connect_edges.rs] gives every contour either no parent or a parent ([hole_of]) and lists
    it in that parent's [hole_ids]; [mod.rs] turns every parentless contour into a polygon with
    the listed contours as interior rings.  Whatever the geometry:

      [contours_loop_ginv]   a contour's parent is an earlier contour that has no parent itself
                             (holes are never nested in holes), the parent lists it, every
                             listed id is the id of a contour whose parent is the lister, and
                             no list contains an id twice;
      [grouping_partition]   so the polygons returned by [contours_to_polygons] contain every
                             contour exactly once — as the exterior of its own polygon or as
                             an interior ring of exactly one polygon: no ring is dropped,
                             duplicated or listed under two polygons;
      [collect_holes_safe]   and [contours[*hole_id]] (panic site [PIndexHoleIds]) is never out
                             of range. *)
From Coq Require Import Bool List ZArith NArith PArith Arith Lia Permutation.
From GB Require Import Prim Num Event Cmp Heap Outcome FillQueue Subdivide Connect BoolOp LinkProofs.
Import ListNotations.

Section Grouping.
Variable N : Num.
Variable cfg : config.
Notation store := (store N).
Notation contour := (contour N).

(** ** lists *)
Lemma nth_error_hset_eq (T : Type) : forall (l : list T) i v, i < length l -> nth_error (hset l i v) i = Some v.
Proof. induction l as [|a l IH]; intros [|i] v H; cbn [length] in H; cbn [hset nth_error]; try lia; auto. apply IH. lia. Qed.
Lemma nth_error_hset_neq (T : Type) : forall (l : list T) i j v, i <> j -> nth_error (hset l i v) j = nth_error l j.
Proof. induction l as [|a l IH]; intros [|i] [|j] v H; cbn [hset nth_error]; try reflexivity; try congruence. apply IH. congruence. Qed.
Lemma hset_length' (T : Type) : forall (l : list T) i v, length (hset l i v) = length l.
Proof. induction l as [|a l IH]; intros [|i] v; cbn [hset length]; auto. Qed.

Lemma nth_error_app_last (T : Type) (l : list T) x : nth_error (l ++ [x]) (length l) = Some x.
Proof. rewrite nth_error_app2 by lia. now rewrite Nat.sub_diag. Qed.
Lemma nth_error_app_Some (T : Type) (l : list T) x i c :
  nth_error (l ++ [x]) i = Some c -> (i < length l /\ nth_error l i = Some c) \/ (i = length l /\ c = x).
Proof.
  intros H. destruct (Nat.lt_ge_cases i (length l)) as [Hl|Hl].
  - left. split; [exact Hl|]. now rewrite nth_error_app1 in H.
  - right. assert (Hi : i < length (l ++ [x])) by (apply nth_error_Some; congruence).
    rewrite app_length in Hi. cbn in Hi. assert (E : i = length l) by lia. subst i.
    rewrite nth_error_app_last in H. inversion H. auto.
Qed.

Lemma NoDup_app_last (T : Type) (l : list T) x : NoDup l -> ~ In x l -> NoDup (l ++ [x]).
Proof.
  induction l as [|a l IH]; intros H Hx; cbn [app]; [constructor; [intros []|constructor]|].
  inversion H; subst. constructor.
  - intros Hin. apply in_app_or in Hin. destruct Hin as [Hin|[->|[]]]; [contradiction|]. apply Hx. now left.
  - apply IH; [assumption|]. intros Hin. apply Hx. now right.
Qed.

(** ** the invariant *)
Record ginv (cs : list contour) : Prop := {
  g_up : forall i c p, nth_error cs i = Some c -> c_hole_of c = Some p ->
         (0 <= p < Z.of_nat i)%Z /\
         exists pc, nth_error cs (Z.to_nat p) = Some pc /\ c_hole_of pc = None /\ In (Z.of_nat i) (c_hole_ids pc);
  g_down : forall p pc h, nth_error cs p = Some pc -> In h (c_hole_ids pc) ->
         (0 <= h < Z.of_nat (length cs))%Z /\
         exists hc, nth_error cs (Z.to_nat h) = Some hc /\ c_hole_of hc = Some (Z.of_nat p);
  g_nodup : forall p pc, nth_error cs p = Some pc -> NoDup (c_hole_ids pc)
}.

Lemma ginv_nil : ginv [].
Proof. split; intros; destruct p + destruct i; discriminate. Qed.

(** a new parentless contour *)
Lemma ginv_app_exterior cs pts d : ginv cs -> ginv (cs ++ [mkContour pts [] None d]).
Proof.
  intros [U D ND]. split.
  - intros i c p Hi Hp. apply nth_error_app_Some in Hi. destruct Hi as [[Hl Hi]|[-> ->]]; [|discriminate].
    destruct (U i c p Hi Hp) as (R & pc & A & B & C). split; [exact R|]. exists pc.
    rewrite nth_error_app1; [auto|]. apply nth_error_Some. congruence.
  - intros p pc h Hp Hh. apply nth_error_app_Some in Hp. destruct Hp as [[Hl Hp]|[-> ->]]; [|destruct Hh].
    destruct (D p pc h Hp Hh) as (R & hc & A & B). rewrite app_length. cbn [length]. split; [lia|]. exists hc.
    rewrite nth_error_app1; [auto|]. apply nth_error_Some. congruence.
  - intros p pc Hp. apply nth_error_app_Some in Hp. destruct Hp as [[Hl Hp]|[-> ->]]; [eauto | constructor].
Qed.

(** a new contour whose parent is the parentless contour [parent] *)
Lemma ginv_app_hole cs (parent : Z) ppc pts d :
  ginv cs -> (0 <= parent < Z.of_nat (length cs))%Z ->
  nth_error cs (Z.to_nat parent) = Some ppc -> c_hole_of ppc = None ->
  ginv (push_hole cs parent (Z.of_nat (length cs)) ++ [mkContour pts [] (Some parent) d]).
Proof.
  intros [U D ND] Hr Hpp Hext. unfold push_hole. rewrite Hpp.
  set (k := Z.to_nat parent) in *. set (n := length cs).
  set (ppc' := mkContour (c_points ppc) (c_hole_ids ppc ++ [Z.of_nat n]) (c_hole_of ppc) (c_depth ppc)).
  assert (Hk : k < n) by (unfold k, n; lia).
  assert (Hlen : length (hset cs k ppc') = n) by apply hset_length'.
  (* reading the updated vector *)
  assert (Rd : forall j c, nth_error (hset cs k ppc') j = Some c ->
                (j = k /\ c = ppc') \/ (j <> k /\ nth_error cs j = Some c)).
  { intros j c H. destruct (Nat.eq_dec k j) as [<-|Hne].
    - left. rewrite nth_error_hset_eq in H by exact Hk. inversion H. auto.
    - right. rewrite nth_error_hset_neq in H by exact Hne. auto. }
  assert (Wr : forall j c, nth_error cs j = Some c ->
                exists c', nth_error (hset cs k ppc') j = Some c' /\ c_hole_of c' = c_hole_of c /\
                           (forall h, In h (c_hole_ids c) -> In h (c_hole_ids c'))).
  { intros j c H. destruct (Nat.eq_dec k j) as [<-|Hne].
    - exists ppc'. rewrite nth_error_hset_eq by exact Hk. unfold k in H. fold k in H. rewrite Hpp in H. inversion H; subst c.
      repeat split; auto. intros h Hh. cbn. apply in_or_app. now left.
    - exists c. rewrite nth_error_hset_neq by exact Hne. auto. }
  split.
  - intros i c p Hi Hp. apply nth_error_app_Some in Hi. rewrite Hlen in Hi. destruct Hi as [[Hl Hi]|[-> ->]].
    + destruct (Rd i c Hi) as [[-> ->]|[Hne Hi']].
      * cbn in Hp. rewrite Hext in Hp. discriminate.
      * destruct (U i c p Hi' Hp) as (R & pc & A & B & C). split; [exact R|].
        destruct (Wr _ _ A) as (pc' & A' & B' & C'). exists pc'.
        rewrite nth_error_app1 by (rewrite Hlen; apply nth_error_Some; congruence).
        repeat split; [exact A' | congruence | now apply C'].
    + cbn in Hp. inversion Hp; subst p. split; [fold n; lia|]. exists ppc'.
      rewrite nth_error_app1 by (rewrite Hlen; exact Hk).
      fold k. rewrite nth_error_hset_eq by exact Hk. repeat split; auto.
      cbn. apply in_or_app. right. now left.
  - intros p pc h Hp Hh. rewrite app_length, Hlen. cbn [length].
    apply nth_error_app_Some in Hp. rewrite Hlen in Hp. destruct Hp as [[Hl Hp]|[-> ->]]; [|destruct Hh].
    destruct (Rd p pc Hp) as [[-> ->]|[Hne Hp']].
    + cbn in Hh. apply in_app_or in Hh. destruct Hh as [Hh|[<-|[]]].
      * destruct (D k ppc h Hpp Hh) as (R & hc & A & B). split; [fold n in R; lia|].
        destruct (Wr _ _ A) as (hc' & A' & B' & _). exists hc'.
        rewrite nth_error_app1 by (rewrite Hlen; apply nth_error_Some; congruence).
        split; [exact A' | congruence].
      * split; [lia|]. exists (mkContour pts [] (Some parent) d). rewrite Nat2Z.id.
        rewrite nth_error_app2 by (rewrite Hlen; fold n; lia). rewrite Hlen. fold n. rewrite Nat.sub_diag.
        split; [reflexivity|]. cbn. f_equal. unfold k. lia.
    + destruct (D p pc h Hp' Hh) as (R & hc & A & B). split; [fold n in R; lia|].
      destruct (Wr _ _ A) as (hc' & A' & B' & _). exists hc'.
      rewrite nth_error_app1 by (rewrite Hlen; apply nth_error_Some; congruence).
      split; [exact A' | congruence].
  - intros p pc Hp. apply nth_error_app_Some in Hp. rewrite Hlen in Hp. destruct Hp as [[Hl Hp]|[-> ->]]; [|constructor].
    destruct (Rd p pc Hp) as [[-> ->]|[Hne Hp']]; [|eauto].
    cbn. apply NoDup_app_last; [now apply (ND k)|].
    intros Hin. destruct (D k ppc _ Hpp Hin) as (R & _). fold n in R. lia.
Qed.


(** ** [initialize_from_context] and the contour loop *)
Lemma in_range_iff' i n : in_range i n = true <-> (0 <= i < Z.of_nat n)%Z.
Proof. unfold in_range. rewrite andb_true_iff, Z.leb_le, Z.ltb_lt. tauto. Qed.

Lemma init_cases (st : store) ev cs cs1 c :
  ginv cs -> initialize_from_context cfg st ev cs (Z.of_nat (length cs)) = Ok (cs1, c) ->
  (cs1 = cs /\ c_hole_of c = None /\ c_hole_ids c = [])
  \/ exists parent ppc, (0 <= parent < Z.of_nat (length cs))%Z /\
       nth_error cs (Z.to_nat parent) = Some ppc /\ c_hole_of ppc = None /\
       cs1 = push_hole cs parent (Z.of_nat (length cs)) /\ c_hole_of c = Some parent /\ c_hole_ids c = [].
Proof.
  intros G. unfold initialize_from_context.
  destruct (e_prev_in_result (getE st ev)) as [pir|]; [|intros H; inversion H; subst; left; auto].
  set (lower := e_output_contour_id (getE st pir)).
  destruct (rt_eqb _ OutIn).
  - destruct (in_range lower (length cs)) eqn:Hr; cbn [negb]; [|discriminate].
    apply in_range_iff' in Hr.
    destruct (nth_error cs (Z.to_nat lower)) as [lc|] eqn:El; [|discriminate].
    destruct (c_hole_of lc) as [parent|] eqn:Eh.
    + destruct (in_range parent (length cs)) eqn:Hp; cbn [negb]; [|discriminate].
      apply in_range_iff' in Hp. intros H. inversion H; subst. right.
      destruct (g_up cs G _ _ _ El Eh) as (_ & pc & A & B & _).
      exists parent, pc. repeat split; auto; lia.
    + intros H. inversion H; subst. right. exists lower, lc. repeat split; auto; lia.
  - destruct (negb (in_range lower (length cs))).
    + destruct (c_debug cfg); [discriminate|]. intros H. inversion H; subst. left. auto.
    + destruct (nth_error cs (Z.to_nat lower)); [|discriminate]. intros H. inversion H; subst. left. auto.
Qed.

Theorem contours_loop_ginv : forall idxs (st : store) p res map cs st' cs',
  ginv cs -> contours_loop cfg idxs st p res map cs = Ok (st', cs') -> ginv cs'.
Proof.
  induction idxs as [|i rest IH]; intros st p res map cs st' cs' G H; cbn [contours_loop] in H.
  - inversion H; subst. exact G.
  - destruct (is_processed p (Z.of_nat i)); [exact (IH _ _ _ _ _ _ _ G H)|].
    destruct (initialize_from_context cfg st (nth_ev res (Z.of_nat i)) cs (Z.of_nat (length cs)))
      as [[cs1 c]|s|] eqn:E; cbn [obind] in H; try discriminate.
    destruct (walk_loop _ _ _ _ _ _ _) as [w|s|]; cbn [obind] in H; try discriminate.
    refine (IH _ _ _ _ _ _ _ _ H).
    destruct (init_cases _ _ _ _ _ G E) as [(-> & Ho & Hi)|(parent & ppc & Hr & Hpp & Hext & -> & Ho & Hi)];
      rewrite Ho, Hi.
    + now apply ginv_app_exterior.
    + now apply (ginv_app_hole cs parent ppc).
Qed.

Corollary connect_edges_ginv fuel (st : store) evs st' res cs :
  connect_edges cfg fuel st evs = Ok (st', res, cs) -> ginv cs.
Proof.
  unfold connect_edges.
  destruct (order_events fuel st evs) as [[st1 r]|s|]; cbn [obind]; try discriminate.
  destruct (precompute_iteration_order cfg st1 r) as [map|s|]; cbn [obind]; try discriminate.
  destruct (contours_loop cfg (seq 0 (length r)) st1 [] r map []) as [[st2 cs2]|s|] eqn:E; cbn [obind]; try discriminate.
  intros H. inversion H; subst. exact (contours_loop_ginv _ _ _ _ _ _ _ _ ginv_nil E).
Qed.

(** ** [contours_to_polygons] *)
Definition is_ext (c : contour) : bool := match c_hole_of c with None => true | Some _ => false end.
Definition cpts (all : list contour) (h : Z) : ring N :=
  match nth_error all (Z.to_nat h) with Some c => c_points c | None => [] end.
Definition poly_of (all : list contour) (c : contour) : polygon N :=
  polygon_new (c_points c) (map (cpts all) (c_hole_ids c)).

Lemma collect_holes_spec (all : list contour) : forall ids,
  (forall h, In h ids -> (0 <= h < Z.of_nat (length all))%Z) ->
  collect_holes all ids = Ok (map (cpts all) ids).
Proof.
  induction ids as [|h rest IH]; intros Hr; cbn [collect_holes map]; [reflexivity|].
  assert (Hh : (0 <= h < Z.of_nat (length all))%Z) by (apply Hr; now left).
  rewrite (proj2 (in_range_iff' h (length all)) Hh). cbn [negb].
  unfold cpts at 1. destruct (nth_error all (Z.to_nat h)) as [c|] eqn:E.
  - rewrite IH by (intros x Hx; apply Hr; now right). reflexivity.
  - exfalso. apply nth_error_None in E. lia.
Qed.

Lemma ctp_spec (all : list contour) : ginv all -> forall cs, (forall c, In c cs -> In c all) ->
  contours_to_polygons all cs = Ok (map (poly_of all) (filter is_ext cs)).
Proof.
  intros G. induction cs as [|c rest IH]; intros Hin; cbn [contours_to_polygons filter map]; [reflexivity|].
  assert (Hrest : forall x, In x rest -> In x all) by (intros x Hx; apply Hin; now right).
  unfold is_ext at 1. destruct (c_hole_of c) eqn:Eh; [now apply IH|].
  destruct (In_nth_error all c (Hin c (or_introl eq_refl))) as [p Hp].
  rewrite collect_holes_spec by (intros h Hh; apply (g_down all G p c h Hp Hh)).
  cbn [obind]. rewrite (IH Hrest). reflexivity.
Qed.

(** C02: the grouping is a partition of the contours into polygons *)
Theorem grouping_partition (all : list contour) :
  ginv all ->
  contours_to_polygons all all = Ok (map (poly_of all) (filter is_ext all))
  /\ (forall i c, nth_error all i = Some c -> is_ext c = false ->
        exists p pc, nth_error all p = Some pc /\ is_ext pc = true /\ In (Z.of_nat i) (c_hole_ids pc)
                     /\ forall q qc, nth_error all q = Some qc -> In (Z.of_nat i) (c_hole_ids qc) -> q = p)
  /\ (forall p pc h, nth_error all p = Some pc -> In h (c_hole_ids pc) ->
        is_ext pc = true /\ (0 <= h < Z.of_nat (length all))%Z /\
        exists hc, nth_error all (Z.to_nat h) = Some hc /\ is_ext hc = false /\ cpts all h = c_points hc)
  /\ (forall p pc, nth_error all p = Some pc -> NoDup (c_hole_ids pc)).
Proof.
  intros G. split; [apply (ctp_spec all G); auto|]. split; [|split].
  - intros i c Hi He. unfold is_ext in He. destruct (c_hole_of c) as [pz|] eqn:Eh; [|discriminate].
    destruct (g_up all G i c pz Hi Eh) as (R & pc & A & B & C).
    exists (Z.to_nat pz), pc. repeat split; auto.
    + unfold is_ext. now rewrite B.
    + intros q qc Hq Hin. destruct (g_down all G q qc _ Hq Hin) as (_ & hc & A' & B').
      rewrite Nat2Z.id in A'. rewrite Hi in A'. inversion A'; subst hc. rewrite Eh in B'. inversion B'. lia.
  - intros p pc h Hp Hh. destruct (g_down all G p pc h Hp Hh) as (R & hc & A & B).
    split; [|split; [exact R|]].
    + (* a lister is parentless: its listed contour's parent is parentless by [g_up] *)
      destruct (g_up all G _ hc _ A B) as (_ & pc' & A' & B' & _).
      rewrite Nat2Z.id in A'. rewrite Hp in A'. inversion A'; subst pc'. unfold is_ext. now rewrite B'.
    + exists hc. repeat split; auto.
      * unfold is_ext. now rewrite B.
      * unfold cpts. now rewrite A.
  - intros p pc Hp. exact (g_nodup all G p pc Hp).
Qed.

Ltac cast H := let K := fresh "K" in intros K; apply H; inversion K; reflexivity.

(** C03: [contours[*hole_id as usize]] never indexes out of range, for any input *)
Theorem boolean_operation_hole_index_safe fuel (A B : list (polygon N)) op :
  boolean_operation cfg fuel A B op <> Panic PIndexHoleIds.
Proof.
  unfold boolean_operation.
  destruct (negb (c_noshort cfg) && _); [discriminate|].
  destruct (Subdivide.subdivide cfg fuel (fill_queue A B op) op) as [[[st sorted] n]|s|] eqn:Es; cbn [obind].
  - destruct (connect_edges cfg (S (length sorted)) st sorted) as [[[st' res] cs]|s|] eqn:Ec; cbn [obind].
    + rewrite (ctp_spec cs (connect_edges_ginv _ _ _ _ _ _ Ec) cs) by auto. discriminate.
    + intros K. inversion K; subst s. clear K. revert Ec. unfold connect_edges.
      destruct (order_events _ st sorted) as [[st1 r]|s|] eqn:Eo; cbn [obind].
      * destruct (precompute_iteration_order cfg st1 r) as [map|s|] eqn:Em; cbn [obind].
        -- assert (L : forall idxs (st0 : store) p (cs0 : list contour), contours_loop cfg idxs st0 p r map cs0 <> Panic PIndexHoleIds).
           { induction idxs as [|i rest IH]; intros st0 p cs0; cbn [contours_loop]; [discriminate|].
             destruct (is_processed p (Z.of_nat i)); [apply IH|].
             destruct (initialize_from_context cfg st0 (nth_ev r (Z.of_nat i)) cs0 (Z.of_nat (length cs0)))
               as [[cs1 c]|s|] eqn:Ei; cbn [obind].
             - assert (W : forall f (w : walk N) pos cid ini, walk_loop f w r map pos cid ini <> Panic PIndexHoleIds).
               { induction f as [|f IHf]; intros w pos cid ini; cbn [walk_loop]; [discriminate|].
                 destruct (negb (in_range _ (length r))); [discriminate|].
                 assert (Gn : forall f2 a b p2, get_next_pos_loop f2 a b p2 map <> Panic PIndexHoleIds).
                 { induction f2 as [|f2 IH2]; intros a b p2; cbn [get_next_pos_loop]; [discriminate|].
                   destruct (negb (in_range a (length map))); [discriminate|].
                   destruct (Z.eqb _ b); [discriminate|]. destruct (negb (is_processed p2 _)); [discriminate|]. apply IH2. }
                 unfold get_next_pos.
                 match goal with |- context [get_next_pos_loop ?f2 ?a ?b ?p2 map] =>
                   pose proof (Gn f2 a b p2) as Gn'; destruct (get_next_pos_loop f2 a b p2 map) as [[q|]|s|] end;
                   cbn [obind]; try discriminate; [|cast Gn'].
                 destruct (pt_eq _ ini); [discriminate|]. apply IHf. }
               match goal with |- context [walk_loop ?f ?w r map ?pos ?cid ?ini] =>
                 pose proof (W f w pos cid ini) as W'; destruct (walk_loop f w r map pos cid ini) as [w'|s|] end;
                 cbn [obind]; [apply IH | cast W' | discriminate].
             - intros K. inversion K; subst s. clear K. revert Ei. unfold initialize_from_context.
               repeat match goal with
                      | |- context [match ?x with Some _ => _ | None => _ end] => destruct x
                      | |- context [if ?c then _ else _] => destruct c
                      end; discriminate.
             - discriminate. }
           pose proof (L (seq 0 (length r)) st1 [] []) as L'.
           destruct (contours_loop cfg (seq 0 (length r)) st1 [] r map []) as [r2|s|]; cbn [obind]; try discriminate.
           intros K. apply L'. inversion K. reflexivity.
        -- intros K. inversion K; subst s. clear K. revert Em. unfold precompute_iteration_order.
           assert (Gi : forall f data i, iteration_groups cfg f st1 data i <> Panic PIndexHoleIds).
           { induction f as [|f IHf]; intros data i; destruct data as [|x tl]; cbn [iteration_groups]; try discriminate.
             destruct (c_debug cfg && _); [discriminate|]. destruct (Nat.eqb _ 0); [discriminate|].
             match goal with |- context [iteration_groups cfg f st1 ?d ?j] =>
               pose proof (IHf d j) as Q; destruct (iteration_groups cfg f st1 d j) end; cbn [obind]; try discriminate. exact Q. }
           pose proof (Gi (S (length r)) r 0) as Gi'.
           destruct (iteration_groups cfg (S (length r)) st1 r 0); cbn [obind]; try discriminate. cast Gi'.
        -- discriminate.
      * intros K. inversion K; subst s. clear K. revert Eo. unfold order_events.
        assert (Gb : forall f l, bubble_sort f st l <> Panic PIndexHoleIds).
        { induction f as [|f IHf]; intros l; destruct l as [|x rest]; cbn [bubble_sort]; try discriminate.
          - destruct (bubble_pass st x rest) as [l1 sw]. destruct sw; discriminate.
          - destruct (bubble_pass st x rest) as [l1 sw]. destruct sw; [apply IHf | discriminate]. }
        match goal with |- context [bubble_sort ?f st ?l] => pose proof (Gb f l) as Gb'; destruct (bubble_sort f st l) end;
          cbn [obind]; try discriminate. cast Gb'.
      * discriminate.
    + discriminate.
  - (* the sweep has no such site *)
    intros K. inversion K; subst s.
    destruct (c_debug cfg) eqn:Ed.
    + pose proof (LinkProofs.subdivide_linked N cfg fuel A B op) as _.
      revert Es. unfold Subdivide.subdivide.
      pose proof (LinkProofs.sweep_loop_inv N cfg fuel) as SI.
      destruct (LinkProofs.fill_queue_inv N A B op) as [S0 Q0].
      set (s0 := Subdivide.mkSweep _ _ _ _).
      assert (I0 : LinkProofs.swinv N s0).
      { unfold LinkProofs.swinv, s0; cbn. repeat split; try apply S0; try exact Q0; intros i []. }
      specialize (SI s0 (f_sbbox (fill_queue A B op)) (f_cbbox (fill_queue A B op))
                     (minX N (bb_maxx (f_sbbox (fill_queue A B op))) (bb_maxx (f_cbbox (fill_queue A B op)))) op I0).
      destruct (Subdivide.sweep_loop _ _ _ _ _ _ _) as [s|site|]; cbn [obind]; try discriminate.
      intros H. inversion H; subst site. destruct SI as [[_ Hs]|Hs]; [inversion Hs | discriminate].
    + pose proof (LinkProofs.subdivide_release_panic_free N cfg fuel A B op PIndexHoleIds Ed Es). discriminate.
  - discriminate.
Qed.

(** C02, whole operation: a result that did not come from the bounding-box shortcut is the
    polygon reading of a contour vector satisfying the grouping invariant *)
Theorem boolean_operation_grouping fuel (A B : list (polygon N)) op R :
  boolean_operation cfg fuel A B op = Ok R ->
  R = trivial_result A B op \/
  exists cs, ginv cs /\ R = map (poly_of cs) (filter is_ext cs).
Proof.
  unfold boolean_operation.
  destruct (negb (c_noshort cfg) && _); [intros H; inversion H; now left|].
  destruct (Subdivide.subdivide cfg fuel (fill_queue A B op) op) as [[[st sorted] n]|s|]; cbn [obind]; try discriminate.
  destruct (connect_edges cfg (S (length sorted)) st sorted) as [[[st' res] cs]|s|] eqn:Ec; cbn [obind]; try discriminate.
  pose proof (connect_edges_ginv _ _ _ _ _ _ Ec) as G.
  rewrite (ctp_spec cs G cs) by auto. intros H. inversion H. right. exists cs. auto.
Qed.
End Grouping.
