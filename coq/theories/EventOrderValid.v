(** * The event order is antisymmetric on the events of a valid input (C15, first clause),
    exact instance.

    In a store satisfying the on-edge invariant with orientation ([OnEdgeFull.einv2]) and in
    which distinct pairs of one operand share at most one point ([SameOperand.disj] — what
    operands without self-overlapping edges give, throughout the sweep), two distinct events
    [a], [b] satisfy [cmp_events b a = CompOpp (cmp_events a b)]: by the
    lexicographic order of their points, else right before left, else by the orientation of
    their partners, else (collinear partners) by the operand — and the one remaining case, the
    "gap" of [EventOrderQ.cmp_events_gap] (collinear partners of ONE operand on the same side),
    cannot occur because the two sub-segments would overlap. *)
From Coq Require Import Bool List PArith NArith QArith Lqa Lia.
From GB Require Import Prim Num NumQ NumLaws NumLawsQ Event Intersect Cmp IntersectProofs LinkProofs SplitCover
  EventOrder EventOrderQ OnEdge OnEdgeFull SameOperand.
Local Open Scope Q_scope.

Section Valid.
Variable edges : list edge.
Variable st : store NQ.
Hypothesis E : einv2 edges st.
Hypothesis D : disj st.
Hypothesis Lk : linked NQ st.

Variables a b : eid.
Hypothesis Ma : mapped NQ st a.
Hypothesis Mb : mapped NQ st b.
Hypothesis Hab : a <> b.

(** two collinear sub-segments of one operand leaving one point on the same side overlap *)
Lemma same_ray_overlap px py ax ay bx by_ :
  (lexlt px py ax ay /\ lexlt px py bx by_) \/ (lexlt ax ay px py /\ lexlt bx by_ px py) ->
  EventOrderQ.det px py ax ay bx by_ == 0 ->
  exists x y, on_seg px py ax ay x y /\ on_seg px py bx by_ x y /\ ~ qeqp x y px py.
Proof.
  intros Hside Hdet.
  assert (Dpa : ~ qeqp px py ax ay).
  { destruct Hside as [[K _]|[K _]]; intros Q; [exact (lexlt_irrefl _ _ _ _ Q K) | exact (lexlt_irrefl _ _ _ _ (qeqp_sym _ _ _ _ Q) K)]. }
  set (vx := ax - px). set (vy := ay - py).
  assert (Hl : ~ vx * vx + vy * vy == 0).
  { intros K. destruct (sum_sq_zero K) as [K1 K2]. apply Dpa. unfold vx, vy in *. split; lra. }
  assert (C : (bx - px) * vy - (by_ - py) * vx == 0).
  { unfold EventOrderQ.det in Hdet. unfold vx, vy.
    assert (X : (bx - px) * (ay - py) - (by_ - py) * (ax - px) == - ((px - bx) * (ay - by_) - (py - by_) * (ax - bx))) by ring.
    rewrite X, Hdet. ring. }
  destruct (proj_collinear Hl C) as [B1 B2].
  set (be := (vx * (bx - px) + vy * (by_ - py)) / (vx * vx + vy * vy)) in *.
  assert (Pb : bx == px + be * (ax - px) /\ by_ == py + be * (ay - py)) by (split; [fold vx | fold vy]; lra).
  (* be > 0: b lies on the same side of p as a *)
  assert (Hbe : 0 < be).
  { destruct Hside as [[La Lb']|[La Lb']].
    - apply (lexlt_params px py ax ay La 0 be px py bx by_); [split; ring | exact Pb | exact Lb'].
    - (* decreasing: compare on the reversed segment a -> p *)
      assert (Pp : has_param ax ay px py 1 px py) by (split; ring).
      assert (Pbb : has_param ax ay px py (1 - be) bx by_) by (destruct Pb as [X Y]; split; [rewrite X | rewrite Y]; ring).
      pose proof (proj1 (lexlt_params ax ay px py La (1 - be) 1 bx by_ px py Pbb Pp) Lb'). lra. }
  destruct (Qlt_le_dec be 1) as [K|K].
  - (* b is the nearer one *)
    exists bx, by_. destruct Pb as [X Y]. split; [exists be; split; [lra | split; assumption]|]. split; [apply on_seg_r|].
    intros [Q1 Q2]. assert (Z1 : be * (ax - px) == 0) by lra. assert (Z2 : be * (ay - py) == 0) by lra.
    destruct (Qmult_integral _ _ Z1) as [Z|Z]; [lra|]. destruct (Qmult_integral _ _ Z2) as [Z'|Z']; [lra|].
    apply Dpa. split; lra.
  - exists ax, ay. split; [apply on_seg_r|]. split.
    + exists (1 / be). destruct Pb as [X Y]. split; [split; [apply Qle_shift_div_l; lra | apply Qle_shift_div_r; lra]|].
      split; [rewrite X | rewrite Y]; field; lra.
    + intros Q. apply Dpa. now apply qeqp_sym.
Qed.

Theorem cmp_events_antisym_valid : cmp_events st b a = CompOpp (cmp_events st a b).
Proof.
  destruct (Lk a Ma) as (oa & Oa & _ & Moa & Boa & _).
  destruct (Lk b Mb) as (ob & Ob & _ & Mob & Bob & _).
  destruct (E a oa Ma Oa) as (xa & ya & oax & oay & e1 & e2 & e3 & e4 & Pa & Poa & Dao & _ & _ & _ & Fa & La).
  destruct (E b ob Mb Ob) as (xb & yb & obx & oby & f1 & f2 & f3 & f4 & Pb & Pob & Dbo & _ & _ & _ & Fb & Lb).
  destruct (E oa a Moa Boa) as (u1 & u2 & u3 & u4 & _ & _ & _ & _ & Poa' & Pa' & _ & _ & _ & _ & _ & Loa).
  destruct (E ob b Mob Bob) as (w1 & w2 & w3 & w4 & _ & _ & _ & _ & Pob' & Pb' & _ & _ & _ & _ & _ & Lob).
  rewrite Poa in Poa'. rewrite Pa in Pa'. rewrite Pob in Pob'. rewrite Pb in Pb'.
  apply fpt_inj in Poa', Pa', Pob', Pb'. destruct Poa' as [<- <-], Pa' as [<- <-], Pob' as [<- <-], Pb' as [<- <-].
  destruct (Qeq_dec xa xb) as [Ex|Nx]; [destruct (Qeq_dec ya yb) as [Ey|Ny]|].
  2: { (* same abscissa, different ordinates *)
       destruct (lexlt_total xa ya xb yb) as [K|K]; [intros [_ Q]; contradiction| |].
       - rewrite (cmp_events_lex_gt st a b xa ya xb yb Pa Pb K), (cmp_events_lex_lt st b a xb yb xa ya Pb Pa K). reflexivity.
       - rewrite (cmp_events_lex_lt st a b xa ya xb yb Pa Pb K), (cmp_events_lex_gt st b a xb yb xa ya Pb Pa K). reflexivity. }
  2: { destruct (lexlt_total xa ya xb yb) as [K|K]; [intros [Q _]; contradiction| |].
       - rewrite (cmp_events_lex_gt st a b xa ya xb yb Pa Pb K), (cmp_events_lex_lt st b a xb yb xa ya Pb Pa K). reflexivity.
       - rewrite (cmp_events_lex_lt st a b xa ya xb yb Pa Pb K), (cmp_events_lex_gt st b a xb yb xa ya Pb Pa K). reflexivity. }
  (* the same point *)
  destruct (Bool.bool_dec (e_left (getE st a)) (e_left (getE st b))) as [Hl|Hl].
  - (* equal flags: the angular case *)
    destruct (Qeq_dec (EventOrderQ.det xa ya oax oay obx oby) 0) as [Hc|Hc].
    + destruct (Bool.bool_dec (e_is_subject (getE st a)) (e_is_subject (getE st b))) as [Hs|Hs].
      * (* the gap: impossible, the two sub-segments overlap *)
        exfalso.
        assert (Hside : (lexlt xa ya oax oay /\ lexlt xa ya obx oby) \/ (lexlt oax oay xa ya /\ lexlt obx oby xa ya)).
        { destruct (e_left (getE st a)) eqn:Fla.
          - left. split; [now apply La|]. symmetry in Hl. specialize (Lb Hl).
            eapply lexlt_eqv; [| | | | exact Lb]; try reflexivity; symmetry; assumption.
          - right. cbn in Fa. rewrite <- Hl in Fb. cbn in Fb. split; [now apply Loa|].
            specialize (Lob Fb). eapply lexlt_eqv; [| | | | exact Lob]; try reflexivity; symmetry; assumption. }
        destruct (same_ray_overlap xa ya oax oay obx oby Hside Hc) as (x & y & K1 & K2 & K3).
        assert (Nbo : b <> oa).
        { intros Kb. rewrite Kb in Pb. rewrite Poa in Pb. apply fpt_inj in Pb. destruct Pb as [Z1 Z2].
          apply Dao. split; [rewrite Z1 | rewrite Z2]; assumption. }
        assert (K2' : on_seg xb yb obx oby x y) by (eapply on_seg_eqv; [| | | | | | exact K2]; try reflexivity; assumption).
        pose proof (D a oa b ob xa ya oax oay xb yb obx oby Ma Mb Oa Ob (not_eq_sym Hab) Nbo Hs Pa Poa Pb Pob
                      x y xa ya K1 K2' (on_seg_l _ _ _ _)) as Q.
        apply K3. apply Q. eapply on_seg_eqv; [| | | | | | apply (on_seg_l xb yb obx oby)]; try reflexivity; symmetry; assumption.
      * apply (cmp_events_collinear_antisym st a b oa ob xa ya xb yb oax oay obx oby Pa Pb Ex Ey Oa Ob Poa Pob Hl).
        -- rewrite orient_det. destruct (Qcompare_spec (EventOrderQ.det xa ya oax oay obx oby) 0); [reflexivity|lra|lra].
        -- exact Hs.
    + apply (cmp_events_angular_antisym st a b oa ob xa ya xb yb oax oay obx oby Pa Pb Ex Ey Oa Ob Poa Pob Hl).
      rewrite orient_det. intros K. apply Hc. destruct (Qcompare_spec (EventOrderQ.det xa ya oax oay obx oby) 0); [assumption|discriminate|discriminate].
  - (* different flags: right before left *)
    assert (T : qx_lt (QF xa) (QF xb) = false /\ qx_lt (QF xb) (QF xa) = false /\
                qx_lt (QF ya) (QF yb) = false /\ qx_lt (QF yb) (QF ya) = false).
    { repeat split; apply qx_lt_FF_false; lra. }
    destruct T as (T1 & T2 & T3 & T4).
    destruct (e_left (getE st a)) eqn:Fla; destruct (e_left (getE st b)) eqn:Flb; try (now elim Hl).
    + destruct (cmp_events_right_before_left NQ st b a) as [R1 R2]; try (rewrite ?Pa, ?Pb; cbn [px py fpt NQ ltX ltY]; assumption).
      rewrite R1, R2. reflexivity.
    + destruct (cmp_events_right_before_left NQ st a b) as [R1 R2]; try (rewrite ?Pa, ?Pb; cbn [px py fpt NQ ltX ltY]; assumption).
      rewrite R1, R2. reflexivity.
Qed.

End Valid.
