(** * [subdivide_segments.rs]: the sweep loop *)
From Coq Require Import Bool List NArith PArith.
From GB Require Import Num Event Intersect Cmp Heap Outcome Divide Fields FillQueue.
From GB Require Splay.
Import ListNotations.
Set Implicit Arguments.

Section Subdivide.
Variable N : Num.
Variable cfg : config.
Notation store := (store N).

Definition sweep_line := Splay.t eid unit.

Definition sl_insert (st : store) (sl : sweep_line) (e : eid) : sweep_line :=
  fst (Splay.insert (compare_segments st) sl e tt).
Definition sl_prev (st : store) (sl : sweep_line) (e : eid) : sweep_line * option eid :=
  let '(sl', r) := Splay.prev (compare_segments st) sl e in
  (sl', match r with Some x => Some (Splay.ekey x) | None => None end).
Definition sl_next (st : store) (sl : sweep_line) (e : eid) : sweep_line * option eid :=
  let '(sl', r) := Splay.next (compare_segments st) sl e in
  (sl', match r with Some x => Some (Splay.ekey x) | None => None end).
Definition sl_contains (st : store) (sl : sweep_line) (e : eid) : sweep_line * bool :=
  let '(sl', r) := Splay.lookup (compare_segments st) sl e in
  (sl', match r with Some _ => true | None => false end).
Definition sl_remove (st : store) (sl : sweep_line) (e : eid) : sweep_line :=
  fst (Splay.remove (compare_segments st) sl e).

Record sweep := mkSweep {
  sw_st : store;
  sw_q : queue;
  sw_sl : sweep_line;
  sw_sorted : list eid          (* reversed: most recently popped first *)
}.

Definition with_sq (s : sweep) (x : sq N) (sl : sweep_line) : sweep :=
  mkSweep (sq_st x) (sq_q x) sl (sw_sorted s).

(** processing of a left event *)
Definition handle_left (s : sweep) (ev : eid) (op : operation) : outcome sweep :=
  let st := sw_st s in
  let sl1 := sl_insert st (sw_sl s) ev in
  let '(sl2, maybe_prev) := sl_prev st sl1 ev in
  let '(sl3, maybe_next) := sl_next st sl2 ev in
  let st1 := compute_fields cfg st ev maybe_prev op in
  let x1 := mkSQ st1 (sw_q s) in
  obind
    (match maybe_next with
     | Some next =>
         obind (possible_intersection cfg x1 ev next) (fun r =>
         let '(x, code) := r in
         if Nat.eqb code 2 then
           let st_a := compute_fields cfg (sq_st x) ev maybe_prev op in
           let st_b := compute_fields cfg st_a next (Some ev) op in
           Ok (mkSQ st_b (sq_q x))
         else Ok x)
     | None => Ok x1
     end) (fun x2 =>
  match maybe_prev with
  | Some prev =>
      obind (possible_intersection cfg x2 prev ev) (fun r =>
      let '(x, code) := r in
      if Nat.eqb code 2 then
        let '(sl4, maybe_prev_prev) := sl_prev (sq_st x) sl3 prev in
        let st_a := compute_fields cfg (sq_st x) prev maybe_prev_prev op in
        let st_b := compute_fields cfg st_a ev (Some prev) op in
        Ok (with_sq s (mkSQ st_b (sq_q x)) sl4)
      else Ok (with_sq s x sl3))
  | None => Ok (with_sq s x2 sl3)
  end).

(** processing of a right event whose partner is [other] *)
Definition handle_right (s : sweep) (other : eid) : outcome sweep :=
  let st := sw_st s in
  let '(sl1, present) := sl_contains st (sw_sl s) other in
  if c_debug cfg && negb present then Panic PDebugSweepLineMisses
  else if present then
    let '(sl2, maybe_prev) := sl_prev st sl1 other in
    let '(sl3, maybe_next) := sl_next st sl2 other in
    obind
      (match maybe_prev, maybe_next with
       | Some prev, Some next =>
           obind (possible_intersection cfg (mkSQ st (sw_q s)) prev next) (fun r => Ok (fst r))
       | _, _ => Ok (mkSQ st (sw_q s))
       end) (fun x =>
    Ok (with_sq s x (sl_remove (sq_st x) sl3 other)))
  else Ok (mkSweep st (sw_q s) sl1 (sw_sorted s)).

Fixpoint sweep_loop (fuel : nat) (s : sweep) (sbbox cbbox : bounding_box N) (rightbound : X N)
         (op : operation) : outcome sweep :=
  match fuel with
  | O =>
      match qpop (sw_st s) (sw_q s) with
      | None => Ok s
      | Some _ => Panic PEventBudget
      end
  | S f =>
      match qpop (sw_st s) (sw_q s) with
      | None => Ok s
      | Some (ev, q') =>
          let s1 := mkSweep (sw_st s) q' (sw_sl s) (ev :: sw_sorted s) in
          let e := getE (sw_st s) ev in
          let x := px (e_point e) in
          if negb (c_noshort cfg) &&
             ((operation_eqb op Intersection && gtX N x rightbound)
              || (operation_eqb op Difference && gtX N x (bb_maxx sbbox)))
          then Ok s1
          else
            obind
              (if e_left e then handle_left s1 ev op
               else match e_other e with
                    | Some other => handle_right s1 other
                    | None => Ok s1
                    end)
              (fun s2 => sweep_loop f s2 sbbox cbbox rightbound op)
      end
  end.

(** [subdivide]: returns the final store and the vector of processed events in pop order.
    [fuel] is the event budget: the run panics with [PEventBudget] when more than [fuel]
    events would be popped, exactly like the verification hook in the Rust code. *)
Definition subdivide (fuel : nat) (f : filled N) (op : operation) : outcome (store * list eid * nat) :=
  let rightbound := minX N (bb_maxx (f_sbbox f)) (bb_maxx (f_cbbox f)) in
  obind (sweep_loop fuel (mkSweep (f_st f) (f_q f) (Splay.empty) []) (f_sbbox f) (f_cbbox f) rightbound op)
        (fun s => Ok (sw_st s, rev (sw_sorted s), Splay.size (sw_sl s))).

End Subdivide.
