(** * Membership facts about the splay container that hold for EVERY comparator (no order
    laws assumed): what the sweep needs when the segment order is inconsistent (rounded
    runs): an insertion adds at most the inserted key, a removal adds nothing, lookups and
    neighbour queries return stored elements and keep the element sequence. *)
From Coq Require Import List PArith.
From GB Require Import Splay SplayProofs.
Import ListNotations.

Section Keys.
Variables K V : Type.
Variable cmp : K -> K -> comparison.
Notation tree := (Splay.tree K V).
Notation elt := (Splay.elt K V).

Definition keys (s : Splay.t K V) : list K := map (@ekey K V) (inorder (root s)).

Lemma succ_walk_in key (t : tree) : forall best r,
  succ_walk cmp key t best = Some r -> best = Some r \/ In r (inorder t).
Proof.
  induction t as [|l IHl x r IHr]; intros best y H; cbn [succ_walk inorder] in *; [now left|].
  destruct (cmp key (ekey x)).
  - destruct (IHr _ _ H) as [E|I]; [now left | right; apply in_or_app; right; now right].
  - destruct (IHl _ _ H) as [E|I].
    + inversion E; subst. right. apply in_or_app. right. now left.
    + right. apply in_or_app. now left.
  - destruct (IHr _ _ H) as [E|I]; [now left | right; apply in_or_app; right; now right].
Qed.
Lemma pred_walk_in key (t : tree) : forall best r,
  pred_walk cmp key t best = Some r -> best = Some r \/ In r (inorder t).
Proof.
  induction t as [|l IHl x r IHr]; intros best y H; cbn [pred_walk inorder] in *; [now left|].
  destruct (cmp key (ekey x)).
  - destruct (IHl _ _ H) as [E|I]; [now left | right; apply in_or_app; now left].
  - destruct (IHl _ _ H) as [E|I]; [now left | right; apply in_or_app; now left].
  - destruct (IHr _ _ H) as [E|I].
    + inversion E; subst. right. apply in_or_app. right. now left.
    + right. apply in_or_app. right. now right.
Qed.

Lemma keys_same s s' : same_state K V s s' -> keys s' = keys s.
Proof. intros (H & _). unfold keys. now rewrite H. Qed.

Lemma next_keys s k : keys (fst (next cmp s k)) = keys s.
Proof. apply keys_same, (next_same K V cmp). Qed.
Lemma prev_keys s k : keys (fst (prev cmp s k)) = keys s.
Proof. apply keys_same, (prev_same K V cmp). Qed.
Lemma lookup_keys s k : keys (fst (lookup cmp s k)) = keys s.
Proof. apply keys_same, (lookup_same K V cmp). Qed.

Lemma next_in s k x : snd (next cmp s k) = Some x -> In (ekey x) (keys s).
Proof.
  unfold next, keys. destruct (root s) as [|l y r] eqn:E; cbn [snd]; [discriminate|].
  intros H. destruct (succ_walk_in _ _ _ _ H) as [?|I]; [discriminate|].
  rewrite splay_inorder in I. now apply in_map.
Qed.
Lemma prev_in s k x : snd (prev cmp s k) = Some x -> In (ekey x) (keys s).
Proof.
  unfold prev, keys. destruct (root s) as [|l y r] eqn:E; cbn [snd]; [discriminate|].
  intros H. destruct (pred_walk_in _ _ _ _ H) as [?|I]; [discriminate|].
  rewrite splay_inorder in I. now apply in_map.
Qed.

Ltac mem := repeat (rewrite ?map_app, ?in_app_iff in *; cbn [map In ekey inorder] in * ).

Lemma insert_keys s k v k' :
  In k' (keys (fst (insert cmp s k v))) -> k' = k \/ In k' (keys s).
Proof.
  unfold insert, keys. destruct (root s) as [|l0 x0 r0] eqn:E.
  - cbn. intros [H|[]]. now left.
  - pose proof (splay_inorder K V cmp k l0 x0 r0) as IO.
    destruct (splay cmp k (Node l0 x0 r0)) as [|l x r]; [cbn [fst]; rewrite E; now right|].
    rewrite <- IO.
    destruct (cmp k (ekey x)); cbn [fst root]; mem; intuition.
Qed.

Lemma remove_keys s k k' : In k' (keys (fst (remove cmp s k))) -> In k' (keys s).
Proof.
  unfold remove, keys. destruct (root s) as [|l0 x0 r0] eqn:E; [cbn [fst]; now rewrite E|].
  pose proof (splay_inorder K V cmp k l0 x0 r0) as IO.
  destruct (splay cmp k (Node l0 x0 r0)) as [|l x r]; [cbn [fst]; now rewrite E|].
  rewrite <- IO.
  destruct (cmp k (ekey x)); cbn [fst root set_root]; try (mem; tauto).
  destruct l as [|ll lx lr].
  - mem. tauto.
  - pose proof (splay_inorder K V cmp k ll lx lr) as IO2.
    destruct (splay cmp k (Node ll lx lr)) as [|l2 x2 r2].
    + mem. tauto.
    + intros H. assert (G : In k' (map (@ekey K V) (inorder (Node l2 x2 r2))) \/ In k' (map (@ekey K V) (inorder r))).
      { mem. tauto. }
      rewrite IO2 in G. mem. tauto.
Qed.

End Keys.
