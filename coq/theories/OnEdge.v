(** * Every sub-segment lies on an input edge of its own operand (C04 first clause, C13 coverage
    clause), exact instance, as an invariant of the whole sweep.

    Setting: operands with finite rational coordinates such that no edge of the subject and
    edge of the clipping share two distinct points ([NOV]: the operands have no boundary piece
    in common — T-junctions, common vertices and crossings are allowed; with a common boundary
    piece the overlap arm of [possible_intersection] divides at event points, which is not
    covered here).  Then in every store reached by [fill_queue] and the sweep, every linked pair
    of events consists of two DISTINCT points of ONE input edge of the pair's operand
    ([einv]); in particular every event pair returned by [subdivide] ([subdivide_on_edges]).

    The invariant needs no orientation: [divide_segment] re-links one pair
    ([SplitCover.divide_segment_shape]) and both pieces of a segment divided strictly inside
    lie on the edge the segment lies on; [possible_intersection] divides only at the exact
    common point ([IntersectProofs.intersection_exact_all]), and only a segment that has this
    point strictly inside. *)
From Coq Require Import Bool List PArith NArith QArith Lqa Lia.
From GB Require Import Prim Num NumQ NumLaws NumLawsQ Event Intersect Cmp Heap Outcome Divide Fields FillQueue
  Subdivide IntersectProofs FieldsProofs SplayKeys LinkProofs PiProofs SplitCover.
From GB Require Splay.
Import ListNotations.
Local Open Scope Q_scope.

(** ** geometry *)
Definition qeqp (ax ay bx by_ : Q) : Prop := ax == bx /\ ay == by_.

Lemma on_seg_l ax ay bx by_ : on_seg ax ay bx by_ ax ay.
Proof. exists 0. split; [lra|]. split; ring. Qed.
Lemma on_seg_r ax ay bx by_ : on_seg ax ay bx by_ bx by_.
Proof. exists 1. split; [lra|]. split; ring. Qed.

(** convexity: a point between two points of a segment is a point of the segment *)
Lemma on_seg_convex ax ay bx by_ px py qx qy x y :
  on_seg ax ay bx by_ px py -> on_seg ax ay bx by_ qx qy -> on_seg px py qx qy x y -> on_seg ax ay bx by_ x y.
Proof.
  intros (u & Hu & Px & Py) (v & Hv & Qx & Qy) (t & Ht & Hx & Hy).
  exists (u + t * (v - u)). split; [nra|]. rewrite Hx, Hy, Px, Py, Qx, Qy. split; ring.
Qed.

(** equal rationals may replace the arguments *)
Lemma on_seg_eqv ax ay bx by_ x y ax' ay' bx' by' x' y' :
  ax == ax' -> ay == ay' -> bx == bx' -> by_ == by' -> x == x' -> y == y' ->
  on_seg ax ay bx by_ x y -> on_seg ax' ay' bx' by' x' y'.
Proof.
  intros E1 E2 E3 E4 E5 E6 (s & Hs & Hx & Hy). exists s. split; [exact Hs|].
  rewrite <- E1, <- E2, <- E3, <- E4, <- E5, <- E6. split; assumption.
Qed.

Lemma QF_inj (u v : Q) : QF u = QF v -> u = v.
Proof. intros K. now inversion K. Qed.
Lemma fpt_inj a b c d : fpt a b = fpt c d -> a = c /\ b = d.
Proof. unfold fpt. intros K. inversion K. auto. Qed.

(** ** the setting *)
Definition edge := (Q * Q * (Q * Q) * bool)%type.     (* (a, b, is_subject) *)

Section OnEdge.
Variable edges : list edge.

(** no edge of the subject and edge of the clipping share two distinct points *)
Definition NOV : Prop :=
  forall ax ay bx by_ cx cy dx dy x y x' y',
  In (ax, ay, (bx, by_), true) edges -> In (cx, cy, (dx, dy), false) edges ->
  on_seg ax ay bx by_ x y -> on_seg cx cy dx dy x y ->
  on_seg ax ay bx by_ x' y' -> on_seg cx cy dx dy x' y' ->
  qeqp x y x' y'.

Notation store := (store NQ).

(** the pair (i, o): two distinct finite points of one input edge of the operand of [i] *)
Definition pair_ok (st : store) (i o : eid) : Prop :=
  exists px py qx qy ax ay bx by_,
    e_point (getE st i) = fpt px py /\ e_point (getE st o) = fpt qx qy /\
    ~ qeqp px py qx qy /\
    In (ax, ay, (bx, by_), e_is_subject (getE st i)) edges /\
    on_seg ax ay bx by_ px py /\ on_seg ax ay bx by_ qx qy.

Definition einv (st : store) : Prop :=
  forall i o, mapped NQ st i -> e_other (getE st i) = Some o -> pair_ok st i o.

(** updates that touch neither points nor links nor the operand flag *)
Definition keeps_e (f : event NQ -> event NQ) : Prop :=
  forall e, e_point (f e) = e_point e /\ e_other (f e) = e_other e /\ e_is_subject (f e) = e_is_subject e.

Lemma getE_upd_keeps_e (st : store) j f k : keeps_e f ->
  e_point (getE (upd st j f) k) = e_point (getE st k) /\
  e_other (getE (upd st j f) k) = e_other (getE st k) /\
  e_is_subject (getE (upd st j f) k) = e_is_subject (getE st k).
Proof.
  intros K. destruct (Pos.eq_dec j k) as [->|Hn].
  - rewrite getE_upd_same. apply K.
  - rewrite getE_upd_other by exact Hn. auto.
Qed.

Lemma einv_upd (st : store) j f : keeps_e f -> mapped NQ st j -> einv st -> einv (upd st j f).
Proof.
  intros K Mj E i o Mi Ho. apply (mapped_upd_in NQ st j f i Mj) in Mi.
  destruct (getE_upd_keeps_e st j f i K) as (A1 & A2 & A3).
  destruct (getE_upd_keeps_e st j f o K) as (B1 & B2 & B3).
  rewrite A2 in Ho. destruct (E i o Mi Ho) as (px & py & qx & qy & ax & ay & bx & by_ & H1 & H2 & H3 & H4 & H5 & H6).
  exists px, py, qx, qy, ax, ay, bx, by_. rewrite A1, B1, A3. auto 10.
Qed.

Lemma ke_set_left b : keeps_e (fun e => set_left e b). Proof. intros e; auto. Qed.
Lemma ke_set_prev o : keeps_e (fun e => set_prev_in_result e o). Proof. intros e; auto. Qed.
Lemma ke_set_edge_type t : keeps_e (fun e => set_edge_type e t). Proof. intros e; auto. Qed.
Lemma ke_set_in_out a b : keeps_e (fun e => set_in_out e a b). Proof. intros e; auto. Qed.
Lemma ke_set_rt r : keeps_e (fun e => set_result_transition e r). Proof. intros e; auto. Qed.

Lemma compute_fields_einv cfg (st : store) ev mp op : mapped NQ st ev -> einv st -> einv (compute_fields cfg st ev mp op).
Proof.
  intros M P. unfold compute_fields.
  apply einv_upd; [apply ke_set_rt | |].
  - destruct mp as [prev|];
      repeat match goal with
             | |- context [if ?c then _ else _] => destruct c
             | |- context [match ?c with Some _ => _ | None => _ end] => destruct c
             end; rewrite ?mapped_upd; auto.
  - destruct mp as [prev|].
    + repeat match goal with
             | |- context [if ?c then _ else _] => destruct c
             | |- context [match ?c with Some _ => _ | None => _ end] => destruct c
             end;
        (apply einv_upd; [apply ke_set_prev | rewrite ?mapped_upd; auto |]);
        (apply einv_upd; [apply ke_set_in_out | exact M | exact P]).
    + apply einv_upd; [apply ke_set_prev | rewrite ?mapped_upd; auto |].
      apply einv_upd; [apply ke_set_in_out | exact M | exact P].
Qed.

(** ** one division *)
Definition strictly_inside (lx ly rx ry ix iy : Q) : Prop :=
  on_seg lx ly rx ry ix iy /\ ~ qeqp ix iy lx ly /\ ~ qeqp ix iy rx ry.

Lemma getE_unmapped_other (st : store) k : ~ mapped NQ st k -> e_other (getE st k) = None.
Proof.
  intros H. unfold getE. unfold mapped in H. destruct (pfind k (st_map st)); [exfalso; apply H; discriminate | reflexivity].
Qed.

Lemma divide_segment_keeps_subject cfg (s s' : sq NQ) (se_l : eid) (i : pt NQ) :
  wf NQ (sq_st s) ->
  divide_segment cfg s se_l i = Ok s' ->
  forall k, mapped NQ (sq_st s) k -> e_is_subject (getE (sq_st s') k) = e_is_subject (getE (sq_st s) k).
Proof.
  intros W. unfold divide_segment.
  destruct (c_debug cfg && negb (e_left (getE (sq_st s) se_l))); [discriminate|].
  destruct (e_other (getE (sq_st s) se_l)) as [se_r|] eqn:Or.
  2: { intros H; inversion H; subst. reflexivity. }
  rewrite bump_dead_exact.
  set (el := getE (sq_st s) se_l).
  destruct (alloc (sq_st s) (new_event (e_contour_id el) i false (Some se_l) (e_is_subject el) true)) as [st1 r] eqn:E1.
  destruct (alloc st1 (new_event (e_contour_id el) i true (Some se_r) (e_is_subject el) true)) as [st2 l] eqn:E2.
  assert (Hst1 : st1 = fst (alloc (sq_st s) (new_event (e_contour_id el) i false (Some se_l) (e_is_subject el) true))) by (rewrite E1; reflexivity).
  assert (Hst2 : st2 = fst (alloc st1 (new_event (e_contour_id el) i true (Some se_r) (e_is_subject el) true))) by (rewrite E2; reflexivity).
  destruct (c_debug cfg && negb (is_before st2 se_l r)); [discriminate|].
  intros H; inversion H; subst s'; clear H. cbn [sq_st]. intros k Mk.
  assert (Keep : forall (sto : store) j f q, (forall e, e_is_subject (f e) = e_is_subject e) ->
            e_is_subject (getE (upd sto j f) q) = e_is_subject (getE sto q)).
  { intros sto j f q Hf. destruct (Pos.eq_dec j q) as [->|Hn].
    - rewrite getE_upd_same. apply Hf.
    - now rewrite getE_upd_other. }
  assert (N1 : k <> st_next (sq_st s)) by (intros ->; apply (fresh_unmapped NQ _ W); exact Mk).
  assert (N2 : k <> st_next st1).
  { rewrite Hst1, next_alloc. pose proof (W _ Mk). intros ->. lia. }
  rewrite !Keep by (intros; reflexivity).
  destruct (negb (is_before st2 l se_r)); [rewrite !Keep by (intros; reflexivity)|];
    rewrite Hst2, (getE_alloc_old NQ st1 _ k N2), Hst1, (getE_alloc_old NQ (sq_st s) _ k N1); reflexivity.
Qed.

Lemma divide_segment_new_ids cfg (s s' : sq NQ) (se_l : eid) (i : pt NQ) :
  (forall o, e_other (getE (sq_st s) se_l) = Some o -> mapped NQ (sq_st s) o) ->
  divide_segment cfg s se_l i = Ok s' ->
  forall j, mapped NQ (sq_st s') j ->
    mapped NQ (sq_st s) j \/ j = st_next (sq_st s) \/ j = Pos.succ (st_next (sq_st s)).
Proof.
  intros Hmo. unfold divide_segment.
  destruct (c_debug cfg && negb (e_left (getE (sq_st s) se_l))); [discriminate|].
  destruct (e_other (getE (sq_st s) se_l)) as [se_r|] eqn:Or.
  2: { intros H; inversion H; subst. auto. }
  rewrite bump_dead_exact.
  set (el := getE (sq_st s) se_l).
  destruct (alloc (sq_st s) (new_event (e_contour_id el) i false (Some se_l) (e_is_subject el) true)) as [st1 r] eqn:E1.
  destruct (alloc st1 (new_event (e_contour_id el) i true (Some se_r) (e_is_subject el) true)) as [st2 l] eqn:E2.
  assert (Hst1 : st1 = fst (alloc (sq_st s) (new_event (e_contour_id el) i false (Some se_l) (e_is_subject el) true))) by (rewrite E1; reflexivity).
  assert (Hst2 : st2 = fst (alloc st1 (new_event (e_contour_id el) i true (Some se_r) (e_is_subject el) true))) by (rewrite E2; reflexivity).
  assert (Hl : l = st_next st1) by (unfold alloc in E2; now inversion E2).
  destruct (c_debug cfg && negb (is_before st2 se_l r)); [discriminate|].
  intros H; inversion H; subst s'; clear H. cbn [sq_st]. intros j Mj.
  assert (Mj2 : mapped NQ st2 j \/ j = se_l \/ j = se_r \/ j = l).
  { revert Mj. destruct (negb (is_before st2 l se_r)); rewrite !mapped_upd; tauto. }
  assert (M2 : forall q, mapped NQ st2 q -> mapped NQ (sq_st s) q \/ q = st_next (sq_st s) \/ q = Pos.succ (st_next (sq_st s))).
  { intros q M. rewrite Hst2 in M. apply mapped_alloc in M. destruct M as [E|M].
    - right; right. rewrite E, Hst1. apply next_alloc.
    - rewrite Hst1 in M. apply mapped_alloc in M. destruct M as [E|M]; auto. }
  assert (Hl' : l = Pos.succ (st_next (sq_st s))) by (rewrite Hl, Hst1; apply next_alloc).
  destruct Mj2 as [M|[E|[E|E]]]; [now apply M2 | subst j | subst j | subst j; auto].
  - (* se_l was read as the divided event *)
    destruct (mapped_dec NQ (sq_st s) se_l) as [K|K]; [now left|].
    exfalso. rewrite (getE_unmapped_other _ _ K) in Or. discriminate.
  - left. now apply Hmo.
Qed.

Theorem divide_segment_einv cfg (s s' : sq NQ) (se_l se_r : eid) (lx ly rx ry ix iy : Q) :
  sqinv NQ s -> einv (sq_st s) -> mapped NQ (sq_st s) se_l ->
  e_other (getE (sq_st s) se_l) = Some se_r ->
  e_point (getE (sq_st s) se_l) = fpt lx ly -> e_point (getE (sq_st s) se_r) = fpt rx ry ->
  strictly_inside lx ly rx ry ix iy ->
  divide_segment cfg s se_l (fpt ix iy) = Ok s' ->
  einv (sq_st s').
Proof.
  intros S E Ml Or Pl Pr (Hon & Hnl & Hnr) Hd.
  pose proof S as [[W L] Q].
  destruct (L se_l Ml) as (o & Ho & Hne & Mr & Hback & Hsub & _).
  assert (Eo : o = se_r) by congruence. subst o.
  destruct (divide_segment_shape NQ cfg s s' se_l se_r (fpt ix iy) W Ml Mr Hne Or Hd)
    as (r & l & i' & Nr & Nl & Hrl & A1 & A2 & A3 & A4 & B1 & B2 & Ei & Keep & KeepO).
  rewrite bump_dead_exact in Ei. rewrite Ei in B1, B2. clear Ei i'.
  pose proof (divide_segment_keeps_subject cfg s s' se_l (fpt ix iy) W Hd) as KS.
  (* the old pair lies on an edge *)
  destruct (E se_l se_r Ml Or) as (px & py & qx & qy & ax & ay & bx & by_ & H1 & H2 & H3 & H4 & H5 & H6).
  rewrite Pl in H1. rewrite Pr in H2.
  apply fpt_inj in H1, H2. destruct H1 as [<- <-]. destruct H2 as [<- <-].
  assert (Hi : on_seg ax ay bx by_ ix iy).
  { eapply on_seg_convex; [exact H5 | exact H6 | exact Hon]. }
  pose proof (divide_segment_inv NQ cfg s se_l (fpt ix iy) S Ml) as DI. rewrite Hd in DI. destruct DI as [[[W' L'] Q'] G'].
  assert (Tl : e_is_subject (getE (sq_st s') se_l) = e_is_subject (getE (sq_st s) se_l)) by (apply KS; exact Ml).
  assert (Tr : e_is_subject (getE (sq_st s') se_r) = e_is_subject (getE (sq_st s) se_l)).
  { rewrite (KS se_r Mr). exact Hsub. }
  intros k o Mk Hko.
  destruct (Pos.eq_dec k se_l) as [->|Kl]; [|destruct (Pos.eq_dec k se_r) as [->|Kr]].
  - (* (se_l, r) *)
    rewrite A1 in Hko. inversion Hko; subst o.
    exists lx, ly, ix, iy, ax, ay, bx, by_. rewrite (Keep se_l Ml), Pl, B1, Tl.
    repeat split; auto. intros [K1 K2]. apply Hnl. split; [rewrite K1 | rewrite K2]; reflexivity.
  - (* (se_r, l) *)
    rewrite A4 in Hko. inversion Hko; subst o.
    exists rx, ry, ix, iy, ax, ay, bx, by_. rewrite (Keep se_r Mr), Pr, B2, Tr.
    repeat split; auto. intros [K1 K2]. apply Hnr. split; [rewrite K1 | rewrite K2]; reflexivity.
  - destruct (mapped_dec NQ (sq_st s) k) as [Mk0|Nk0].
    + (* an untouched old pair *)
      rewrite (KeepO k Mk0 Kl Kr) in Hko.
      destruct (L k Mk0) as (o' & Ho' & _ & Mo' & _). assert (o' = o) by congruence. subst o'.
      destruct (E k o Mk0 Hko) as (px & py & qx & qy & cx & cy & dx & dy & G1 & G2 & G3 & G4 & G5 & G6).
      exists px, py, qx, qy, cx, cy, dx, dy. rewrite (Keep k Mk0), (Keep o Mo'), (KS k Mk0). auto 10.
    + (* a new event: r or l *)
      destruct (L' k Mk) as (o' & Ho' & _ & _ & _ & Hs' & _). assert (o' = o) by congruence. subst o'.
      destruct (Pos.eq_dec k r) as [->|Kr'].
      * rewrite A2 in Hko. inversion Hko; subst o.
        exists ix, iy, lx, ly, ax, ay, bx, by_. rewrite B1, (Keep se_l Ml), Pl, <- Hs', Tl. repeat split; auto.
      * destruct (Pos.eq_dec k l) as [->|Kl'].
        -- rewrite A3 in Hko. inversion Hko; subst o.
           exists ix, iy, rx, ry, ax, ay, bx, by_. rewrite B2, (Keep se_r Mr), Pr, <- Hs', Tr. repeat split; auto.
        -- (* k is mapped in s' but neither old nor r nor l: impossible, only two ids are new *)
           exfalso.
           assert (Hmo : forall o0, e_other (getE (sq_st s) se_l) = Some o0 -> mapped NQ (sq_st s) o0).
           { intros o0 K. assert (o0 = se_r) by congruence. subst. exact Mr. }
           pose proof (divide_segment_new_ids cfg s s' se_l (fpt ix iy) Hmo Hd) as NI.
           assert (Mr_ : mapped NQ (sq_st s') r).
           { destruct (mapped_dec NQ (sq_st s') r) as [K|K]; [exact K|].
             rewrite (getE_unmapped_other _ _ K) in A2. discriminate. }
           assert (Ml_ : mapped NQ (sq_st s') l).
           { destruct (mapped_dec NQ (sq_st s') l) as [K|K]; [exact K|].
             rewrite (getE_unmapped_other _ _ K) in A3. discriminate. }
           destruct (NI k Mk) as [K|K]; [contradiction|].
           destruct (NI r Mr_) as [K1|K1]; [contradiction|].
           destruct (NI l Ml_) as [K2|K2]; [contradiction|].
           destruct K as [K|K], K1 as [K1|K1], K2 as [K2|K2]; congruence.
Qed.


(** ** [possible_intersection] *)
Lemma pt_eq_fpt a b c d : pt_eq (fpt a b) (fpt c d) = true <-> qeqp a b c d.
Proof.
  unfold pt_eq, qeqp. cbn [px py fpt eqX eqY NQ]. rewrite andb_true_iff, !qx_eq_FF. tauto.
Qed.
Lemma pt_eq_fpt_false a b c d : pt_eq (fpt a b) (fpt c d) = false <-> ~ qeqp a b c d.
Proof. rewrite <- pt_eq_fpt. destruct (pt_eq (fpt a b) (fpt c d)); split; intros; try discriminate; try tauto; congruence. Qed.

Lemma qeqp_sym a b c d : qeqp a b c d -> qeqp c d a b.
Proof. intros [H1 H2]. split; symmetry; assumption. Qed.

(** a segment and the same segment reversed never meet in "one point" *)
Lemma reversed_not_point ax ay bx by_ p :
  ~ qeqp ax ay bx by_ ->
  intersection (fpt ax ay) (fpt bx by_) (fpt bx by_) (fpt ax ay) = LPoint p -> False.
Proof.
  intros Hne Hi.
  assert (Hne' : ~ (bx == ax /\ by_ == ay)) by (intros [K1 K2]; apply Hne; split; symmetry; assumption).
  assert (Hdet : det ax ay bx by_ bx by_ ax ay == 0) by (unfold det; ring).
  assert (HT : numT ax ay bx by_ bx by_ == 0) by (unfold numT; ring).
  destruct (intersection_collinear Hdet HT Hne') as (lo & hi & Hch & [[_ H]|[(H1 & _)|(_ & _ & x & y & x' & y' & H & _)]]).
  - rewrite H in Hi. discriminate.
  - (* both end points are common points: lo <= 0 and 1 <= hi *)
    assert (Ca : on_both ax ay bx by_ bx by_ ax ay ax ay).
    { exists 0, 1. repeat split; try lra; ring. }
    assert (Cb : on_both ax ay bx by_ bx by_ ax ay bx by_).
    { exists 1, 0. repeat split; try lra; ring. }
    apply Hch in Ca, Cb. destruct Ca as (s0 & Hs0 & Ex0 & Ey0). destruct Cb as (s1 & Hs1 & Ex1 & Ey1).
    unfold seg_a_at in *.
    assert (Z0 : s0 == 0).
    { assert (K1 : s0 * (bx - ax) == 0) by lra. assert (K2 : s0 * (by_ - ay) == 0) by lra.
      destruct (Qmult_integral _ _ K1) as [K|K]; [exact K|]. destruct (Qmult_integral _ _ K2) as [K'|K']; [exact K'|].
      exfalso. apply Hne'. split; lra. }
    assert (Z1 : s1 == 1).
    { assert (K1 : (s1 - 1) * (bx - ax) == 0) by lra. assert (K2 : (s1 - 1) * (by_ - ay) == 0) by lra.
      destruct (Qmult_integral _ _ K1) as [K|K]; [lra|]. destruct (Qmult_integral _ _ K2) as [K'|K']; [lra|].
      exfalso. apply Hne'. split; lra. }
    lra.
  - rewrite H in Hi. discriminate.
Qed.

(** an overlap means two distinct common points *)
Lemma overlap_two_points a1x a1y a2x a2y b1x b1y b2x b2y p q :
  ~ qeqp a1x a1y a2x a2y -> ~ qeqp b1x b1y b2x b2y ->
  intersection (fpt a1x a1y) (fpt a2x a2y) (fpt b1x b1y) (fpt b2x b2y) = LOverlap p q ->
  exists x y x' y', on_both a1x a1y a2x a2y b1x b1y b2x b2y x y /\ on_both a1x a1y a2x a2y b1x b1y b2x b2y x' y'
                    /\ ~ qeqp x y x' y'.
Proof.
  intros Ha Hb Hi.
  assert (Ha' : ~ (a2x == a1x /\ a2y == a1y)) by (intros [K1 K2]; apply Ha; split; symmetry; assumption).
  assert (Hb' : ~ (b2x == b1x /\ b2y == b1y)) by (intros [K1 K2]; apply Hb; split; symmetry; assumption).
  destruct (Qeq_dec (det a1x a1y a2x a2y b1x b1y b2x b2y) 0) as [Hdet|Hdet].
  - destruct (Qeq_dec (numT a1x a1y a2x a2y b1x b1y) 0) as [HT|HT].
    + destruct (intersection_collinear Hdet HT Ha') as (lo & hi & Hch & [[_ H]|[(_ & x & y & H & _)|(Hle & Hlt & x & y & x' & y' & H & H3 & H4)]]).
      * rewrite H in Hi. discriminate.
      * rewrite H in Hi. discriminate.
      * specialize (Hlt Hb'). exists x, y, x', y'. split; [|split].
        -- apply Hch. exists lo. split; [lra | exact H3].
        -- apply Hch. exists hi. split; [lra | exact H4].
        -- intros [K1 K2]. unfold seg_a_at in H3, H4. destruct H3 as [X1 Y1], H4 as [X2 Y2].
           assert (Q1 : (hi - lo) * (a2x - a1x) == 0) by lra.
           assert (Q2 : (hi - lo) * (a2y - a1y) == 0) by lra.
           destruct (Qmult_integral _ _ Q1) as [K|K]; [lra|]. destruct (Qmult_integral _ _ Q2) as [K'|K']; [lra|].
           apply Ha'. split; lra.
    + destruct (impl_parallel_distinct Hdet HT) as [H _].
      apply intersection_none_of_impl in H. rewrite H in Hi. discriminate.
  - destruct (intersection_exact Hdet) as [[H _]|(x & y & H & _)]; rewrite H in Hi; discriminate.
Qed.

Definition pe (r : outcome (sq NQ * nat)) : Prop :=
  match r with Ok (s', _) => einv (sq_st s') | _ => True end.

Lemma on_both_seg1 a1x a1y a2x a2y b1x b1y b2x b2y x y :
  on_both a1x a1y a2x a2y b1x b1y b2x b2y x y -> on_seg a1x a1y a2x a2y x y /\ on_seg b1x b1y b2x b2y x y.
Proof. intros (s & t & Hs & Ht & H1 & H2 & H3 & H4). split; [exists s | exists t]; auto. Qed.

Theorem possible_intersection_pe cfg (s : sq NQ) (se1 se2 : eid) :
  NOV -> sqinv NQ s -> einv (sq_st s) -> mapped NQ (sq_st s) se1 -> mapped NQ (sq_st s) se2 ->
  pe (possible_intersection cfg s se1 se2).
Proof.
  intros Hnov S E M1 M2. pose proof S as [[W L] Q].
  unfold possible_intersection.
  destruct (L se1 M1) as (other1 & O1 & Hne1 & Mo1 & Back1 & _).
  destruct (L se2 M2) as (other2 & O2 & Hne2 & Mo2 & Back2 & _).
  rewrite O1, O2.
  destruct (E se1 other1 M1 O1) as (p1x & p1y & o1x & o1y & a1x & a1y & b1x & b1y & P1 & Q1 & D1 & I1 & S1a & S1b).
  destruct (E se2 other2 M2 O2) as (p2x & p2y & o2x & o2y & a2x & a2y & b2x & b2y & P2 & Q2 & D2 & I2 & S2a & S2b).
  unfold point_of. rewrite P1, Q1, P2, Q2.
  assert (Hne : ~ (o1x == p1x /\ o1y == p1y)) by (intros [K1 K2]; apply D1; split; symmetry; assumption).
  pose proof (@intersection_exact_all p1x p1y o1x o1y p2x p2y o2x o2y Hne) as EX.
  destruct (intersection (fpt p1x p1y) (fpt o1x o1y) (fpt p2x p2y) (fpt o2x o2y)) as [|inter|ia ib] eqn:EI.
  - exact E.
  - (* one common point *)
    cbn [exact_result] in EX. destruct EX as (x & y & -> & Hon).
    destruct (on_both_seg1 _ _ _ _ _ _ _ _ _ _ Hon) as [On1 On2].
    destruct (pt_eq (fpt p1x p1y) (fpt p2x p2y) || pt_eq (fpt o1x o1y) (fpt o2x o2y)) eqn:Eends; [exact E|].
    apply orb_false_iff in Eends. destruct Eends as [Ep Eo].
    (* se2 is neither se1 nor its partner *)
    assert (N21 : se2 <> se1).
    { intros ->. rewrite P1 in P2. apply fpt_inj in P2. destruct P2 as [<- <-].
      apply pt_eq_fpt_false in Ep. apply Ep. split; reflexivity. }
    assert (N2o : se2 <> other1).
    { intros ->. rewrite Back1 in O2. inversion O2; subst other2.
      rewrite Q1 in P2. apply fpt_inj in P2. destruct P2 as [<- <-].
      rewrite P1 in Q2. apply fpt_inj in Q2. destruct Q2 as [<- <-].
      exact (reversed_not_point _ _ _ _ _ D1 EI). }
    set (c1 := negb (pt_eq (fpt p1x p1y) (fpt x y)) && negb (pt_eq (fpt o1x o1y) (fpt x y))).
    set (c2 := negb (pt_eq (fpt p2x p2y) (fpt x y)) && negb (pt_eq (fpt o2x o2y) (fpt x y))).
    assert (In1 : c1 = true -> strictly_inside p1x p1y o1x o1y x y).
    { unfold c1. intros K. apply andb_prop in K. destruct K as [K1 K2].
      apply negb_true_iff in K1, K2. apply pt_eq_fpt_false in K1, K2.
      split; [exact On1|]. split; intros K; [apply K1 | apply K2]; now apply qeqp_sym. }
    assert (In2 : c2 = true -> strictly_inside p2x p2y o2x o2y x y).
    { unfold c2. intros K. apply andb_prop in K. destruct K as [K1 K2].
      apply negb_true_iff in K1, K2. apply pt_eq_fpt_false in K1, K2.
      split; [exact On2|]. split; intros K; [apply K1 | apply K2]; now apply qeqp_sym. }
    destruct c1 eqn:C1.
    + (* se1 is divided *)
      pose proof (divide_segment_inv NQ cfg s se1 (fpt x y) S M1) as DI.
      destruct (divide_segment cfg s se1 (fpt x y)) as [s1|site|] eqn:Dv1; cbn [obind]; [|exact I|exact I].
      destruct DI as [S1 G1].
      pose proof (divide_segment_einv cfg s s1 se1 other1 p1x p1y o1x o1y x y S E M1 O1 P1 Q1 (In1 eq_refl) Dv1) as E1.
      destruct c2 eqn:C2.
      * (* and se2, in the new store: its pair is untouched *)
        destruct (divide_segment_shape NQ cfg s s1 se1 other1 (fpt x y) W M1 Mo1 Hne1 O1 Dv1)
          as (r & l & i' & _ & _ & _ & _ & _ & _ & _ & _ & _ & _ & Keep & KeepO).
        assert (O2' : e_other (getE (sq_st s1) se2) = Some other2) by (rewrite (KeepO se2 M2 N21 N2o); exact O2).
        assert (P2' : e_point (getE (sq_st s1) se2) = fpt p2x p2y) by (rewrite (Keep se2 M2); exact P2).
        assert (Q2' : e_point (getE (sq_st s1) other2) = fpt o2x o2y) by (rewrite (Keep other2 Mo2); exact Q2).
        destruct (divide_segment cfg s1 se2 (fpt x y)) as [s2|site|] eqn:Dv2; cbn [obind]; [|exact I|exact I].
        exact (divide_segment_einv cfg s1 s2 se2 other2 p2x p2y o2x o2y x y S1 E1 (G1 _ M2) O2' P2' Q2' (In2 eq_refl) Dv2).
      * cbn [obind]. exact E1.
    + cbn [obind]. destruct c2 eqn:C2.
      * destruct (divide_segment cfg s se2 (fpt x y)) as [s2|site|] eqn:Dv2; cbn [obind]; [|exact I|exact I].
        exact (divide_segment_einv cfg s s2 se2 other2 p2x p2y o2x o2y x y S E M2 O2 P2 Q2 (In2 eq_refl) Dv2).
      * cbn [obind]. exact E.
  - (* an overlap: same operand -> nothing happens; different operands -> excluded by NOV *)
    destruct (eqb (e_is_subject (getE (sq_st s) se1)) (e_is_subject (getE (sq_st s) se2))) eqn:Esub; [exact E|].
    exfalso. apply eqb_false_iff in Esub.
    destruct (overlap_two_points _ _ _ _ _ _ _ _ _ _ D1 D2 EI) as (x & y & x' & y' & C1 & C2 & Hd).
    destruct (on_both_seg1 _ _ _ _ _ _ _ _ _ _ C1) as [U1 U2].
    destruct (on_both_seg1 _ _ _ _ _ _ _ _ _ _ C2) as [V1 V2].
    assert (X1 : on_seg a1x a1y b1x b1y x y) by (eapply on_seg_convex; [exact S1a | exact S1b | exact U1]).
    assert (X2 : on_seg a2x a2y b2x b2y x y) by (eapply on_seg_convex; [exact S2a | exact S2b | exact U2]).
    assert (Y1 : on_seg a1x a1y b1x b1y x' y') by (eapply on_seg_convex; [exact S1a | exact S1b | exact V1]).
    assert (Y2 : on_seg a2x a2y b2x b2y x' y') by (eapply on_seg_convex; [exact S2a | exact S2b | exact V2]).
    apply Hd.
    destruct (e_is_subject (getE (sq_st s) se1)) eqn:T1; destruct (e_is_subject (getE (sq_st s) se2)) eqn:T2;
      try (now elim Esub).
    + exact (Hnov _ _ _ _ _ _ _ _ _ _ _ _ I1 I2 X1 X2 Y1 Y2).
    + exact (Hnov _ _ _ _ _ _ _ _ _ _ _ _ I2 I1 X2 X1 Y2 Y1).
Qed.


(** ** [fill_queue] *)
Definition edge_in (subj : bool) (a b : pt NQ) : Prop :=
  exists ax ay bx by_, a = fpt ax ay /\ b = fpt bx by_ /\ In (ax, ay, (bx, by_), subj) edges.
Fixpoint ring_from_ok (subj : bool) (prev : pt NQ) (rest : list (pt NQ)) : Prop :=
  match rest with
  | [] => True
  | p :: rest' => edge_in subj prev p /\ ring_from_ok subj p rest'
  end.
Definition ring_ok (subj : bool) (r : ring NQ) : Prop :=
  match r with [] => True | p :: rest => ring_from_ok subj p rest end.
(** every pair of consecutive vertices of every ring is a listed edge of that operand *)
Definition poly_ok (subj : bool) (P : polygon NQ) : Prop :=
  ring_ok subj (exterior P) /\ forall r, In r (interiors P) -> ring_ok subj r.

Definition fqe (s : fq NQ) : Prop := fqinv NQ s /\ einv (fq_st s).

Lemma process_edge_einv (s : fq NQ) subj cid ext (a b : pt NQ) :
  edge_in subj a b -> fqe s -> fqe (process_edge s subj cid ext a b).
Proof.
  intros (ax & ay & bx & by_ & -> & -> & Hin) [F E]. split; [now apply process_edge_inv|].
  destruct F as [[W L] Q]. unfold process_edge.
  destruct (pt_eq (fpt ax ay) (fpt bx by_)) eqn:Epe; [exact E|].
  apply pt_eq_fpt_false in Epe.
  destruct (alloc (fq_st s) (new_event cid (fpt ax ay) false None subj ext)) as [st1 e1] eqn:E1.
  destruct (alloc st1 (new_event cid (fpt bx by_) false (Some e1) subj ext)) as [st2 e2] eqn:E2.
  assert (H1 : st1 = fst (alloc (fq_st s) (new_event cid (fpt ax ay) false None subj ext))) by (rewrite E1; reflexivity).
  assert (H2 : st2 = fst (alloc st1 (new_event cid (fpt bx by_) false (Some e1) subj ext))) by (rewrite E2; reflexivity).
  assert (I1 : e1 = st_next (fq_st s)) by (unfold alloc in E1; now inversion E1).
  assert (I2 : e2 = st_next st1) by (unfold alloc in E2; now inversion E2).
  assert (I2' : e2 = Pos.succ e1) by (rewrite I2, H1, next_alloc, I1; reflexivity).
  assert (W1 : wf NQ st1) by (rewrite H1; now apply wf_alloc).
  assert (N12 : e1 <> e2) by (rewrite I2'; lia).
  assert (Fr1 : ~ mapped NQ (fq_st s) e1) by (rewrite I1; now apply fresh_unmapped).
  assert (Fr2 : ~ mapped NQ (fq_st s) e2).
  { intros M. pose proof (W _ M). rewrite I2', I1 in H. lia. }
  assert (G2e1 : getE st2 e1 = new_event cid (fpt ax ay) false None subj ext).
  { rewrite H2, getE_alloc_old by (rewrite <- I2; exact N12). rewrite H1, I1. apply getE_alloc_new. }
  assert (G2e2 : getE st2 e2 = new_event cid (fpt bx by_) false (Some e1) subj ext).
  { rewrite H2, I2. apply getE_alloc_new. }
  assert (G2old : forall k, mapped NQ (fq_st s) k -> getE st2 k = getE (fq_st s) k).
  { intros k Mk. assert (K1 : k <> e1) by (intros ->; contradiction). assert (K2 : k <> e2) by (intros ->; contradiction).
    rewrite H2, getE_alloc_old by (rewrite <- I2; exact K2). rewrite H1, getE_alloc_old by (rewrite <- I1; exact K1). reflexivity. }
  assert (M1 : mapped NQ st2 e1) by (rewrite H2; apply mapped_alloc; right; rewrite H1, I1; apply mapped_alloc; now left).
  assert (M2 : mapped NQ st2 e2) by (rewrite H2, I2; apply mapped_alloc; now left).
  set (st3 := upd st2 e1 (fun e => set_other e (Some e2))).
  assert (E3 : einv st3).
  { intros i o Mi Ho. unfold st3 in Mi. apply (mapped_upd_in NQ st2 e1 _ i M1) in Mi.
    destruct (Pos.eq_dec i e1) as [->|K1]; [|destruct (Pos.eq_dec i e2) as [->|K2]].
    - unfold st3 in Ho. rewrite getE_upd_same in Ho. cbn in Ho. inversion Ho; subst o.
      exists ax, ay, bx, by_, ax, ay, bx, by_. unfold st3.
      rewrite getE_upd_same, getE_upd_other by exact N12. rewrite G2e1, G2e2. cbn.
      repeat split; auto using on_seg_l, on_seg_r.
    - unfold st3 in Ho. rewrite getE_upd_other in Ho by exact N12. rewrite G2e2 in Ho. cbn in Ho. inversion Ho; subst o.
      exists bx, by_, ax, ay, ax, ay, bx, by_. unfold st3.
      rewrite getE_upd_same, getE_upd_other by exact N12. rewrite G2e1, G2e2. cbn.
      repeat split; auto using on_seg_l, on_seg_r. intros K. apply Epe. now apply qeqp_sym.
    - assert (Mi0 : mapped NQ (fq_st s) i).
      { rewrite H2 in Mi. apply mapped_alloc in Mi. destruct Mi as [->|Mi]; [now elim K2|].
        rewrite H1 in Mi. apply mapped_alloc in Mi. destruct Mi as [->|Mi]; [now elim K1 | exact Mi]. }
      unfold st3 in Ho. rewrite getE_upd_other in Ho by congruence. rewrite (G2old i Mi0) in Ho.
      destruct (L i Mi0) as (o' & Ho' & _ & Mo' & _). assert (o' = o) by congruence. subst o'.
      destruct (E i o Mi0 Ho) as (px & py & qx & qy & cx & cy & dx & dy & T1 & T2 & T3 & T4 & T5 & T6).
      exists px, py, qx, qy, cx, cy, dx, dy. unfold st3.
      assert (Ko : o <> e1) by (intros ->; contradiction).
      rewrite !getE_upd_other by congruence. rewrite (G2old i Mi0), (G2old o Mo'). auto 10. }
  cbn [fq_st]. destruct (ev_lt st3 e1 e2); apply einv_upd; auto using ke_set_left; unfold st3; apply mapped_upd; auto.
Qed.

Lemma process_ring_from_einv : forall (rest : ring NQ) (s : fq NQ) subj cid ext (prev : pt NQ),
  ring_from_ok subj prev rest -> fqe s -> fqe (process_ring_from s subj cid ext prev rest).
Proof.
  induction rest as [|p rest IH]; intros s subj cid ext prev Hr H; cbn [process_ring_from]; [exact H|].
  destruct Hr as [He Hr]. apply IH; [exact Hr|]. now apply process_edge_einv.
Qed.
Lemma process_ring_einv (s : fq NQ) (r : ring NQ) subj cid ext :
  ring_ok subj r -> fqe s -> fqe (process_ring s r subj cid ext).
Proof. intros Hr H. destruct r as [|p rest]; [exact H|]. now apply process_ring_from_einv. Qed.
Lemma process_interiors_einv : forall (ints : list (ring NQ)) (s : fq NQ) subj cid,
  (forall r, In r ints -> ring_ok subj r) -> fqe s -> fqe (process_interiors s ints subj cid).
Proof.
  unfold process_interiors. induction ints as [|r ints IH]; intros s subj cid Hi H; cbn [fold_left]; [exact H|].
  apply IH; [intros r' Hr'; apply Hi; now right|].
  apply process_ring_einv; [apply Hi; now left | exact H].
Qed.
Lemma fill_subject_einv : forall (ps : list (polygon NQ)) (s : fq NQ) cid,
  (forall P, In P ps -> poly_ok true P) -> fqe s -> fqe (fst (fill_subject s cid ps)).
Proof.
  induction ps as [|P ps IH]; intros s cid Hin H; cbn [fill_subject]; [exact H|].
  destruct (Hin P (or_introl eq_refl)) as [He Hi].
  apply IH; [intros P' HP'; apply Hin; now right|].
  apply process_interiors_einv; [exact Hi|]. apply process_ring_einv; [exact He | exact H].
Qed.
Lemma fill_clipping_einv : forall (ps : list (polygon NQ)) (s : fq NQ) cid op,
  (forall P, In P ps -> poly_ok false P) -> fqe s -> fqe (fst (fill_clipping s cid op ps)).
Proof.
  induction ps as [|P ps IH]; intros s cid op Hin H; cbn [fill_clipping]; [exact H|].
  destruct (Hin P (or_introl eq_refl)) as [He Hi].
  apply IH; [intros P' HP'; apply Hin; now right|].
  apply process_interiors_einv; [exact Hi|]. apply process_ring_einv; [exact He | exact H].
Qed.

Theorem fill_queue_einv (subject clipping : list (polygon NQ)) (op : operation) :
  (forall P, In P subject -> poly_ok true P) -> (forall P, In P clipping -> poly_ok false P) ->
  einv (f_st (fill_queue subject clipping op)).
Proof.
  intros HS HC. unfold fill_queue.
  pose proof (fill_subject_einv subject (mkFQ (empty_store NQ) [] (empty_bb NQ)) 0%N HS) as H1.
  destruct (fill_subject (mkFQ (empty_store NQ) [] (empty_bb NQ)) 0 subject) as [s1 cid]. cbn [fst] in H1.
  assert (F1 : fqe s1).
  { apply H1. split; [split; [apply empty_store_sinv | intros i []]|]. intros i o M. exfalso. apply M. reflexivity. }
  pose proof (fill_clipping_einv clipping (mkFQ (fq_st s1) (fq_q s1) (empty_bb NQ)) cid op HC) as H2.
  destruct (fill_clipping (mkFQ (fq_st s1) (fq_q s1) (empty_bb NQ)) cid op clipping) as [s2 c2]. cbn [fst] in H2.
  cbn [f_st]. apply H2. exact F1.
Qed.


(** ** the sweep (the plumbing is that of [Provenance]) *)
Section Sweep.
Hypothesis Hnov : NOV.
Notation slkeys := (@keys eid unit).

Definition sqe (s : sq NQ) : Prop := sqinv NQ s /\ einv (sq_st s).
Definition pgoode cfg (st0 : store) (r : outcome (sq NQ * nat)) : Prop := pgood NQ cfg st0 r /\ pe r.

Lemma possible_intersection_e cfg (s : sq NQ) (se1 se2 : eid) :
  sqe s -> mapped NQ (sq_st s) se1 -> mapped NQ (sq_st s) se2 ->
  pgoode cfg (sq_st s) (possible_intersection cfg s se1 se2).
Proof.
  intros [S E] M1 M2. split.
  - now apply possible_intersection_inv.
  - now apply possible_intersection_pe.
Qed.

(** ** the sweep *)

Lemma compute_fields_sqe cfg (x : sq NQ) ev mp op :
  sqe x -> mapped NQ (sq_st x) ev -> sqe (mkSQ (compute_fields cfg (sq_st x) ev mp op) (sq_q x)).
Proof.
  intros [S P] M. destruct (compute_fields_sq NQ cfg x ev mp op S M) as [S' _]. split; [exact S'|].
  cbn [sq_st]. now apply compute_fields_einv.
Qed.

Definition oke (r : outcome (sweep NQ)) : Prop :=
  match r with Ok s' => einv (sw_st s') | _ => True end.

Theorem handle_left_einv cfg (s : sweep NQ) (ev : eid) (op : operation) :
  swinv NQ s -> einv (sw_st s) -> mapped NQ (sw_st s) ev -> oke (handle_left cfg s ev op).
Proof.
  intros (S & Q & A & B) P Mev. unfold handle_left.
  set (st := sw_st s) in *.
  set (sl1 := sl_insert st (sw_sl s) ev).
  assert (A1 : all_mapped NQ st (slkeys sl1)).
  { intros k Hk. apply sl_insert_keys in Hk. destruct Hk as [->|Hk]; auto. }
  destruct (sl_prev_spec NQ st sl1 ev) as [Kp Ip].
  destruct (sl_prev st sl1 ev) as [sl2 maybe_prev]. cbn [fst snd] in Kp, Ip.
  destruct (sl_next_spec NQ st sl2 ev) as [Kn In_].
  destruct (sl_next st sl2 ev) as [sl3 maybe_next]. cbn [fst snd] in Kn, In_.
  assert (Mprev : forall p, maybe_prev = Some p -> mapped NQ st p) by (intros p Hp; apply A1, Ip, Hp).
  assert (Mnext : forall p, maybe_next = Some p -> mapped NQ st p).
  { intros p Hp. apply A1. rewrite <- Kp. apply In_, Hp. }
  assert (X0 : sqe (mkSQ st (sw_q s))) by (split; [split; assumption | exact P]).
  pose proof (compute_fields_sqe cfg (mkSQ st (sw_q s)) ev maybe_prev op X0 Mev) as X1.
  assert (G1 : grows NQ st (compute_fields cfg st ev maybe_prev op)).
  { intros i Hi. apply compute_fields_mapped; [exact Mev | exact Hi]. }
  cbn [sq_st sq_q] in X1.
  set (x1 := mkSQ (compute_fields cfg st ev maybe_prev op) (sw_q s)) in *.
  assert (Step1 : match
            (match maybe_next with
             | Some next =>
                 obind (possible_intersection cfg x1 ev next) (fun r =>
                 let '(x, code) := r in
                 if Nat.eqb code 2 then
                   let st_a := compute_fields cfg (sq_st x) ev maybe_prev op in
                   let st_b := compute_fields cfg st_a next (Some ev) op in
                   Ok (mkSQ st_b (sq_q x))
                 else Ok x)
             | None => Ok x1
             end) with
          | Ok x2 => sqe x2 /\ grows NQ st (sq_st x2)
          | _ => True
          end).
  { destruct maybe_next as [next|]; [|split; assumption].
    pose proof (possible_intersection_e cfg x1 ev next X1 (G1 _ Mev) (G1 _ (Mnext _ eq_refl))) as PP.
    destruct (possible_intersection cfg x1 ev next) as [[x code]| site |]; cbn [obind]; [|exact I|exact I].
    destruct PP as [[Sx Gx] Px]. cbn [sq_st] in Gx.
    destruct (Nat.eqb code 2).
    - pose proof (compute_fields_sqe cfg x ev maybe_prev op (conj Sx Px) (Gx _ (G1 _ Mev))) as Sa.
      assert (Ga : grows NQ (sq_st x) (compute_fields cfg (sq_st x) ev maybe_prev op)).
      { intros i Hi. apply compute_fields_mapped; [apply Gx, G1, Mev | exact Hi]. }
      pose proof (compute_fields_sqe cfg (mkSQ (compute_fields cfg (sq_st x) ev maybe_prev op) (sq_q x))
                  next (Some ev) op Sa (Ga _ (Gx _ (G1 _ (Mnext _ eq_refl))))) as Sb.
      cbn [sq_st sq_q] in Sb. split; [exact Sb|].
      cbn [sq_st]. intros i Hi. apply compute_fields_mapped; [apply Ga, Gx, G1, Mnext; reflexivity|]. apply Ga, Gx, G1, Hi.
    - split; [split; assumption | intros i Hi; apply Gx, G1, Hi]. }
  destruct (match maybe_next with Some next => _ | None => Ok x1 end) as [x2| site |]; cbn [obind]; try exact I.
  destruct Step1 as [S2 G2].
  destruct maybe_prev as [prev|].
  - pose proof (possible_intersection_e cfg x2 prev ev S2 (G2 _ (Mprev _ eq_refl)) (G2 _ Mev)) as PP.
    destruct (possible_intersection cfg x2 prev ev) as [[x code]| site |]; cbn [obind]; try exact I.
    destruct PP as [[Sx Gx] Px].
    destruct (Nat.eqb code 2).
    + destruct (sl_prev (sq_st x) sl3 prev) as [sl4 mpp].
      pose proof (compute_fields_sqe cfg x prev mpp op (conj Sx Px) (Gx _ (G2 _ (Mprev _ eq_refl)))) as Sa.
      assert (Ga : grows NQ (sq_st x) (compute_fields cfg (sq_st x) prev mpp op)).
      { intros i Hi. apply compute_fields_mapped; [apply Gx, G2, Mprev; reflexivity | exact Hi]. }
      pose proof (compute_fields_sqe cfg (mkSQ (compute_fields cfg (sq_st x) prev mpp op) (sq_q x))
                  ev (Some prev) op Sa (Ga _ (Gx _ (G2 _ Mev)))) as Sb.
      cbn [sq_st sq_q] in Sb. cbn. apply Sb.
    + cbn. exact Px.
  - cbn. apply S2.
Qed.

Theorem handle_right_einv cfg (s : sweep NQ) (other : eid) :
  swinv NQ s -> einv (sw_st s) -> oke (handle_right cfg s other).
Proof.
  intros (S & Q & A & B) P. unfold handle_right.
  set (st := sw_st s) in *.
  pose proof (sl_contains_keys NQ st (sw_sl s) other) as Kc.
  destruct (sl_contains st (sw_sl s) other) as [sl1 present]. cbn [fst] in Kc.
  destruct (c_debug cfg && negb present); [exact I|].
  assert (A1 : all_mapped NQ st (slkeys sl1)) by (rewrite Kc; exact A).
  destruct present; [|exact P].
  destruct (sl_prev_spec NQ st sl1 other) as [Kp Ip].
  destruct (sl_prev st sl1 other) as [sl2 maybe_prev]. cbn [fst snd] in Kp, Ip.
  destruct (sl_next_spec NQ st sl2 other) as [Kn In_].
  destruct (sl_next st sl2 other) as [sl3 maybe_next]. cbn [fst snd] in Kn, In_.
  assert (X0 : sqe (mkSQ st (sw_q s))) by (split; [split; assumption | exact P]).
  destruct maybe_prev as [prev|]; [|cbn; exact P].
  destruct maybe_next as [next|]; [|cbn; exact P].
  assert (Mp : mapped NQ st prev) by (apply A1, Ip; reflexivity).
  assert (Mn : mapped NQ st next) by (apply A1; rewrite <- Kp; apply In_; reflexivity).
  pose proof (possible_intersection_e cfg (mkSQ st (sw_q s)) prev next X0 Mp Mn) as PP.
  destruct (possible_intersection cfg (mkSQ st (sw_q s)) prev next) as [[x code]| site |]; cbn [obind fst]; try exact I.
  cbn. apply PP.
Qed.

Theorem sweep_loop_einv cfg : forall (fuel : nat) (s : sweep NQ) sbbox cbbox rightbound op,
  swinv NQ s -> einv (sw_st s) -> oke (sweep_loop cfg fuel s sbbox cbbox rightbound op).
Proof.
  induction fuel as [|f IH]; intros s sbbox cbbox rightbound op Hs P; cbn [sweep_loop].
  - destruct (qpop (sw_st s) (sw_q s)); [exact I | exact P].
  - destruct (qpop (sw_st s) (sw_q s)) as [[ev q']|] eqn:Hp; [|exact P].
    pose proof Hs as (S & Q & A & B).
    destruct (qpop_mapped NQ (sw_st s) (sw_st s) (sw_q s) ev q' Q Hp) as [Mev Q'].
    set (s1 := mkSweep (sw_st s) q' (sw_sl s) (ev :: sw_sorted s)).
    assert (S1 : swinv NQ s1).
    { unfold swinv, s1; cbn [sw_st sw_q sw_sl sw_sorted]. repeat split; try tauto.
      - apply S. - apply S. - intros i [<-|Hi]; auto. }
    destruct (negb (c_noshort cfg) && _); [exact P|].
    assert (Step : swgood NQ cfg (sw_st s)
              (if e_left (getE (sw_st s) ev) then handle_left cfg s1 ev op
               else match e_other (getE (sw_st s) ev) with
                    | Some other => handle_right cfg s1 other
                    | None => Ok s1
                    end)
            /\ oke (if e_left (getE (sw_st s) ev) then handle_left cfg s1 ev op
                    else match e_other (getE (sw_st s) ev) with
                         | Some other => handle_right cfg s1 other
                         | None => Ok s1
                         end)).
    { destruct (e_left (getE (sw_st s) ev)).
      - split; [apply (handle_left_inv NQ cfg s1 ev op S1 Mev) | apply (handle_left_einv cfg s1 ev op S1 P Mev)].
      - destruct (e_other (getE (sw_st s) ev)) as [other|].
        + split; [apply (handle_right_inv NQ cfg s1 other S1) | apply (handle_right_einv cfg s1 other S1 P)].
        + split; [split; [exact S1 | apply grows_refl] | exact P]. }
    destruct Step as [Sg Sp].
    destruct (if e_left (getE (sw_st s) ev) then _ else _) as [s2| site |]; cbn [obind]; try exact I.
    destruct Sg as [S2 _]. exact (IH s2 sbbox cbbox rightbound op S2 Sp).
Qed.


(** C04 (first clause) / C13 (coverage): every event pair returned by [subdivide] consists of two
    distinct points of one input edge of its own operand *)
Theorem subdivide_on_edges cfg fuel (A B : list (polygon NQ)) op (st : store) (sorted : list eid) (n : nat) :
  (forall P, In P A -> poly_ok true P) -> (forall P, In P B -> poly_ok false P) ->
  subdivide cfg fuel (fill_queue A B op) op = Ok (st, sorted, n) ->
  forall i, In i sorted -> exists o, e_other (getE st i) = Some o /\ pair_ok st i o.
Proof.
  intros HA HB. unfold subdivide. destruct (fill_queue_inv NQ A B op) as [S0 Q0].
  pose proof (fill_queue_einv A B op HA HB) as P0.
  set (s0 := mkSweep _ _ _ _).
  assert (I0 : swinv NQ s0).
  { unfold swinv, s0; cbn [sw_st sw_q sw_sl sw_sorted]. repeat split; try apply S0; try exact Q0; intros i []. }
  pose proof (sweep_loop_inv NQ cfg fuel s0 (f_sbbox (fill_queue A B op)) (f_cbbox (fill_queue A B op))
                (minX NQ (bb_maxx (f_sbbox (fill_queue A B op))) (bb_maxx (f_cbbox (fill_queue A B op)))) op I0) as G.
  pose proof (sweep_loop_einv cfg fuel s0 (f_sbbox (fill_queue A B op)) (f_cbbox (fill_queue A B op))
                (minX NQ (bb_maxx (f_sbbox (fill_queue A B op))) (bb_maxx (f_cbbox (fill_queue A B op)))) op I0 P0) as PP.
  destruct (sweep_loop _ _ _ _ _ _ _) as [s| site |]; cbn [obind]; try discriminate.
  intros H; inversion H; subst. destruct G as [((W & L) & Q & A' & B') _]. intros i Hi.
  assert (Mi : mapped NQ (sw_st s) i) by (apply B'; now apply in_rev).
  destruct (L i Mi) as (o & Ho & _). exists o. split; [exact Ho|]. exact (PP i o Mi Ho).
Qed.

End Sweep.

(** ** a decidable sufficient condition for [NOV]: no subject edge is collinear with a clipping edge *)
Definition not_collinear (e f : edge) : bool :=
  let '(ax, ay, (bx, by_), _) := e in
  let '(cx, cy, (dx, dy), _) := f in
  negb (Qeq_bool (det ax ay bx by_ cx cy dx dy) 0) || negb (Qeq_bool (numT ax ay bx by_ cx cy) 0).
Definition novb : bool :=
  forallb (fun e => forallb (fun f => negb (snd e) || snd f || not_collinear e f) edges) edges.

Lemma on_seg_common ax ay bx by_ cx cy dx dy x y :
  on_seg ax ay bx by_ x y -> on_seg cx cy dx dy x y ->
  exists s t, common ax ay bx by_ cx cy dx dy s t /\ x == ax + s * (bx - ax) /\ y == ay + s * (by_ - ay).
Proof.
  intros (s & Hs & Hx & Hy) (t & Ht & Hx' & Hy'). exists s, t. split; [|split; assumption].
  split; [rewrite <- Hx, <- Hx' | rewrite <- Hy, <- Hy']; reflexivity.
Qed.

Theorem novb_sound : novb = true -> NOV.
Proof.
  unfold novb. rewrite forallb_forall. intros H ax ay bx by_ cx cy dx dy x y x' y' I1 I2 U1 U2 V1 V2.
  specialize (H _ I1). rewrite forallb_forall in H. specialize (H _ I2). cbn [snd negb orb] in H.
  unfold not_collinear in H.
  destruct (on_seg_common _ _ _ _ _ _ _ _ _ _ U1 U2) as (s & t & C & Ex & Ey).
  destruct (on_seg_common _ _ _ _ _ _ _ _ _ _ V1 V2) as (s' & t' & C' & Ex' & Ey').
  apply orb_prop in H. destruct H as [H|H]; apply negb_true_iff in H.
  - (* crossing lines: the common point is unique *)
    assert (Hdet : ~ det ax ay bx by_ cx cy dx dy == 0).
    { intros K. apply Qeq_bool_iff in K. congruence. }
    destruct (common_params Hdet C) as [Es _]. destruct (common_params Hdet C') as [Es' _].
    split; [rewrite Ex, Ex', Es, Es' | rewrite Ey, Ey', Es, Es']; reflexivity.
  - (* parallel distinct lines: no common point at all *)
    assert (HT : ~ numT ax ay bx by_ cx cy == 0).
    { intros K. apply Qeq_bool_iff in K. congruence. }
    destruct (Qeq_dec (det ax ay bx by_ cx cy dx dy) 0) as [Hdet|Hdet].
    + exfalso. exact (proj2 (impl_parallel_distinct Hdet HT) s t C).
    + destruct (common_params Hdet C) as [Es _]. destruct (common_params Hdet C') as [Es' _].
      split; [rewrite Ex, Ex', Es, Es' | rewrite Ey, Ey', Es, Es']; reflexivity.
Qed.

End OnEdge.

(** non-vacuity: a square and a triangle that cross; the listed edges are those of the operands,
    no subject edge is collinear with a clipping edge, and the sweep returns 16 events *)
From GB Require Import Cert.
Definition ex_A : list (polygon NQ) := [qsquare 0 0].
Definition ex_T : polygon NQ :=
  polygon_new (N := NQ) [fpt (1#2) (1#2); fpt 2 (1#2); fpt (1#2) 3] [].
Definition ex_edges : list edge :=
  [ (0, 0, (1, 0), true); (1, 0, (1, 1), true); (1, 1, (0, 1), true); (0, 1, (0, 0), true);
    (1#2, 1#2, (2, 1#2), false); (2, 1#2, (1#2, 3), false); (1#2, 3, (1#2, 1#2), false) ].
Definition on_edges_example_check : bool :=
  novb ex_edges &&
  match subdivide release 1000 (fill_queue ex_A [ex_T] Intersection) Intersection with
  | Ok (_, sorted, _) => Nat.ltb 14 (length sorted)
  | _ => false
  end.
Example on_edges_example :
  on_edges_example_check = true /\
  (forall P, In P ex_A -> poly_ok ex_edges true P) /\ (forall P, In P [ex_T] -> poly_ok ex_edges false P).
Proof.
  split; [vm_compute; reflexivity|]. split.
  - intros P [<-|[]]. split; [|intros r []].
    cbn. repeat split; (do 4 eexists; split; [reflexivity|split; [reflexivity|]]; cbn; tauto).
  - intros P [<-|[]]. split; [|intros r []].
    cbn. repeat split; (do 4 eexists; split; [reflexivity|split; [reflexivity|]]; cbn; tauto).
Qed.
