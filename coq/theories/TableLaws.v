(** * Laws between the selection tables of the four operations (C05, C06).

    The tables of [compute_fields.rs] are looked at through the signed change of the
    result's indicator function across a sub-segment (upwards): [OutIn] = +1, [InOut] = -1,
    not selected = 0.  The partition laws of C05 say, for indicator functions,
    [1_union = 1_inter + 1_(A-B) + 1_(B-A)] and [1_xor = 1_(A-B) + 1_(B-A)]; taking the
    difference across an edge gives linear identities between the table entries of the
    five calls, for EVERY flag assignment, edge type and operand role.  [B-A] is computed by
    a call with the operand roles exchanged; the image of a sub-segment in that call is
    described by [swapped]. *)
From Coq Require Import Bool ZArith Lia.
From GB Require Import Num Event Cmp Outcome Fields FieldsProofs.
Set Implicit Arguments.
Local Open Scope Z_scope.

Definition delta (r : result_transition) : Z :=
  match r with RTNone => 0 | OutIn => 1 | InOut => -1 end.

Section TableLaws.
Variable N : Num.
Notation event := (event N).

Definition with_role_flags (e : event) (subj io : bool) : event :=
  mkEv (e_point e) (e_contour_id e) subj (e_is_exterior_ring e) (e_left e) (e_other e)
       (e_prev_in_result e) (e_edge_type e) io (e_other_in_out e)
       (e_result_transition e) (e_other_pos e) (e_output_contour_id e).

(** [swapped e e']: [e'] can be the image of the sub-segment [e] in the call with the operands
    exchanged.  The flags are relative to the own / other operand, so they are unchanged and
    only the role flips; for a coincident pair the carrier of the swapped call may be the
    former twin, which has the role [e] had and — for [DifferentTransition] — the opposite
    own transition. *)
Definition swapped (e e' : event) : Prop :=
  e' = with_role_flags e (negb (e_is_subject e)) (e_in_out e)
  \/ (e_edge_type e = SameTransition /\ e' = with_role_flags e (e_is_subject e) (e_in_out e))
  \/ (e_edge_type e = DifferentTransition /\ e' = with_role_flags e (e_is_subject e) (negb (e_in_out e))).

Ltac crush e :=
  destruct e as [p cid subj ext lf oth pir ty io oio rt op oc];
  unfold table, in_result, determine_result_transition, with_role_flags; cbn;
  destruct ty, subj, io, oio; cbn; try reflexivity; try discriminate.

(** C05: across every sub-segment the union changes by the sum of the changes of the three
    pieces, and xor by the sum of the two differences *)
Theorem tables_partition (cfg : config) (e e' : event) :
  c_f1 cfg = true -> swapped e e' ->
  delta (table cfg e Union)
  = delta (table cfg e Intersection) + delta (table cfg e Difference) + delta (table cfg e' Difference)
  /\ delta (table cfg e Xor) = delta (table cfg e Difference) + delta (table cfg e' Difference).
Proof.
  intros Hf [->|[[Ht ->]|[Ht ->]]]; unfold table, in_result, determine_result_transition; rewrite Hf;
    destruct e as [p cid subj ext lf oth pir ty io oio rt op oc]; cbn in *;
    try (rewrite Ht); destruct ty, subj, io, oio; cbn; try discriminate; split; reflexivity.
Qed.

(** ... and the pieces are mutually exclusive on each side: no sub-segment is an entering
    (or a leaving) boundary of two of the three pieces at once, unless it leaves one and
    enters another *)
Theorem tables_pieces_exclusive (cfg : config) (e e' : event) :
  c_f1 cfg = true -> swapped e e' ->
  let i := delta (table cfg e Intersection) in
  let d := delta (table cfg e Difference) in
  let d' := delta (table cfg e' Difference) in
  -1 <= i + d + d' <= 1.
Proof.
  intros Hf [->|[[Ht ->]|[Ht ->]]]; unfold table, in_result, determine_result_transition; rewrite Hf;
    destruct e as [p cid subj ext lf oth pir ty io oio rt op oc]; cbn in *;
    try (rewrite Ht); destruct ty, subj, io, oio; cbn; try discriminate; lia.
Qed.

(** C06: for intersection, union and xor the entry of a sub-segment is the same in the call
    with the operands exchanged *)
Theorem tables_symmetric (cfg : config) (e e' : event) (o : operation) :
  o <> Difference -> swapped e e' -> table cfg e' o = table cfg e o.
Proof.
  intros Ho [->|[[Ht ->]|[Ht ->]]]; unfold table, in_result, determine_result_transition;
    destruct e as [p cid subj ext lf oth pir ty io oio rt op oc]; cbn in *;
    try (rewrite Ht); destruct o; try (now elim Ho); destruct (c_f1 cfg), ty, subj, io, oio; cbn;
    try discriminate; reflexivity.
Qed.

(** the pinned tables break the partition law (defect F1) *)
Theorem tables_partition_pinned_refuted :
  exists e e' : event, swapped e e' /\
  delta (table pinned e Union)
  <> delta (table pinned e Intersection) + delta (table pinned e Difference) + delta (table pinned e' Difference).
Proof.
  pose (e := mkEv (mkPt N (pinfX N) (pinfY N)) 0%N true true true None None SameTransition true false RTNone 0%Z 0%Z).
  exists e, (with_role_flags e false true). split; [now left|]. cbn. discriminate.
Qed.

(** non-vacuity: a normal subject edge with the clipping inside below it is selected by
    intersection and by B-A, with opposite directions *)
Example partition_example :
  let e := mkEv (mkPt N (pinfX N) (pinfY N)) 0%N true true true None None Normal false false RTNone 0%Z 0%Z in
  table release e Intersection = OutIn /\ table release e Union = RTNone
  /\ table release (with_role_flags e false false) Difference = InOut.
Proof. cbn. repeat split. Qed.

End TableLaws.
